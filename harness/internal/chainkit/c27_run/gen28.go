package c27run

import (
	"fmt"

	"verifharness/internal/gen"
)

// C28 cases: submission histories with duplicates (same block, later block, after a
// reorganisation, TxHeight transactions inside / outside their window), expired and otherwise
// invalid transactions, and mis-signed transactions whose hash the mempool holds — all offered as
// peer blocks.

func bc(r *gen.Rand) int { return r.Intn(2) }

// trunk appends n valid blocks (one fresh plain transaction each) on `on`; returns the wids.
func (b *builder) trunk(r *gen.Rand, on, n int, tag *int) []int {
	var ws []int
	for i := 0; i < n; i++ {
		t := b.plain(*tag)
		*tag++
		on = b.blk(on, []int{t}, opt())
		ws = append(ws, on)
		b.deliver(on, "p", bc(r))
	}
	return ws
}

// scS28: the mempool holds T; a peer block carries T' = T with another public key and a garbage
// signature (accepted before repo commit 28243c8, ErrSign since).  attackerFunded: T is signed by key 1 (funded in block 1) and T' names the genesis
// account; otherwise T is signed by the genesis account and T' names key 1.
func scS28(r *gen.Rand, name string, attackerFunded bool, extraBad bool) Case {
	b := newCase(name, r.Bool(), 600, 200)
	tag := 1
	fund := b.tx(tag, 0, true, "n", true, true, true, "k1", 5_0000_0000)
	tag++
	b1 := b.blk(0, []int{fund}, opt())
	b.deliver(b1, "p", bc(r))
	tip := b1
	if r.Bool() {
		ws := b.trunk(r, tip, 1+r.Intn(3), &tag)
		tip = ws[len(ws)-1]
	}
	var T, T2 int
	amt := int64(1000_0000_0000)
	if attackerFunded {
		T = b.tx(tag, 1, true, "n", true, true, true, "k2", amt)
		T2 = b.again(T, 0, false, true, "k2", amt)
	} else {
		amt = 1_0000_0000
		T = b.tx(tag, 0, true, "n", true, true, true, "k2", amt)
		T2 = b.again(T, 1, false, true, "k2", amt)
	}
	ttag := tag
	tag++
	// control: the same body before the pool knows T is refused for its signature
	o := opt()
	o.salt = 1
	ctl := b.blk(tip, []int{T2}, o)
	b.deliver(ctl, "p", bc(r))
	b.op("pool+ %d", T)
	b.op("pool? %d", ttag)
	txs := []int{T2}
	if extraBad {
		// a second mis-signed transaction the pool does not know: the block is refused
		other := b.tx(tag, 0, false, "n", true, true, true, "r", 77)
		tag++
		txs = append(txs, other)
	}
	evil := b.blk(tip, txs, opt())
	b.deliver(evil, "p", bc(r))
	b.op("pool? %d", ttag)
	b.op("scan")
	// the chain goes on
	filler := b.plain(tag)
	tag++
	next := b.blk(evil, []int{filler}, opt())
	b.deliver(next, "p", bc(r))
	b.observe()
	return b.done()
}

// scPoolHonest: the pool holds T and the block carries the properly signed T.
func scPoolHonest(r *gen.Rand, name string) Case {
	b := newCase(name, r.Bool(), 600, 200)
	tag := 1
	ws := b.trunk(r, 0, 1+r.Intn(3), &tag)
	T := b.plain(tag)
	ttag := tag
	tag++
	b.op("pool+ %d", T)
	b.op("pool? %d", ttag)
	blk := b.blk(ws[len(ws)-1], []int{T}, opt())
	b.deliver(blk, "p", bc(r))
	b.op("pool? %d", ttag)
	b.observe()
	return b.done()
}

// scLinear: a linear chain; before the valid block of each height up to two defective siblings.
func scLinear(r *gen.Rand, name string, n int) Case {
	hi, lo := 600, 200
	if r.Bool() {
		hi, lo = 2+r.Intn(3), 1+r.Intn(3)
	}
	b := newCase(name, r.Bool(), hi, lo)
	tag := 1
	tip := 0
	var chainTxs []int // instances on the valid chain so far
	onChain := map[int]bool{} // their tags
	restartAt := 0
	if r.Chance(1, 3) {
		restartAt = 1 + r.Intn(n)
	}
	for h := 1; h <= n; h++ {
		k := r.Pick(3, 4, 2)
		for j := 0; j < k; j++ {
			o := opt()
			o.salt = 1 + j
			var txs []int
			good := b.plain(tag)
			tag++
			switch r.Intn(12) {
			case 0: // same instance twice
				txs = []int{good, good}
			case 1: // two instances of one hash
				txs = []int{good, b.again(good, 1, true, false, "r", int64(1000+b.insts[good].tag))}
			case 2: // a transaction of an ancestor block
				if len(chainTxs) > 0 {
					txs = []int{good, chainTxs[r.Intn(len(chainTxs))]}
				} else {
					txs = []int{good, good}
				}
			case 3: // expired by height (Expire <= height); the boundary Expire = height half of the time
				n := h
				if r.Bool() {
					n = 1 + r.Intn(h)
				}
				txs = []int{good, b.tx(tag, 0, true, fmt.Sprintf("h%d", n), true, true, true, "r", 5)}
				tag++
			case 4: // expired by time (Expire <= block time); the boundary Expire = block time half of the time
				n := b.blks[tip].time + 1 + o.salt
				if r.Bool() {
					n = 1 + r.Intn(n)
				}
				txs = []int{b.tx(tag, 0, true, fmt.Sprintf("t%d", n), true, true, true, "r", 5), good}
				tag++
			case 5: // TxHeight outside the window: just above / just below, or further away
				th := h + lo + 1
				if r.Chance(1, 3) {
					th += 1 + r.Intn(3)
				}
				if r.Bool() && h-hi-1 >= 1 {
					th = h - hi - 1
				}
				txs = []int{good, b.tx(tag, 0, true, fmt.Sprintf("x%d", th), true, true, true, "r", 5)}
				tag++
			case 6: // fee too low
				txs = []int{b.tx(tag, 0, true, "n", false, true, true, "r", 5), good}
				tag++
			case 7: // other chain id
				txs = []int{good, b.tx(tag, 0, true, "n", true, false, true, "r", 5)}
				tag++
			case 8: // mis-signed, pool does not hold the hash
				txs = []int{good, b.tx(tag, 0, false, "n", true, true, true, "r", 5)}
				tag++
			case 9: // sender cannot pay the fee (unfunded key): ExecErr
				txs = []int{good, b.tx(tag, 9, true, "n", true, true, false, "r", 5)}
				tag++
			case 10: // block-level: wrong tx root / state root / block signature
				txs = []int{good}
				switch r.Intn(3) {
				case 0:
					o.root0 = true
				case 1:
					o.state0 = true
				default:
					o.sig0 = true
				}
			default: // empty body or block time before the parent's
				if r.Bool() {
					txs = nil
				} else {
					txs = []int{good}
					o.time = b.blks[tip].time - 1
					if o.time < 0 {
						o.time = 0
						txs = nil
					}
				}
			}
			w := b.blk(tip, txs, o)
			if r.Chance(1, 2) {
				b.op("produce %d", w) // the same body offered to the node's own block production
			}
			// none / some / all of the body's transactions in the receiving node's mempool
			b.poolFor(r.Bool, r.Intn(3), w, onChain)
			b.deliver(w, "p", bc(r))
		}
		if restartAt == h {
			b.op("restart")
		}
		// the valid block: fresh transactions, now and then with expiries that are still fine
		var txs []int
		m := 1 + r.Intn(3)
		for j := 0; j < m; j++ {
			exp := "n"
			switch r.Intn(6) {
			case 0: // still valid: Expire > height (boundary height+1 half of the time)
				exp = fmt.Sprintf("h%d", h+1+r.Intn(2)*r.Intn(3))
			case 1: // still valid: Expire > block time (boundary block time + 1 half of the time)
				exp = fmt.Sprintf("t%d", b.blks[tip].time+2+r.Intn(2)*r.Intn(50))
			case 2: // inside the window, its two ends included
				th := h - hi + r.Intn(hi+lo+1)
				switch r.Intn(4) {
				case 0:
					th = h - hi
				case 1:
					th = h + lo
				}
				if th >= 1 {
					exp = fmt.Sprintf("x%d", th)
				}
			}
			t := b.tx(tag, 0, true, exp, true, true, true, "r", int64(10+j))
			tag++
			txs = append(txs, t)
		}
		w := b.blk(tip, txs, opt())
		b.deliver(w, "p", bc(r))
		tip = w
		chainTxs = append(chainTxs, txs...)
		for _, t := range txs {
			onChain[b.insts[t].tag] = true
		}
		if r.Chance(1, 3) {
			b.op("chain")
		}
	}
	// replays of TxHeight / plain transactions in later blocks
	for j := 0; j < 3 && len(chainTxs) > 0; j++ {
		o := opt()
		o.salt = 1 + j
		w := b.blk(tip, []int{chainTxs[r.Intn(len(chainTxs))], b.plain(tag)}, o)
		tag++
		b.op("produce %d", w)
		b.deliver(w, "p", bc(r))
	}
	b.op("scan")
	b.observe()
	return b.done()
}

// scReorg: a trunk past the margin, two branches carrying the same transactions at different
// heights, reorganisation, then replays on the new branch.  With a small TxHeight window the
// cache is rebuilt on the way down and up.
func scReorg(r *gen.Rand, name string) Case {
	hi, lo := 600, 200
	small := r.Bool()
	if small {
		hi, lo = 2+r.Intn(2), 1+r.Intn(2)
	}
	b := newCase(name, r.Bool(), hi, lo)
	tag := 1
	ws := b.trunk(r, 0, margin+r.Intn(3), &tag)
	fork := ws[len(ws)-1]
	fh := b.blks[fork].height
	mk := func(exp string) int {
		t := b.tx(tag, 0, true, exp, true, true, true, "r", 9)
		tag++
		return t
	}
	xexp := func(h int) string { // a TxHeight expiry that is valid at heights h and h+1
		if !small {
			return "n"
		}
		return fmt.Sprintf("x%d", h+r.Intn(2))
	}
	a := mk(xexp(fh + 1))
	bb := mk("n")
	c := mk(xexp(fh + 1))
	d := mk("n")
	// branch A (light): A1[a] A2[bb]
	A1 := b.blk(fork, []int{a}, opt())
	A2 := b.blk(A1, []int{bb}, opt())
	// branch B (heavy): B1[c] B2[a, d] B3[plain]
	o := opt()
	o.salt = 1
	o.work = 6000
	B1 := b.blk(fork, []int{c}, o)
	o2 := opt()
	o2.work = 6000
	B2 := b.blk(B1, []int{a, d}, o2)
	B3 := b.blk(B2, []int{b.plain(tag)}, o2)
	tag++
	order := [][]int{{A1, A2, B1, B2, B3}, {A1, B1, A2, B2, B3}, {B1, A1, B2, A2, B3}, {A1, A2, B3, B2, B1}}[r.Intn(4)]
	for _, w := range order {
		b.deliver(w, "p", bc(r))
		if r.Chance(1, 2) {
			b.op("chain")
		}
	}
	b.op("scan")
	// replays on top of B3: a (on this branch: duplicate), bb (only on the abandoned branch: fine), c
	o3 := opt()
	o3.salt = 1
	o3.work = 6000
	R1 := b.blk(B3, []int{a, b.plain(tag)}, o3)
	tag++
	b.deliver(R1, "p", bc(r))
	o3.salt = 2
	R2 := b.blk(B3, []int{c}, o3)
	b.deliver(R2, "p", bc(r))
	// bb sat on the abandoned branch: EventDelBlock pushed it back into the mempool (unverified).  A
	// copy of bb with a garbage signature must be refused whether or not the pool already holds bb.
	o3.salt = 3
	bbBad := b.again(bb, 0, false, true, "r", 9)
	R4 := b.blk(B3, []int{bbBad}, o3)
	b.deliver(R4, "p", bc(r))
	R3 := b.blk(B3, []int{bb}, o2)
	b.deliver(R3, "p", bc(r))
	// and back: branch A grows heavier than B
	o4 := opt()
	o4.work = 60000
	A3 := b.blk(A2, []int{c, b.plain(tag)}, o4)
	tag++
	b.deliver(A3, "p", bc(r))
	o4.salt = 1
	A4 := b.blk(A3, []int{a}, o4) // a is on branch A already
	b.deliver(A4, "p", bc(r))
	A5 := b.blk(A3, []int{d}, o4) // d was only on branch B
	b.deliver(A5, "p", bc(r))
	b.op("scan")
	b.observe()
	return b.done()
}

// scWindow: TxHeight transactions replayed inside and just outside the window, chain longer than
// the window so that blocks leave the cache.
func scWindow(r *gen.Rand, name string) Case {
	hi, lo := 1+r.Intn(3), 1+r.Intn(2)
	b := newCase(name, r.Bool(), hi, lo)
	tag := 1
	tip := 0
	n := hi + lo + 3 + r.Intn(4)
	type placed struct{ inst, h int }
	var xs []placed
	for h := 1; h <= n; h++ {
		// replay an earlier TxHeight transaction (inside the window: duplicate; outside: expired)
		if len(xs) > 0 && r.Chance(2, 3) {
			p := xs[r.Intn(len(xs))]
			o := opt()
			o.salt = 1
			w := b.blk(tip, []int{p.inst, b.plain(tag)}, o)
			tag++
			if r.Bool() {
				b.op("produce %d", w)
			}
			b.deliver(w, "p", bc(r))
		}
		th := h - hi + r.Intn(hi+lo+1)
		var txs []int
		if th >= 1 {
			t := b.tx(tag, 0, true, fmt.Sprintf("x%d", th), true, true, true, "r", 3)
			tag++
			txs = append(txs, t)
			xs = append(xs, placed{t, h})
		}
		txs = append(txs, b.plain(tag))
		tag++
		w := b.blk(tip, txs, opt())
		b.deliver(w, "p", bc(r))
		tip = w
		if r.Chance(1, 4) {
			b.op("restart") // InitCache rebuilds the window cache from the last hi+lo blocks
		}
	}
	b.op("scan")
	b.observe()
	return b.done()
}

// scBoundary: every expiry rule at its boundary (deterministic): Expire = height / height+1,
// Expire = block time / block time+1, TxHeight one outside / exactly at both ends of the window,
// and a TxHeight transaction replayed at the far end of its window (still in the cache).
func scBoundary(r *gen.Rand, name string) Case {
	const hi, lo = 2, 1
	b := newCase(name, r.Bool(), hi, lo)
	tag := 1
	ws := b.trunk(r, 0, 4, &tag)
	tip := ws[len(ws)-1] // height 4, time 4
	mk := func(exp string) int {
		t := b.tx(tag, 0, true, exp, true, true, true, "r", 7)
		tag++
		return t
	}
	h := 5
	bad := []string{
		fmt.Sprintf("h%d", h),      // Expire = height: expired
		fmt.Sprintf("x%d", h+lo+1), // window starts above this height
		fmt.Sprintf("x%d", h-hi-1), // window ended below this height
	}
	for j, exp := range bad {
		o := opt()
		o.salt = 1 + j
		good := b.plain(tag)
		tag++
		w := b.blk(tip, []int{good, mk(exp)}, o)
		b.op("produce %d", w)
		b.deliver(w, "p", bc(r))
	}
	// Expire = block time (time of this sibling: 4 + 1 + salt)
	o := opt()
	o.salt = 4
	tExp := mk(fmt.Sprintf("t%d", 4+1+4))
	good := b.plain(tag)
	tag++
	w := b.blk(tip, []int{tExp, good}, o)
	b.op("produce %d", w)
	b.deliver(w, "p", bc(r))
	// the valid block of height 5 (time 5): all four rules one step inside
	xEarly := mk(fmt.Sprintf("x%d", h+lo)) // packable from this height on (until h+lo+hi)
	xLate := mk(fmt.Sprintf("x%d", h-hi))  // this height is its last
	hOk := mk(fmt.Sprintf("h%d", h+1))
	tOk := mk("t6")
	v5 := b.blk(tip, []int{hOk, tOk, xEarly, xLate}, opt())
	b.op("produce %d", v5)
	b.deliver(v5, "p", bc(r))
	b.op("chain")
	// heights 6, 7 plain; replays of xEarly at every height up to the end of its window (8) and beyond
	tip = v5
	for hh := 6; hh <= 9; hh++ {
		o := opt()
		o.salt = 1
		g1 := b.plain(tag)
		tag++
		rp := b.blk(tip, []int{xEarly, g1}, o)
		b.op("produce %d", rp)
		b.deliver(rp, "p", bc(r))
		o2 := opt()
		o2.salt = 2
		g2 := b.plain(tag)
		tag++
		rl := b.blk(tip, []int{g2, xLate}, o2)
		b.deliver(rl, "p", bc(r))
		g3 := b.plain(tag)
		tag++
		nx := b.blk(tip, []int{g3}, opt())
		b.deliver(nx, "p", bc(r))
		tip = nx
	}
	b.op("scan")
	b.observe()
	return b.done()
}

// scDupPooled: ALL transactions of a peer block sit in the receiving node's mempool (the pool is
// asked by hash, so the repeated one counts too); the block repeats its last transaction and
// declares the tx root and the state root that executing the body, duplicate included, really gives.
func scDupPooled(r *gen.Rand, name string, n int, mode int) Case {
	b := newCase(name, r.Bool(), 600, 200)
	tag := 1
	ws := b.trunk(r, 0, 1+r.Intn(3), &tag)
	tip := ws[len(ws)-1]
	var txs []int
	for i := 0; i < n; i++ {
		txs = append(txs, b.plain(tag))
		tag++
	}
	pos := r.Intn(n)
	dup := append(append([]int{}, txs...), txs[pos]) // [a b c c] / [a b c a] ...
	o := opt()
	o.salt = 1
	d := b.blk(tip, dup, o)
	x := b.blk(tip, txs, opt())
	b.poolFor(r.Bool, mode, d, nil)
	b.op("produce %d", d)
	b.deliver(d, "p", bc(r))
	b.op("scan")
	b.deliver(x, "p", bc(r))
	nx := b.blk(x, []int{b.plain(tag)}, opt())
	b.deliver(nx, "p", bc(r))
	b.op("scan")
	b.observe()
	return b.done()
}

// scRestartLong: a TxHeight transaction X and an ordinary transaction are packed, then `gap` cheap
// blocks follow (more than defCacheSize = 128: the block cache no longer reaches back to X, the
// TxHeight window of 600+200 heights does), then the node is RESTARTED on its data directory
// (InitCache rebuilds the window cache from the database); X (window still open) and the ordinary
// transaction are offered again — as peer blocks and to the node's own block production.
func scRestartLong(r *gen.Rand, name string, gap int) Case {
	b := newCase(name, r.Bool(), 600, 200)
	tag := 1
	ws := b.trunk(r, 0, 1+r.Intn(3), &tag)
	tip := ws[len(ws)-1]
	h := b.blks[tip].height + 1
	X := b.tx(tag, 0, true, fmt.Sprintf("x%d", h+r.Intn(150)), true, true, true, "r", 3)
	tag++
	p0 := b.plain(tag)
	tag++
	tip = b.blk(tip, []int{X, p0}, opt())
	b.deliver(tip, "p", bc(r))
	var X2 int // a second TxHeight transaction, packed inside the last 128 blocks
	for i := 0; i < gap; i++ {
		txs := []int{b.plain(tag)}
		tag++
		if i == gap-20 {
			X2 = b.tx(tag, 0, true, fmt.Sprintf("x%d", b.blks[tip].height+1), true, true, true, "r", 4)
			tag++
			txs = append(txs, X2)
		}
		tip = b.blk(tip, txs, opt())
		b.deliver(tip, "p", bc(r))
	}
	b.op("restart")
	b.op("chain")
	for j, again := range []int{X, p0, X2} {
		o := opt()
		o.salt = 1 + j
		fresh := b.plain(tag)
		tag++
		w := b.blk(tip, []int{fresh, again}, o)
		b.op("produce %d", w)
		b.deliver(w, "p", bc(r))
	}
	nx := b.blk(tip, []int{b.plain(tag)}, opt())
	tag++
	b.deliver(nx, "p", bc(r))
	o := opt()
	o.salt = 1
	w := b.blk(nx, []int{X, b.plain(tag)}, o)
	tag++
	b.deliver(w, "p", bc(r))
	b.op("scan")
	b.op("chain")
	b.op("txidx %d", b.insts[X].tag)
	b.op("txidx %d", b.insts[p0].tag)
	return b.done()
}

// scGroups: well-formed transaction groups of 2..20 small members whose header transaction pays
// exactly the per-member sum of real fees (S), more (S+), one unit less (S-1), only the figure for
// the summed sizes (W), something in between (M), or less than that (W-1): submitted to the pool,
// offered to the node's own block production, and delivered inside peer blocks.
func scGroups(r *gen.Rand, name string, specs []string) Case {
	b := newCase(name, r.Bool(), 600, 200)
	tag := 1
	ws := b.trunk(r, 0, 1+r.Intn(3), &tag)
	tip := ws[len(ws)-1]
	for j, spec := range specs {
		n := 2 + r.Intn(4)
		switch r.Intn(4) {
		case 0:
			n = 2
		case 1:
			n = 20
		case 2:
			n = 2 + r.Intn(19)
		}
		ids := b.group(n, spec, &tag)
		if r.Chance(2, 3) {
			b.op("pool+ %d", ids[0])
		}
		txs := append([]int{}, ids...)
		if r.Bool() {
			txs = append([]int{b.plain(tag)}, txs...)
			tag++
		}
		o := opt()
		o.salt = 1 + j%3
		w := b.blk(tip, txs, o)
		b.op("produce %d", w)
		b.deliver(w, "p", bc(r))
		if spec == "S" || spec == "S+" {
			tip = w
		}
		if r.Chance(1, 3) {
			b.op("scan")
		}
	}
	nx := b.blk(tip, []int{b.plain(tag)}, opt())
	tag++
	b.deliver(nx, "p", bc(r))
	b.op("scan")
	b.observe()
	return b.done()
}

// GenC28 is the case generator of h_c28.
func GenC28(seed uint64) []Case {
	r := gen.New(seed*0x9e37 + 28)
	var cs []Case
	cs = append(cs, scS28(r, "s28-attacker-funded", true, false))
	cs = append(cs, scS28(r, "s28-victim-key1", false, false))
	cs = append(cs, scS28(r, "s28-extra-bad", true, true))
	cs = append(cs, scPoolHonest(r, "pool-honest"))
	cs = append(cs, scBoundary(r, "boundary"))
	cs = append(cs, scGroups(r, "groups-all", []string{"W", "S", "S-1", "M", "S+", "W-1"}))
	for i := 0; i < gen.Scale(2, 40); i++ {
		specs := []string{"S", "S-1", "W", "M", "S+", "W-1"}
		var pick []string
		for j := 0; j < 3+r.Intn(4); j++ {
			pick = append(pick, specs[r.Intn(len(specs))])
		}
		cs = append(cs, scGroups(r, fmt.Sprintf("groups%d", i), pick))
	}
	for mode, nm := range []string{"none", "some", "all"} {
		cs = append(cs, scDupPooled(r, "duppooled-"+nm, 2+r.Intn(3), mode))
	}
	// restart after a long chain: quick = one history with 140 blocks between packing and restart;
	// thorough = gaps 125..160 on both sides of defCacheSize = 128
	cs = append(cs, scRestartLong(r, "restart-long", 140))
	for i := 0; i < gen.Scale(0, 8); i++ {
		cs = append(cs, scRestartLong(r, fmt.Sprintf("restart-long%d", i), 125+r.Intn(36)))
	}
	for i := 0; i < gen.Scale(0, 30); i++ {
		cs = append(cs, scDupPooled(r, fmt.Sprintf("duppooled%d", i), 1+r.Intn(4), r.Intn(3)))
	}
	for i := 0; i < gen.Scale(6, 240); i++ {
		cs = append(cs, scLinear(r, fmt.Sprintf("linear%d", i), 3+r.Intn(gen.Scale(5, 10))))
	}
	for i := 0; i < gen.Scale(4, 160); i++ {
		cs = append(cs, scReorg(r, fmt.Sprintf("reorg%d", i)))
	}
	for i := 0; i < gen.Scale(4, 160); i++ {
		cs = append(cs, scWindow(r, fmt.Sprintf("window%d", i)))
	}
	for i := 0; i < gen.Scale(2, 40); i++ {
		cs = append(cs, scS28(r, fmt.Sprintf("s28-%d", i), r.Bool(), r.Chance(1, 3)))
	}
	return cs
}
