package c27run

import (
	"bytes"
	"fmt"
	"strings"

	"github.com/33cn/chain33/types"

	"verifharness/internal/chainkit"
)

// Property predicates evaluated on the implementation itself (independent of the Lean model).

var validityErr = map[string]bool{"sign": true, "txdup": true, "blockexec": true, "checktxhash": true,
	"checkstatehash": true, "emptytx": true, "blocktime": true}

// lightSnap: the persisted main-chain view — last header, height index, transaction index of
// every declared transaction hash, balances at the tip.
func (e *env) lightSnap() string {
	var sb strings.Builder
	store := e.node.Chain.GetStore()
	last := store.LastHeader()
	fmt.Fprintf(&sb, "last=%d/%x/%x store=%d chain=%d;", last.Height, last.Hash, last.StateHash, store.Height(), e.node.Chain.GetBlockHeight())
	hs, clean := e.node.MainChain()
	for _, h := range hs {
		fmt.Fprintf(&sb, "%x,", h)
	}
	fmt.Fprintf(&sb, "clean=%v;", clean)
	for tag := 0; tag < 4096; tag++ {
		h, ok := e.tagHash[tag]
		if !ok {
			continue
		}
		fmt.Fprintf(&sb, "t%d=%d,", tag, e.node.TxHeight(h))
	}
	for _, a := range []string{chainkit.Recipient, e.node.Mock.GetGenesisAddress(), chainkit.AddrOf(e.key(1)), chainkit.AddrOf(e.key(2))} {
		b, ok := e.node.BalanceAtTip(a)
		fmt.Fprintf(&sb, "b=%d/%v,", b, ok)
	}
	return sb.String()
}

func (e *env) detail() string {
	var sb strings.Builder
	sb.WriteString("case=" + e.name + " blocks=")
	for _, wid := range e.order {
		v := e.vars[wid]
		fmt.Fprintf(&sb, "%d(hdr%d<-%d@%d txs%v %s) ", wid, v.hdr, v.parent, v.height, v.txs, v.flags)
	}
	sb.WriteString("history=" + strings.Join(e.log, " "))
	s := sb.String()
	if len(s) > 900 {
		s = s[:900] + "…"
	}
	return s
}

func resClass(res string) string {
	switch {
	case res == "":
		return "never-delivered"
	case validityErr[res]:
		return "rejected"
	}
	return res
}

// afterDeliver: predicates that concern one delivery.
func (e *env) afterDeliver(v *variant, src, res, before string) {
	if Prop != "C27" {
		return
	}
	// (1) a delivery that fails a validity check leaves best chain, state and indexes unchanged —
	// unless the delivered block itself is valid and now ON the best chain (the error then comes
	// from an orphan that was waiting for it).
	if validityErr[res] {
		after := e.lightSnap()
		if after != before {
			on := bytes.Equal(e.node.HashAt(v.height), v.hash) && e.matchBody(e.node.BlockAt(v.height)) == fmt.Sprint(v.wid)
			if !(v.genuine && on) {
				shape := "delivered-block-invalid"
				if v.genuine {
					shape = "delivered-block-valid-reorganize-failed-midway"
				}
				out.Pred(Prop+"|reorganizeChain|best-chain-changed-although-delivery-was-rejected|"+shape,
					fmt.Sprintf("delivered=%d result=%s %s", v.wid, res, e.detail()))
			}
		}
		out.Stat("rejections_checked_for_side_effects", 1)
	}
	// (0) ProcessBlock must not panic, and must never take the chain apart
	if res == "panic" {
		if e.node.Chain.GetStore().Height() < 0 {
			out.Pred(Prop+"|getReorganizeNodes|whole-chain-disconnected-down-to-genesis-then-panic|no-fork-point-after-DelNode-with-descendants",
				fmt.Sprintf("delivered=%d %s", v.wid, e.detail()))
		} else {
			out.Pred(Prop+"|connectBestChain|panic-nil-fork-in-side-chain-branch|after-DelNode-with-descendants",
				fmt.Sprintf("delivered=%d %s", v.wid, e.detail()))
		}
	}
	// (0b) a block that is invalid on its face (a wrong / empty / malformed declared root, a bad
	// block signature, an invalid or duplicated transaction) never moves the chain — the cases where
	// the delivery is answered with a validity error are judged by (1)
	if !v.static && !validityErr[res] && res != "panic" {
		if after := e.lightSnap(); after != before {
			out.Pred(Prop+"|PreExecBlock|invalid-block-changed-the-chain|result-"+res,
				fmt.Sprintf("delivered=%d flags=%s %s", v.wid, v.flags, e.detail()))
		}
	}
	// (2) no poisoning: the first delivery of the genuine block must not be answered "exist"
	if v.genuine {
		if !e.genuineDel[v.hdr] {
			if res == "exist" {
				out.Pred(Prop+"|ProcessBlock.blockExists|genuine-block-answered-exist|tampered-copy-was-"+resClass(e.lastRes[v.hdr])+"|from-"+e.lastSrc[v.hdr],
					fmt.Sprintf("delivered=%d %s", v.wid, e.detail()))
			} else if e.lastRes[v.hdr] != "" {
				out.Stat("genuine_accepted_after_tampered", 1)
			}
		}
		e.genuineDel[v.hdr] = true
	} else if v.hdr != v.wid && (res != "exist" || e.lastRes[v.hdr] == "") {
		// what happened to the tampered copy that the node still holds (a repeated delivery answered
		// "exist" changes nothing)
		e.lastRes[v.hdr] = res
		e.lastSrc[v.hdr] = map[string]string{"p": "peer", "d": "download"}[src]
	}
}

// endPredicates: predicates over the final state of the node.
func (e *env) endPredicates() {
	if Prop == "C28" {
		e.scanChain()
		return
	}
	// (3) the node never serves a rejected body under the block's hash
	for _, wid := range e.order {
		v := e.vars[wid]
		if v.hdr != v.wid {
			continue
		}
		tampered := false
		for _, w2 := range e.order {
			if e.vars[w2].hdr == v.wid && w2 != v.wid {
				tampered = true
			}
		}
		if !tampered {
			continue
		}
		got := e.matchBody(e.node.StoredByHash(v.hash))
		out.Stat("stored_bodies_checked", 1)
		if got != "none" && got != fmt.Sprint(v.wid) && (validityErr[e.lastRes[v.hdr]] || e.genuineDel[v.hdr]) {
			seen := "genuine-never-delivered"
			if e.genuineDel[v.hdr] {
				seen = "genuine-delivered"
			}
			out.Pred(Prop+"|dbMaybeStoreBlock|rejected-body-served-under-block-hash|"+seen,
				fmt.Sprintf("hdr=%d served=%s %s", v.wid, got, e.detail()))
		}
	}
	// (4) every body on the best chain is a genuine one
	top := e.node.Chain.GetStore().Height()
	for h := int64(1); h <= top; h++ {
		got := e.matchBody(e.node.BlockAt(h))
		ok := false
		if w, yes := atoi(got); yes && e.vars[w] != nil && e.vars[w].genuine {
			ok = true
		}
		if !ok {
			out.Pred(Prop+"|SaveBlock|non-genuine-body-on-best-chain", fmt.Sprintf("height=%d body=%s %s", h, got, e.detail()))
		}
	}
	out.Stat("best_chain_bodies_checked", top)
}

// expiredIndep: the expiry rule written out from the raw Expire field (types/tx.go isExpire), so
// that the predicate does not depend on the function under test: 0 never; <= ExpireBound: a
// height, expired when Expire <= height; > TxHeightFlag: txHeight = Expire - flag, packable only
// at heights txHeight-low .. txHeight+high; otherwise a time, expired when Expire <= block time.
func (e *env) expiredIndep(expire, height, blocktime int64) bool {
	const expireBound = 1000000000
	const txHeightFlag = int64(1) << 62
	switch {
	case expire == 0:
		return false
	case expire <= expireBound:
		return expire <= height
	case expire > txHeightFlag:
		th := expire - txHeightFlag
		return !(th-e.lo <= height && height <= th+e.hi)
	}
	return expire <= blocktime
}

// scanChain: C28 — every transaction of every block of the best chain is unique on the chain,
// unexpired at the block's height and time, correctly signed, and passes fee / chain-id checks.
func (e *env) scanChain() {
	cfg := e.cfg
	top := e.node.Chain.GetStore().Height()
	seen := map[string]int64{}
	for h := int64(1); h <= top; h++ {
		b := e.node.BlockAt(h)
		if b == nil {
			out.Pred(Prop+"|LoadBlock|best-chain-block-missing", fmt.Sprintf("height=%d %s", h, e.detail()))
			continue
		}
		for i, tx := range b.Txs {
			out.Stat("chain_txs_scanned", 1)
			hash := tx.Hash()
			tag := -1
			if t, ok := e.hashTag[string(hash)]; ok {
				tag = t
			}
			where := fmt.Sprintf("height=%d index=%d tag=%d from=%s", h, i, tag, tx.From())
			if !tx.CheckSign(h) {
				held := "pool-never-held-this-hash"
				if e.pooled[tag] {
					held = "pool-held-same-hash"
				}
				acc := ""
				if bal, ok := e.node.BalanceAtTip(tx.From()); ok {
					acc = fmt.Sprintf(" balance-of-purported-sender-now=%d", bal)
				}
				out.Pred(Prop+"|PreExecBlock.EventCheckTxsExist|tx-with-invalid-signature-on-best-chain|"+held, where+acc+" "+e.detail())
			}
			if e.expiredIndep(tx.Expire, h, b.BlockTime) || tx.IsExpire(cfg, h, b.BlockTime) {
				out.Pred(Prop+"|checkTx|expired-tx-on-best-chain", where+" "+e.detail())
			}
			if tx.GroupCount > 0 {
				// group members: the header transaction pays for all — the sum of each member's own real fee
				if int(tx.GroupCount) >= 2 && i+int(tx.GroupCount) <= len(b.Txs) && bytes.Equal(tx.Header, hash) {
					if req := groupRequired(b.Txs[i:i+int(tx.GroupCount)], cfg.GetMinTxFeeRate()); tx.Fee < req {
						out.Pred(Prop+"|checkTxGroup|group-underpays-fee|on-best-chain",
							fmt.Sprintf("fee=%d required=%d members=%d ", tx.Fee, req, tx.GroupCount)+where+" "+e.detail())
					}
				}
				if tx.ChainID != cfg.GetChainID() {
					out.Pred(Prop+"|checkTx|fee-or-chainid-invalid-tx-on-best-chain", where+" err=chainid "+e.detail())
				}
			} else if tx.ChainID != cfg.GetChainID() {
				out.Pred(Prop+"|checkTx|fee-or-chainid-invalid-tx-on-best-chain", where+" err=chainid "+e.detail())
			} else if minFee := int64(types.Size(tx)/1000+1) * cfg.GetMinTxFeeRate(); tx.Fee < minFee {
				out.Pred(Prop+"|checkTx|fee-or-chainid-invalid-tx-on-best-chain", where+" err=fee-below-minimum "+e.detail())
			} else if err := tx.Check(cfg, h, cfg.GetMinTxFeeRate(), cfg.GetMaxTxFee(h)); err != nil {
				out.Pred(Prop+"|checkTx|fee-or-chainid-invalid-tx-on-best-chain", where+" err="+err.Error()+" "+e.detail())
			}
			if prev, dup := seen[string(hash)]; dup {
				kind := "plain"
				if types.GetTxHeight(cfg, tx.Expire, h) > 0 {
					kind = "txheight"
				}
				out.Pred(Prop+"|CheckTxDup|tx-twice-on-best-chain|"+kind, fmt.Sprintf("first-height=%d ", prev)+where+" "+e.detail())
			}
			seen[string(hash)] = h
			if got := e.node.TxHeight(hash); got != h {
				out.Pred(Prop+"|AddTxs|tx-index-disagrees-with-best-chain", fmt.Sprintf("index-says=%d ", got)+where+" "+e.detail())
			}
		}
	}
	out.Stat("chain_scans", 1)
	out.Stat("chain_blocks_scanned", top)
}

// groupRequired: what the header transaction of a group has to pay — every member is charged
// (size/1000+1) * minFeeRate on its own (recomputed here, not through Transactions.Check).
func groupRequired(members []*types.Transaction, rate int64) int64 {
	var sum int64
	for _, m := range members {
		sum += int64(types.Size(m)/1000+1) * rate
	}
	return sum
}

// scanProduced: C28 for a block the node produced itself on its tip (signatures are the mempool's
// business on this path): no transaction twice in the block or already on the best chain, none
// expired at the block's height and time, fee and chain id fine.
func (e *env) scanProduced(b *types.Block) {
	cfg := e.cfg
	seen := map[string]bool{}
	for i, tx := range b.Txs {
		hash := tx.Hash()
		where := fmt.Sprintf("produced-height=%d index=%d tag=%d", b.Height, i, e.hashTag[string(hash)])
		if seen[string(hash)] || e.node.TxHeight(hash) >= 0 {
			out.Pred(Prop+"|CheckTxDup|producer-kept-a-duplicate-tx", where+" "+e.detail())
		}
		seen[string(hash)] = true
		if e.expiredIndep(tx.Expire, b.Height, b.BlockTime) {
			out.Pred(Prop+"|checkTx|producer-kept-an-expired-tx", where+" "+e.detail())
		}
		if tx.GroupCount > 0 {
			if int(tx.GroupCount) >= 2 && i+int(tx.GroupCount) <= len(b.Txs) && bytes.Equal(tx.Header, hash) {
				if req := groupRequired(b.Txs[i:i+int(tx.GroupCount)], cfg.GetMinTxFeeRate()); tx.Fee < req {
					out.Pred(Prop+"|checkTxGroup|group-underpays-fee|in-produced-block",
						fmt.Sprintf("fee=%d required=%d members=%d ", tx.Fee, req, tx.GroupCount)+where+" "+e.detail())
				}
			}
		} else if tx.ChainID != cfg.GetChainID() || tx.Fee < int64(types.Size(tx)/1000+1)*cfg.GetMinTxFeeRate() {
			out.Pred(Prop+"|checkTx|producer-kept-a-fee-or-chainid-invalid-tx", where+" "+e.detail())
		}
	}
}
