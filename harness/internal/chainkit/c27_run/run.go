// Package c27run is the harness shared by h_c27 (C27: invalid blocks are rejected without side
// effects or poisoning) and h_c28 (C28: the chain holds no replayed, expired or mis-signed
// transactions).  A *case* is a set of transaction instances and block variants (declared with
// `tx` / `blk` lines and BUILT from those lines alone: minted on a producer node, then tampered
// as the line says), followed by deliveries to a fresh non-mining testnode through
// BlockChain.ProcessBlock and by mempool submissions.  Implementation answers (after the TAB) are
// compared with the Lean driver drv_c27 / drv_c28 (Model/C27.lean, `C27.Drv`).
//
//	case <name> <fin> <margin> <rec> <gbits> <hi> <lo>            -> tip=0 h=0 td=<n>
//	tx <inst> <tag> <key> <sig> <exp> <fee> <chain> <run> <to> <amt>  -> ok
//	     tag  = class of Transaction.Hash() (everything but signature/public key)
//	     key  = signer: 0 genesis account (funded), n>0 chainkit.KeyFromSeed(n)
//	     sig  = 1 signed by key | 0 public key of key + garbage signature bytes
//	     exp  = n | h<N> (height) | t<N> (seconds after genesis) | x<N> (TxHeight)
//	     fee  = 1 ok (1e6) | 0 too low (1);  chain = 1 ok | 0 other chain id
//	     run  = oracle: executes without ExecErr once checkTx passed
//	     to   = r (fixed recipient) | k<n>;  amt = amount
//	blk <wid> <hdr> <parent hdr> <height> <bits> <time> <inst,inst|-> <flags>  -> ok
//	     hdr = wid: new header (built on the parent, executed on the producer, then corrupted as
//	     the flags say); hdr = earlier wid: SAME header (hash), body replaced by the listed
//	     instances.  flags = sig root state chk: [01][01][01][ket]
//	deliver <wid> <p|d> <0|1>       ProcessBlock(broadcast=1|sync=0) from a peer / "download"
//	                                -> <main|side|orphan|exist|sign|txdup|...> tip=<hdr> h=<h> td=<n>
//	pool+ <inst>                    mempool SendTx                   -> ok|<error>
//	pool? <tag>                     mempool holds a tx of this hash  -> yes|no
//	chain                           height->hash                     -> <hdr>,... clean|dirty
//	body <height>                   body served at a main-chain height -> <wid>|none|?
//	stored <hdr>                    body served under a block hash   -> <wid>|none|?
//	td <hdr> | isorphan <hdr> | txidx <tag>
//	restart                         stop the node, start it again on the same data directory -> tip=.. h=.. td=..
//	produce <wid>                   the node executes the body as its own block on its tip -> kept=<inst,..>|n/a
//	scan                            C28 predicate over the best chain -> ok
//	end                             predicates, close node           -> ok
package c27run

import (
	"bufio"
	"bytes"
	"crypto/sha256"
	"fmt"
	"math/big"
	"os"
	"os/exec"
	"path/filepath"
	"strconv"
	"strings"

	"github.com/33cn/chain33/common/crypto"
	"github.com/33cn/chain33/common/merkle"
	"github.com/33cn/chain33/types"
	"github.com/33cn/chain33/util"

	"verifharness/internal/chainkit"
	"verifharness/internal/gen"
)

var out *gen.Out

// Prop is "C27" or "C28" (prefix of predicate signatures; selects generators and predicates).
var Prop = "C27"

const (
	finalized = 0
	margin    = 12
	Gbits     = 0x1f2fffff
)

type inst struct {
	id, tag, key   int
	sig            bool
	exp            string
	fee, chain, ok bool
	tx             *types.Transaction
}

// group: a well-formed transaction group (Header / Next / GroupCount linked, members signed).
type group struct {
	txs      *types.Transactions
	fee      int64 // txs[0].Fee
	required int64 // Σ over the members of (size/1000+1) * minFeeRate — computed here, not by Transactions.Check
	whole    int64 // (Σ size / 1000 + 1) * minFeeRate
	feeOK    bool
}

type variant struct {
	wid, hdr, parent int
	height           int64
	txs              []int
	flags            string
	blk              *types.Block
	hash             []byte
	genuine          bool // flags all ok, nothing dropped on the producer, every instance statically fine
	execOK           bool // executed on the producer without dropping anything: usable as a parent
	static           bool // statically valid: flags ok and all instances ok (no in-block duplicate)
}

type env struct {
	producer *chainkit.Node
	node     *chainkit.Node
	cfg      *types.Chain33Config
	name     string
	dir      string // data directory of the node under test (survives a restart)
	rec      bool
	hi, lo   int64
	gtime    int64
	insts    map[int]*inst
	tagHash  map[int][]byte
	hashTag  map[string]int
	vars     map[int]*variant
	order    []int // wids in declaration order
	byHash   map[string]int
	keys     map[int]crypto.PrivKey
	started  bool
	broken   string
	// bookkeeping for the predicates
	groups     map[int]*group // by first instance
	groupOf    map[int]*group // by member instance
	pooled     map[int]bool   // tag was submitted to the pool at some time
	lastRes    map[int]string // hdr -> result of the last delivery of a TAMPERED variant
	genuineDel map[int]bool   // hdr -> the genuine variant was delivered before
	lastSrc    map[int]string // hdr -> source of the last delivery of a tampered variant
	log        []string
}

var nodeSeq int

func (e *env) closeNode() {
	if e.node != nil {
		e.node.Close()
		e.node = nil
	}
	if e.dir != "" {
		os.RemoveAll(e.dir)
		e.dir = ""
	}
}

func atoi(s string) (int, bool) {
	n, err := strconv.Atoi(s)
	return n, err == nil
}

func bigS(b *big.Int) string {
	if b == nil {
		return "none"
	}
	return b.String()
}

func (e *env) key(n int) crypto.PrivKey {
	if k, ok := e.keys[n]; ok {
		return k
	}
	var k crypto.PrivKey
	if n == 0 {
		k = e.producer.Mock.GetGenesisKey()
	} else {
		k = chainkit.KeyFromSeed(n)
	}
	e.keys[n] = k
	return k
}

func (e *env) hdrID(hash []byte) string {
	if len(hash) == 0 {
		return "-"
	}
	if w, ok := e.byHash[string(hash)]; ok {
		return fmt.Sprint(w)
	}
	return "?"
}

func (e *env) tipStr() string {
	if e.node.Chain.GetStore().Height() < 0 {
		// the node holds no chain at all (every block, genesis included, was disconnected)
		return "tip=- h=-1 td=none"
	}
	hash, h := e.node.Tip()
	return fmt.Sprintf("tip=%s h=%d td=%s", e.hdrID(hash), h, bigS(e.node.TD(hash)))
}

func fakeHash(n int) []byte {
	s := sha256.Sum256([]byte(fmt.Sprintf("unknown-parent-%d", n)))
	return s[:]
}

// ---------------------------------------------------------------------------- building

func (e *env) buildTx(w []string) string {
	// columns: 0 tx 1 inst 2 tag 3 key 4 sig 5 exp 6 fee 7 chain 8 run 9 to 10 amt
	id, ok1 := atoi(w[1])
	tag, ok2 := atoi(w[2])
	key, ok3 := atoi(w[3])
	amt, err4 := strconv.ParseInt(w[10], 10, 64)
	if !ok1 || !ok2 || !ok3 || err4 != nil || id < 0 || tag < 0 || key < 0 || e.insts[id] != nil {
		return "bad-op"
	}
	fSig, fExp, fFee, fChain, fRun, fTo := w[4], w[5], w[6], w[7], w[8], w[9]
	for _, f := range []string{fSig, fFee, fChain, fRun} {
		if f != "0" && f != "1" {
			return "bad-op"
		}
	}
	var expire int64
	switch {
	case fExp == "n":
	case len(fExp) > 1 && (fExp[0] == 'h' || fExp[0] == 't' || fExp[0] == 'x'):
		n, err := strconv.ParseInt(fExp[1:], 10, 64)
		if err != nil || n <= 0 {
			return "bad-op"
		}
		switch fExp[0] {
		case 'h':
			if n > types.ExpireBound {
				return "bad-op"
			}
			expire = n
		case 't':
			expire = e.gtime + n
		default:
			expire = types.TxHeightFlag + n
		}
	default:
		return "bad-op"
	}
	to := chainkit.Recipient
	if fTo != "r" {
		if len(fTo) < 2 || fTo[0] != 'k' {
			return "bad-op"
		}
		k, ok := atoi(fTo[1:])
		if !ok {
			return "bad-op"
		}
		to = chainkit.AddrOf(e.key(k))
	}
	fee := int64(1_000_000)
	if fFee == "0" {
		fee = 1
	}
	chain := e.cfg.GetChainID()
	if fChain == "0" {
		chain++
	}
	tx := chainkit.BuildTx(e.cfg, chainkit.TxSpec{From: e.key(key), To: to, Amount: amt,
		Nonce: int64(7_000_000 + tag), Fee: fee, Expire: expire, ChainID: chain})
	if fSig == "0" {
		tx.Signature = &types.Signature{Ty: types.SECP256K1, Pubkey: e.key(key).PubKey().Bytes(),
			Signature: []byte(fmt.Sprintf("garbage-signature-%d-garbage-signature", id))}
	}
	// the oracle inputs of the line are re-derived from the real transaction
	if tx.CheckSign(1) != (fSig == "1") {
		return "bad-op:sig-oracle"
	}
	cerr := tx.Check(e.cfg, 1, e.cfg.GetMinTxFeeRate(), e.cfg.GetMaxTxFee(1))
	if (cerr == nil) != (fFee == "1" && fChain == "1") {
		return "bad-op:fee-chain-oracle"
	}
	if fChain == "0" && cerr != types.ErrTxChainID {
		return "bad-op:chain-oracle"
	}
	h := tx.Hash()
	if old, ok := e.tagHash[tag]; ok {
		if !bytes.Equal(old, h) {
			return "bad-op:tag-hash"
		}
	} else {
		if t2, dup := e.hashTag[string(h)]; dup && t2 != tag {
			return "bad-op:hash-tag"
		}
		e.tagHash[tag] = h
		e.hashTag[string(h)] = tag
	}
	// an instance stands for one signed transaction (one full hash)
	for _, o := range e.insts {
		if bytes.Equal(o.tx.FullHash(), tx.FullHash()) {
			return "bad-op:same-full-hash"
		}
	}
	e.insts[id] = &inst{id: id, tag: tag, key: key, sig: fSig == "1", exp: fExp, fee: fFee == "1", chain: fChain == "1",
		ok: fSig == "1" && fFee == "1" && fChain == "1" && fRun == "1", tx: tx}
	return "ok"
}

// badRoot: the header root as the flag says — 1 as computed; 0 another value of the same length;
// e empty; s one byte short; l one byte long; z all zero.
func badRoot(f byte, root []byte) []byte {
	switch f {
	case '0':
		return corrupt(root)
	case 'e':
		return nil
	case 's':
		if len(root) == 0 {
			return nil
		}
		return append([]byte{}, root[:len(root)-1]...)
	case 'l':
		return append(append([]byte{}, root...), 0x07)
	case 'z':
		return make([]byte, 32)
	}
	return root
}

// buildGroup: grp <first inst> <n> <fee spec> <tagbase>: n small coins transfers of the genesis
// account linked into a group whose header transaction pays: S the per-member sum of real fees,
// S+ more, S-1 one below, W the figure for the summed sizes, M halfway between W and S, W-1.
func (e *env) buildGroup(w []string) string {
	first, ok1 := atoi(w[1])
	n, ok2 := atoi(w[2])
	tb, ok3 := atoi(w[4])
	if !ok1 || !ok2 || !ok3 || n < 2 || n > 20 {
		return "bad-op"
	}
	for i := 0; i < n; i++ {
		if e.insts[first+i] != nil {
			return "bad-op"
		}
		if _, dup := e.tagHash[tb+i]; dup {
			return "bad-op"
		}
	}
	cfg := e.cfg
	rate := cfg.GetMinTxFeeRate()
	build := func(fee int64) []*types.Transaction {
		txs := make([]*types.Transaction, n)
		for i := 0; i < n; i++ {
			tx := chainkit.BuildTx(cfg, chainkit.TxSpec{From: e.key(0), To: chainkit.Recipient, Amount: int64(1000 + tb + i),
				Nonce: int64(7_000_000 + tb + i), Fee: 0, Expire: 0, ChainID: cfg.GetChainID()})
			tx.Signature = nil
			tx.GroupCount = int32(n)
			txs[i] = tx
		}
		txs[0].Fee = fee
		for i := n - 1; i >= 1; i-- {
			txs[i-1].Next = txs[i].Hash()
		}
		header := txs[0].Hash()
		for i := 0; i < n; i++ {
			txs[i].Header = header
			txs[i].Sign(types.SECP256K1, e.key(0))
		}
		return txs
	}
	measure := func(txs []*types.Transaction) (sum, whole int64) {
		total := 0
		for _, tx := range txs {
			sz := types.Size(tx)
			total += sz
			sum += int64(sz/1000+1) * rate
		}
		return sum, int64(total/1000+1) * rate
	}
	probe := build(int64(n) * rate)
	S, W := measure(probe)
	if W >= S {
		return "bad-op:group-sizes"
	}
	var fee int64
	switch w[3] {
	case "S":
		fee = S
	case "S+":
		fee = S + rate
	case "S-1":
		fee = S - 1
	case "W":
		fee = W
	case "M":
		fee = (W + S) / 2
	case "W-1":
		fee = W - 1
	default:
		return "bad-op"
	}
	txs := build(fee)
	S2, W2 := measure(txs)
	g := &group{txs: &types.Transactions{Txs: txs}, fee: fee, required: S2, whole: W2, feeOK: fee >= S2}
	if g.feeOK != (w[3] == "S" || w[3] == "S+") {
		return "bad-op:fee-oracle"
	}
	for i, tx := range txs {
		if !tx.CheckSign(1) {
			return "bad-op:sig-oracle"
		}
		h := tx.Hash()
		if _, dup := e.hashTag[string(h)]; dup {
			return "bad-op:hash-tag"
		}
		e.tagHash[tb+i] = h
		e.hashTag[string(h)] = tb + i
		e.insts[first+i] = &inst{id: first + i, tag: tb + i, key: 0, sig: true, exp: "n", fee: g.feeOK, chain: true, ok: g.feeOK, tx: tx}
		e.groupOf[first+i] = g
	}
	e.groups[first] = g
	out.Stat("groups_built", 1)
	return "ok"
}

func corrupt(b []byte) []byte {
	c := append([]byte{}, b...)
	if len(c) == 0 {
		return []byte{1}
	}
	c[len(c)-1] ^= 0x5a
	return c
}

func (e *env) buildBlk(w []string) string {
	wid, ok1 := atoi(w[1])
	hdr, ok2 := atoi(w[2])
	par, ok3 := atoi(w[3])
	height, ok4 := atoi(w[4])
	bits, err5 := strconv.ParseUint(w[5], 10, 32)
	tm, ok6 := atoi(w[6])
	fl := w[8]
	if !ok1 || !ok2 || !ok3 || !ok4 || err5 != nil || !ok6 || wid <= 0 || e.vars[wid] != nil || len(fl) != 4 ||
		strings.Trim(fl[:1], "01") != "" || strings.Trim(fl[1:3], "01eslz") != "" || !strings.Contains("ket", fl[3:]) ||
		height < 0 || tm < 0 {
		return "bad-op"
	}
	if hdr != wid && strings.Trim(fl[1:3], "01") != "" {
		return "bad-op"
	}
	var ids []int
	var txs []*types.Transaction
	static := fl == "111k"
	seen := map[int]bool{}
	if w[7] != "-" {
		for _, s := range strings.Split(w[7], ",") {
			i, ok := atoi(s)
			if !ok || e.insts[i] == nil {
				return "bad-op"
			}
			ids = append(ids, i)
			txs = append(txs, e.insts[i].tx)
			if !e.insts[i].ok || seen[e.insts[i].tag] || e.insts[i].tx.IsExpire(e.cfg, int64(height), e.gtime+int64(tm)) {
				static = false
			}
			seen[e.insts[i].tag] = true
		}
	}
	v := &variant{wid: wid, hdr: hdr, parent: par, height: int64(height), txs: ids, flags: fl, static: static}
	cfg := e.cfg
	if hdr != wid {
		// same header as an earlier block: replace the body (and, for sig=0, add a garbage block signature)
		base := e.vars[hdr]
		if base == nil || base.hdr != base.wid || base.parent != par || base.height != int64(height) ||
			uint64(base.blk.Difficulty) != bits || base.blk.BlockTime != e.gtime+int64(tm) {
			return "bad-op"
		}
		b := types.Clone(base.blk).(*types.Block)
		b.Txs = nil
		for _, tx := range txs {
			b.Txs = append(b.Txs, types.CloneTx(tx))
		}
		b.Signature = nil
		if fl[0] == '0' {
			b.Signature = &types.Signature{Ty: types.SECP256K1, Pubkey: e.key(0).PubKey().Bytes(), Signature: []byte("garbage-block-signature")}
		}
		v.blk = b
		v.hash = b.Hash(cfg)
		if !bytes.Equal(v.hash, base.hash) {
			// the header hash covers TxCount: a body of another length is another block
			return "bad-op:txcount"
		}
		rootOK := bytes.Equal(merkle.CalcMerkleRoot(cfg, b.Height, types.TransactionSort(b.Txs)), b.TxHash)
		if rootOK != (fl[1] == '1') {
			return "bad-op:root-oracle"
		}
		v.genuine = false
		e.vars[wid] = v
		e.order = append(e.order, wid)
		return "ok"
	}
	// new header
	var parent *types.Block
	parentExec := false
	if par == 0 {
		parent = e.producer.Genesis()
		parentExec = true
	} else if pv := e.vars[par]; pv != nil && pv.hdr == pv.wid {
		parent = pv.blk
		parentExec = pv.execOK
	} else if par >= 100000 {
		parent = &types.Block{Height: int64(height) - 1, BlockTime: e.gtime, StateHash: make([]byte, 32)}
	} else {
		return "bad-op"
	}
	b := chainkit.MakeBlock(cfg, parent, txs, uint32(bits), 0)
	b.BlockTime = e.gtime + int64(tm)
	b.Height = int64(height)
	if par >= 100000 {
		b.ParentHash = fakeHash(par)
	}
	b.TxHash = merkle.CalcMerkleRoot(cfg, b.Height, b.Txs)
	canExec := parentExec && b.Height == parent.Height+1 && len(txs) > 0
	dropped := false
	if canExec {
		// the strongest version of the block: the state root that executing the body AS LISTED
		// (duplicates included) really gives
		state, execErr, err := chainkit.ExecKeepAll(e.producer, parent.StateHash, b)
		if err != nil {
			return "bad-op:produce:" + strings.ReplaceAll(err.Error(), " ", "_")
		}
		b.StateHash = state
		dropped = execErr || len(seen) != len(ids)
	} else {
		// not executable on the producer: the header carries a garbage state hash
		if fl[2] == '1' {
			return "bad-op:state-oracle"
		}
		b.StateHash = parent.StateHash
	}
	b.TxHash = badRoot(fl[1], b.TxHash)
	b.StateHash = badRoot(fl[2], b.StateHash)
	if fl[0] == '0' {
		b.Signature = &types.Signature{Ty: types.SECP256K1, Pubkey: e.key(0).PubKey().Bytes(), Signature: []byte("garbage-block-signature")}
	}
	// chk flag must agree with what the consensus module checks
	wantChk := byte('k')
	if len(b.Txs) == 0 {
		wantChk = 'e'
	}
	if parent.BlockTime > b.BlockTime {
		wantChk = 't' // checked before the driver's CheckBlock
	}
	if fl[3] != wantChk {
		return "bad-op:chk-oracle"
	}
	if types.VerifySignature(cfg, b, nil) != (fl[0] == '1') {
		return "bad-op:blocksig-oracle"
	}
	v.blk = b
	v.hash = b.Hash(cfg)
	if _, dup := e.byHash[string(v.hash)]; dup {
		return "bad-op:dup-header"
	}
	v.execOK = canExec && !dropped && fl[1] == '1' && fl[2] == '1'
	for _, i := range ids {
		if g := e.groupOf[i]; g != nil && !g.feeOK {
			static = false
		}
	}
	v.static = static
	v.genuine = static && v.execOK
	e.byHash[string(v.hash)] = wid
	e.vars[wid] = v
	e.order = append(e.order, wid)
	return "ok"
}

// ---------------------------------------------------------------------------- interpreter

func (e *env) matchBody(b *types.Block) string {
	if b == nil {
		return "none"
	}
	h := b.Hash(e.cfg)
	for _, wid := range e.order {
		v := e.vars[wid]
		if !bytes.Equal(v.hash, h) || len(v.blk.Txs) != len(b.Txs) {
			continue
		}
		same := bytes.Equal(sigBytes(v.blk.Signature), sigBytes(b.Signature))
		for i := 0; same && i < len(b.Txs); i++ {
			same = bytes.Equal(v.blk.Txs[i].FullHash(), b.Txs[i].FullHash())
		}
		if same {
			return fmt.Sprint(wid)
		}
	}
	if bytes.Equal(h, e.node.Genesis().Hash(e.cfg)) {
		return "0"
	}
	return "?"
}

func sigBytes(s *types.Signature) []byte {
	if s == nil {
		return nil
	}
	return types.Encode(s)
}

func (e *env) hdrHash(hdr int) []byte {
	if hdr == 0 {
		return e.node.Genesis().Hash(e.cfg)
	}
	if v := e.vars[hdr]; v != nil && v.hdr == v.wid {
		return v.hash
	}
	return nil
}

func (e *env) run(line string) string {
	w := strings.Fields(line)
	if len(w) == 0 {
		return "bad-op"
	}
	switch w[0] {
	case "case":
		if len(w) != 8 {
			return "bad-op"
		}
		e.closeNode()
		hi, err1 := strconv.ParseInt(w[6], 10, 64)
		lo, err2 := strconv.ParseInt(w[7], 10, 64)
		if w[2] != fmt.Sprint(finalized) || w[3] != fmt.Sprint(margin) || err1 != nil || err2 != nil || hi <= 0 || lo <= 0 {
			return "bad-op"
		}
		e.name, e.rec, e.hi, e.lo = w[1], w[4] == "1", hi, lo
		e.insts = map[int]*inst{}
		e.tagHash = map[int][]byte{}
		e.hashTag = map[string]int{}
		e.vars = map[int]*variant{}
		e.order = nil
		e.byHash = map[string]int{}
		e.started = false
		e.broken = ""
		e.pooled = map[int]bool{}
		e.groups = map[int]*group{}
		e.groupOf = map[int]*group{}
		e.lastRes = map[int]string{}
		e.genuineDel = map[int]bool{}
		e.lastSrc = map[int]string{}
		e.log = nil
		nodeSeq++
		base := os.Getenv("VERIF_TMP")
		if base == "" {
			base = os.TempDir()
		}
		e.dir = filepath.Join(base, fmt.Sprintf("c27node-%d-%d", os.Getpid(), nodeSeq))
		e.node = chainkit.NewNodeCfgAt(e.dir, chainkit.NodeCfg{RecordSequence: e.rec, HighAllow: hi, LowAllow: lo})
		if !e.node.WaitWalletRescan() {
			out.Stat("wallet_rescan_wait_deadline", 1)
		}
		g := e.node.Genesis()
		e.gtime = g.BlockTime
		if fmt.Sprint(g.Difficulty) != w[5] || !bytes.Equal(g.Hash(e.cfg), e.producer.Genesis().Hash(e.cfg)) {
			return "bad-op"
		}
		e.byHash[string(g.Hash(e.cfg))] = 0
		return e.tipStr()
	case "tx":
		if len(w) != 11 || e.node == nil || e.started {
			return "bad-op"
		}
		return e.buildTx(w)
	case "blk":
		if len(w) != 9 || e.node == nil || e.started {
			return "bad-op"
		}
		return e.buildBlk(w)
	case "grp":
		if len(w) != 5 || e.node == nil || e.started {
			return "bad-op"
		}
		return e.buildGroup(w)
	}
	if e.node == nil {
		return "bad-op"
	}
	e.started = true
	switch w[0] {
	case "deliver":
		if len(w) != 4 || (w[2] != "p" && w[2] != "d") || (w[3] != "0" && w[3] != "1") {
			return "bad-op"
		}
		wid, ok := atoi(w[1])
		v := e.vars[wid]
		if !ok || v == nil {
			return "bad-op"
		}
		pid := fmt.Sprintf("peer%d", wid%3)
		if w[2] == "d" {
			pid = "download"
		}
		before := e.lightSnap()
		r := e.node.DeliverFrom(v.blk, pid, w[3] == "1")
		e.settle()
		res := r.String()
		out.Stat("deliver_"+res, 1)
		e.log = append(e.log, fmt.Sprintf("%d%s:%s", wid, w[2], res))
		e.afterDeliver(v, w[2], res, before)
		return res + " " + e.tipStr()
	case "pool+":
		if len(w) != 2 {
			return "bad-op"
		}
		i, ok := atoi(w[1])
		if !ok || e.insts[i] == nil {
			return "bad-op"
		}
		e.pooled[e.insts[i].tag] = true
		e.log = append(e.log, fmt.Sprintf("pool+%d", i))
		tx := e.insts[i].tx
		g := e.groups[i]
		if g != nil {
			tx = g.txs.Tx() // the packed group as wallets submit it
		}
		if s := e.node.PoolSend(tx); s != "" {
			return strings.ReplaceAll(s, " ", "_")
		}
		if g != nil && Prop == "C28" && g.fee < g.required {
			out.Pred(Prop+"|mempool.checkTxs|group-underpays-fee|accepted-by-pool",
				fmt.Sprintf("group=%d members=%d fee=%d required=%d %s", i, len(g.txs.Txs), g.fee, g.required, e.detail()))
		}
		return "ok"
	case "pool?":
		if len(w) != 2 {
			return "bad-op"
		}
		t, ok := atoi(w[1])
		if !ok {
			return "bad-op"
		}
		h := e.tagHash[t]
		if h != nil && e.node.PoolHas(h) {
			return "yes"
		}
		return "no"
	case "chain":
		hs, clean := e.node.MainChain()
		ids := make([]string, len(hs))
		for i, h := range hs {
			ids[i] = e.hdrID(h)
		}
		c := "clean"
		if !clean {
			c = "dirty"
		}
		return strings.Join(ids, ",") + " " + c
	case "body":
		if len(w) != 2 {
			return "bad-op"
		}
		h, ok := atoi(w[1])
		if !ok {
			return "bad-op"
		}
		return e.matchBody(e.node.BlockAt(int64(h)))
	case "stored", "td", "isorphan":
		if len(w) != 2 {
			return "bad-op"
		}
		hdr, ok := atoi(w[1])
		if !ok {
			return "bad-op"
		}
		hash := e.hdrHash(hdr)
		if hash == nil {
			return "bad-op"
		}
		switch w[0] {
		case "stored":
			return e.matchBody(e.node.StoredByHash(hash))
		case "td":
			return bigS(e.node.TD(hash))
		default:
			if e.node.Chain.GetOrphanPool().IsKnownOrphan(hash) {
				return "yes"
			}
			return "no"
		}
	case "txidx":
		if len(w) != 2 {
			return "bad-op"
		}
		t, ok := atoi(w[1])
		if !ok {
			return "bad-op"
		}
		if h := e.tagHash[t]; h != nil {
			if ht := e.node.TxHeight(h); ht >= 0 {
				return fmt.Sprint(ht)
			}
		}
		return "none"
	case "restart":
		if len(w) != 1 {
			return "bad-op"
		}
		e.node.Close()
		e.node = chainkit.NewNodeCfgAt(e.dir, chainkit.NodeCfg{RecordSequence: e.rec, HighAllow: e.hi, LowAllow: e.lo})
		if !e.node.WaitWalletRescan() {
			out.Stat("wallet_rescan_wait_deadline", 1)
		}
		e.log = append(e.log, "restart")
		out.Stat("restarts", 1)
		return e.tipStr()
	case "produce":
		if len(w) != 2 {
			return "bad-op"
		}
		wid, ok := atoi(w[1])
		v := e.vars[wid]
		if !ok || v == nil {
			return "bad-op"
		}
		return e.produce(v)
	case "scan":
		if len(w) != 1 {
			return "bad-op"
		}
		if Prop == "C28" {
			e.scanChain()
		}
		return "ok"
	case "end":
		if len(w) != 1 {
			return "bad-op"
		}
		e.endPredicates()
		e.closeNode()
		return "ok"
	}
	return "bad-op"
}

// produce: the node executes the body as its OWN block on its tip (util.ExecBlock with
// errReturn=false, as the consensus module does): duplicates (in the block, on the chain, in the
// TxHeight window) and transactions answering ExecErr are dropped.  Answers the surviving instances.
func (e *env) produce(v *variant) string {
	tip, _ := e.node.Tip()
	if !bytes.Equal(v.blk.ParentHash, tip) {
		return "n/a"
	}
	last := e.node.Chain.GetStore().LastHeader()
	cp := types.Clone(v.blk).(*types.Block)
	cp.Signature = nil
	d, _, err := util.ExecBlock(e.node.Mock.GetClient(), last.StateHash, cp, false, true, false)
	if err != nil {
		return "err:" + strings.ReplaceAll(err.Error(), " ", "_")
	}
	var kept []string
	used := map[int]bool{}
	for _, tx := range d.Block.Txs {
		found := -1
		for pos := len(v.txs) - 1; pos >= 0; pos-- { // DelDupTx keeps the last occurrence
			if !used[pos] && bytes.Equal(e.insts[v.txs[pos]].tx.FullHash(), tx.FullHash()) {
				found = pos
				break
			}
		}
		if found < 0 {
			kept = append(kept, "?")
			continue
		}
		used[found] = true
		kept = append(kept, fmt.Sprint(v.txs[found]))
	}
	if Prop == "C28" {
		e.scanProduced(d.Block)
	}
	out.Stat("blocks_produced", 1)
	if len(kept) == 0 {
		return "kept=-"
	}
	return "kept=" + strings.Join(kept, ",")
}

// settle: a synchronous (high-priority, FIFO) mempool query — every EventAddBlock sent during the
// delivery has been processed by the mempool when it returns.
func (e *env) settle() {
	_, _ = e.node.Mock.GetAPI().GetMempool(&types.ReqGetMempool{})
}

// ---------------------------------------------------------------------------- main

// Interpret executes op lines in this process.
func Interpret(lines []string) {
	chainkit.Init()
	out = gen.NewOut()
	e := &env{keys: map[int]crypto.PrivKey{}}
	e.producer = chainkit.NewNodeCfg(chainkit.NodeCfg{})
	e.cfg = e.producer.Cfg
	defer e.producer.Close()
	for _, l := range lines {
		res := gen.Guard(func() string { return e.run(l) })
		out.Op(l, res)
	}
	e.closeNode()
	out.Flush()
}

func workers() int {
	if v := os.Getenv("VERIF_WORKERS"); v != "" {
		if n, err := strconv.Atoi(v); err == nil && n >= 1 {
			return n
		}
	}
	return 4
}

// Case is a generated case: its op lines.
type Case struct {
	Name  string
	Lines []string
}

// Main runs the harness for property p with the given generator.
func Main(p string, genCases func(seed uint64) []Case) {
	Prop = p
	if ls := gen.ReplayLines(); ls != nil {
		Interpret(ls)
		return
	}
	cases := genCases(gen.Seed())
	if s := os.Getenv("VERIF_C27_SLICE"); s != "" {
		var i, n int
		fmt.Sscanf(s, "%d/%d", &i, &n)
		var lines []string
		for k := range cases {
			if k%n == i {
				lines = append(lines, cases[k].Lines...)
			}
		}
		Interpret(lines)
		return
	}
	n := workers()
	if n > len(cases) {
		n = len(cases)
	}
	if n < 1 {
		n = 1
	}
	outs := make([][]byte, n)
	errs := make([]error, n)
	done := make(chan int, n)
	for i := 0; i < n; i++ {
		go func(i int) {
			cmd := exec.Command(os.Args[0])
			cmd.Env = append(os.Environ(), fmt.Sprintf("VERIF_C27_SLICE=%d/%d", i, n))
			cmd.Stderr = os.Stderr
			outs[i], errs[i] = cmd.Output()
			done <- i
		}(i)
	}
	for i := 0; i < n; i++ {
		<-done
	}
	w := bufio.NewWriter(os.Stdout)
	defer w.Flush()
	rc := 0
	for i := 0; i < n; i++ {
		w.Write(outs[i])
		if errs[i] != nil {
			fmt.Fprintf(os.Stderr, "worker %d: %v\n", i, errs[i])
			rc = 4
		}
	}
	fmt.Fprintf(w, "#STAT cases %d\n#STAT workers %d\n", len(cases), n)
	w.Flush()
	if rc != 0 {
		os.Exit(rc)
	}
}
