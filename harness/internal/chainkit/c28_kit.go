// c28_kit.go — additions for C27/C28: blocks with arbitrary (possibly invalid) transaction lists,
// deliveries by source, mempool access, accounts.  Nothing here changes the behaviour of the
// functions in chainkit.go.
package chainkit

import (
	"encoding/hex"
	"fmt"
	"os"
	"path/filepath"
	"time"

	"github.com/33cn/chain33/common/address"
	"github.com/33cn/chain33/common/crypto"
	"github.com/33cn/chain33/common/log"
	"github.com/33cn/chain33/common/merkle"
	"github.com/33cn/chain33/types"
	"github.com/33cn/chain33/util"
	"github.com/33cn/chain33/util/testnode"
)

// NodeCfg: options of a node made with NewNodeCfg.
type NodeCfg struct {
	RecordSequence bool
	// HighAllow/LowAllow > 0: blockchain.highAllowPackHeight / lowAllowPackHeight (the TxHeight
	// window; process-wide variables types.HighAllowPackHeight / LowAllowPackHeight).
	HighAllow, LowAllow int64
}

// NewNodeCfg starts a non-mining node (genesis only) with the given configuration.
func NewNodeCfg(o NodeCfg) *Node {
	return newNodeWith(func(m *types.Config) {
		m.BlockChain.IsRecordBlockSequence = o.RecordSequence
		m.BlockChain.EnablePushSubscribe = false
		if o.HighAllow > 0 && o.LowAllow > 0 {
			m.BlockChain.HighAllowPackHeight = o.HighAllow
			m.BlockChain.LowAllowPackHeight = o.LowAllow
		}
	})
}

// NewNodeCfgAt is NewNodeCfg with the blockchain database and the state store kept in dir
// (goleveldb), so that closing the node and calling NewNodeCfgAt on the same dir again is a RESTART
// (NewBlockStore / InitBlockChain / InitCache / InitIndexAndBestView recover from the database).
func NewNodeCfgAt(dir string, o NodeCfg) *Node {
	abs, err := filepath.Abs(dir)
	if err != nil {
		panic(err)
	}
	tmp, err := filepath.Abs(os.TempDir())
	if err != nil {
		panic(err)
	}
	rel, err := filepath.Rel(tmp, abs)
	if err != nil {
		panic(err)
	}
	return newNodeWith(func(m *types.Config) {
		m.BlockChain.IsRecordBlockSequence = o.RecordSequence
		m.BlockChain.EnablePushSubscribe = false
		if o.HighAllow > 0 && o.LowAllow > 0 {
			m.BlockChain.HighAllowPackHeight = o.HighAllow
			m.BlockChain.LowAllowPackHeight = o.LowAllow
		}
		// util.ResetDatadir joins the configured path to a fresh directory under os.TempDir()
		m.BlockChain.DbPath = filepath.Join("..", rel, "chain")
		m.Store.DbPath = filepath.Join("..", rel, "store")
	})
}

// WaitWalletRescan blocks until the wallet's background rescan of the imported accounts (started
// by util/testnode on every start: OnImportPrivateKey -> go rescanReqTxDetailByAddr) has reached
// the oldest transaction of the genesis account, i.e. is finished for it.  The rescan walks the
// address index newest-first while the harness may be reorganising the chain; a transaction that
// is disconnected between its two queries makes wallet.GetTxDetailByHashs dereference a nil
// transaction and kills the process — so deliveries wait for the rescan (deadline: 120 s, after
// which the harness goes on).  Returns false on deadline.
func (n *Node) WaitWalletRescan() bool {
	deadline := time.Now().Add(120 * time.Second)
	for time.Now().Before(deadline) {
		r, err := n.Mock.GetAPI().ExecWalletFunc("wallet", "WalletTransactionList",
			&types.ReqWalletTransactionList{Count: 1, Direction: 1})
		if err == nil {
			if l, ok := r.(*types.WalletTxDetails); ok && len(l.TxDetails) > 0 && l.TxDetails[0].Height == 0 {
				return true
			}
		}
		time.Sleep(5 * time.Millisecond)
	}
	return false
}

// ExecKeepAll executes EVERY transaction of b on the producer's executor/store exactly as listed
// (no duplicate removal, nothing dropped — what a peer that wants the body accepted would compute)
// and commits the resulting state; answers the state root and whether any receipt was ExecErr.
func ExecKeepAll(p *Node, parentState []byte, b *types.Block) (state []byte, execErr bool, err error) {
	cp := types.Clone(b).(*types.Block)
	client := p.Mock.GetClient()
	receipts, err := util.ExecTx(client, parentState, cp)
	if err != nil {
		return nil, false, err
	}
	var kvset []*types.KeyValue
	for _, r := range receipts.GetReceipts() {
		if r.Ty == types.ExecErr {
			execErr = true
			continue
		}
		kvset = append(kvset, r.KV...)
	}
	kvset = util.DelDupKey(kvset)
	state, err = util.ExecKVMemSet(client, parentState, cp.Height, kvset, true, false)
	if err != nil {
		return nil, execErr, err
	}
	if err = util.ExecKVSetCommit(client, state, false); err != nil {
		return nil, execErr, err
	}
	return state, execErr, nil
}

func newNodeWith(f func(m *types.Config)) *Node {
	cfg := testnode.GetDefaultConfig()
	m := cfg.GetModuleConfig()
	m.Consensus.Minerstart = false
	m.Log.LogConsoleLevel = "crit"
	m.Log.Loglevel = "crit"
	f(m)
	mock := testnode.NewWithConfig(cfg, nil)
	log.SetLogLevel("crit")
	return &Node{Mock: mock, Chain: mock.GetBlockChain(), Cfg: cfg}
}

// KeyFromSeed returns a deterministic secp256k1 private key (seed 1..).
func KeyFromSeed(seed int) crypto.PrivKey {
	c, err := crypto.Load(types.GetSignName("", types.SECP256K1), -1)
	if err != nil {
		panic(err)
	}
	b := make([]byte, 32)
	for i := range b {
		b[i] = byte(17*seed + 3*i + 1)
	}
	b[0] = 0x11
	k, err := c.PrivKeyFromBytes(b)
	if err != nil {
		panic(err)
	}
	return k
}

// AddrOf is the default-format address of a key.
func AddrOf(k crypto.PrivKey) string {
	return address.PubKeyToAddr(address.DefaultID, k.PubKey().Bytes())
}

// TxSpec describes one generated coins transfer.
type TxSpec struct {
	From    crypto.PrivKey
	To      string
	Amount  int64
	Nonce   int64
	Fee     int64
	Expire  int64
	ChainID int32
}

// BuildTx makes and signs the transfer.
func BuildTx(cfg *types.Chain33Config, s TxSpec) *types.Transaction {
	tx := util.CreateCoinsTx(cfg, nil, s.To, s.Amount)
	tx.Nonce = s.Nonce
	tx.Fee = s.Fee
	tx.Expire = s.Expire
	tx.ChainID = s.ChainID
	tx.Sign(types.SECP256K1, s.From)
	return tx
}

// MakeBlock assembles a block on parent with exactly the given transactions (no execution):
// header fields as util.CreateNewBlock sets them, TxHash over the given list.
func MakeBlock(cfg *types.Chain33Config, parent *types.Block, txs []*types.Transaction, bits uint32, salt int64) *types.Block {
	b := &types.Block{}
	b.Height = parent.Height + 1
	b.BlockTime = parent.BlockTime + 1 + salt
	b.ParentHash = parent.Hash(cfg)
	for _, tx := range txs {
		b.Txs = append(b.Txs, types.CloneTx(tx))
	}
	b.Difficulty = bits
	b.TxHash = merkle.CalcMerkleRoot(cfg, b.Height, b.Txs)
	return b
}

// ProduceRaw executes block b (made by MakeBlock) on the producer's executor/store as the block's
// own producer does (errReturn=false: duplicates and failing transactions are dropped, TxHash and
// StateHash are filled in).  Returns the finished block.  The input is not modified.
func ProduceRaw(p *Node, parentState []byte, b *types.Block) (*types.Block, error) {
	cp := types.Clone(b).(*types.Block)
	d, _, err := util.ExecBlock(p.Mock.GetClient(), parentState, cp, false, true, false)
	if err != nil {
		return nil, err
	}
	return d.Block, nil
}

// ForgeRaw executes the transactions like ProduceRaw but keeps the body exactly as given when
// nothing was dropped; when the producer path dropped transactions, ok=false.
func ForgeRaw(p *Node, parentState []byte, b *types.Block) (blk *types.Block, ok bool, err error) {
	out, err := ProduceRaw(p, parentState, b)
	if err != nil {
		return nil, false, err
	}
	return out, len(out.Txs) == len(b.Txs), nil
}

// DeliverFrom hands a copy of b to ProcessBlock as broadcast (true) or sync (false) block of pid.
func (n *Node) DeliverFrom(b *types.Block, pid string, broadcast bool) (res Result) {
	defer func() {
		if e := recover(); e != nil {
			res = Result{Err: "panic"}
		}
	}()
	cp := types.Clone(b).(*types.Block)
	_, ismain, isorphan, err := n.Chain.ProcessBlock(broadcast, &types.BlockDetail{Block: cp}, pid, true, -1)
	return Result{Main: ismain, Orphan: isorphan, Err: ErrEnum2(err)}
}

// ErrEnum2 extends ErrEnum with the errors of the validity checks.
func ErrEnum2(err error) string {
	switch err {
	case types.ErrEmptyTx:
		return "emptytx"
	case types.ErrBlockTime:
		return "blocktime"
	case types.ErrParentHash:
		return "parenthash"
	case types.ErrBlockHeight:
		return "blockheight"
	}
	if err != nil && err.Error() == types.ErrEmptyTx.Error() {
		return "emptytx"
	}
	if err != nil && err.Error() == types.ErrBlockTime.Error() {
		return "blocktime"
	}
	return ErrEnum(err)
}

// PoolSend submits tx to the node's mempool; returns "" or the error text.
func (n *Node) PoolSend(tx *types.Transaction) string {
	_, err := n.Mock.GetAPI().SendTx(types.CloneTx(tx))
	if err != nil {
		return err.Error()
	}
	return ""
}

// PoolHas reports whether the mempool holds a transaction with this hash.
func (n *Node) PoolHas(hash []byte) bool {
	r, err := n.Mock.GetAPI().GetMempool(&types.ReqGetMempool{})
	if err != nil || r == nil {
		return false
	}
	for _, tx := range r.Txs {
		if string(tx.Hash()) == string(hash) {
			return true
		}
	}
	return false
}

// BalanceAtTip reads the coins balance of addr in the state of the last header.
func (n *Node) BalanceAtTip(addr string) (bal int64, ok bool) {
	defer func() {
		if e := recover(); e != nil {
			bal, ok = 0, false
		}
	}()
	last := n.Chain.GetStore().LastHeader()
	acc := n.Mock.GetAccount(last.StateHash, addr)
	return acc.Balance, true
}

// BlockAt returns the main-chain block at a height (nil when absent).
func (n *Node) BlockAt(h int64) *types.Block {
	d, err := n.Chain.GetStore().LoadBlock(h, nil)
	if err != nil || d == nil {
		return nil
	}
	return d.Block
}

// StoredByHash returns what the block store serves under a block hash (nil when absent).
func (n *Node) StoredByHash(hash []byte) *types.Block {
	d, err := n.Chain.GetStore().LoadBlockByHash(hash)
	if err != nil || d == nil {
		return nil
	}
	return d.Block
}

// Hx is hex or "-".
func Hx(b []byte) string {
	if len(b) == 0 {
		return "-"
	}
	return hex.EncodeToString(b)
}

var _ = fmt.Sprint
