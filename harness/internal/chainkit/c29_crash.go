package chainkit

// C29 additions: reading the durable-write log of the fault-injection backend, classifying the
// writes of the blockchain / store databases, block files for child processes, and a complete
// listing of the state at a state hash.

import (
	"bufio"
	"bytes"
	"crypto/sha256"
	"encoding/binary"
	"encoding/hex"
	"fmt"
	"os"
	"strings"

	"github.com/33cn/chain33/types"
)

// WriteOp is one operation of a logged durable write.
type WriteOp struct {
	Del   bool
	Key   []byte // cut at 72 bytes by the hook
	Value []byte // cut at 40 bytes by the hook
}

// WriteEntry is one durable write (a point write or an atomic batch).
type WriteEntry struct {
	N    int
	DB   string // "blockchain" | "store"
	Kind string // set | setsync | delete | deletesync | batch | txcommit
	NOps int
	Ops  []WriteOp
}

// ReadWriteLog parses the file written by the backend (VERIF_CRASH_LOG).
func ReadWriteLog(path string) ([]WriteEntry, error) {
	f, err := os.Open(path)
	if err != nil {
		if os.IsNotExist(err) {
			return nil, nil
		}
		return nil, err
	}
	defer f.Close()
	var out []WriteEntry
	sc := bufio.NewScanner(f)
	sc.Buffer(make([]byte, 1<<20), 1<<28)
	for sc.Scan() {
		w := strings.Fields(sc.Text())
		if len(w) < 4 {
			continue
		}
		var e WriteEntry
		fmt.Sscanf(w[0], "%d", &e.N)
		e.DB, e.Kind = w[1], w[2]
		fmt.Sscanf(w[3], "n=%d", &e.NOps)
		for _, o := range w[4:] {
			switch {
			case strings.HasPrefix(o, "D:"):
				k, _ := hex.DecodeString(o[2:])
				e.Ops = append(e.Ops, WriteOp{Del: true, Key: k})
			case strings.HasPrefix(o, "S:"):
				kv := strings.SplitN(o[2:], "=", 2)
				k, _ := hex.DecodeString(kv[0])
				var v []byte
				if len(kv) == 2 {
					v, _ = hex.DecodeString(kv[1])
				}
				e.Ops = append(e.Ops, WriteOp{Key: k, Value: v})
			}
		}
		out = append(out, e)
	}
	return out, sc.Err()
}

// WriteClass is the classified form of a durable write.
//
//	B<id>  blockchain batch of dbMaybeStoreBlock (header/body tables by hash + TD, no last height)
//	S<id>  store batch of ExecBlock (state tree nodes); the block is the one connected next
//	C<id>  blockchain batch of connectBlock   (blockLastHeight + Height:h set)
//	D<id>  blockchain batch of disconnectBlock (blockLastHeight + Height:h deleted)
//	?...   anything else
type WriteClass struct {
	Letter string
	Block  int // tree index, -1 unknown
}

func (c WriteClass) String() string {
	if c.Block < 0 {
		return c.Letter + "?"
	}
	return fmt.Sprintf("%s%d", c.Letter, c.Block)
}

func (e *WriteEntry) find(del bool, prefix string) *WriteOp {
	for i := range e.Ops {
		if e.Ops[i].Del == del && bytes.HasPrefix(e.Ops[i].Key, []byte(prefix)) {
			return &e.Ops[i]
		}
	}
	return nil
}

// ClassifyWrites maps logged writes to classes, and replays the chain batches: best[k] is the
// main chain (tree indices, genesis first) described by the first k writes (best[0] = [0]).
func ClassifyWrites(t *Tree, es []WriteEntry) (cls []WriteClass, best [][]int) {
	cur := []int{0}
	best = append(best, append([]int{}, cur...))
	cls = make([]WriteClass, len(es))
	for i := range es {
		e := &es[i]
		c := WriteClass{Letter: "?" + e.DB + "." + e.Kind, Block: -1}
		switch {
		case e.DB == "store" && e.Kind == "batch":
			c = WriteClass{Letter: "S", Block: -1} // block resolved below (look ahead)
		case e.DB == "blockchain" && e.Kind == "batch":
			last := e.find(false, "blockLastHeight")
			td := e.find(false, "TD:")
			switch {
			case last != nil && e.find(false, "Height:") != nil:
				c = WriteClass{Letter: "C", Block: -1}
				if td != nil {
					c.Block = t.Index(td.Key[3:])
				}
				if c.Block >= 0 {
					cur = append(cur, c.Block)
				}
			case last != nil && e.find(true, "Height:") != nil:
				c = WriteClass{Letter: "D", Block: cur[len(cur)-1]}
				if len(cur) > 1 {
					cur = cur[:len(cur)-1]
				}
			case last == nil && td != nil:
				c = WriteClass{Letter: "B", Block: t.Index(td.Key[3:])}
			}
		}
		cls[i] = c
		best = append(best, append([]int{}, cur...))
	}
	// a state batch belongs to the block whose chain batch follows it
	for i := range cls {
		if cls[i].Letter == "S" {
			for j := i + 1; j < len(cls); j++ {
				if cls[j].Letter == "C" {
					cls[i].Block = cls[j].Block
					break
				}
				if cls[j].Letter == "S" {
					break
				}
			}
		}
	}
	return cls, best
}

// SaveBlocks writes the blocks of a tree (index order, genesis included) to a file.
func SaveBlocks(path string, t *Tree) error {
	var buf bytes.Buffer
	for _, b := range t.Blocks {
		enc := types.Encode(b)
		var l [4]byte
		binary.BigEndian.PutUint32(l[:], uint32(len(enc)))
		buf.Write(l[:])
		buf.Write(enc)
	}
	return os.WriteFile(path, buf.Bytes(), 0o644)
}

// LoadBlocks reads a file written by SaveBlocks.
func LoadBlocks(path string) ([]*types.Block, error) {
	data, err := os.ReadFile(path)
	if err != nil {
		return nil, err
	}
	var out []*types.Block
	for len(data) >= 4 {
		n := int(binary.BigEndian.Uint32(data[:4]))
		data = data[4:]
		if n > len(data) {
			return nil, fmt.Errorf("truncated block file")
		}
		var b types.Block
		if err := types.Decode(data[:n], &b); err != nil {
			return nil, err
		}
		out = append(out, &b)
		data = data[n:]
	}
	return out, nil
}

// StateDigest lists every key/value of the state tree at stateHash through the store module
// (EventStoreList, mode 1) and returns the number of entries and a digest of the listing.
func (n *Node) StateDigest(stateHash []byte) (count int, digest string, err error) {
	defer func() {
		if e := recover(); e != nil {
			err = fmt.Errorf("panic: %v", e)
		}
	}()
	h := sha256.New()
	start := []byte("mavl-")
	for {
		rep, e := n.Mock.GetAPI().StoreList(&types.StoreList{StateHash: stateHash, Start: start, End: []byte("mavl."), Count: 4096, Mode: 1})
		if e != nil {
			return count, "", e
		}
		for i := range rep.Keys {
			var l [8]byte
			binary.BigEndian.PutUint32(l[:4], uint32(len(rep.Keys[i])))
			binary.BigEndian.PutUint32(l[4:], uint32(len(rep.Values[i])))
			h.Write(l[:])
			h.Write(rep.Keys[i])
			h.Write(rep.Values[i])
			count++
		}
		if len(rep.NextKey) == 0 || rep.Num < rep.Count {
			break
		}
		start = rep.NextKey
	}
	return count, hex.EncodeToString(h.Sum(nil)[:12]), nil
}
