package chainkit

// C29 additions: a node whose blockchain and store databases live in a directory that survives
// the process (and Node.Close), opened through the fault-injection backend "verifcrashdb"
// (/repo/common/db/crashdb_verif.go, build tag verif).

import (
	"os"
	"path/filepath"

	"github.com/33cn/chain33/common/log"
	"github.com/33cn/chain33/util/testnode"
)

// CrashBackend is the name of the counting/crashing goleveldb wrapper.
const CrashBackend = "verifcrashdb"

// NewNodeAt starts a non-mining node whose blockchain database is <dir>/chain/blockchain.db and
// whose state store is <dir>/store/store.db.  A fresh directory gives a node holding only the
// genesis block; an existing one is a restart (NewBlockStore / InitBlockChain recover the chain
// from the database).  backend "" means CrashBackend.  Wallet, p2p address book and logs stay in
// the per-start temporary directory of util/testnode.
func NewNodeAt(dir string, backend string, o Options) *Node {
	if backend == "" {
		backend = CrashBackend
	}
	cfg := testnode.GetDefaultConfig()
	m := cfg.GetModuleConfig()
	m.Consensus.Minerstart = false
	m.BlockChain.IsRecordBlockSequence = o.RecordSequence
	m.BlockChain.EnablePushSubscribe = o.PushSubscribe
	m.Log.LogConsoleLevel = "crit"
	m.Log.Loglevel = "crit"
	m.BlockChain.Driver = backend
	m.Store.Driver = backend
	// util.ResetDatadir joins the configured path to a fresh directory under os.TempDir();
	// "../<rel>" walks back out of it to the requested place.
	abs, err := filepath.Abs(dir)
	if err != nil {
		panic(err)
	}
	tmp, err := filepath.Abs(os.TempDir())
	if err != nil {
		panic(err)
	}
	rel, err := filepath.Rel(tmp, abs)
	if err != nil {
		panic(err)
	}
	m.BlockChain.DbPath = filepath.Join("..", rel, "chain")
	m.Store.DbPath = filepath.Join("..", rel, "store")
	mock := testnode.NewWithConfig(cfg, nil)
	log.SetLogLevel("crit")
	return &Node{Mock: mock, Chain: mock.GetBlockChain(), Cfg: cfg}
}
