// Package chainkit: reusable plumbing for the chain properties (C25–C29, C32).
//
//   - NewNode: a non-mining util/testnode (genesis only) whose *blockchain.BlockChain accepts
//     blocks through ProcessBlock;
//   - Mint: builds a *block tree* deterministically from a list of BlockSpec on one producer node
//     (util.CreateNewBlock + util.ExecBlock on the parent's state hash; the producer's store keeps
//     every state root, its blockchain module stays at genesis);
//   - Deliver: ProcessBlock with a canonical result;
//   - View/Snapshot: the persisted main-chain view of a node (height->hash, headers, bodies,
//     tx lookups, total difficulties, sequence log, a state read at the tip) in canonical form.
//
// Block identity on the wire is the index of the block in the tree (0 = genesis), never a hash.
package chainkit

import (
	"bytes"
	"encoding/hex"
	"fmt"
	"math/big"
	"os"
	"sort"
	"strings"
	"syscall"

	"github.com/33cn/chain33/blockchain"
	"github.com/33cn/chain33/common/address"
	"github.com/33cn/chain33/common/crypto"
	"github.com/33cn/chain33/common/difficulty"
	"github.com/33cn/chain33/common/log"
	"github.com/33cn/chain33/types"
	"github.com/33cn/chain33/util"
	"github.com/33cn/chain33/util/testnode"

	// plugin registration (executors, consensus, store, mempool, crypto)
	_ "github.com/33cn/chain33/system"
)

// Init must be called once per process before any node is made and before the protocol writer
// (gen.NewOut) is created: scratch dir under $VERIF_TMP, and — because chain33's console logger
// writes to the process's stdout (fd 1), with a level filter fixed by util/testnode's init —
// fd 1 is pointed at /dev/null while os.Stdout becomes a duplicate of the original stdout, so
// only the harness's own protocol lines reach the orchestrator.
func Init() {
	if t := os.Getenv("VERIF_TMP"); t != "" {
		_ = os.MkdirAll(t, 0o755)
		os.Setenv("TMPDIR", t)
	}
	nfd, err := syscall.Dup(1)
	if err == nil {
		if dn, err2 := os.OpenFile(os.DevNull, os.O_WRONLY, 0); err2 == nil {
			if err3 := syscall.Dup3(int(dn.Fd()), 1, 0); err3 == nil {
				os.Stdout = os.NewFile(uintptr(nfd), "protocol")
			}
		}
	}
	log.SetLogLevel("crit")
}

// Options of a node.
type Options struct {
	RecordSequence bool // blockchain.isRecordBlockSequence
	PushSubscribe  bool // blockchain.enablePushSubscribe
}

// Node is a running non-mining testnode.
type Node struct {
	Mock  *testnode.Chain33Mock
	Chain *blockchain.BlockChain
	Cfg   *types.Chain33Config
}

// NewNode starts a node that only holds the genesis block.
func NewNode(o Options) *Node {
	cfg := testnode.GetDefaultConfig()
	m := cfg.GetModuleConfig()
	m.Consensus.Minerstart = false
	m.BlockChain.IsRecordBlockSequence = o.RecordSequence
	m.BlockChain.EnablePushSubscribe = o.PushSubscribe
	m.Log.LogConsoleLevel = "crit"
	m.Log.Loglevel = "crit"
	mock := testnode.NewWithConfig(cfg, nil)
	log.SetLogLevel("crit")
	return &Node{Mock: mock, Chain: mock.GetBlockChain(), Cfg: cfg}
}

// Close stops the node and removes its data directory.
func (n *Node) Close() { n.Mock.Close() }

// Genesis returns block 0 of the node.
func (n *Node) Genesis() *types.Block {
	d, err := n.Chain.GetBlock(0)
	if err != nil {
		panic("chainkit: no genesis: " + err.Error())
	}
	return d.Block
}

// BlockSpec describes one block of a tree. Parent is an index into the tree (0 = genesis;
// must be smaller than the block's own index). Bits is the header's compact difficulty.
// Salt is added to the block time (distinguishes siblings that are otherwise identical).
// Txs are transaction tags: tag t is a fixed coins transfer (same tag = byte-identical tx), so
// blocks on different branches can carry the same transaction.
type BlockSpec struct {
	Parent int
	Bits   uint32
	Salt   int64
	Txs    []int
}

// Tree is a minted block tree; index 0 is the genesis block.
type Tree struct {
	Specs  []BlockSpec // Specs[0] is a placeholder for genesis
	Blocks []*types.Block
	Hash   [][]byte
	Height []int64
	Work   []*big.Int // CalcWork(bits)
	TD     []*big.Int // total difficulty along the path from genesis
	id     map[string]int
	txs    map[int]*types.Transaction
	cfg    *types.Chain33Config
}

// ID maps a block hash to its tree index; unknown hashes give "?<hex8>".
func (t *Tree) ID(hash []byte) string {
	if len(hash) == 0 {
		return "-"
	}
	if i, ok := t.id[string(hash)]; ok {
		return fmt.Sprint(i)
	}
	h := hex.EncodeToString(hash)
	if len(h) > 8 {
		h = h[:8]
	}
	return "?" + h
}

// Index returns the tree index of a hash (-1 when unknown).
func (t *Tree) Index(hash []byte) int {
	if i, ok := t.id[string(hash)]; ok {
		return i
	}
	return -1
}

// Path returns the indices from genesis (0) to i inclusive.
func (t *Tree) Path(i int) []int {
	var p []int
	for {
		p = append(p, i)
		if i == 0 {
			break
		}
		i = t.Specs[i].Parent
	}
	for a, b := 0, len(p)-1; a < b; a, b = a+1, b-1 {
		p[a], p[b] = p[b], p[a]
	}
	return p
}

// Tx returns the transaction for a tag.
func (t *Tree) Tx(tag int) *types.Transaction { return t.txs[tag] }

// TxTags lists every tag used in the tree (sorted).
func (t *Tree) TxTags() []int {
	var r []int
	for k := range t.txs {
		r = append(r, k)
	}
	sort.Ints(r)
	return r
}

// Recipient is the fixed receiving address of every generated transfer.
const Recipient = "1JmFaA6unrCFYEWPGRi7uuXY1KthTJxJEP"

// MakeTx builds the deterministic coins transfer for a tag (fixed nonce, fee, no expiry).
func MakeTx(cfg *types.Chain33Config, priv crypto.PrivKey, tag int) *types.Transaction {
	tx := util.CreateCoinsTx(cfg, nil, Recipient, int64(1000+tag))
	tx.Nonce = int64(7_000_000 + tag)
	tx.Expire = 0
	tx.Fee = 1_000_000
	tx.Sign(types.SECP256K1, priv)
	return tx
}

// Mint builds the tree described by specs (specs[0] is ignored: genesis) on the producer node.
// Nothing is delivered to the producer's blockchain module; only its store learns the states.
func Mint(p *Node, specs []BlockSpec) (*Tree, error) {
	cfg := p.Cfg
	t := &Tree{Specs: specs, id: map[string]int{}, txs: map[int]*types.Transaction{}, cfg: cfg}
	g := p.Genesis()
	n := len(specs)
	t.Blocks = make([]*types.Block, n)
	t.Hash = make([][]byte, n)
	t.Height = make([]int64, n)
	t.Work = make([]*big.Int, n)
	t.TD = make([]*big.Int, n)
	t.Blocks[0] = g
	t.Hash[0] = g.Hash(cfg)
	t.Work[0] = difficulty.CalcWork(g.Difficulty)
	t.TD[0] = new(big.Int).Set(t.Work[0])
	t.id[string(t.Hash[0])] = 0
	priv := p.Mock.GetGenesisKey()
	client := p.Mock.GetClient()
	for i := 1; i < n; i++ {
		s := specs[i]
		if s.Parent < 0 || s.Parent >= i {
			return nil, fmt.Errorf("spec %d: bad parent %d", i, s.Parent)
		}
		parent := t.Blocks[s.Parent]
		var txs []*types.Transaction
		for _, tag := range s.Txs {
			tx, ok := t.txs[tag]
			if !ok {
				tx = MakeTx(cfg, priv, tag)
				t.txs[tag] = tx
			}
			txs = append(txs, types.CloneTx(tx))
		}
		b := util.CreateNewBlock(cfg, parent, txs)
		b.BlockTime = parent.BlockTime + 1 + s.Salt
		b.Difficulty = s.Bits
		d, _, err := util.ExecBlock(client, parent.StateHash, b, false, true, false)
		if err != nil {
			return nil, fmt.Errorf("mint block %d: %v", i, err)
		}
		if len(d.Block.Txs) != len(s.Txs) {
			return nil, fmt.Errorf("mint block %d: %d of %d txs survived execution", i, len(d.Block.Txs), len(s.Txs))
		}
		blk := d.Block
		t.Blocks[i] = blk
		t.Hash[i] = blk.Hash(cfg)
		if j, dup := t.id[string(t.Hash[i])]; dup {
			return nil, fmt.Errorf("spec %d duplicates block %d", i, j)
		}
		t.id[string(t.Hash[i])] = i
		t.Height[i] = blk.Height
		t.Work[i] = difficulty.CalcWork(blk.Difficulty)
		t.TD[i] = new(big.Int).Add(t.TD[s.Parent], t.Work[i])
	}
	return t, nil
}

// BitsForWork returns compact bits whose CalcWork is close to w (w >= 1).
func BitsForWork(w int64) uint32 {
	one := new(big.Int).Lsh(big.NewInt(1), 256)
	target := new(big.Int).Div(one, big.NewInt(w))
	target.Sub(target, big.NewInt(1))
	return difficulty.BigToCompact(target)
}

// Result of a delivery in canonical form.
type Result struct {
	Main   bool
	Orphan bool
	Err    string // "" | exist | parentnoexist | heightnomatch | ... (small enum)
}

func (r Result) String() string {
	switch {
	case r.Err != "":
		return r.Err
	case r.Orphan:
		return "orphan"
	case r.Main:
		return "main"
	default:
		return "side"
	}
}

// ErrEnum maps an error of the blockchain module to a small stable enum.
func ErrEnum(err error) string {
	switch err {
	case nil:
		return ""
	case types.ErrBlockExist:
		return "exist"
	case types.ErrParentBlockNoExist:
		return "parentnoexist"
	case types.ErrBlockHeightNoMatch:
		return "heightnomatch"
	case types.ErrBlockHashNoMatch:
		return "hashnomatch"
	case types.ErrParentTdNoExist:
		return "parenttdnoexist"
	case types.ErrHashNotExist:
		return "hashnotexist"
	case types.ErrIsClosed:
		return "closed"
	case types.ErrCheckTxHash:
		return "checktxhash"
	case types.ErrCheckStateHash:
		return "checkstatehash"
	case types.ErrTxDup:
		return "txdup"
	case types.ErrSign:
		return "sign"
	case types.ErrBlockExec:
		return "blockexec"
	}
	return "err:" + strings.ReplaceAll(err.Error(), " ", "_")
}

// Deliver hands a copy of block b to the node as coming from peer pid.
func (n *Node) Deliver(b *types.Block, pid string) (res Result) {
	defer func() {
		if e := recover(); e != nil {
			res = Result{Err: "panic"}
		}
	}()
	cp := types.Clone(b).(*types.Block)
	_, ismain, isorphan, err := n.Chain.ProcessBlock(false, &types.BlockDetail{Block: cp}, pid, true, 0)
	return Result{Main: ismain, Orphan: isorphan, Err: ErrEnum(err)}
}

// ---------------------------------------------------------------------------- views

// Tip returns (hash, height) of the last header.
func (n *Node) Tip() ([]byte, int64) {
	h := n.Chain.GetStore().LastHeader()
	return h.Hash, h.Height
}

// TD returns the stored total difficulty of a block hash (nil when absent).
func (n *Node) TD(hash []byte) *big.Int {
	td, err := n.Chain.GetStore().GetTdByBlockHash(hash)
	if err != nil {
		return nil
	}
	return td
}

// HashAt returns the main-chain hash at a height (nil when absent).
func (n *Node) HashAt(h int64) []byte {
	hash, err := n.Chain.GetStore().GetBlockHashByHeight(h)
	if err != nil {
		return nil
	}
	return hash
}

// MainChain returns the height->hash index from 0 up to the store height, plus whether the
// entries just above (height+1, height+2) are absent.
func (n *Node) MainChain() (hashes [][]byte, cleanAbove bool) {
	top := n.Chain.GetStore().Height()
	for h := int64(0); h <= top; h++ {
		hashes = append(hashes, n.HashAt(h))
	}
	cleanAbove = n.HashAt(top+1) == nil && n.HashAt(top+2) == nil
	return
}

// SeqLog returns the sequence log as (type, hash) records 0..last, and the last sequence (-1: none).
func (n *Node) SeqLog() (recs []*types.BlockSequence, last int64) {
	last, err := n.Chain.GetStore().LoadBlockLastSequence()
	if err != nil {
		return nil, -1
	}
	for s := int64(0); s <= last; {
		e := s + 900
		if e > last {
			e = last
		}
		r, err := n.Chain.GetBlockSequences(&types.ReqBlocks{Start: s, End: e})
		if err != nil || r == nil {
			for ; s <= e; s++ {
				recs = append(recs, nil)
			}
			continue
		}
		recs = append(recs, r.Items...)
		s = e + 1
	}
	return recs, last
}

// TxHeight returns the height recorded in the transaction index for a tx hash (-1 when absent).
func (n *Node) TxHeight(hash []byte) int64 {
	r, err := n.Chain.GetStore().GetTx(hash)
	if err != nil || r == nil {
		return -1
	}
	return r.Height
}

// SeqOf returns the sequence number recorded for a block hash (-1 when none).
func (n *Node) SeqOf(hash []byte) int64 {
	s, err := n.Chain.GetStore().GetSequenceByHash(hash)
	if err != nil {
		return -1
	}
	return s
}

// Snapshot is the canonical persisted main-chain view used to compare two nodes.
type Snapshot struct {
	Lines []string
}

// Equal compares two snapshots; returns the first differing line pair.
func (s *Snapshot) Equal(o *Snapshot) (bool, string) {
	for i := 0; i < len(s.Lines) || i < len(o.Lines); i++ {
		var a, b string
		if i < len(s.Lines) {
			a = s.Lines[i]
		}
		if i < len(o.Lines) {
			b = o.Lines[i]
		}
		if a != b {
			return false, fmt.Sprintf("%q vs %q", a, b)
		}
	}
	return true, ""
}

func hx(b []byte) string {
	if len(b) == 0 {
		return "-"
	}
	return hex.EncodeToString(b)
}

// Snap reads the persisted chain of the node: last header, height index, header and body at
// every height (by height and by hash), total difficulty of every main-chain block, lookup of
// every transaction tag of the tree (found: height/index/receipt type; or absent), and the
// recipient's and genesis account's balance in the state at the tip.
func (n *Node) Snap(t *Tree) *Snapshot {
	s := &Snapshot{}
	add := func(f string, a ...interface{}) { s.Lines = append(s.Lines, fmt.Sprintf(f, a...)) }
	store := n.Chain.GetStore()
	last := store.LastHeader()
	add("last height=%d hash=%s state=%s parent=%s txhash=%s diff=%d time=%d txcount=%d", last.Height, hx(last.Hash),
		hx(last.StateHash), hx(last.ParentHash), hx(last.TxHash), last.Difficulty, last.BlockTime, last.TxCount)
	add("storeheight %d chainheight %d", store.Height(), n.Chain.GetBlockHeight())
	if lh, err := n.Chain.ProcGetLastHeaderMsg(); err == nil {
		add("lastheadermsg %d %s", lh.Height, hx(lh.Hash))
	} else {
		add("lastheadermsg err")
	}
	top := store.Height()
	for h := int64(0); h <= top+2; h++ {
		hash := n.HashAt(h)
		if hash == nil {
			add("h%d absent", h)
			if hd, err := store.GetBlockHeaderByHeight(h); err == nil && hd != nil {
				add("h%d header-without-index %s", h, hx(hd.Hash))
			}
			continue
		}
		add("h%d hash=%s td=%s", h, hx(hash), bigStr(n.TD(hash)))
		if hd, err := store.GetBlockHeaderByHeight(h); err != nil || hd == nil {
			add("h%d header err", h)
		} else {
			add("h%d header %s", h, hx(types.Encode(hd)))
		}
		if hd, err := store.GetBlockHeaderByHash(hash); err != nil || hd == nil {
			add("h%d headerbyhash err", h)
		} else {
			add("h%d headerbyhash %s", h, hx(types.Encode(hd)))
		}
		if d, err := n.Chain.GetBlock(h); err != nil || d == nil {
			add("h%d block err", h)
		} else {
			add("h%d block %s receipts=%s", h, hx(d.Block.Hash(n.Cfg)), receiptStr(d.Receipts))
			// GetBlock may answer from the in-memory block cache; a block cached on the reorganize
			// path was loaded from the DB (MainHash/MainHeight filled in by loadBlockByIndex), one cached
			// on the direct path is the peer's block (both fields empty).  These two derived fields are
			// not part of the persisted chain (LoadBlock below compares the DB content raw).
			cb := types.Clone(d.Block).(*types.Block)
			cb.MainHash, cb.MainHeight = nil, 0
			add("h%d blockbytes %s", h, hx(types.Encode(cb)))
		}
		if d, err := store.LoadBlock(h, nil); err != nil || d == nil {
			add("h%d loadblock err", h)
		} else {
			add("h%d loadblock %s receipts=%s", h, hx(types.Encode(d.Block)), receiptStr(d.Receipts))
		}
	}
	if t != nil {
		for _, tag := range t.TxTags() {
			tx := t.Tx(tag)
			r, err := store.GetTx(tx.Hash())
			if err != nil || r == nil {
				add("tx%d absent", tag)
				continue
			}
			add("tx%d height=%d index=%d ty=%d same=%v", tag, r.Height, r.Index, r.GetReceiptdate().GetTy(),
				bytes.Equal(r.GetTx().Hash(), tx.Hash()))
			if d, err := n.Chain.ProcQueryTxMsg(tx.Hash()); err != nil || d == nil {
				add("tx%d query err", tag)
			} else {
				add("tx%d query height=%d index=%d ty=%d", tag, d.Height, d.Index, d.GetReceipt().GetTy())
			}
		}
	}
	for _, addr := range []string{Recipient, n.Mock.GetGenesisAddress()} {
		res := guard(func() string {
			acc := n.Mock.GetAccount(last.StateHash, addr)
			return fmt.Sprintf("%d/%d", acc.Balance, acc.Frozen)
		})
		add("state %s %s", addr, res)
	}
	return s
}

func guard(f func() string) (r string) {
	defer func() {
		if e := recover(); e != nil {
			r = "panic"
		}
	}()
	return f()
}

func bigStr(b *big.Int) string {
	if b == nil {
		return "none"
	}
	return b.String()
}

func receiptStr(rs []*types.ReceiptData) string {
	var sb strings.Builder
	sb.WriteString(fmt.Sprint(len(rs)))
	for _, r := range rs {
		sb.WriteString(fmt.Sprintf(":%d/%d", r.Ty, len(r.Logs)))
	}
	return sb.String()
}

// GenesisAddress is exported for callers that need the funded account.
func (n *Node) GenesisAddress() string {
	return address.PubKeyToAddr(address.DefaultID, n.Mock.GetGenesisKey().PubKey().Bytes())
}
