// Package orderrun is the delivery-order harness shared by h_c25 (C25: best chain converges to
// the heaviest branch for any delivery order) and h_c26 (C26: block sequence log replays to the
// best chain); other chain properties can reuse the op language through Interpret.
//
// A *case* is a block tree (declared with `blk` lines, minted on a producer node) and a delivery
// order given to a fresh non-mining testnode through BlockChain.ProcessBlock.  Op lines
// (implementation output after the TAB is compared with the Lean driver drv_c25 / drv_c26):
//
//	case <name> <fin> <margin> <rec> <gbits>     new node under test            -> tip=0 h=0 td=<n>
//	blk <id> <parent> <height> <bits> <salt> <tx,tx|->   declare a block        -> ok
//	deliver <id>                                  ProcessBlock                  -> <main|side|orphan|exist|..> tip=<id> h=<h> td=<n>
//	chain                                         height->hash index            -> <id>,<id>,... | clean|dirty
//	td <id>                                       stored total difficulty       -> <n>|none
//	seqs                                          sequence log                  -> A<id> D<id> ... last=<n>
//	seqof <id>                                    hash->sequence                -> <n>|none
//	isorphan <id>                                 orphan pool membership        -> yes|no
//	tx <tag>                                      transaction index lookup      -> <height>|none
//	end                                           predicates, close node        -> ok
//
// Block ids are tree indices (0 = genesis).  Predicates evaluated on the implementation itself:
// convergence to the unique heaviest eligible branch, persisted chain identical to a fresh node
// fed only the winning branch, sequence numbers consecutive from 0 and replay = height->hash.
package orderrun

import (
	"bufio"
	"bytes"
	"fmt"
	"math/big"
	"os"
	"os/exec"
	"strconv"
	"strings"
	"time"

	"github.com/33cn/chain33/types"

	"verifharness/internal/chainkit"
	"verifharness/internal/gen"
)

var out *gen.Out
var prop = "C25"
var samples int

const (
	finalized = 0  // finalizer.choice.Height of a node without a configured finalizer
	margin    = 12 // connectBestChain: node.height < finalized+12
)

// ---------------------------------------------------------------------------- interpreter

type env struct {
	producer *chainkit.Node
	node     *chainkit.Node
	name     string
	rec      bool
	specs    []chainkit.BlockSpec
	declH    []int64
	tree     *chainkit.Tree
	seen     map[int]int // deliveries per id
	order    []int
	refs     map[string]*chainkit.Snapshot // reference snapshots by (tree signature, winner)
	broken   bool
	dir      string // data directory of the node under test (survives `restart`)
	ncase    int
	clock    int64 // seconds the node's clock runs ahead
	junk     int   // junk orphans delivered
	finMax   int64 // highest finalised height observed in this case
	restarts int
	lim, ttl int
	evs      []string // events of the case in order (for failure details)
}

func (e *env) closeNode() {
	if e.node != nil {
		e.node.Close()
		e.node = nil
	}
	if e.dir != "" {
		os.RemoveAll(e.dir)
		e.dir = ""
	}
	if e.clock != 0 {
		e.clock = 0
		chainkit.SetClockAhead(0)
	}
}

func (e *env) openNode() {
	e.node = chainkit.NewNodeAt(e.dir, "leveldb", chainkit.Options{RecordSequence: e.rec, PushSubscribe: false})
}

func (e *env) noteFin() int64 {
	h, _ := e.node.Finalized()
	if h > e.finMax {
		e.finMax = h
	}
	return h
}

func (e *env) ensureTree() bool {
	if e.tree != nil {
		return true
	}
	t, err := chainkit.Mint(e.producer, e.specs)
	if err != nil {
		out.Note("mint failed: " + err.Error())
		e.broken = true
		return false
	}
	for i := 1; i < len(e.specs); i++ {
		if t.Height[i] != e.declH[i] {
			out.Note(fmt.Sprintf("declared height %d of block %d differs from minted %d", e.declH[i], i, t.Height[i]))
			e.broken = true
			return false
		}
	}
	e.tree = t
	return true
}

func (e *env) tipStr() string {
	hash, h := e.node.Tip()
	return fmt.Sprintf("tip=%s h=%d td=%s", e.tree.ID(hash), h, bigS(e.node.TD(hash)))
}

func bigS(b *big.Int) string {
	if b == nil {
		return "none"
	}
	return b.String()
}

func atoi(s string) (int, bool) {
	n, err := strconv.Atoi(s)
	return n, err == nil
}

// run executes one op line and returns the implementation's answer.
func (e *env) run(line string) string {
	w := strings.Fields(line)
	if len(w) == 0 {
		return "bad-op"
	}
	switch w[0] {
	case "case":
		if len(w) != 6 && len(w) != 8 {
			return "bad-op"
		}
		e.closeNode()
		e.lim, e.ttl = 10240, 600
		if len(w) == 8 {
			l, ok1 := atoi(w[6])
			t, ok2 := atoi(w[7])
			sl, st, _ := chainkit.OrphanLimits()
			if !ok1 || !ok2 || l != sl || t != st {
				return "bad-op" // the line must carry the constants of the source under test
			}
			e.lim, e.ttl = l, t
		}
		e.junk, e.finMax, e.restarts = 0, 0, 0
		e.evs = nil
		e.ncase++
		base := os.Getenv("VERIF_TMP")
		if base == "" {
			base = os.TempDir()
		}
		e.dir = fmt.Sprintf("%s/c25node.%d.%d", base, os.Getpid(), e.ncase)
		os.RemoveAll(e.dir)
		e.name = w[1]
		e.rec = w[4] == "1"
		e.specs = []chainkit.BlockSpec{{}}
		e.declH = []int64{0}
		e.tree = nil
		e.seen = map[int]int{}
		e.order = nil
		e.broken = false
		if w[2] != fmt.Sprint(finalized) || w[3] != fmt.Sprint(margin) {
			return "bad-op"
		}
		chainkit.PrimeFinalizer(e.dir)
		e.openNode()
		g := e.node.Genesis()
		if fmt.Sprint(g.Difficulty) != w[5] {
			return "bad-op"
		}
		hash, h := e.node.Tip()
		id := "?"
		if bytes.Equal(hash, g.Hash(e.node.Cfg)) {
			id = "0"
		}
		return fmt.Sprintf("tip=%s h=%d td=%s", id, h, bigS(e.node.TD(hash)))
	case "blk":
		if len(w) != 7 || e.node == nil || e.tree != nil {
			return "bad-op"
		}
		id, ok1 := atoi(w[1])
		par, ok2 := atoi(w[2])
		h, ok3 := atoi(w[3])
		bits, err4 := strconv.ParseUint(w[4], 10, 32)
		salt, ok5 := atoi(w[5])
		if !ok1 || !ok2 || !ok3 || err4 != nil || !ok5 || id != len(e.specs) || par < 0 || par >= id {
			return "bad-op"
		}
		var txs []int
		if w[6] != "-" {
			for _, s := range strings.Split(w[6], ",") {
				t, ok := atoi(s)
				if !ok {
					return "bad-op"
				}
				txs = append(txs, t)
			}
		}
		e.specs = append(e.specs, chainkit.BlockSpec{Parent: par, Bits: uint32(bits), Salt: int64(salt), Txs: txs})
		e.declH = append(e.declH, int64(h))
		return "ok"
	}
	if e.node == nil || e.broken {
		return "bad-op"
	}
	if !e.ensureTree() {
		return "bad-op"
	}
	switch w[0] {
	case "tick":
		if len(w) != 2 {
			return "bad-op"
		}
		n, ok := atoi(w[1])
		if !ok || n < 0 {
			return "bad-op"
		}
		e.clock += int64(n)
		chainkit.SetClockAhead(e.clock)
		e.evs = append(e.evs, "tick"+w[1])
		out.Stat("ticks", 1)
		return "ok"
	case "fin":
		if len(w) != 1 {
			return "bad-op"
		}
		return fmt.Sprintf("fin=%d", e.noteFin())
	case "restart":
		if len(w) != 1 {
			return "bad-op"
		}
		e.node.Close()
		e.openNode()
		// let the wallet's start-up scan finish (see chainkit.WaitWalletScan): genesis tx + every
		// transaction of the main chain (all are sent by a wallet key)
		want := 1
		hs, _ := e.node.MainChain()
		for _, h := range hs[1:] {
			if i := e.tree.Index(h); i > 0 {
				want += len(e.tree.Blocks[i].Txs)
			}
		}
		if !e.node.WaitWalletScan(want, 10*time.Second) {
			out.Note("wallet scan did not reach the expected count")
		}
		e.restarts++
		e.evs = append(e.evs, "restart")
		out.Stat("restarts", 1)
		e.noteFin()
		return e.tipStr()
	case "junk":
		if len(w) != 2 {
			return "bad-op"
		}
		n, ok := atoi(w[1])
		if !ok || n < 0 {
			return "bad-op"
		}
		for k := 0; k < n; k++ {
			r := e.node.Deliver(chainkit.JunkBlock(e.junk+k), "peerJ")
			if r.String() != "orphan" {
				out.Note("junk block not taken as orphan: " + r.String())
			}
		}
		e.junk += n
		e.evs = append(e.evs, "junk"+w[1])
		out.Stat("junk_orphans", int64(n))
		return "ok"
	case "isjunk":
		if len(w) != 2 {
			return "bad-op"
		}
		k, ok := atoi(w[1])
		if !ok || k < 0 {
			return "bad-op"
		}
		if e.node.Chain.GetOrphanPool().IsKnownOrphan(chainkit.JunkBlock(k).Hash(e.node.Cfg)) {
			return "yes"
		}
		return "no"
	}
	if w[0] == "tx" {
		if len(w) != 2 {
			return "bad-op"
		}
		tag, ok := atoi(w[1])
		if !ok || tag < 0 {
			return "bad-op"
		}
		tx := e.tree.Tx(tag)
		if tx == nil {
			return "none"
		}
		if h := e.node.TxHeight(tx.Hash()); h >= 0 {
			return fmt.Sprint(h)
		}
		return "none"
	}
	arg := func() (int, bool) {
		if len(w) != 2 {
			return 0, false
		}
		id, ok := atoi(w[1])
		if !ok || id < 0 || id >= len(e.specs) {
			return 0, false
		}
		return id, true
	}
	switch w[0] {
	case "deliver":
		id, ok := arg()
		if !ok || id == 0 {
			return "bad-op"
		}
		r := e.node.Deliver(e.tree.Blocks[id], fmt.Sprintf("peer%d", id%3))
		e.seen[id]++
		e.order = append(e.order, id)
		e.evs = append(e.evs, w[1])
		out.Stat("deliver_"+r.String(), 1)
		return r.String() + " " + e.tipStr()
	case "finalize":
		id, ok := arg()
		if !ok {
			return "bad-op"
		}
		h := e.node.Finalize(e.tree.Height[id], e.tree.Hash[id])
		if h > e.finMax {
			e.finMax = h
		}
		e.evs = append(e.evs, fmt.Sprintf("fin%d->%d", id, h))
		out.Stat("finalize_ops", 1)
		return fmt.Sprintf("fin=%d", h)
	case "chain":
		hs, clean := e.node.MainChain()
		ids := make([]string, len(hs))
		for i, h := range hs {
			ids[i] = e.tree.ID(h)
		}
		c := "clean"
		if !clean {
			c = "dirty"
		}
		return strings.Join(ids, ",") + " " + c
	case "td":
		id, ok := arg()
		if !ok {
			return "bad-op"
		}
		return bigS(e.node.TD(e.tree.Hash[id]))
	case "seqs":
		recs, last := e.node.SeqLog()
		return seqStr(e.tree, recs) + fmt.Sprintf("last=%d", last)
	case "seqof":
		id, ok := arg()
		if !ok {
			return "bad-op"
		}
		s := e.node.SeqOf(e.tree.Hash[id])
		if s < 0 {
			return "none"
		}
		return fmt.Sprint(s)
	case "isorphan":
		id, ok := arg()
		if !ok {
			return "bad-op"
		}
		if e.node.Chain.GetOrphanPool().IsKnownOrphan(e.tree.Hash[id]) {
			return "yes"
		}
		return "no"
	case "end":
		if len(w) != 1 {
			return "bad-op"
		}
		e.predicates()
		e.closeNode()
		return "ok"
	}
	return "bad-op"
}

func seqStr(t *chainkit.Tree, recs []*types.BlockSequence) string {
	var sb strings.Builder
	for _, r := range recs {
		switch {
		case r == nil:
			sb.WriteString("nil ")
		case r.Type == types.AddBlock:
			sb.WriteString("A" + t.ID(r.Hash) + " ")
		case r.Type == types.DelBlock:
			sb.WriteString("D" + t.ID(r.Hash) + " ")
		default:
			sb.WriteString(fmt.Sprintf("T%d:%s ", r.Type, t.ID(r.Hash)))
		}
	}
	return sb.String()
}

// ---------------------------------------------------------------------------- predicates

func (e *env) detail() string {
	var sb strings.Builder
	sb.WriteString("case=" + e.name + " tree=")
	for i := 1; i < len(e.specs); i++ {
		s := e.specs[i]
		sb.WriteString(fmt.Sprintf("%d<-%d@%d/w%s ", i, s.Parent, e.tree.Height[i], e.tree.Work[i]))
	}
	sb.WriteString("events=" + strings.Join(e.evs, " "))
	return sb.String()
}

func (e *env) predicates() {
	t := e.tree
	n := e.node
	// --- C26: sequence numbers consecutive from 0, replay = height->hash (whenever recording is on)
	if e.rec {
		recs, last := n.SeqLog()
		var stack [][]byte
		okReplay := true
		if int64(len(recs)) != last+1 {
			out.Pred(prop+"|GetBlockSequences|count-differs-from-last-sequence", e.detail())
		}
		for i, r := range recs {
			if r == nil {
				out.Pred(prop+"|GetBlockSequences|gap-in-sequence-numbers", fmt.Sprintf("seq=%d %s", i, e.detail()))
				okReplay = false
				break
			}
			switch r.Type {
			case types.AddBlock:
				stack = append(stack, r.Hash)
			case types.DelBlock:
				if len(stack) == 0 || !bytes.Equal(stack[len(stack)-1], r.Hash) {
					out.Pred(prop+"|saveBlockSequence|del-record-does-not-match-top", fmt.Sprintf("seq=%d %s", i, e.detail()))
					okReplay = false
				} else {
					stack = stack[:len(stack)-1]
				}
			default:
				out.Pred(prop+"|saveBlockSequence|unknown-record-type", fmt.Sprintf("seq=%d %s", i, e.detail()))
				okReplay = false
			}
			if !okReplay {
				break
			}
		}
		if okReplay {
			hs, clean := n.MainChain()
			same := len(hs) == len(stack) && clean
			for i := 0; same && i < len(hs); i++ {
				same = bytes.Equal(hs[i], stack[i])
			}
			if !same {
				out.Pred(prop+"|saveBlockSequence|replay-differs-from-height-index", e.detail())
			}
			// hash->seq points at the latest add record of every main-chain block
			for i, h := range hs {
				s := n.SeqOf(h)
				if s < 0 || s >= int64(len(recs)) || recs[s] == nil || recs[s].Type != types.AddBlock || !bytes.Equal(recs[s].Hash, h) {
					out.Pred(prop+"|saveBlockSequence|hash-to-seq-not-an-add-record", fmt.Sprintf("height=%d %s", i, e.detail()))
					break
				}
			}
		}
		out.Stat("seq_logs_checked", 1)
		out.Stat("seq_records", int64(len(recs)))
	}
	// --- C25: convergence (only when the whole tree was delivered)
	for i := 1; i < len(e.specs); i++ {
		if e.seen[i] == 0 {
			out.Stat("cases_partial_delivery", 1)
			return
		}
	}
	best, uniq := 0, true
	for i := 1; i < len(e.specs); i++ {
		c := t.TD[i].Cmp(t.TD[best])
		if c > 0 {
			best, uniq = i, true
		} else if c == 0 {
			uniq = false
		}
	}
	out.Stat("cases_full_delivery", 1)
	// outside the hypotheses of order_independent (Props/C25.lean): a restart forgets side branches
	// and orphans; orphans expire after orphanExpirationTime; the pool holds maxOrphanBlocks blocks
	e.noteFin()
	switch {
	case e.restarts > 0:
		out.Stat("cases_with_restart", 1)
		return
	case e.clock > int64(e.ttl):
		out.Stat("cases_beyond_orphan_expiry", 1)
		return
	case len(e.specs)-1+e.junk > e.lim:
		out.Stat("cases_beyond_orphan_limit", 1)
		return
	}
	// nothing may be left in the orphan pool, every block has its TD stored
	for i := 1; i < len(e.specs); i++ {
		if n.Chain.GetOrphanPool().IsKnownOrphan(t.Hash[i]) {
			out.Pred(prop+"|ProcessOrphans|orphan-left-after-full-delivery", fmt.Sprintf("block=%d %s", i, e.detail()))
			break
		}
		if td := n.TD(t.Hash[i]); td == nil || td.Cmp(t.TD[i]) != 0 {
			out.Pred(prop+"|dbMaybeStoreBlock|total-difficulty-wrong-or-missing", fmt.Sprintf("block=%d %s", i, e.detail()))
			break
		}
	}
	if !uniq {
		out.Stat("cases_heaviest_not_unique", 1)
		return
	}
	if t.Height[best] < e.finMax+margin {
		out.Stat("cases_heaviest_below_margin", 1)
		return
	}
	out.Stat("cases_convergence_checked", 1)
	if samples < 2 {
		samples++
		out.Sample(fmt.Sprintf("heaviest=%d td=%s %s", best, t.TD[best], trunc(e.detail(), 480)))
	}
	tip, _ := n.Tip()
	if !bytes.Equal(tip, t.Hash[best]) {
		out.Pred(prop+"|connectBestChain|tip-is-not-the-unique-heaviest-branch",
			fmt.Sprintf("tip=%s want=%d %s", t.ID(tip), best, e.detail()))
		return
	}
	path := t.Path(best)
	hs, clean := n.MainChain()
	same := clean && len(hs) == len(path)
	for i := 0; same && i < len(hs); i++ {
		same = bytes.Equal(hs[i], t.Hash[path[i]])
	}
	if !same {
		out.Pred(prop+"|reorganizeChain|height-index-is-not-the-winning-branch", e.detail())
		return
	}
	// persisted chain identical to a fresh node that received only the winning branch, in order
	key := fmt.Sprintf("%p/%d", t, best)
	_ = key
	ref := e.reference(path)
	got := n.Snap(t)
	if ok, d := got.Equal(ref); !ok {
		out.Pred(prop+"|persisted-chain|differs-from-fresh-node-fed-winning-branch", fmt.Sprintf("first-diff=%s %s", trunc(d, 400), e.detail()))
	}
	out.Stat("snapshot_lines_compared", int64(len(ref.Lines)))
}

func trunc(s string, n int) string {
	if len(s) > n {
		return s[:n] + "…"
	}
	return s
}

// reference snapshot: a fresh node fed only the winning branch in order (memoised per branch).
func (e *env) reference(path []int) *chainkit.Snapshot {
	var kb strings.Builder
	for _, i := range path {
		kb.Write(e.tree.Hash[i])
	}
	// tx tags of the whole tree are looked up, so the key also carries them
	kb.WriteString(fmt.Sprint(e.tree.TxTags()))
	key := kb.String()
	if s, ok := e.refs[key]; ok {
		out.Stat("reference_nodes_reused", 1)
		return s
	}
	r := chainkit.NewNode(chainkit.Options{RecordSequence: e.rec})
	defer r.Close()
	for _, i := range path[1:] {
		res := r.Deliver(e.tree.Blocks[i], "peerR")
		if res.String() != "main" {
			out.Pred(prop+"|reference-node|in-order-delivery-not-main", fmt.Sprintf("block=%d res=%s %s", i, res, e.detail()))
		}
	}
	s := r.Snap(e.tree)
	e.refs[key] = s
	out.Stat("reference_nodes", 1)
	return s
}

// ---------------------------------------------------------------------------- generation

type blk struct {
	parent, height int
	work           int64
	salt           int
	txs            []int
}

type tcase struct {
	name   string
	rec    bool
	blocks []blk // index 0 unused (genesis)
	order  []int
	each   bool // observe chain/seqs after every delivery
	// pre[i]: extra op lines (tick / finalize / restart / junk / fin) issued before delivery i;
	// pre[len(order)]: before the final observations
	pre map[int][]string
}

const gbits = 0x1f2fffff // solo genesis difficulty (checked against the node on `case`)

func (c *tcase) lines() []string {
	var ls []string
	rec := 0
	if c.rec {
		rec = 1
	}
	lim, ttl, _ := chainkit.OrphanLimits()
	ls = append(ls, fmt.Sprintf("case %s %d %d %d %d %d %d", c.name, finalized, margin, rec, gbits, lim, ttl))
	for i := 1; i < len(c.blocks); i++ {
		b := c.blocks[i]
		tx := "-"
		if len(b.txs) > 0 {
			var s []string
			for _, t := range b.txs {
				s = append(s, fmt.Sprint(t))
			}
			tx = strings.Join(s, ",")
		}
		ls = append(ls, fmt.Sprintf("blk %d %d %d %d %d %s", i, b.parent, b.height, chainkit.BitsForWork(b.work), b.salt, tx))
	}
	tagSet := map[int]bool{}
	var tags []int
	for i := 1; i < len(c.blocks); i++ {
		for _, t := range c.blocks[i].txs {
			if !tagSet[t] {
				tagSet[t] = true
				tags = append(tags, t)
			}
		}
	}
	for idx, id := range c.order {
		ls = append(ls, c.pre[idx]...)
		ls = append(ls, fmt.Sprintf("deliver %d", id))
		if c.each {
			ls = append(ls, "chain")
			if c.rec {
				ls = append(ls, "seqs")
			}
			for _, t := range tags {
				if bs := c.blocks[id]; t/4 >= bs.height-1 { // only tags near the delivered height
					ls = append(ls, fmt.Sprintf("tx %d", t))
				}
			}
		}
	}
	ls = append(ls, c.pre[len(c.order)]...)
	ls = append(ls, "chain", "fin")
	for _, t := range tags {
		ls = append(ls, fmt.Sprintf("tx %d", t))
	}
	ls = append(ls, "tx 99999")
	for i := 0; i < len(c.blocks); i++ {
		ls = append(ls, fmt.Sprintf("td %d", i))
		ls = append(ls, fmt.Sprintf("isorphan %d", i))
	}
	ls = append(ls, "seqs")
	if c.rec {
		for i := 0; i < len(c.blocks); i++ {
			ls = append(ls, fmt.Sprintf("seqof %d", i))
		}
	}
	ls = append(ls, "end")
	return ls
}

// genTree: a trunk of `trunk` blocks on genesis, then `extra` blocks attached to random earlier
// blocks (biased to recent ones and to the top of the trunk so that forks straddle the margin).
func genTree(r *gen.Rand, trunk, extra int, maxWork int64) []blk {
	bs := []blk{{}}
	for h := 1; h <= trunk; h++ {
		bs = append(bs, blk{parent: h - 1, height: h, work: 1 + int64(r.Intn(int(maxWork)))})
	}
	for k := 0; k < extra; k++ {
		var p int
		switch r.Pick(5, 3, 2) {
		case 0: // extend a recent block
			p = len(bs) - 1 - r.Intn(min(len(bs)-1, 3))
		case 1: // fork near the top of the trunk
			p = max(0, trunk-r.Intn(4))
		default:
			p = r.Intn(len(bs))
		}
		bs = append(bs, blk{parent: p, height: bs[p].height + 1, work: 1 + int64(r.Intn(int(maxWork)))})
	}
	// now and then one block is much heavier than the rest: short heavy branches beat long light
	// ones (reorganisations to a LOWER height must clean the height index above the new tip)
	if r.Chance(1, 3) {
		k := 1 + r.Intn(2)
		for j := 0; j < k; j++ {
			i := trunk + 1 + r.Intn(max(1, len(bs)-trunk-1))
			if i < len(bs) {
				bs[i].work = maxWork * int64(2+r.Intn(4))
			}
		}
	}
	// salts make siblings distinct; transactions: tag = height*4 + variant, so the same tag can
	// appear on different branches (same height) but never twice on one path.
	kids := map[int]int{}
	for i := 1; i < len(bs); i++ {
		bs[i].salt = kids[bs[i].parent]
		kids[bs[i].parent]++
		// (solo's CheckBlock rejects empty blocks, so every block carries at least one)
		switch r.Pick(0, 7, 3) {
		case 1:
			bs[i].txs = []int{bs[i].height*4 + r.Intn(3)}
		case 2:
			a := r.Intn(3)
			bs[i].txs = []int{bs[i].height*4 + a, bs[i].height*4 + (a+1+r.Intn(2))%3}
		}
	}
	return bs
}

func perms(xs []int) [][]int {
	if len(xs) <= 1 {
		return [][]int{append([]int{}, xs...)}
	}
	var res [][]int
	for i := range xs {
		rest := append(append([]int{}, xs[:i]...), xs[i+1:]...)
		for _, p := range perms(rest) {
			res = append(res, append([]int{xs[i]}, p...))
		}
	}
	return res
}

func seqInts(a, b int) []int { // a..b inclusive
	var r []int
	for i := a; i <= b; i++ {
		r = append(r, i)
	}
	return r
}

// randomOrder: a delivery order of ids 1..n-1 with a chosen flavour.
func randomOrder(r *gen.Rand, bs []blk, trunk int) []int {
	n := len(bs)
	ids := seqInts(1, n-1)
	var order []int
	switch r.Pick(3, 2, 2, 2, 1) {
	case 0: // full shuffle
		for _, i := range r.Perm(len(ids)) {
			order = append(order, ids[i])
		}
	case 1: // trunk in order, the rest shuffled
		order = append(order, seqInts(1, trunk)...)
		rest := seqInts(trunk+1, n-1)
		for _, i := range r.Perm(len(rest)) {
			order = append(order, rest[i])
		}
	case 2: // children before parents (reverse), trunk last
		for i := n - 1; i >= 1; i-- {
			order = append(order, i)
		}
	case 3: // upper part first (all orphans), then the trunk shuffled
		rest := seqInts(trunk+1, n-1)
		for _, i := range r.Perm(len(rest)) {
			order = append(order, rest[i])
		}
		tr := seqInts(1, trunk)
		for _, i := range r.Perm(len(tr)) {
			order = append(order, tr[i])
		}
	default: // in order (BFS by index)
		order = ids
	}
	// duplicates: re-deliver some blocks at random positions
	if r.Chance(1, 2) {
		k := 1 + r.Intn(4)
		for j := 0; j < k; j++ {
			id := ids[r.Intn(len(ids))]
			pos := r.Intn(len(order) + 1)
			order = append(order[:pos], append([]int{id}, order[pos:]...)...)
		}
	}
	return order
}

// checkable: the heaviest block (by requested work) is unique and at least `margin` above the
// finalised height, i.e. the convergence predicate applies to the fully delivered tree.
func checkable(bs []blk) bool {
	td := make([]int64, len(bs))
	best, uniq := 0, true
	for i := 1; i < len(bs); i++ {
		td[i] = td[bs[i].parent] + bs[i].work
		if td[i] > td[best] {
			best, uniq = i, true
		} else if td[i] == td[best] {
			uniq = false
		}
	}
	return uniq && bs[best].height >= finalized+margin
}

// genChecked draws trees until one is checkable (3 of 4 cases) or gives up after a few tries;
// the remaining quarter keeps ties / winners below the margin for the model comparison.
func genChecked(r *gen.Rand, trunk, extra int, maxWork int64) []blk {
	want := r.Chance(3, 4)
	var bs []blk
	for try := 0; try < 12; try++ {
		bs = genTree(r, trunk, extra, maxWork)
		if !want || checkable(bs) {
			break
		}
	}
	return bs
}

func genCases(seed uint64) []tcase {
	r := gen.New(seed*0x9e37 + 25)
	var cs []tcase
	rec := func() bool { return prop == "C26" || r.Chance(3, 4) }
	// (a) all orders of small trees above a trunk delivered in order
	nSmall := gen.Scale(8, 60)
	for i := 0; i < nSmall; i++ {
		trunk := 10 + r.Intn(4) // 10..13: forks straddle the margin 12
		k := 3 + r.Intn(2)      // 3..4 upper blocks
		if gen.Thorough() && r.Chance(1, 4) {
			k = 5
		}
		if gen.Thorough() && i < 3 {
			k = 6 // 720 orders each
		}
		bs := genChecked(r, trunk, k, 4)
		rc := rec()
		upper := seqInts(trunk+1, trunk+k)
		for j, p := range perms(upper) {
			order := append(seqInts(1, trunk), p...)
			if r.Chance(1, 4) { // a duplicate somewhere after the trunk
				id := upper[r.Intn(len(upper))]
				pos := trunk + r.Intn(len(p)+1)
				order = append(order[:pos], append([]int{id}, order[pos:]...)...)
			}
			cs = append(cs, tcase{name: fmt.Sprintf("small%d.%d", i, j), rec: rc, blocks: bs, order: order, each: true})
		}
	}
	// (b) sampled orders of larger trees
	nBig := gen.Scale(16, 120)
	for i := 0; i < nBig; i++ {
		trunk := 8 + r.Intn(6)
		extra := 6 + r.Intn(gen.Scale(14, 24))
		bs := genChecked(r, trunk, extra, int64(1+r.Intn(6)))
		rc := rec()
		orders := 1 + r.Intn(3)
		for j := 0; j < orders; j++ {
			c := tcase{name: fmt.Sprintf("big%d.%d", i, j), rec: rc, blocks: bs,
				order: randomOrder(r, bs, trunk), each: r.Chance(1, 2)}
			flavour(r, &c, trunk)
			cs = append(cs, c)
		}
	}
	if gen.Thorough() {
		for i := 0; i < 2; i++ {
			cs = append(cs, limitCase(r, i))
		}
	}
	return cs
}

// flavour sprinkles extension events over a case: finaliser requests (mostly low trunk blocks, so
// that the margin rule still lets branches win; sometimes arbitrary blocks, stale or off-chain
// ones), clock ticks (small ones, rarely one beyond the orphan expiry), restarts.
func flavour(r *gen.Rand, c *tcase, trunk int) {
	c.pre = map[int][]string{}
	n := len(c.order)
	add := func(pos int, op ...string) { c.pre[pos] = append(c.pre[pos], op...) }
	_, ttl, _ := chainkit.OrphanLimits()
	pRestart := 6
	if prop == "C26" {
		pRestart = 2
	}
	if r.Chance(1, 3) { // finaliser
		k := 1 + r.Intn(4)
		for j := 0; j < k; j++ {
			id := 1 + r.Intn(min(trunk, 4))
			if r.Chance(1, 4) {
				id = 1 + r.Intn(len(c.blocks)-1)
			}
			add(r.Intn(n+1), fmt.Sprintf("finalize %d", id), "fin")
		}
	}
	if r.Chance(1, 4) { // clock
		budget := ttl
		for j := 0; j < 1+r.Intn(3); j++ {
			d := 1 + r.Intn(budget/3)
			add(r.Intn(n+1), fmt.Sprintf("tick %d", d))
		}
		if r.Chance(1, 4) {
			add(r.Intn(n+1), fmt.Sprintf("tick %d", ttl+1))
		}
	}
	if r.Chance(1, pRestart) { // restart
		for j := 0; j < 1+r.Intn(2); j++ {
			add(r.Intn(n+1), "restart", "chain", "seqs", "fin")
		}
	}
}

// limitCase: the pool is filled to maxOrphanBlocks with orphans that belong to no tree while the
// upper part of a chain waits in it (delivered children first); what the node evicts, and the
// stale oldestOrphan pointer, are compared with the model.  Expensive (quadratic sweep): thorough.
func limitCase(r *gen.Rand, i int) tcase {
	lim, _, _ := chainkit.OrphanLimits()
	trunk := 12
	up := 4 + r.Intn(3)
	bs := []blk{{}}
	for h := 1; h <= trunk+up; h++ {
		bs = append(bs, blk{parent: h - 1, height: h, work: 2, txs: []int{h * 4}})
	}
	c := tcase{name: fmt.Sprintf("limit%d", i), rec: r.Bool(), blocks: bs, pre: map[int][]string{}}
	c.order = seqInts(1, trunk-1)
	start := len(c.order)
	// children first, the missing link (block `trunk`) last
	for id := trunk + up; id > trunk; id-- {
		c.order = append(c.order, id)
	}
	c.order = append(c.order, trunk)
	// junk fills the pool at a random point of the children-first phase, a little more afterwards
	fill := lim - up + r.Intn(4) - 1
	pos := start + r.Intn(up)
	c.pre[pos] = append(c.pre[pos], fmt.Sprintf("junk %d", fill), "isjunk 0", "isjunk 1")
	c.pre[len(c.order)-1] = append(c.pre[len(c.order)-1], fmt.Sprintf("junk %d", r.Intn(3)), "isjunk 0", "isjunk 1", "isjunk 2")
	c.pre[len(c.order)] = append(c.pre[len(c.order)], fmt.Sprintf("junk %d", 1+r.Intn(4)), "isjunk 0", "isjunk 1", "isjunk 2", "isjunk 3")
	return c
}

// ---------------------------------------------------------------------------- main

// Interpret executes op lines in this process (one producer node, one node under test per case).
func Interpret(lines []string) {
	chainkit.Init()
	out = gen.NewOut()
	e := &env{refs: map[string]*chainkit.Snapshot{}}
	e.producer = chainkit.NewNode(chainkit.Options{})
	defer e.producer.Close()
	for _, l := range lines {
		res := gen.Guard(func() string { return e.run(l) })
		out.Op(l, res)
	}
	e.closeNode()
	out.Flush()
}

func workers() int {
	if v := os.Getenv("VERIF_WORKERS"); v != "" {
		if n, err := strconv.Atoi(v); err == nil && n >= 1 {
			return n
		}
	}
	return 6
}

// Main runs the harness for property p ("C25" or "C26").
func Main(p string) {
	prop = p
	if raceMain() {
		return
	}
	if ls := gen.ReplayLines(); ls != nil {
		Interpret(ls)
		return
	}
	cases := genCases(gen.Seed())
	// worker mode: interpret the slice of cases given by VERIF_C25_SLICE=i/n
	if s := os.Getenv("VERIF_C25_SLICE"); s != "" {
		var i, n int
		fmt.Sscanf(s, "%d/%d", &i, &n)
		var lines []string
		for k := range cases {
			if k%n == i {
				lines = append(lines, cases[k].lines()...)
			}
		}
		Interpret(lines)
		return
	}
	// parent: fan out to worker processes, print their outputs in slice order
	n := workers()
	if n > len(cases) {
		n = len(cases)
	}
	outs := make([][]byte, n)
	errs := make([]error, n)
	done := make(chan int, n)
	for i := 0; i < n; i++ {
		go func(i int) {
			cmd := exec.Command(os.Args[0])
			cmd.Env = append(os.Environ(), fmt.Sprintf("VERIF_C25_SLICE=%d/%d", i, n))
			cmd.Stderr = os.Stderr
			outs[i], errs[i] = cmd.Output()
			done <- i
		}(i)
	}
	for i := 0; i < n; i++ {
		<-done
	}
	w := bufio.NewWriter(os.Stdout)
	defer w.Flush()
	rc := 0
	for i := 0; i < n; i++ {
		w.Write(outs[i])
		if errs[i] != nil {
			fmt.Fprintf(os.Stderr, "worker %d: %v\n", i, errs[i])
			rc = 4
		}
	}
	fmt.Fprintf(w, "#STAT cases %d\n#STAT workers %d\n", len(cases), n)
	w.Flush()
	if rc != 0 {
		os.Exit(rc)
	}
}
