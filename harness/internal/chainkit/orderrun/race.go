package orderrun

import (
	"fmt"
	"os"
	"runtime"
	"strconv"
	"sync"
	"sync/atomic"

	"verifharness/internal/chainkit"
	"verifharness/internal/gen"
)

// RaceResult of one concurrent-delivery experiment.
type RaceResult struct {
	Attempts int // parent/child pairs handed to ProcessBlock from two goroutines
	Stranded int // child left in the orphan pool although its parent is on the chain
	First    int // height of the first stranded child (0: none)
}

// ConcurrentPairs delivers a linear chain of n valid blocks to a fresh node two at a time:
// block i and block i+1 are handed to BlockChain.ProcessBlock by two goroutines started together
// (this is what ProcRecvMsg does: every EventBroadcastAddBlock / EventSyncBlock message gets its
// own `go chain.processMsg`).  After BOTH calls have returned, the child must either be on the
// chain or — if it arrived first — have been taken out of the orphan pool by the parent's
// ProcessOrphans.  A child that is still in the pool while its parent is indexed is stranded: no
// further event of the node will ever connect it (only a re-delivery does).  `spin` busy goroutines
// oversubscribe the CPUs so that the operating system preempts threads at arbitrary points.
func ConcurrentPairs(r *gen.Rand, n, spin int) RaceResult {
	p := chainkit.NewNode(chainkit.Options{})
	defer p.Close()
	specs := []chainkit.BlockSpec{{}}
	for h := 1; h <= n; h++ {
		specs = append(specs, chainkit.BlockSpec{Parent: h - 1, Bits: chainkit.BitsForWork(2), Txs: []int{h * 4}})
	}
	t, err := chainkit.Mint(p, specs)
	if err != nil {
		out.Note("race: mint failed: " + err.Error())
		return RaceResult{}
	}
	node := chainkit.NewNode(chainkit.Options{RecordSequence: true})
	defer node.Close()
	var stop int32
	for i := 0; i < spin; i++ {
		go func() {
			x := 0
			for atomic.LoadInt32(&stop) == 0 {
				x++
			}
			_ = x
		}()
	}
	defer atomic.StoreInt32(&stop, 1)
	res := RaceResult{}
	pool := node.Chain.GetOrphanPool()
	for i := 1; i+1 <= n; i += 2 {
		var wg sync.WaitGroup
		start := make(chan struct{})
		wg.Add(2)
		childFirst := r.Bool()
		go func() { defer wg.Done(); <-start; node.Deliver(t.Blocks[i], "peerA") }()
		go func() {
			defer wg.Done()
			<-start
			if !childFirst {
				runtime.Gosched()
			}
			node.Deliver(t.Blocks[i+1], "peerB")
		}()
		close(start)
		wg.Wait()
		res.Attempts++
		if pool.IsKnownOrphan(t.Hash[i+1]) && node.HashAt(int64(i)) != nil {
			res.Stranded++
			if res.First == 0 {
				res.First = i + 1
			}
			// a re-delivery takes the "known orphan whose parent exists" path and connects it
			node.Deliver(t.Blocks[i+1], "peerB")
		}
		if tip, h := node.Tip(); h != int64(i+1) || string(tip) != string(t.Hash[i+1]) {
			out.Note(fmt.Sprintf("race: chain did not advance to %d (tip height %d)", i+1, h))
			break
		}
	}
	return res
}

// raceMain: VERIF_C25_RACE=<blocks>[,<spin>] runs the experiment and prints counters.
func raceMain() bool {
	v := os.Getenv("VERIF_C25_RACE")
	if v == "" {
		return false
	}
	n, spin := 200, 0
	fmt.Sscanf(v, "%d,%d", &n, &spin)
	if s := os.Getenv("VERIF_C25_RACE_PROCS"); s != "" {
		if k, err := strconv.Atoi(s); err == nil {
			runtime.GOMAXPROCS(k)
		}
	}
	chainkit.Init()
	out = gen.NewOut()
	r := ConcurrentPairs(gen.New(gen.Seed()), n, spin)
	out.Stat("race_attempts", int64(r.Attempts))
	out.Stat("race_stranded", int64(r.Stranded))
	if r.Stranded > 0 {
		out.Pred(prop+"|ProcessBlock|concurrent-child-stranded-in-orphan-pool",
			fmt.Sprintf("pairs=%d stranded=%d first-stranded-height=%d (blocks i, i+1 of a linear chain handed to ProcessBlock by two goroutines)",
				r.Attempts, r.Stranded, r.First))
	}
	out.Note(fmt.Sprintf("race: attempts=%d stranded=%d first=%d", r.Attempts, r.Stranded, r.First))
	out.Flush()
	return true
}
