// Package gen: one splitmix64 PRNG per run (VERIF_SEED) and small structured generators.
// Every random choice of a harness derives from one Rand so that a run replays exactly.
package gen

import (
	"bufio"
	"fmt"
	"os"
	"strconv"
)

// Rand is splitmix64.
type Rand struct{ s uint64 }

// New returns a generator seeded with seed.
func New(seed uint64) *Rand { return &Rand{s: seed} }

// Seed reads VERIF_SEED (default 1).
func Seed() uint64 {
	if v := os.Getenv("VERIF_SEED"); v != "" {
		if n, err := strconv.ParseUint(v, 10, 64); err == nil {
			return n
		}
		if n, err := strconv.ParseInt(v, 10, 64); err == nil {
			return uint64(n)
		}
	}
	return 1
}

// Thorough reports VERIF_TIER=thorough.
func Thorough() bool { return os.Getenv("VERIF_TIER") == "thorough" }

// Scale returns q in quick tier, t in thorough tier; VERIF_SCALE multiplies both.
func Scale(q, t int) int {
	n := q
	if Thorough() {
		n = t
	}
	if v := os.Getenv("VERIF_SCALE"); v != "" {
		if f, err := strconv.ParseFloat(v, 64); err == nil && f > 0 {
			n = int(float64(n) * f)
			if n < 1 {
				n = 1
			}
		}
	}
	return n
}

// U64 returns the next 64 random bits.
func (r *Rand) U64() uint64 {
	r.s += 0x9e3779b97f4a7c15
	z := r.s
	z = (z ^ (z >> 30)) * 0xbf58476d1ce4e5b9
	z = (z ^ (z >> 27)) * 0x94d049bb133111eb
	return z ^ (z >> 31)
}

// Intn returns a value in [0,n).
func (r *Rand) Intn(n int) int {
	if n <= 0 {
		return 0
	}
	return int(r.U64() % uint64(n))
}

// Range returns a value in [lo,hi].
func (r *Rand) Range(lo, hi int) int { return lo + r.Intn(hi-lo+1) }

// Bool is a fair coin.
func (r *Rand) Bool() bool { return r.U64()&1 == 1 }

// Chance is true with probability num/den.
func (r *Rand) Chance(num, den int) bool { return r.Intn(den) < num }

// Bytes returns n random bytes.
func (r *Rand) Bytes(n int) []byte {
	b := make([]byte, n)
	for i := range b {
		b[i] = byte(r.U64())
	}
	return b
}

// BytesFrom returns n bytes drawn from alphabet.
func (r *Rand) BytesFrom(alphabet []byte, n int) []byte {
	b := make([]byte, n)
	for i := range b {
		b[i] = alphabet[r.Intn(len(alphabet))]
	}
	return b
}

// Pick returns a random index weighted by w.
func (r *Rand) Pick(w ...int) int {
	t := 0
	for _, x := range w {
		t += x
	}
	k := r.Intn(t)
	for i, x := range w {
		if k < x {
			return i
		}
		k -= x
	}
	return len(w) - 1
}

// Perm returns a random permutation of 0..n-1.
func (r *Rand) Perm(n int) []int {
	p := make([]int, n)
	for i := range p {
		p[i] = i
	}
	for i := n - 1; i > 0; i-- {
		j := r.Intn(i + 1)
		p[i], p[j] = p[j], p[i]
	}
	return p
}

// Out is the line-protocol writer: every observation is "op<TAB>impl-output".
// Lines starting with "#" are metadata for the orchestrator:
//   #STAT <key> <int>        counters (summed)
//   #SAMPLE <text>           a written-out case for the evidence file
//   #PRED <signature> | <detail>   the property predicate failed on the implementation
type Out struct {
	w     *bufio.Writer
	stats map[string]int64
	order []string
}

// NewOut writes to stdout.
func NewOut() *Out {
	return &Out{w: bufio.NewWriterSize(os.Stdout, 1<<16), stats: map[string]int64{}}
}

// Op emits one operation and the implementation's canonical answer.
func (o *Out) Op(op, impl string) {
	fmt.Fprintf(o.w, "%s\t%s\n", op, impl)
}

// Stat adds n to counter key.
func (o *Out) Stat(key string, n int64) {
	if _, ok := o.stats[key]; !ok {
		o.order = append(o.order, key)
	}
	o.stats[key] += n
}

// Sample records a written-out case.
func (o *Out) Sample(s string) { fmt.Fprintf(o.w, "#SAMPLE %s\n", s) }

// Pred reports a property-predicate failure observed on the implementation itself.
func (o *Out) Pred(signature, detail string) {
	fmt.Fprintf(o.w, "#PRED %s | %s\n", signature, detail)
}

// Note emits a free-form metadata line.
func (o *Out) Note(s string) { fmt.Fprintf(o.w, "#NOTE %s\n", s) }

// Flush writes counters and flushes.
func (o *Out) Flush() {
	for _, k := range o.order {
		fmt.Fprintf(o.w, "#STAT %s %d\n", k, o.stats[k])
	}
	o.order = nil
	o.stats = map[string]int64{}
	o.w.Flush()
}

// Guard runs f and converts a panic into the string "panic".
func Guard(f func() string) (res string) {
	defer func() {
		if e := recover(); e != nil {
			res = "panic"
		}
	}()
	return f()
}

// ReplayLines returns the op lines of a replay/corpus file given as VERIF_REPLAY (one op per line,
// optional "\t..." suffix ignored), or nil.
func ReplayLines() []string {
	p := os.Getenv("VERIF_REPLAY")
	if p == "" {
		return nil
	}
	f, err := os.Open(p)
	if err != nil {
		fmt.Fprintf(os.Stderr, "replay: %v\n", err)
		os.Exit(3)
	}
	defer f.Close()
	var out []string
	sc := bufio.NewScanner(f)
	sc.Buffer(make([]byte, 1<<20), 1<<26)
	for sc.Scan() {
		l := sc.Text()
		if l == "" || l[0] == '#' {
			continue
		}
		for i := 0; i < len(l); i++ {
			if l[i] == '\t' {
				l = l[:i]
				break
			}
		}
		out = append(out, l)
	}
	return out
}
