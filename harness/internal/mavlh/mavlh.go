// Package mavlh is the shared engine of the C01/C02/C03 harnesses: it drives the real
// system/store/mavl (Store) and system/store/mavl/db (Tree, proofs) code in-process on a goleveldb
// scratch database and prints one canonical line per observation (see lean/Chain33Model/Model/C01.lean,
// `C01.Drv.handle`, for the op grammar the Lean driver replays).
package mavlh

import (
	"bytes"
	"crypto/sha256"
	"encoding/binary"
	"encoding/hex"
	"fmt"
	"os"
	"path/filepath"
	"sort"
	"strconv"
	"strings"

	dbm "github.com/33cn/chain33/common/db"
	clog "github.com/33cn/chain33/common/log"
	"github.com/33cn/chain33/queue"
	"github.com/33cn/chain33/system/store/mavl"
	mavldb "github.com/33cn/chain33/system/store/mavl/db"
	"github.com/33cn/chain33/types"

	"verifharness/internal/gen"
)

// Cfg mirrors the store's sub-configuration.
type Cfg struct{ Prefix, Prune, MemTree, MemVal, MVCC bool }

// Bits is the wire form "<prefix><prune><memtree><memval><mvcc>".
func (c Cfg) Bits() string {
	b := func(x bool) string {
		if x {
			return "1"
		}
		return "0"
	}
	return b(c.Prefix) + b(c.Prune) + b(c.MemTree) + b(c.MemVal) + b(c.MVCC)
}

// CfgFromBits parses Bits().
func CfgFromBits(s string) (Cfg, bool) {
	if len(s) != 5 || strings.Trim(s, "01") != "" {
		return Cfg{}, false
	}
	return Cfg{s[0] == '1', s[1] == '1', s[2] == '1', s[3] == '1', s[4] == '1'}, true
}

// CfgFromInt maps 0..31 to a configuration.
func CfgFromInt(i int) Cfg {
	return Cfg{i&1 != 0, i&2 != 0, i&4 != 0, i&8 != 0, i&16 != 0}
}

// KV is one write.
type KV struct{ K, V []byte }

// Eng drives one store at a time.
type Eng struct {
	Out   *gen.Out
	base  string
	n     int
	dir   string
	cfg   Cfg
	store *mavl.Store
	tcfg  *mavldb.TreeConfig
	q     queue.Queue
	lazy  bool
	// PruneHeight is the configured prune interval (0: the default 100000000, i.e. pruning never triggers)
	PruneHeight int32
	// PruneMode: replay files are for the pruning engine ("new <pruneHeight>")
	PruneMode bool
	// JoinPrune: after Set / Commit wait for the background pruning goroutine (verif hook), so that a pruning run
	// triggered by Tree.Save completes before the next operation
	JoinPrune bool
}

// NewEng creates the engine; scratch databases live under $VERIF_TMP.
func NewEng(out *gen.Out) *Eng {
	base := os.Getenv("VERIF_TMP")
	if base == "" {
		base = os.TempDir()
	}
	base = filepath.Join(base, fmt.Sprintf("mavlh.%d", os.Getpid()))
	_ = os.MkdirAll(base, 0o755)
	clog.SetLogLevel("crit")
	mavl.DisableLog()
	return &Eng{Out: out, base: base}
}

// Close releases everything.
func (e *Eng) Close() {
	e.closeStore()
	_ = os.RemoveAll(e.base)
}

func (e *Eng) closeStore() {
	if e.store != nil {
		e.store.Close()
		e.store = nil
	}
	if e.q != nil {
		e.q.Close()
		e.q = nil
	}
}

// AttachQueue connects the current store to a fresh message queue (BaseStore.SetQueueClient): requests sent to topic
// "store" are then handled by BaseStore.processMessage, one goroutine per request.
func (e *Eng) AttachQueue() queue.Client {
	e.q = queue.New("channel")
	e.store.SetQueueClient(e.q.Client())
	return e.q.Client()
}

// DB exposes the store's database (pruning entry points take it).
func (e *Eng) DB() dbm.DB { return e.store.GetDB() }

// TreeCfg is the tree configuration equal to the store's.
func (e *Eng) TreeCfg() *mavldb.TreeConfig { return e.tcfg }

func (e *Eng) open() {
	ph := e.PruneHeight
	if ph == 0 {
		ph = 100000000
	}
	sub := fmt.Sprintf(`{"enableMavlPrefix":%v,"enableMVCC":%v,"enableMavlPrune":%v,"pruneHeight":%d,"enableMemTree":%v,"enableMemVal":%v,"tkCloseCacheLen":100}`,
		e.cfg.Prefix, e.cfg.MVCC, e.cfg.Prune, ph, e.cfg.MemTree, e.cfg.MemVal)
	m := mavl.New(&types.Store{Name: "mavl", Driver: "leveldb", DbPath: e.dir, DbCache: 8}, []byte(sub), nil)
	e.store = m.(*mavl.Store)
	e.tcfg = &mavldb.TreeConfig{
		EnableMavlPrefix: e.cfg.Prefix || e.cfg.Prune,
		EnableMVCC:       e.cfg.MVCC,
		EnableMavlPrune:  e.cfg.Prune,
		PruneHeight:      ph,
		EnableMemTree:    e.cfg.MemTree,
		EnableMemVal:     e.cfg.MemVal,
		TkCloseCacheLen:  100,
	}
}

// Hx is the wire form of a byte string ("." = empty).
func Hx(b []byte) string {
	if len(b) == 0 {
		return "."
	}
	return hex.EncodeToString(b)
}

// HxOpt is the wire form of an optional byte string ("-" = nil, "." = empty non-nil).
func HxOpt(b []byte) string {
	if b == nil {
		return "-"
	}
	return Hx(b)
}

func unhex(s string) ([]byte, bool) {
	if s == "." || s == "-" {
		return nil, true
	}
	b, err := hex.DecodeString(s)
	return b, err == nil
}

func unhexOpt(s string) ([]byte, bool) {
	if s == "-" {
		return nil, true
	}
	if s == "." {
		return []byte{}, true
	}
	b, err := hex.DecodeString(s)
	return b, err == nil
}

// ShowKVs renders a key/value list.
func ShowKVs(kvs []KV) string {
	if len(kvs) == 0 {
		return "-"
	}
	var sb strings.Builder
	for i, kv := range kvs {
		if i > 0 {
			sb.WriteByte(',')
		}
		sb.WriteString(Hx(kv.K))
		sb.WriteByte('=')
		sb.WriteString(Hx(kv.V))
	}
	return sb.String()
}

func showKeys(keys [][]byte) string {
	if len(keys) == 0 {
		return "-"
	}
	s := make([]string, len(keys))
	for i, k := range keys {
		s[i] = Hx(k)
	}
	return strings.Join(s, ",")
}

// New starts a fresh store with configuration c.
func (e *Eng) New(c Cfg) {
	e.closeStore()
	if e.dir != "" {
		_ = os.RemoveAll(e.dir)
	}
	e.n++
	e.dir = filepath.Join(e.base, strconv.Itoa(e.n))
	e.cfg = c
	// memTree / tkCloseCache are process globals keyed by node hash only: a new database in the same
	// process stands for a new process, so they start empty (within one store they carry all history).
	mavldb.ReleaseGlobalMem()
	e.open()
	e.Out.Op("new "+c.Bits(), "ok")
}

// Reopen closes and reopens the database (pending trees are lost).
func (e *Eng) Reopen() {
	e.closeStore()
	e.open()
	e.Out.Op("reopen", "ok")
}

// NewPrune starts a fresh pruning store (EnableMavlPrune, hence prefix) with prune interval ph, as a fresh process
// (package globals of the pruning machinery reset through the verif hook).
func (e *Eng) NewPrune(ph int32) {
	e.closeStore()
	if e.dir != "" {
		_ = os.RemoveAll(e.dir)
	}
	e.n++
	e.dir = filepath.Join(e.base, strconv.Itoa(e.n))
	e.cfg = Cfg{Prefix: true, Prune: true}
	e.PruneHeight = ph
	e.JoinPrune = true
	mavldb.VerifResetGlobals()
	e.open()
	e.Out.Op(fmt.Sprintf("new %d", ph), "ok")
}

// Restart is a process restart on the same database: store closed, pruning globals and caches reset, reopened.
func (e *Eng) Restart() {
	e.closeStore()
	mavldb.VerifResetGlobals()
	e.open()
	e.Out.Op("restart", "ok")
}

// Prune is PruningTree(db, height) (first and second level), synchronously.
func (e *Eng) Prune(height int64) string {
	st := gen.Guard(func() string {
		mavldb.PruningTree(e.store.GetDB(), height, e.tcfg)
		return "ok"
	})
	e.Out.Op(fmt.Sprintf("prune %d", height), st)
	return st
}

// Dump is a digest of every record of the database: "<count> <sha256 of the length-prefixed sorted records>".
func (e *Eng) Dump() string {
	st := gen.Guard(func() string {
		it := e.store.GetDB().Iterator(nil, nil, false)
		defer it.Close()
		h := sha256.New()
		n := 0
		var lb [10]byte
		for it.Rewind(); it.Valid(); it.Next() {
			k, v := it.Key(), it.Value()
			h.Write(lb[:binary.PutUvarint(lb[:], uint64(len(k)))])
			h.Write(k)
			h.Write(lb[:binary.PutUvarint(lb[:], uint64(len(v)))])
			h.Write(v)
			n++
		}
		return fmt.Sprintf("%d %x", n, h.Sum(nil))
	})
	e.Out.Op("dump", st)
	return st
}

// DumpAll lists every record (diagnostic op).
func (e *Eng) DumpAll() string {
	st := gen.Guard(func() string {
		it := e.store.GetDB().Iterator(nil, nil, false)
		defer it.Close()
		var kvs []KV
		for it.Rewind(); it.Valid(); it.Next() {
			kvs = append(kvs, KV{append([]byte{}, it.Key()...), append([]byte{}, it.Value()...)})
		}
		return ShowKVs(kvs)
	})
	e.Out.Op("dumpall", st)
	return st
}

// ColdReopen closes the store, empties the process-global memTree / tkCloseCache and reopens the same database:
// what a process restart does.
func (e *Eng) ColdReopen() {
	e.closeStore()
	mavldb.ReleaseGlobalMem()
	e.open()
	e.Out.Op("reopen", "ok")
}

func storeSet(parent []byte, height int64, kvs []KV) *types.StoreSet {
	s := &types.StoreSet{StateHash: parent, Height: height}
	for _, kv := range kvs {
		s.KV = append(s.KV, &types.KeyValue{Key: kv.K, Value: kv.V})
	}
	return s
}

func rootResult(hash []byte, err error) string {
	if err != nil {
		if err == mavldb.ErrNodeNotExist {
			return "notfound"
		}
		return "err:" + err.Error()
	}
	return "root " + Hx(hash)
}

// Set is Store.Set. status is the printed answer.
func (e *Eng) Set(parent []byte, height int64, kvs []KV) (root []byte, status string) {
	status = gen.Guard(func() string {
		h, err := e.store.Set(storeSet(parent, height, kvs), false)
		root = h
		return rootResult(h, err)
	})
	if e.JoinPrune {
		mavldb.VerifWaitPrune()
	}
	e.Out.Op(fmt.Sprintf("set %s %d %s", Hx(parent), height, ShowKVs(kvs)), status)
	return root, status
}

// Del is DelKVPair (tree API: Tree.Remove for every key, then Tree.Save); returns the new root and removed values.
func (e *Eng) Del(parent []byte, keys [][]byte) (root []byte, vals [][]byte, status string) {
	status = gen.Guard(func() string {
		h, vs, err := mavldb.DelKVPair(e.store.GetDB(), &types.StoreGet{StateHash: parent, Keys: keys}, e.tcfg)
		if err != nil {
			if err == mavldb.ErrNodeNotExist {
				return "notfound"
			}
			return "err:" + err.Error()
		}
		root, vals = h, vs
		s := make([]string, len(vs))
		for i, v := range vs {
			if len(v) == 0 {
				s[i] = "-"
			} else {
				s[i] = hex.EncodeToString(v)
			}
		}
		return "root " + Hx(h) + " " + strings.Join(s, ",")
	})
	e.Out.Op(fmt.Sprintf("del %s %s", Hx(parent), showKeys(keys)), status)
	return
}

// MemSet is Store.MemSet.
func (e *Eng) MemSet(parent []byte, height int64, kvs []KV) (root []byte, status string) {
	status = gen.Guard(func() string {
		h, err := e.store.MemSet(storeSet(parent, height, kvs), false)
		root = h
		return rootResult(h, err)
	})
	e.Out.Op(fmt.Sprintf("mset %s %d %s", Hx(parent), height, ShowKVs(kvs)), status)
	return root, status
}

func reqResult(hash []byte, err error) string {
	switch err {
	case nil:
		return "ok " + Hx(hash)
	case types.ErrHashNotFound:
		return "notfound"
	case types.ErrDataBaseDamage:
		return "dbdamage"
	}
	return "err:" + err.Error()
}

// Commit is Store.Commit.
func (e *Eng) Commit(root []byte) string {
	st := gen.Guard(func() string { return reqResult(e.store.Commit(&types.ReqHash{Hash: root})) })
	if e.JoinPrune {
		mavldb.VerifWaitPrune()
	}
	e.Out.Op("commit "+Hx(root), st)
	return st
}

// Rollback is Store.Rollback.
func (e *Eng) Rollback(root []byte) string {
	st := gen.Guard(func() string { return reqResult(e.store.Rollback(&types.ReqHash{Hash: root})) })
	e.Out.Op("rollback "+Hx(root), st)
	return st
}

// Get is Store.Get; nil and empty values are both printed "-".
func (e *Eng) Get(root []byte, keys [][]byte) (vals [][]byte, status string) {
	status = gen.Guard(func() string {
		vals = e.store.Get(&types.StoreGet{StateHash: root, Keys: keys})
		s := make([]string, len(vals))
		for i, v := range vals {
			if len(v) == 0 {
				s[i] = "-"
			} else {
				s[i] = hex.EncodeToString(v)
			}
		}
		return strings.Join(s, ",")
	})
	e.Out.Op(fmt.Sprintf("get %s %s", Hx(root), showKeys(keys)), status)
	return vals, status
}

func limStr(lim int) string {
	if lim < 0 {
		return "-"
	}
	return strconv.Itoa(lim)
}

func b01(b bool) string {
	if b {
		return "1"
	}
	return "0"
}

// Iter is Store.IterateRangeByStateHash; lim < 0: never stop, else stop once lim pairs were seen.
func (e *Eng) Iter(root, start, end []byte, asc bool, lim int) (res []KV, status string) {
	status = gen.Guard(func() string {
		res = nil
		e.store.IterateRangeByStateHash(root, start, end, asc, func(k, v []byte) bool {
			res = append(res, KV{append([]byte{}, k...), append([]byte{}, v...)})
			return lim >= 0 && len(res) >= lim
		})
		return ShowKVs(res)
	})
	e.Out.Op(fmt.Sprintf("iter %s %s %s %s %s", Hx(root), HxOpt(start), HxOpt(end), b01(asc), limStr(lim)), status)
	return res, status
}

func (e *Eng) tree(root []byte) (*mavldb.Tree, error) {
	t := mavldb.NewTree(e.store.GetDB(), true, e.tcfg)
	err := t.Load(root)
	return t, err
}

// Info loads the tree at root directly (mavl.Tree) and reports Height/Size.
func (e *Eng) Info(root []byte) (h, n int32, status string) {
	status = gen.Guard(func() string {
		t, err := e.tree(root)
		if err != nil {
			return "notfound"
		}
		h, n = t.Height(), t.Size()
		return fmt.Sprintf("h %d n %d", h, n)
	})
	e.Out.Op("info "+Hx(root), status)
	return
}

// TGet is Tree.Get.
func (e *Eng) TGet(root, key []byte) (idx int32, val []byte, exists bool, status string) {
	status = gen.Guard(func() string {
		t, err := e.tree(root)
		if err != nil {
			return "notfound"
		}
		idx, val, exists = t.Get(key)
		if !exists {
			return fmt.Sprintf("%d 0 .", idx)
		}
		return fmt.Sprintf("%d 1 %s", idx, Hx(val))
	})
	e.Out.Op(fmt.Sprintf("tget %s %s", Hx(root), Hx(key)), status)
	return
}

// THas is Tree.Has.
func (e *Eng) THas(root, key []byte) (has bool, status string) {
	status = gen.Guard(func() string {
		t, err := e.tree(root)
		if err != nil {
			return "notfound"
		}
		has = t.Has(key)
		return b01(has)
	})
	e.Out.Op(fmt.Sprintf("thas %s %s", Hx(root), Hx(key)), status)
	return
}

// TIdx is Tree.GetByIndex.
func (e *Eng) TIdx(root []byte, i int32) (k, v []byte, status string) {
	status = gen.Guard(func() string {
		t, err := e.tree(root)
		if err != nil {
			return "notfound"
		}
		if t.Size() == 0 {
			return "nil"
		}
		k, v = t.GetByIndex(i)
		return Hx(k) + "=" + Hx(v)
	})
	e.Out.Op(fmt.Sprintf("tidx %s %d", Hx(root), i), status)
	return
}

// TIter is Tree.IterateRange / IterateRangeInclusive.
func (e *Eng) TIter(root, start, end []byte, asc, incl bool, lim int) (res []KV, stopped bool, status string) {
	status = gen.Guard(func() string {
		t, err := e.tree(root)
		if err != nil {
			return "notfound"
		}
		res = nil
		fn := func(k, v []byte) bool {
			res = append(res, KV{append([]byte{}, k...), append([]byte{}, v...)})
			return lim >= 0 && len(res) >= lim
		}
		if incl {
			stopped = t.IterateRangeInclusive(start, end, asc, fn)
		} else {
			stopped = t.IterateRange(start, end, asc, fn)
		}
		return b01(stopped) + " " + ShowKVs(res)
	})
	e.Out.Op(fmt.Sprintf("titer %s %s %s %s %s %s", Hx(root), HxOpt(start), HxOpt(end), b01(asc), b01(incl), limStr(lim)), status)
	return
}

// Proof is GetKVPairProof.
func (e *Eng) Proof(root, key []byte) (proof []byte, exists bool, status string) {
	status = gen.Guard(func() string {
		p, err := mavldb.GetKVPairProof(e.store.GetDB(), root, key, e.tcfg)
		if err != nil {
			return "notfound"
		}
		proof = p
		exists = p != nil
		return b01(exists) + " " + Hx(p)
	})
	e.Out.Op(fmt.Sprintf("proof %s %s", Hx(root), Hx(key)), status)
	return
}

// Verify is VerifyKVPairProof.
func (e *Eng) Verify(root, key, val, proof []byte) (ok bool, status string) {
	status = gen.Guard(func() string {
		ok = mavldb.VerifyKVPairProof(e.store.GetDB(), root, &types.KeyValue{Key: key, Value: val}, proof)
		return b01(ok)
	})
	e.Out.Op(fmt.Sprintf("verify %s %s %s %s", Hx(root), Hx(key), Hx(val), Hx(proof)), status)
	return
}

// PVerify is Tree.ConstructProof(pk) at root followed by Proof.Verify(k, v, vroot) on the returned structure
// (no encoding in between).
func (e *Eng) PVerify(root, pk, k, v, vroot []byte) (ok bool, status string) {
	status = gen.Guard(func() string {
		t, err := e.tree(root)
		if err != nil {
			return "notfound"
		}
		_, proof := t.ConstructProof(pk)
		if proof == nil {
			return "noproof"
		}
		ok = proof.Verify(k, v, vroot)
		return b01(ok)
	})
	e.Out.Op(fmt.Sprintf("pverify %s %s %s %s %s", Hx(root), Hx(pk), Hx(k), Hx(v), Hx(vroot)), status)
	return
}

func parseKVs(s string) ([]KV, bool) {
	if s == "-" {
		return nil, true
	}
	var out []KV
	for _, p := range strings.Split(s, ",") {
		kv := strings.Split(p, "=")
		if len(kv) != 2 {
			return nil, false
		}
		k, ok1 := unhex(kv[0])
		v, ok2 := unhex(kv[1])
		if !ok1 || !ok2 {
			return nil, false
		}
		out = append(out, KV{k, v})
	}
	return out, true
}

func parseKeys(s string) ([][]byte, bool) {
	if s == "-" {
		return nil, true
	}
	var out [][]byte
	for _, p := range strings.Split(s, ",") {
		k, ok := unhex(p)
		if !ok {
			return nil, false
		}
		out = append(out, k)
	}
	return out, true
}

func parseLim(s string) (int, bool) {
	if s == "-" {
		return -1, true
	}
	n, err := strconv.Atoi(s)
	return n, err == nil && n >= 0
}

// Replay interprets op lines (corpus / replay files) against the real code.
// onVerify, if set, is told about panics (the C03 predicate).
func (e *Eng) Replay(lines []string) {
	for _, l := range lines {
		if !e.replayLine(strings.Fields(l)) {
			e.Out.Op(l, "bad-op")
		}
	}
}

func (e *Eng) replayLine(f []string) bool {
	if len(f) == 0 {
		return false
	}
	if e.store == nil && f[0] != "new" && f[0] != "lazy" && f[0] != "eager" {
		if e.PruneMode {
			e.NewPrune(0)
		} else {
			e.New(Cfg{})
		}
	}
	ok := true
	need := func(n int) bool { return len(f) == n }
	switch f[0] {
	case "lazy", "eager": // selects the driver's model; "reopen" after "lazy" stands for a cold restart
		if !need(1) {
			return false
		}
		e.lazy = f[0] == "lazy"
		e.Out.Op(f[0], "ok")
		return true
	case "new":
		if !need(2) {
			return false
		}
		c, good := CfgFromBits(f[1])
		if !good {
			if ph, err := strconv.ParseInt(f[1], 10, 32); err == nil && ph >= 0 && e.PruneMode {
				e.NewPrune(int32(ph))
				return true
			}
			return false
		}
		if e.PruneMode {
			ph, _ := strconv.ParseInt(f[1], 10, 32)
			e.NewPrune(int32(ph))
			return true
		}
		e.New(c)
	case "reopen":
		if !need(1) {
			return false
		}
		if e.lazy {
			e.ColdReopen()
		} else {
			e.Reopen()
		}
	case "restart":
		if !need(1) {
			return false
		}
		e.Restart()
	case "dump":
		if !need(1) {
			return false
		}
		e.Dump()
	case "dumpall":
		if !need(1) {
			return false
		}
		e.DumpAll()
	case "prune":
		if !need(2) {
			return false
		}
		h, err := strconv.ParseInt(f[1], 10, 64)
		if err != nil || h < 0 {
			return false
		}
		e.Prune(h)
	case "set", "mset":
		if !need(4) {
			return false
		}
		p, ok1 := unhex(f[1])
		h, err := strconv.ParseInt(f[2], 10, 64)
		kvs, ok2 := parseKVs(f[3])
		if !ok1 || !ok2 || err != nil || h < 0 {
			return false
		}
		if f[0] == "set" {
			e.Set(p, h, kvs)
		} else {
			e.MemSet(p, h, kvs)
		}
	case "commit", "rollback":
		if !need(2) {
			return false
		}
		r, ok1 := unhex(f[1])
		if !ok1 {
			return false
		}
		if f[0] == "commit" {
			e.Commit(r)
		} else {
			e.Rollback(r)
		}
	case "get", "del":
		if !need(3) {
			return false
		}
		r, ok1 := unhex(f[1])
		ks, ok2 := parseKeys(f[2])
		if !ok1 || !ok2 {
			return false
		}
		if f[0] == "del" {
			e.Del(r, ks)
		} else {
			e.Get(r, ks)
		}
	case "iter":
		if !need(6) {
			return false
		}
		r, ok1 := unhex(f[1])
		s, ok2 := unhexOpt(f[2])
		en, ok3 := unhexOpt(f[3])
		lim, ok4 := parseLim(f[5])
		if !ok1 || !ok2 || !ok3 || !ok4 || (f[4] != "0" && f[4] != "1") {
			return false
		}
		e.Iter(r, s, en, f[4] == "1", lim)
	case "info":
		if !need(2) {
			return false
		}
		r, ok1 := unhex(f[1])
		if !ok1 {
			return false
		}
		e.Info(r)
	case "tget", "thas", "proof":
		if !need(3) {
			return false
		}
		r, ok1 := unhex(f[1])
		k, ok2 := unhex(f[2])
		if !ok1 || !ok2 {
			return false
		}
		switch f[0] {
		case "tget":
			e.TGet(r, k)
		case "thas":
			e.THas(r, k)
		default:
			e.Proof(r, k)
		}
	case "tidx":
		if !need(3) {
			return false
		}
		r, ok1 := unhex(f[1])
		i, err := strconv.ParseInt(f[2], 10, 32)
		if !ok1 || err != nil {
			return false
		}
		e.TIdx(r, int32(i))
	case "titer":
		if !need(7) {
			return false
		}
		r, ok1 := unhex(f[1])
		s, ok2 := unhexOpt(f[2])
		en, ok3 := unhexOpt(f[3])
		lim, ok4 := parseLim(f[6])
		if !ok1 || !ok2 || !ok3 || !ok4 || (f[4] != "0" && f[4] != "1") || (f[5] != "0" && f[5] != "1") {
			return false
		}
		e.TIter(r, s, en, f[4] == "1", f[5] == "1", lim)
	case "pverify":
		if !need(6) {
			return false
		}
		var a [5][]byte
		for i := 0; i < 5; i++ {
			b, good := unhex(f[i+1])
			if !good {
				return false
			}
			a[i] = b
		}
		e.PVerify(a[0], a[1], a[2], a[3], a[4])
	case "verify":
		if !need(5) {
			return false
		}
		r, ok1 := unhex(f[1])
		k, ok2 := unhex(f[2])
		v, ok3 := unhex(f[3])
		p, ok4 := unhex(f[4])
		if !ok1 || !ok2 || !ok3 || !ok4 {
			return false
		}
		if _, st := e.Verify(r, k, v, p); st == "panic" {
			e.Out.Pred("C03|VerifyKVPairProof|panic", strings.Join(f, " "))
		}
	default:
		ok = false
	}
	return ok
}

// ---------------------------------------------------------------- abstract map (predicate side)

// Snap is the abstract content of one committed root: the map the property talks about.
type Snap struct {
	M    map[string][]byte
	keys []string // sorted, lazily
}

// NewSnap copies parent (may be nil) and applies kvs in order.
func NewSnap(parent *Snap, kvs []KV) *Snap {
	s := &Snap{M: map[string][]byte{}}
	if parent != nil {
		for k, v := range parent.M {
			s.M[k] = v
		}
	}
	for _, kv := range kvs {
		s.M[string(kv.K)] = kv.V
	}
	return s
}

// Keys returns the keys in bytes.Compare order.
func (s *Snap) Keys() []string {
	if s.keys == nil {
		s.keys = make([]string, 0, len(s.M))
		for k := range s.M {
			s.keys = append(s.keys, k)
		}
		sort.Strings(s.keys)
	}
	return s.keys
}

// Range is the specification of a range iteration: keys in [start,end) (or [start,end] when incl),
// nil bound = unbounded, ascending or descending, cut after lim pairs when lim >= 0.
func (s *Snap) Range(start, end []byte, asc, incl bool, lim int) []KV {
	var out []KV
	for _, k := range s.Keys() {
		kb := []byte(k)
		if start != nil && bytes.Compare(kb, start) < 0 {
			continue
		}
		if end != nil {
			c := bytes.Compare(kb, end)
			if c > 0 || (c == 0 && !incl) {
				continue
			}
		}
		out = append(out, KV{kb, s.M[k]})
	}
	if !asc {
		for i, j := 0, len(out)-1; i < j; i, j = i+1, j-1 {
			out[i], out[j] = out[j], out[i]
		}
	}
	if lim >= 0 && len(out) > lim {
		if lim == 0 {
			lim = 1 // the callback is asked after the first pair at the earliest
		}
		if len(out) > lim {
			out = out[:lim]
		}
	}
	return out
}

// EqKVs compares two pair lists (nil and empty values identified).
func EqKVs(a, b []KV) bool {
	if len(a) != len(b) {
		return false
	}
	for i := range a {
		if !bytes.Equal(a[i].K, b[i].K) || !bytes.Equal(a[i].V, b[i].V) {
			return false
		}
	}
	return true
}

// ---------------------------------------------------------------- generators

// KeyGen produces keys with shared prefixes over a small alphabet, empty and binary keys.
type KeyGen struct {
	R    *gen.Rand
	Pool [][]byte
}

// NewKeyGen builds a key pool of n distinct-ish keys.
func NewKeyGen(r *gen.Rand, n int) *KeyGen {
	g := &KeyGen{R: r}
	alpha := []byte{'a', 'b', 0x00, 0xff}
	prefixes := [][]byte{[]byte("mavl-coins-bty-"), []byte("mavl-"), {}, {0xff, 0xff}, {0x00}}
	for i := 0; i < n; i++ {
		var k []byte
		switch r.Pick(5, 3, 1, 1) {
		case 0: // short keys over a tiny alphabet: many shared prefixes, prefix-of-other-key pairs
			k = r.BytesFrom(alpha[:3], r.Range(0, 6))
		case 1:
			p := prefixes[r.Intn(len(prefixes))]
			k = append(append([]byte{}, p...), r.BytesFrom(alpha, r.Range(0, 5))...)
		case 2:
			k = r.Bytes(r.Range(1, 40))
		default:
			k = []byte(fmt.Sprintf("k%04d", r.Intn(5000)))
		}
		g.Pool = append(g.Pool, k)
	}
	if r.Chance(1, 2) {
		g.Pool = append(g.Pool, []byte{})
	}
	return g
}

// Key draws from the pool.
func (g *KeyGen) Key() []byte { return g.Pool[g.R.Intn(len(g.Pool))] }

// Val draws a value (sometimes empty, sometimes long).
func (g *KeyGen) Val() []byte {
	switch g.R.Pick(1, 8, 1) {
	case 0:
		return []byte{}
	case 1:
		return g.R.Bytes(g.R.Range(1, 12))
	default:
		return g.R.Bytes(g.R.Range(100, 300))
	}
}

// Batch draws n writes (duplicates inside a batch are allowed and intended).
func (g *KeyGen) Batch(n int) []KV {
	out := make([]KV, n)
	for i := range out {
		out[i] = KV{g.Key(), g.Val()}
	}
	return out
}
