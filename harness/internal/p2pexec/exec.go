// Package p2pexec concretises abstract peer-input op lines (the lines the Lean drivers drv_c33 / drv_c34 read)
// into real messages and calls into the dht protocol packages of /repo, and reports the canonical outcome.
package p2pexec

// Executor: turns one abstract op line (the same line the Lean driver reads) into real objects and a
// call into the real chain33 code, observes the effect and returns the canonical output.

import (
	"context"
	"encoding/hex"
	"fmt"
	"os"
	"runtime"
	"strconv"
	"strings"
	"sync"
	"time"

	"github.com/33cn/chain33/common/log/log15"
	"github.com/33cn/chain33/system/p2p/dht/protocol"
	"github.com/33cn/chain33/system/p2p/dht/protocol/broadcast"
	"github.com/33cn/chain33/system/p2p/dht/protocol/download"
	peerproto "github.com/33cn/chain33/system/p2p/dht/protocol/peer"
	"github.com/33cn/chain33/types"
	ps "github.com/libp2p/go-libp2p-pubsub"
	pb "github.com/libp2p/go-libp2p-pubsub/pb"
	"github.com/libp2p/go-libp2p/core/network"
	"github.com/libp2p/go-libp2p/core/peer"
	libproto "github.com/libp2p/go-libp2p/core/protocol"

	"verifharness/internal/p2pv"
)

// ---------------------------------------------------------------- log capture

type logCapture struct {
	mu     sync.Mutex
	counts map[string]int
}

var Logs = &logCapture{counts: map[string]int{}}

func (l *logCapture) Install() {
	log15.Root().SetHandler(log15.FuncHandler(int(log15.LvlDebug), func(r *log15.Record) error {
		l.mu.Lock()
		l.counts[r.Msg]++
		l.mu.Unlock()
		return nil
	}))
}

func (l *logCapture) Reset() {
	l.mu.Lock()
	l.counts = map[string]int{}
	l.mu.Unlock()
}

func (l *logCapture) N(msg string) int {
	l.mu.Lock()
	defer l.mu.Unlock()
	return l.counts[msg]
}

// ---------------------------------------------------------------- panic capture with call site

type PanicInfo struct {
	Site string // innermost chain33 function on the panicking stack
	Kind string // index-out-of-range | nil-dereference | makeslice | other
}

// Watchdog is how long a call into the code under test may take before it is declared stuck (a lock that is
// never released, a wedged channel): generous, so that machine load alone never reaches it. VERIF_WATCHDOG_S overrides.
var Watchdog = func() time.Duration {
	if v, err := strconv.Atoi(os.Getenv("VERIF_WATCHDOG_S")); err == nil && v > 0 {
		return time.Duration(v) * time.Second
	}
	return 20 * time.Second
}()

// Guard runs f under the watchdog; a panic is returned with its call site (innermost frame inside /repo's
// module), a call that does not return within Watchdog as Kind "stuck" (its goroutine is abandoned).
func Guard(f func()) *PanicInfo {
	done := make(chan *PanicInfo, 1)
	go func() { done <- guardSync(f) }()
	select {
	case pi := <-done:
		return pi
	case <-time.After(Watchdog):
		return &PanicInfo{Site: "watchdog", Kind: "stuck"}
	}
}

func guardSync(f func()) (pi *PanicInfo) {
	defer func() {
		if e := recover(); e != nil {
			pi = &PanicInfo{Site: "unknown", Kind: "other"}
			msg := fmt.Sprint(e)
			switch {
			case strings.Contains(msg, "index out of range"), strings.Contains(msg, "slice bounds out of range"):
				pi.Kind = "index-out-of-range"
			case strings.Contains(msg, "nil pointer"), strings.Contains(msg, "invalid memory address"):
				pi.Kind = "nil-dereference"
			case strings.Contains(msg, "makeslice"):
				pi.Kind = "makeslice"
			case strings.Contains(msg, "interface conversion"):
				pi.Kind = "type-assertion"
			}
			pcs := make([]uintptr, 64)
			n := runtime.Callers(2, pcs)
			frames := runtime.CallersFrames(pcs[:n])
			for {
				fr, more := frames.Next()
				if strings.Contains(fr.Function, "github.com/33cn/chain33/") && !strings.Contains(fr.Function, "Verif") &&
					!strings.Contains(fr.Function, "verif") {
					fn := fr.Function[strings.LastIndex(fr.Function, "/")+1:]
					pi.Site = fn
					break
				}
				if !more {
					break
				}
			}
		}
	}()
	f()
	return nil
}

// ---------------------------------------------------------------- transactions by id

type Registry struct {
	byID   map[int]*types.Transaction
	byHash map[string]int
	next   int
	weird  map[string]string
}

func NewRegistry() *Registry {
	return &Registry{byID: map[int]*types.Transaction{}, byHash: map[string]int{}, next: 5000, weird: map[string]string{}}
}

func (r *Registry) Tx(id int) *types.Transaction {
	if t, ok := r.byID[id]; ok {
		return t
	}
	t := &types.Transaction{Execer: []byte("coins"), Payload: []byte(fmt.Sprintf("verif-tx-%d", id)), Fee: 1000000, Expire: int64(id), Nonce: int64(id) * 7919}
	r.byID[id] = t
	r.byHash[string(t.Hash())] = id
	return t
}

func (r *Registry) put(id int, t *types.Transaction) {
	r.byID[id] = t
	r.byHash[string(t.Hash())] = id
}

// idOf identifies a transaction by its hash (unknown ones get a fresh id).
func (r *Registry) IDOf(t *types.Transaction) int {
	h := string(t.Hash())
	if id, ok := r.byHash[h]; ok {
		return id
	}
	id := r.next
	r.next++
	r.byID[id] = t
	r.byHash[h] = id
	return id
}

func (r *Registry) Sh(id int) string { return types.CalcTxShortHash(r.Tx(id).Hash()) }

func IsHex(s string) bool {
	if s == "" {
		return false
	}
	for _, c := range s {
		if !(c >= '0' && c <= '9' || c >= 'a' && c <= 'f') {
			return false
		}
	}
	return true
}

// token maps an arbitrary sTxHashes string to a word that is safe on the op line.
func (r *Registry) Token(s string) string {
	if IsHex(s) {
		return s
	}
	if t, ok := r.weird[s]; ok {
		return t
	}
	t := fmt.Sprintf("w%d", len(r.weird))
	r.weird[s] = t
	return t
}

func (r *Registry) Slots(txs []*types.Transaction) string {
	if len(txs) == 0 {
		return "-"
	}
	w := make([]string, len(txs))
	for i, t := range txs {
		if t == nil {
			w[i] = "_"
		} else {
			w[i] = strconv.Itoa(r.IDOf(t))
		}
	}
	return strings.Join(w, ",")
}

// poolEntry builds the transaction the pool holds for (id, group): a plain transaction, or a head whose
// GetTxGroup yields exactly the listed members.
func (r *Registry) PoolEntry(id int, group []int) *types.Transaction {
	if len(group) == 0 {
		return r.Tx(id)
	}
	var g types.Transactions
	for _, m := range group {
		g.Txs = append(g.Txs, r.Tx(m))
	}
	head := types.CloneTx(r.Tx(id))
	gc := len(group)
	if gc < 2 {
		gc = 2
	}
	if gc > 20 {
		gc = 20
	}
	head.GroupCount = int32(gc)
	head.Header = types.Encode(&g)
	return head
}

// ---------------------------------------------------------------- the Executor

type Executor struct {
	w       *p2pv.World // single p2p type
	wm      *p2pv.World // two p2p types
	Cur     *p2pv.World
	LT      *broadcast.VerifLt
	outCh   chan interface{}
	Reg     *Registry
	IDs     []peer.ID
		now     int64
	fh      *p2pv.FakeHost
	dl      *download.Protocol
	pp      *peerproto.Protocol
	dlWorld *p2pv.World
	chain   string
	nitems  int
	seq     int
	preds   func(sig, detail string)
	RecPan  int
	// what the last lt / tick op handed to the blockchain module and published as block requests
	LastPosts []p2pv.BlockPost
	LastReqs  []string
	// liveness: Stuck is set when a call into the current component instance did not return; History is the op lines
	// since the last reset (the replay of a stuck / probe failure)
	poolShort bool
	Stuck   bool
	NStuck  int
	History []string
}

const NPeers = 12

func New(pred func(sig, detail string)) *Executor {
	e := &Executor{Reg: NewRegistry(), preds: pred}
	e.IDs = p2pv.PeerIDs(77, NPeers)
	e.w = p2pv.NewWorld(p2pv.Options{HostSeed: 1})
	e.wm = p2pv.NewWorld(p2pv.Options{HostSeed: 2, P2PTypes: []string{"dht", "gossip"}})
	for _, w := range []*p2pv.World{e.w, e.wm} {
		w.Env.ConnBlackList = &Lru{}
	}
	// stream protocols: fake host, no pubsub needed
	e.fh = p2pv.NewFakeHost(3)
	e.dlWorld = p2pv.NewWorld(p2pv.Options{Host: e.fh, NoPubsub: true})
	e.dlWorld.Env.SubConfig.Channel = 7
	e.dlWorld.Env.ConnBlackList = &Lru{}
	e.dlWorld.Env.PeerInfoManager = p2pv.NewPeerInfo()
	e.dl = download.VerifNew(e.dlWorld.Env)
	e.pp = peerproto.VerifNew(e.dlWorld.Env)
	protocol.RegisterStreamHandler(e.fh, "dlold", e.dl.VerifStreamOld)
	protocol.RegisterStreamHandler(e.fh, "dlnew", e.dl.VerifStreamNew)
	for _, n := range []string{"version", "versionOld", "peerInfo", "peerInfoOld"} {
		protocol.RegisterStreamHandler(e.fh, libproto.ID(n), e.pp.VerifHandler(n))
	}
	for _, w := range []*p2pv.World{e.w, e.wm, e.dlWorld} {
		w.SetSendTxPolicy(txPolicy)
	}
	return e
}

// the fake mempool accepts transactions with an even id (Expire carries the id)
func txPolicy(tx *types.Transaction) error {
	if tx.Expire%2 != 0 {
		return types.ErrTxExist
	}
	return nil
}

// blockFor maps a key token to the block it stands for: b<b>h<h> (block b at height h), d<n> (a block
// the blockchain module will reject).
func (e *Executor) blockFor(tok string) *types.Block {
	var b, h int
	if n, _ := fmt.Sscanf(tok, "b%dh%d", &b, &h); n == 2 {
		return &types.Block{Height: int64(h), TxHash: []byte(fmt.Sprintf("verif-block-%d", b)), BlockTime: int64(b)}
	}
	if n, _ := fmt.Sscanf(tok, "d%d", &b); n == 1 {
		return &types.Block{Height: 3, TxHash: []byte(fmt.Sprintf("verif-bad-block-%d", b))}
	}
	return nil
}

// ltKey maps a key token to the bytes of LightBlock.Header.Hash.
func (e *Executor) ltKey(tok string) []byte {
	if tok == "-" {
		return nil
	}
	if blk := e.blockFor(tok); blk != nil {
		return blk.Hash(e.Cur.Cfg)
	}
	return []byte("key-" + tok)
}

// Cfg is the chain configuration of the environments.
func (e *Executor) Cfg() *types.Chain33Config { return e.w.Cfg }

func (e *Executor) Close() {
	e.w.Close()
	e.wm.Close()
	e.dlWorld.Close()
}

type Lru struct{}

func (l *Lru) Add(s string, t time.Duration) {}
func (l *Lru) Has(s string) bool             { return false }
func (l *Lru) List() *types.Blacklist        { return &types.Blacklist{} }

// drainOut collects what the protocol published since the last call.
func (e *Executor) drainOut() []interface{} {
	e.seq++
	mark := fmt.Sprintf("sentinel-%d", e.seq)
	var got []interface{}
	if pi := Guard(func() {
		e.LT.PubSentinel(mark)
		for x := range e.outCh {
			if s, ok := x.(string); ok && s == mark {
				break
			}
			got = append(got, x)
		}
	}); pi != nil {
		e.Unrecovered("broadcast-publish-channel", pi, "")
	}
	return got
}

func (e *Executor) TakePosts() []p2pv.BlockPost {
	e.Cur.Sync("blockchain")
	return e.Cur.TakePosts()
}

func (e *Executor) Unrecovered(path string, pi *PanicInfo, detail string) {
	if e.poolShort && (path == "pendBlockLoop" || path == "handleBroadcastReceive") {
		// the scripted mempool module answered with fewer entries than hashes were asked for, which the real module
		// never does (getTxListByHash appends one entry per hash): an environment assumption, not a peer input
		return
	}
	if pi.Kind == "stuck" {
		// the call never returned: this component instance is abandoned (reset builds a fresh one)
		e.NStuck++
		e.Stuck = true
		e.preds(fmt.Sprintf("C33|%s|stuck-after-peer-input", path),
			fmt.Sprintf("no return within %v; inputs delivered so far: %s", Watchdog, strings.Join(e.History, " ; ")))
		return
	}
	if (path == "blockRequestLoop" || path == "handleBroadcastReceive") && e.chain == "items" && e.nitems == 0 {
		// the scripted blockchain module answered GetBlocks with an empty success, which the real module never
		// does (it returns end-start+1 >= 1 items or an error): an environment assumption, not a peer input
		return
	}
	e.preds(fmt.Sprintf("C33|%s>%s|%s-unrecovered", path, pi.Site, pi.Kind), detail)
}

func atoi(s string) int { n, _ := strconv.Atoi(s); return n }

func atoi64(s string) int64 { n, _ := strconv.ParseInt(s, 10, 64); return n }

func list(s string) []string {
	if s == "-" {
		return nil
	}
	return strings.Split(s, ",")
}

func ints(s string) []int {
	var o []int
	for _, w := range list(s) {
		o = append(o, atoi(w))
	}
	return o
}

// Exec runs one op line; lb != nil supplies an already decoded light block for `lt` (byte-level fuzz).
// After a stuck call every op up to the next reset is skipped ("skipped-after-stuck", not to be emitted).
func (e *Executor) Exec(line string, lb *types.LightBlock) string {
	if strings.HasPrefix(line, "reset") {
		e.Stuck = false
		e.History = e.History[:0]
	}
	if e.Stuck {
		return "skipped-after-stuck"
	}
	e.History = append(e.History, line)
	n := e.NStuck
	res := e.exec1(line, lb)
	if e.NStuck > n {
		return "stuck"
	}
	return res
}

// lockedInt reads a counter of the component through an accessor that takes one of its locks, under the watchdog
func (e *Executor) lockedInt(what string, f func() int) int {
	v := -1
	if pi := Guard(func() { v = f() }); pi != nil {
		e.Unrecovered(what, pi, "")
		return -1
	}
	return v
}

func (e *Executor) pendLen() int { return e.lockedInt("pendBlockList(pdBlockLock)", e.LT.PendLen) }
func (e *Executor) reqLen() int  { return e.lockedInt("blockRequestList(blockReqLock)", e.LT.ReqLen) }
func (e *Executor) msgLen() int  { return e.lockedInt("validator.msgList(msgLock)", e.LT.MsgListLen) }

func (e *Executor) exec1(line string, lb *types.LightBlock) string {
	f := strings.Fields(line)
	if len(f) == 0 {
		return "bad-op"
	}
	switch f[0] {
	case "reset":
		if len(f) != 3 {
			return "bad-op"
		}
		e.Cur = e.w
		if f[1] == "1" {
			e.Cur = e.wm
		}
		e.Cur.PoolReset()
		e.TakePosts() // round-trips through the blockchain module first: nothing of an earlier scenario is left in flight
		e.Cur.SetVerdict(true, "")
		e.Cur.SetGetBlocks(nil)
		e.dlWorld.SetGetBlocks(nil)
		e.chain = "err"
		e.poolShort = false
		types.SetTimeDelta(0)
		e.now = 0
		if f[1] == "1" {
			// a fresh manager: the duplicate filter of p2p.Manager must start empty
			e.wm.Close()
			e.wm = p2pv.NewWorld(p2pv.Options{HostSeed: 2, P2PTypes: []string{"dht", "gossip"}})
			e.wm.Env.ConnBlackList = &Lru{}
			e.wm.SetSendTxPolicy(txPolicy)
			e.Cur = e.wm
		}
		e.LT = broadcast.VerifNewLt(e.Cur.Env)
		e.LT.SetTimeout(atoi64(f[2]))
		e.outCh = e.LT.Outgoing()
		Logs.Reset()
		return "ok"
	case "pool":
		if len(f) < 3 {
			return "bad-op"
		}
		switch f[1] {
		case "push":
			if len(f) != 5 {
				return "bad-op"
			}
			tx := e.Reg.PoolEntry(atoi(f[3]), ints(f[4]))
			h, err := hex.DecodeString(f[2])
			if err != nil || len(h) < 5 {
				return "bad-op"
			}
			e.Cur.PoolPush(tx, h)
			return "ok"
		case "del":
			h, _ := hex.DecodeString(f[2])
			e.Cur.PoolRemove(h)
			return "ok"
		case "up":
			e.Cur.PoolUp(f[2] == "1")
			return "ok"
		case "short":
			e.Cur.PoolShort(f[2] == "1")
			e.poolShort = f[2] == "1"
			return "ok"
		}
		return "bad-op"
	case "cur":
		e.LT.SetHeight(atoi64(f[1]))
		return "ok"
	case "now":
		e.now = atoi64(f[1])
		types.SetTimeDelta(e.now * 1e6)
		return "ok"
	case "chain":
		if f[1] == "other" {
			e.chain = "other"
			g := func(req *types.ReqBlocks) interface{} { return &types.Reply{IsOk: true} }
			e.Cur.SetGetBlocks(g)
			e.dlWorld.SetGetBlocks(g)
			return "ok"
		}
		if f[1] == "err" {
			e.chain = "err"
			e.Cur.SetGetBlocks(nil)
			e.dlWorld.SetGetBlocks(nil)
			return "ok"
		}
		n := atoi(f[2])
		e.chain, e.nitems = "items", n
		g := func(req *types.ReqBlocks) interface{} {
			d := &types.BlockDetails{}
			for i := 0; i < n; i++ {
				d.Items = append(d.Items, &types.BlockDetail{Block: &types.Block{Height: req.GetStart() + int64(i)}})
			}
			return d
		}
		e.Cur.SetGetBlocks(g)
		e.dlWorld.SetGetBlocks(g)
		return "ok"
	case "lt":
		if len(f) != 8 {
			return "bad-op"
		}
		if lb == nil {
			lb = &types.LightBlock{STxHashes: list(f[7])}
			if f[2] == "1" {
				lb.Header = &types.Header{Hash: e.ltKey(f[1]), Height: atoi64(f[3]), TxCount: atoi64(f[4])}
			}
			if f[5] != "-" {
				lb.MinerTx = e.Reg.Tx(atoi(f[5]))
			}
			// over the wire: encode, compress, decompress, decode
			raw := e.LT.EncodeMsg(lb)
			dec := e.LT.NewMsg(broadcast.VerifLtBlockTopic)
			if err := e.LT.DecodeMsg(raw, dec); err != nil {
				return "undecodable"
			}
			lb = dec.(*types.LightBlock)
		}
		sender := e.IDs[atoi(f[6])%NPeers]
		before := e.pendLen()
		p0, r0 := Logs.N("handleReceive_Panic"), Logs.N("recvLtBlk")
		if pi := Guard(func() { e.LT.Receive(broadcast.VerifLtBlockTopic, lb, sender, sender) }); pi != nil {
			e.Unrecovered("handleBroadcastReceive", pi, line)
			return "panic"
		}
		posts := e.TakePosts()
		e.LastPosts = posts
		switch {
		case Logs.N("handleReceive_Panic") > p0:
			e.RecPan++
			return "panic"
		case Logs.N("recvLtBlk") == r0:
			return "dup"
		case len(posts) > 0:
			return "posted " + e.Reg.Slots(posts[0].Block.Txs)
		case e.pendLen() > before:
			return "queued"
		}
		return "dropped"
	case "tick":
		if pi := Guard(e.LT.PendTick); pi != nil {
			e.Unrecovered("pendBlockLoop", pi, "tick")
			e.TakePosts() // blocks rebuilt before the panic were already handed over
			return "panic"
		}
		var posted, reqs []string
		e.LastPosts = e.TakePosts()
		for _, p := range e.LastPosts {
			posted = append(posted, e.Reg.Slots(p.Block.Txs))
		}
		for _, x := range e.drainOut() {
			topic, msg, ok := broadcast.VerifPublished(x)
			if !ok {
				continue
			}
			pm, ok := msg.(*types.PeerPubSubMsg)
			if !ok || pm.MsgID != broadcast.VerifBlockReqID {
				continue
			}
			var q types.ReqInt
			_ = types.Decode(pm.ProtoMsg, &q)
			who := -1
			for i, id := range e.IDs {
				if e.LT.PeerTopic(id) == topic {
					who = i
				}
			}
			reqs = append(reqs, fmt.Sprintf("%d:%d", who, q.Height))
		}
		e.LastReqs = reqs
		return fmt.Sprintf("posted=%s req=%s pend=%d", JoinOr(posted, ";"), JoinOr(reqs, ","), e.pendLen())
	case "breq":
		sender := e.IDs[atoi(f[1])%NPeers]
		msg := &types.PeerPubSubMsg{MsgID: broadcast.VerifBlockReqID, ProtoMsg: types.Encode(&types.ReqInt{Height: atoi64(f[2])})}
		before := e.reqLen()
		p0, f0 := Logs.N("handleReceive_Panic"), Logs.N("handleBlockReq")
		if pi := Guard(func() { e.receivePeerMsg(msg, sender) }); pi != nil {
			e.Unrecovered("handleBroadcastReceive", pi, line)
			return "panic"
		}
		sent := e.countResp()
		switch {
		case Logs.N("handleReceive_Panic") > p0:
			e.RecPan++
			return "panic"
		case e.reqLen() > before:
			return "queued"
		case sent > 0:
			return "sent"
		case Logs.N("handleBlockReq") > f0:
			return "failed"
		}
		return "ignored"
	case "reqtick":
		f0 := Logs.N("handleBlockReq")
		if pi := Guard(e.LT.ReqTick); pi != nil {
			e.Unrecovered("blockRequestLoop", pi, "reqtick")
			return "panic"
		}
		return fmt.Sprintf("sent=%d failed=%d left=%d", e.countResp(), Logs.N("handleBlockReq")-f0, e.reqLen())
	case "bresp":
		sender := e.IDs[3]
		msg := &types.PeerPubSubMsg{MsgID: broadcast.VerifBlockRespID}
		switch {
		case f[1] == "1":
			blk := e.blockFor(f[2])
			if blk == nil {
				return "bad-op"
			}
			msg.ProtoMsg = types.Encode(blk)
		case f[2] == "nil":
		default:
			msg.ProtoMsg = []byte{0xff, 0xff, 0xff, 0x07}
		}
		m0 := e.msgLen()
		p0 := Logs.N("handleReceive_Panic")
		if pi := Guard(func() { e.receivePeerMsg(msg, sender) }); pi != nil {
			e.Unrecovered("handleBroadcastReceive", pi, line)
			return "panic"
		}
		if Logs.N("handleReceive_Panic") > p0 {
			e.RecPan++
			return "panic"
		}
		posts := e.TakePosts()
		_ = m0
		switch {
		case len(posts) > 0:
			return "posted"
		case f[1] == "1":
			return "duplicate" // p2p.Manager suppressed a hash it has already forwarded
		}
		return "undecodable"
	case "blk":
		blk := e.blockFor(f[1])
		if blk == nil {
			return "bad-op"
		}
		sender := e.IDs[atoi(f[2])%NPeers]
		p0 := Logs.N("handleReceive_Panic")
		if pi := Guard(func() { e.LT.Receive(broadcast.VerifBlockTopic, blk, sender, sender) }); pi != nil {
			e.Unrecovered("handleBroadcastReceive", pi, line)
			return "panic"
		}
		if Logs.N("handleReceive_Panic") > p0 {
			e.RecPan++
			return "panic"
		}
		e.TakePosts()
		return "posted"
	case "gossip":
		blk := e.blockFor(f[1])
		if blk == nil {
			return "bad-op"
		}
		// what the gossip p2p instance of the same node does with a block it received
		_, _ = e.Cur.Mgr.PubBroadCast(hex.EncodeToString(blk.Hash(e.Cur.Cfg)), &types.BlockPid{Pid: "gossip-peer", Block: blk}, types.EventBroadcastAddBlock)
		e.TakePosts()
		return "ok"
	case "pmsg":
		msg := &types.PeerPubSubMsg{MsgID: 99, ProtoMsg: []byte("x")}
		if pi := Guard(func() { e.receivePeerMsg(msg, e.IDs[4]) }); pi != nil {
			e.Unrecovered("handleBroadcastReceive", pi, line)
			return "panic"
		}
		return "unsupported"
	case "dtick":
		if pi := Guard(e.LT.DeniedTick); pi != nil {
			e.Unrecovered("manageDeniedPeer", pi, "dtick")
			return "panic"
		}
		return "ok"
	case "deny":
		who := atoi(f[1]) % NPeers
		blk := e.blockFor(f[2])
		if blk == nil {
			return "bad-op"
		}
		e.Cur.SetVerdict(false, "ErrSign")
		pi := Guard(func() {
			e.LT.Receive(broadcast.VerifBlockTopic, blk, e.IDs[who], e.IDs[who])
			e.LT.DeniedTick()
		})
		e.Cur.SetVerdict(true, "")
		e.TakePosts()
		if pi != nil {
			e.Unrecovered("manageDeniedPeer", pi, "deny")
			return "panic"
		}
		return "ok"
	case "vblock", "vtx", "vbatch", "vpeer":
		return e.execValidator(f, line)
	case "dlold", "dlnew", "dlreply", "ver", "pinfo", "qinfo", "qver":
		return e.execStream(f, line)
	}
	return "bad-op"
}

// ExecPoolPushTx indexes a caller-built transaction (a real group head, …) under its own short hash; `line`
// is the `pool push` op the caller derived from it with the abstraction function.
func (e *Executor) ExecPoolPushTx(line string, tx *types.Transaction, hash []byte) string {
	e.Cur.PoolPush(tx, hash)
	return "ok"
}

func JoinOr(l []string, sep string) string {
	if len(l) == 0 {
		return "-"
	}
	return strings.Join(l, sep)
}

func (e *Executor) receivePeerMsg(msg *types.PeerPubSubMsg, sender peer.ID) {
	raw := e.LT.EncodeMsg(msg)
	dec := e.LT.NewMsg("peermsg/x")
	if err := e.LT.DecodeMsg(raw, dec); err != nil {
		return
	}
	e.LT.Receive(e.LT.PeerTopic(e.Cur.Env.Host.ID()), dec, sender, sender)
}

// countResp counts block responses published since the last drain.
func (e *Executor) countResp() int {
	n := 0
	for _, x := range e.drainOut() {
		_, msg, ok := broadcast.VerifPublished(x)
		if !ok {
			continue
		}
		if pm, ok := msg.(*types.PeerPubSubMsg); ok && pm.MsgID == broadcast.VerifBlockRespID {
			n++
		}
	}
	return n
}

// ---------------------------------------------------------------- validators

func (e *Executor) PsMsg(topic string, from peer.ID, data []byte) *ps.Message {
	return &ps.Message{Message: &pb.Message{From: []byte(from), Data: data, Topic: &topic}, ReceivedFrom: from}
}

func verdict(v ps.ValidationResult) string {
	switch v {
	case ps.ValidationAccept:
		return "accept"
	case ps.ValidationReject:
		return "reject"
	case ps.ValidationIgnore:
		return "ignore"
	}
	return "unknown"
}

var garbage = []byte{0x05, 0xff, 0xfe, 0xfd, 0xfc, 0xfb, 0xfa}

func (e *Executor) execValidator(f []string, line string) string {
	self := e.Cur.Env.Host.ID()
	var topic string
	var from peer.ID
	var data []byte
	switch f[0] {
	case "vblock": // vblock self sender decodable key height
		topic = broadcast.VerifBlockTopic
		from = e.IDs[atoi(f[2])%NPeers]
		if f[1] == "1" {
			from = self
		}
		if f[3] == "1" {
			blk := e.blockFor(f[4])
			if blk == nil || blk.Height != atoi64(f[5]) {
				return "bad-op"
			}
			data = e.LT.EncodeMsg(blk)
		} else {
			data = garbage
		}
	case "vtx": // vtx self decodable id ok
		topic = broadcast.VerifTxTopic
		from = e.IDs[5]
		if f[1] == "1" {
			from = self
		}
		if f[2] == "1" {
			data = e.LT.EncodeMsg(e.Reg.Tx(atoi(f[3])))
		} else {
			data = garbage
		}
		if (atoi(f[3])%2 == 0) != (f[4] == "1") {
			return "bad-op"
		}
	case "vbatch": // vbatch self decodable id:ok,id:ok   (ok flag must be the same for the whole batch here)
		topic = broadcast.VerifBatchTxTopic
		from = e.IDs[6]
		if f[1] == "1" {
			from = self
		}
		var txs types.Transactions
		for _, w := range list(f[3]) {
			p := strings.Split(w, ":")
			if len(p) != 2 || (atoi(p[0])%2 == 0) != (p[1] == "1") {
				return "bad-op"
			}
			txs.Txs = append(txs.Txs, e.Reg.Tx(atoi(p[0])))
		}
		if f[2] == "1" {
			data = e.LT.EncodeMsg(&txs)
		} else {
			data = garbage
		}
	case "vpeer":
		topic = broadcast.VerifLtBlockTopic
		from = e.IDs[atoi(f[1])%NPeers]
		data = garbage
	}
	var v ps.ValidationResult
	if pi := Guard(func() { v = e.LT.Validate(topic, from, e.PsMsg(topic, from, data)) }); pi != nil {
		e.Unrecovered("pubsub-validator", pi, line)
		return "panic"
	}
	e.Cur.TakeTxs()
	return verdict(v)
}

// ---------------------------------------------------------------- stream protocols

func (e *Executor) reqBytes(rd string, msg types.Message) []byte {
	switch rd {
	case "err":
		return []byte{0x10, '/', 'p'}
	case "zero":
		b := p2pv.Frame(msg)
		b[3] ^= 0x55
		return b
	}
	return p2pv.Frame(msg)
}

func (e *Executor) runHandler(name string, in []byte) (*p2pv.FakeStream, *PanicInfo) {
	s := p2pv.NewFakeStream(e.IDs[7], libproto.ID(name))
	s.In = in
	h := e.fh.Handlers[libproto.ID(name)]
	pi := Guard(func() { h(s) })
	return s, pi
}

func (e *Executor) execStream(f []string, line string) string {
	switch f[0] {
	case "dlold": // dlold rd hasMsg start end
		req := &types.MessageGetBlocksReq{}
		if f[2] == "1" {
			req.Message = &types.P2PGetBlocks{StartHeight: atoi64(f[3]), EndHeight: atoi64(f[4])}
		}
		s, pi := e.runHandler("dlold", e.reqBytes(f[1], req))
		if pi != nil {
			e.Unrecovered("stream-handler", pi, line)
			return "panic"
		}
		if s.WasReset {
			e.RecPan++
			return "panic"
		}
		if len(s.Out) == 0 {
			return "dropped"
		}
		var resp types.MessageGetBlocksResp
		if err := p2pv.Unframe(s.Out, &resp); err != nil {
			return "sent-undecodable"
		}
		return fmt.Sprintf("sent %d", len(resp.GetMessage().GetItems()))
	case "dlnew": // dlnew rd start end
		req := &types.ReqBlocks{Start: atoi64(f[2]), End: atoi64(f[3])}
		s, pi := e.runHandler("dlnew", e.reqBytes(f[1], req))
		if pi != nil {
			e.Unrecovered("stream-handler", pi, line)
			return "panic"
		}
		if s.WasReset {
			e.RecPan++
			return "panic"
		}
		if len(s.Out) == 0 {
			return "dropped"
		}
		return "sent 1"
	case "dlreply": // dlreply rd hasMsg items firstIsBlock blockNil height requested
		resp := &types.MessageGetBlocksResp{}
		if f[2] == "1" {
			resp.Message = &types.InvDatas{}
			for i := 0; i < atoi(f[3]); i++ {
				it := &types.InvData{Ty: 2}
				if f[4] == "1" || i > 0 {
					it.Value = &types.InvData_Block{Block: &types.Block{Height: atoi64(f[6]) + int64(i), TxHash: []byte("x")}}
				} else if atoi64(f[6])%2 == 0 {
					it.Value = &types.InvData_Tx{Tx: e.Reg.Tx(1)}
				}
				resp.Message.Items = append(resp.Message.Items, it)
			}
		}
		reply := e.reqBytes(f[1], resp)
		e.fh.SetDial(func(ctx context.Context, p peer.ID, proto libproto.ID) (network.Stream, error) {
			s := p2pv.NewFakeStream(p, proto)
			s.Respond = func([]byte) []byte { return reply }
			return s, nil
		})
		var blk *types.Block
		var err error
		if pi := Guard(func() { blk, err = e.dl.VerifFetch(atoi64(f[7]), e.IDs[8]) }); pi != nil {
			e.Unrecovered("downloadBlock", pi, line)
			return "panic"
		}
		if err == nil && blk == nil {
			e.preds("C33|downloadBlockFromPeerOld|nil-block-returned-as-success", line)
			return "nil-block"
		}
		if err != nil {
			return "err"
		}
		return fmt.Sprintf("block %d", blk.Height)
	case "ver": // ver old rd same addr
		name := "version"
		addr := map[string]string{"1": "/ip4/8.8.8.8/tcp/13802", "0": "/xyz/8.8.8.8/foo/13802", "p": "/ip4/192.168.1.9/tcp/13802", "g": "garbage"}[f[4]]
		amap := map[string]string{"1": "/ip4/8.8.8.8/tcp/13802", "0": "/xyz/8.8.8.8/foo/13802", "p": "/ip4/192.168.1.9/tcp/13802", "g": "garbage"}
		v := &types.P2PVersion{Version: 7, AddrFrom: addr, AddrRecv: amap[f[5]]}
		if f[3] != "1" {
			v.Version = 8
		}
		var msg types.Message = v
		if f[1] == "1" {
			name = "versionOld"
			msg = &types.MessageP2PVersionReq{Message: v}
		}
		s, pi := e.runHandler(name, e.reqBytes(f[2], msg))
		if pi != nil {
			e.Unrecovered("stream-handler", pi, line)
			return "panic"
		}
		switch {
		case s.WasReset:
			e.RecPan++
			return "panic"
		case s.ConnClosed():
			return "wrongchain"
		case len(s.Out) > 0:
			return "replied"
		}
		return "dropped"
	case "pinfo": // pinfo old rd
		name := "peerInfo"
		if f[1] == "1" {
			name = "peerInfoOld"
		}
		s, pi := e.runHandler(name, e.reqBytes(f[2], &types.MessagePeerInfoReq{}))
		if pi != nil {
			e.Unrecovered("stream-handler", pi, line)
			return "panic"
		}
		switch {
		case s.WasReset:
			e.RecPan++
			return "panic"
		case len(s.Out) > 0:
			return "replied"
		}
		return "dropped"
	case "qinfo": // qinfo rd version-string-kind
		info := &types.Peer{Name: e.IDs[9].Pretty(), Version: map[string]string{"a": "6.8.9@1.2.3", "b": "x", "c": "1@", "d": "@@", "e": "1@2"}[f[2]], Header: &types.Header{Height: 9}}
		reply := e.reqBytes(f[1], info)
		e.fh.SetDial(func(ctx context.Context, p peer.ID, proto libproto.ID) (network.Stream, error) {
			s := p2pv.NewFakeStream(p, proto)
			s.Respond = func([]byte) []byte { return reply }
			return s, nil
		})
		var err error
		if pi := Guard(func() {
			var pinfo *types.Peer
			pinfo, err = e.pp.VerifQueryPeerInfo(e.IDs[9])
			if err == nil {
				e.pp.VerifCheckVersionLimit(pinfo.GetVersion())
				e.dlWorld.Env.PeerInfoManager.Refresh(pinfo)
			}
		}); pi != nil {
			e.Unrecovered("refreshPeerInfo", pi, line)
			return "panic"
		}
		if err != nil {
			return "err"
		}
		return "ok"
	case "qver": // qver rd addr
		addr := map[string]string{"1": "/ip4/8.8.8.8/tcp/13802", "0": "/xyz/8.8.8.8/foo/13802", "p": "/ip4/192.168.1.9/tcp/13802", "g": "garbage"}[f[2]]
		reply := e.reqBytes(f[1], &types.P2PVersion{Version: 7, AddrFrom: addr, AddrRecv: addr})
		e.fh.SetDial(func(ctx context.Context, p peer.ID, proto libproto.ID) (network.Stream, error) {
			s := p2pv.NewFakeStream(p, proto)
			s.Respond = func([]byte) []byte { return reply }
			return s, nil
		})
		var err error
		if pi := Guard(func() { err = e.pp.VerifQueryVersion(e.IDs[9]) }); pi != nil {
			e.Unrecovered("detectNodeAddr", pi, line)
			return "panic"
		}
		if err != nil {
			return "err"
		}
		return "ok"
	}
	return "bad-op"
}
