package p2pexec

// Facts re-extracted from /repo's source on every run (go/ast): which functions contain a deferred
// recover, and whether the loop bodies replicated by the verif hooks still equal the production ones.

import (
	"bytes"
	"go/ast"
	"go/parser"
	"go/printer"
	"go/token"
	"os"
	"path/filepath"
	"strings"
)

func repoDir() string {
	if d := os.Getenv("VERIF_REPO"); d != "" {
		return d
	}
	return "/repo"
}

type pkgAST struct {
	fset  *token.FileSet
	funcs map[string]*ast.FuncDecl
}

func parsePkg(rel string) *pkgAST {
	p := &pkgAST{fset: token.NewFileSet(), funcs: map[string]*ast.FuncDecl{}}
	dir := filepath.Join(repoDir(), rel)
	ents, _ := os.ReadDir(dir)
	for _, e := range ents {
		n := e.Name()
		if !strings.HasSuffix(n, ".go") || strings.HasSuffix(n, "_test.go") {
			continue
		}
		f, err := parser.ParseFile(p.fset, filepath.Join(dir, n), nil, 0)
		if err != nil {
			continue
		}
		for _, d := range f.Decls {
			if fd, ok := d.(*ast.FuncDecl); ok {
				p.funcs[fd.Name.Name] = fd
			}
		}
	}
	return p
}

// hasDeferredRecover: the function body contains `defer func() { … recover() … }()`, at any depth
// (HandlerWithClose / EventHandlerWithRecover return a closure that carries it).
func hasDeferredRecover(fd *ast.FuncDecl) bool {
	found := false
	ast.Inspect(fd, func(n ast.Node) bool {
		d, ok := n.(*ast.DeferStmt)
		if !ok {
			return true
		}
		ast.Inspect(d.Call, func(m ast.Node) bool {
			if c, ok := m.(*ast.CallExpr); ok {
				if id, ok := c.Fun.(*ast.Ident); ok && id.Name == "recover" {
					found = true
				}
			}
			return true
		})
		return true
	})
	return found
}

func (p *pkgAST) render(stmts []ast.Stmt) string {
	var b bytes.Buffer
	for _, s := range stmts {
		_ = printer.Fprint(&b, p.fset, s)
		b.WriteString("\n")
	}
	return strings.Join(strings.Fields(b.String()), " ")
}

// caseBody returns the statements of the select case receiving from `<chanExpr>` inside fn.
func (p *pkgAST) caseBody(fn, chanExpr string) (string, bool) {
	fd := p.funcs[fn]
	if fd == nil {
		return "", false
	}
	var out string
	ok := false
	ast.Inspect(fd, func(n ast.Node) bool {
		cc, is := n.(*ast.CommClause)
		if !is || cc.Comm == nil {
			return true
		}
		var b bytes.Buffer
		_ = printer.Fprint(&b, p.fset, cc.Comm)
		if strings.Contains(b.String(), chanExpr) {
			out, ok = p.render(cc.Body), true
		}
		return true
	})
	return out, ok
}

func (p *pkgAST) funcBody(fn string) (string, bool) {
	fd := p.funcs[fn]
	if fd == nil || fd.Body == nil {
		return "", false
	}
	return p.render(fd.Body.List), true
}

// EmitSameBodyFacts emits only the `fact same …` lines (do the stepped loop bodies equal the production ones).
func EmitSameBodyFacts(emit func(op, res string)) {
	EmitFacts(func(op, res string) {
		if len(op) > 10 && op[:10] == "fact same " {
			emit(op, res)
		}
	})
}

func EmitFacts(emit func(op, res string)) {
	b := parsePkg("system/p2p/dht/protocol/broadcast")
	pr := parsePkg("system/p2p/dht/protocol")
	dl := parsePkg("system/p2p/dht/protocol/download")
	rec := func(p *pkgAST, pkg, fn string) {
		fd := p.funcs[fn]
		res := "missing"
		if fd != nil {
			res = "0"
			if hasDeferredRecover(fd) {
				res = "1"
			}
		}
		emit("fact recover "+pkg+"."+fn, res)
	}
	for _, fn := range []string{"handleBroadcastReceive", "pendBlockLoop", "blockRequestLoop", "manageDeniedPeer", "handleSubMsg",
		"buildPendList", "buildPendBlock", "validateBlock", "validateTx", "validateBatchTx", "validatePeer"} {
		rec(b, "broadcast", fn)
	}
	rec(pr, "protocol", "HandlerWithClose")
	rec(pr, "protocol", "EventHandlerWithRecover")
	for _, fn := range []string{"downloadBlock", "downloadBlockFromPeerOld", "handleStreamDownloadBlockOld", "handleStreamDownloadBlock"} {
		rec(dl, "download", fn)
	}
	same := func(name, fn, ch, hook string) {
		a, ok1 := b.caseBody(fn, ch)
		h, ok2 := b.funcBody(hook)
		res := "differs"
		if ok1 && ok2 && a == h {
			res = "1"
		}
		emit("fact same "+name, res)
	}
	same("pendBlockLoop", "pendBlockLoop", "ticker.C", "verifPendTick")
	same("manageDeniedPeer", "manageDeniedPeer", "waitMsgReplyTicker.C", "verifDeniedTick")
	// blockRequestLoop's tick body is the single call the hook makes
	a, ok := b.caseBody("blockRequestLoop", "ticker.C")
	res := "differs"
	if ok && a == "l.handleBlockReqList()" {
		res = "1"
	}
	emit("fact same blockRequestLoop", res)
}
