package p2pexec

// Facts re-extracted from /repo's source on every run (go/ast): which functions contain a deferred
// recover, and whether the loop bodies replicated by the verif hooks still equal the production ones.

import (
	"bytes"
	"go/ast"
	"go/parser"
	"go/printer"
	"go/token"
	"os"
	"path/filepath"
	"strings"
)

func repoDir() string {
	if d := os.Getenv("VERIF_REPO"); d != "" {
		return d
	}
	return "/repo"
}

type pkgAST struct {
	fset  *token.FileSet
	funcs map[string]*ast.FuncDecl
}

func parsePkg(rel string) *pkgAST {
	p := &pkgAST{fset: token.NewFileSet(), funcs: map[string]*ast.FuncDecl{}}
	dir := filepath.Join(repoDir(), rel)
	ents, _ := os.ReadDir(dir)
	for _, e := range ents {
		n := e.Name()
		if !strings.HasSuffix(n, ".go") || strings.HasSuffix(n, "_test.go") {
			continue
		}
		f, err := parser.ParseFile(p.fset, filepath.Join(dir, n), nil, 0)
		if err != nil {
			continue
		}
		for _, d := range f.Decls {
			if fd, ok := d.(*ast.FuncDecl); ok {
				p.funcs[fd.Name.Name] = fd
			}
		}
	}
	return p
}

// hasDeferredRecover: the function body contains `defer func() { … recover() … }()`, at any depth
// (HandlerWithClose / EventHandlerWithRecover return a closure that carries it).
func hasDeferredRecover(fd *ast.FuncDecl) bool {
	found := false
	ast.Inspect(fd, func(n ast.Node) bool {
		d, ok := n.(*ast.DeferStmt)
		if !ok {
			return true
		}
		ast.Inspect(d.Call, func(m ast.Node) bool {
			if c, ok := m.(*ast.CallExpr); ok {
				if id, ok := c.Fun.(*ast.Ident); ok && id.Name == "recover" {
					found = true
				}
			}
			return true
		})
		return true
	})
	return found
}

func (p *pkgAST) render(stmts []ast.Stmt) string {
	var b bytes.Buffer
	for _, s := range stmts {
		_ = printer.Fprint(&b, p.fset, s)
		b.WriteString("\n")
	}
	return strings.Join(strings.Fields(b.String()), " ")
}

// caseBody returns the statements of the select case receiving from `<chanExpr>` inside fn.
func (p *pkgAST) caseBody(fn, chanExpr string) (string, bool) {
	fd := p.funcs[fn]
	if fd == nil {
		return "", false
	}
	var out string
	ok := false
	ast.Inspect(fd, func(n ast.Node) bool {
		cc, is := n.(*ast.CommClause)
		if !is || cc.Comm == nil {
			return true
		}
		var b bytes.Buffer
		_ = printer.Fprint(&b, p.fset, cc.Comm)
		if strings.Contains(b.String(), chanExpr) {
			out, ok = p.render(cc.Body), true
		}
		return true
	})
	return out, ok
}

func (p *pkgAST) funcBody(fn string) (string, bool) {
	fd := p.funcs[fn]
	if fd == nil || fd.Body == nil {
		return "", false
	}
	return p.render(fd.Body.List), true
}

// EmitSameBodyFacts emits only the `fact same …` lines (do the stepped loop bodies equal the production ones).
func EmitSameBodyFacts(emit func(op, res string)) {
	EmitFacts(func(op, res string) {
		if len(op) > 10 && op[:10] == "fact same " {
			emit(op, res)
		}
	})
}

// lockDiscipline classifies every X.Lock()/X.RLock() statement of a function: "deferred" (the next statement is
// `defer X.Unlock()`), "explicit-nocall" (released by an explicit Unlock with no call or index expression in between,
// so nothing can panic while it is held) or "explicit-across-calls" (a panic in between leaves it locked for ever).
func lockDiscipline(p *pkgAST, fn string) string {
	fd := p.funcs[fn]
	if fd == nil || fd.Body == nil {
		return "missing"
	}
	lockCall := func(st ast.Stmt) (recv string, kind string) {
		es, ok := st.(*ast.ExprStmt)
		if !ok {
			return "", ""
		}
		c, ok := es.X.(*ast.CallExpr)
		if !ok {
			return "", ""
		}
		sel, ok := c.Fun.(*ast.SelectorExpr)
		if !ok {
			return "", ""
		}
		var b bytes.Buffer
		_ = printer.Fprint(&b, p.fset, sel.X)
		return b.String(), sel.Sel.Name
	}
	var res []string
	var walk func(list []ast.Stmt)
	walk = func(list []ast.Stmt) {
		for i, st := range list {
			recv, kind := lockCall(st)
			if kind == "Lock" || kind == "RLock" {
				cls := "explicit-nocall"
				if i+1 < len(list) {
					if d, ok := list[i+1].(*ast.DeferStmt); ok {
						var b bytes.Buffer
						_ = printer.Fprint(&b, p.fset, d.Call.Fun)
						if strings.HasPrefix(b.String(), recv+".") && strings.HasSuffix(b.String(), "nlock") {
							cls = "deferred"
						}
					}
				}
				if cls != "deferred" {
					// anything that can panic between this Lock and the last Unlock of the same mutex in the function?
					last := token.NoPos
					ast.Inspect(fd, func(n ast.Node) bool {
						if es, ok := n.(*ast.ExprStmt); ok {
							if r2, k2 := lockCall(es); r2 == recv && (k2 == "Unlock" || k2 == "RUnlock") && es.Pos() > st.Pos() {
								last = es.Pos()
							}
						}
						return true
					})
					ast.Inspect(fd, func(n ast.Node) bool {
						if n == nil || n.Pos() <= st.End() || (last != token.NoPos && n.Pos() >= last) {
							return true
						}
						switch x := n.(type) {
						case *ast.CallExpr:
							if r2, k2 := lockCall(&ast.ExprStmt{X: x}); r2 == recv && (k2 == "Unlock" || k2 == "RUnlock") {
								return true
							}
							cls = "explicit-across-calls"
						case *ast.IndexExpr:
							cls = "explicit-across-calls"
						}
						return true
					})
				}
				res = append(res, cls)
			}
			// nested blocks
			ast.Inspect(st, func(n ast.Node) bool {
				if b, ok := n.(*ast.BlockStmt); ok && n != ast.Node(st) {
					walk(b.List)
					return false
				}
				return true
			})
		}
	}
	walk(fd.Body.List)
	if len(res) == 0 {
		return "none"
	}
	return strings.Join(res, ",")
}

// LockFunctions are the receive-path and loop functions of the broadcast package whose lock discipline is a fact of the model.
var LockFunctions = []string{"addLtBlock", "buildPendList", "addBlockRequest", "handleBlockReqList", "addBroadcastMsg", "copyMsgList",
	"validateBlock", "reduceDeniedCount", "addDeniedPeer", "isDeniedPeer", "recoverDeniedPeers", "getSyncStatus", "handleIsSyncEvent"}

func EmitFacts(emit func(op, res string)) {
	{
		b := parsePkg("system/p2p/dht/protocol/broadcast")
		for _, fn := range LockFunctions {
			emit("fact lock broadcast."+fn, lockDiscipline(b, fn))
		}
	}
	b := parsePkg("system/p2p/dht/protocol/broadcast")
	pr := parsePkg("system/p2p/dht/protocol")
	dl := parsePkg("system/p2p/dht/protocol/download")
	rec := func(p *pkgAST, pkg, fn string) {
		fd := p.funcs[fn]
		res := "missing"
		if fd != nil {
			res = "0"
			if hasDeferredRecover(fd) {
				res = "1"
			}
		}
		emit("fact recover "+pkg+"."+fn, res)
	}
	for _, fn := range []string{"handleBroadcastReceive", "pendBlockLoop", "blockRequestLoop", "manageDeniedPeer", "handleSubMsg",
		"buildPendList", "buildPendBlock", "validateBlock", "validateTx", "validateBatchTx", "validatePeer"} {
		rec(b, "broadcast", fn)
	}
	rec(pr, "protocol", "HandlerWithClose")
	rec(pr, "protocol", "EventHandlerWithRecover")
	for _, fn := range []string{"downloadBlock", "downloadBlockFromPeerOld", "handleStreamDownloadBlockOld", "handleStreamDownloadBlock"} {
		rec(dl, "download", fn)
	}
	same := func(name, fn, ch, hook string) {
		a, ok1 := b.caseBody(fn, ch)
		h, ok2 := b.funcBody(hook)
		res := "differs"
		if ok1 && ok2 && a == h {
			res = "1"
		}
		emit("fact same "+name, res)
	}
	same("pendBlockLoop", "pendBlockLoop", "ticker.C", "verifPendTick")
	same("manageDeniedPeer", "manageDeniedPeer", "waitMsgReplyTicker.C", "verifDeniedTick")
	// blockRequestLoop's tick body is the single call the hook makes
	a, ok := b.caseBody("blockRequestLoop", "ticker.C")
	res := "differs"
	if ok && a == "l.handleBlockReqList()" {
		res = "1"
	}
	emit("fact same blockRequestLoop", res)
}
