package p2pv

import (
	"context"
	"errors"
	"io"
	"sync"
	"time"

	dhtproto "github.com/33cn/chain33/system/p2p/dht/protocol"
	"github.com/33cn/chain33/types"
	"github.com/libp2p/go-libp2p/core/host"
	"github.com/libp2p/go-libp2p/core/network"
	"github.com/libp2p/go-libp2p/core/peer"
	"github.com/libp2p/go-libp2p/core/protocol"
	ma "github.com/multiformats/go-multiaddr"
)

// FakeHost wraps a real (non-listening) host; streams are served by Dial, handlers are captured.
type FakeHost struct {
	host.Host
	mu       sync.Mutex
	Handlers map[protocol.ID]network.StreamHandler
	Dial     func(ctx context.Context, p peer.ID, proto protocol.ID) (network.Stream, error)
}

// NewFakeHost builds a FakeHost over NewHost(seed).
func NewFakeHost(seed uint64) *FakeHost {
	return &FakeHost{Host: NewHost(seed), Handlers: map[protocol.ID]network.StreamHandler{}}
}

// NewStream implements host.Host through Dial.
func (h *FakeHost) NewStream(ctx context.Context, p peer.ID, pids ...protocol.ID) (network.Stream, error) {
	h.mu.Lock()
	d := h.Dial
	h.mu.Unlock()
	if d == nil {
		return nil, errors.New("no route")
	}
	var id protocol.ID
	if len(pids) > 0 {
		id = pids[0]
	}
	return d(ctx, p, id)
}

// SetStreamHandler captures the handler.
func (h *FakeHost) SetStreamHandler(pid protocol.ID, handler network.StreamHandler) {
	h.mu.Lock()
	defer h.mu.Unlock()
	h.Handlers[pid] = handler
}

// SetDial installs the dial script.
func (h *FakeHost) SetDial(d func(ctx context.Context, p peer.ID, proto protocol.ID) (network.Stream, error)) {
	h.mu.Lock()
	defer h.mu.Unlock()
	h.Dial = d
}

// FakeConn is the connection a FakeStream reports.
type FakeConn struct {
	network.Conn
	Remote peer.ID
	Addr   ma.Multiaddr
	Closed bool
}

// RemotePeer implements network.Conn.
func (c *FakeConn) RemotePeer() peer.ID { return c.Remote }

// RemoteMultiaddr implements network.Conn.
func (c *FakeConn) RemoteMultiaddr() ma.Multiaddr { return c.Addr }

// Close implements network.Conn.
func (c *FakeConn) Close() error { c.Closed = true; return nil }

// ErrStalled is what a released stalled read returns.
var ErrStalled = errors.New("verif: stalled stream released")

// FakeStream is an in-memory network.Stream.
//
// Server side (the code under test is the handler): In holds the request bytes, Out collects the reply.
// Client side (the code under test opened the stream): Respond is called once, at the first Read, with
// everything written so far and returns the reply bytes; Stall makes Read block until a deadline set by
// the code under test expires, the stream is closed/reset, or Release is called.
type FakeStream struct {
	network.Stream
	mu          sync.Mutex
	In          []byte
	pos         int
	Out         []byte
	Respond     func(written []byte) []byte
	responded   bool
	Stall       bool
	release     chan struct{}
	Blocked     chan struct{} // closed when a Read starts blocking
	blockedOnce sync.Once
	DeadlineSet bool
	deadline    time.Time
	Closed      bool
	WasReset    bool
	conn        *FakeConn
	proto       protocol.ID
}

// NewFakeStream returns a stream to/from remote.
func NewFakeStream(remote peer.ID, proto protocol.ID) *FakeStream {
	a, _ := ma.NewMultiaddr("/ip4/10.1.2.3/tcp/13802")
	return &FakeStream{conn: &FakeConn{Remote: remote, Addr: a}, proto: proto,
		release: make(chan struct{}), Blocked: make(chan struct{})}
}

// Release ends a stalled read with ErrStalled.
func (s *FakeStream) Release() {
	s.mu.Lock()
	defer s.mu.Unlock()
	select {
	case <-s.release:
	default:
		close(s.release)
	}
}

func (s *FakeStream) Read(p []byte) (int, error) {
	s.mu.Lock()
	if s.Respond != nil && !s.responded {
		s.responded = true
		s.In = append(s.In, s.Respond(s.Out)...)
	}
	if s.pos < len(s.In) {
		n := copy(p, s.In[s.pos:])
		s.pos += n
		s.mu.Unlock()
		return n, nil
	}
	if !s.Stall || s.Closed || s.WasReset {
		s.mu.Unlock()
		return 0, io.EOF
	}
	var timer <-chan time.Time
	if s.DeadlineSet {
		d := time.Until(s.deadline)
		if d < 0 {
			d = 0
		}
		timer = time.After(d)
	}
	rel := s.release
	s.mu.Unlock()
	s.blockedOnce.Do(func() { close(s.Blocked) })
	select {
	case <-rel:
		return 0, ErrStalled
	case <-timer:
		return 0, errors.New("i/o deadline reached")
	}
}

func (s *FakeStream) Write(p []byte) (int, error) {
	s.mu.Lock()
	defer s.mu.Unlock()
	if s.Closed || s.WasReset {
		return 0, errors.New("stream closed")
	}
	s.Out = append(s.Out, p...)
	return len(p), nil
}

// Close implements network.Stream.
func (s *FakeStream) Close() error {
	s.mu.Lock()
	s.Closed = true
	s.mu.Unlock()
	s.Release()
	return nil
}

// CloseWrite implements network.Stream.
func (s *FakeStream) CloseWrite() error { return nil }

// CloseRead implements network.Stream.
func (s *FakeStream) CloseRead() error { return nil }

// Reset implements network.Stream.
func (s *FakeStream) Reset() error {
	s.mu.Lock()
	s.WasReset = true
	s.mu.Unlock()
	s.Release()
	return nil
}

// SetDeadline implements network.Stream.
func (s *FakeStream) SetDeadline(t time.Time) error {
	s.mu.Lock()
	defer s.mu.Unlock()
	s.DeadlineSet, s.deadline = true, t
	return nil
}

// SetReadDeadline implements network.Stream.
func (s *FakeStream) SetReadDeadline(t time.Time) error { return s.SetDeadline(t) }

// SetWriteDeadline implements network.Stream.
func (s *FakeStream) SetWriteDeadline(t time.Time) error { return nil }

// ID implements network.Stream.
func (s *FakeStream) ID() string { return "verif-stream" }

// Protocol implements network.Stream.
func (s *FakeStream) Protocol() protocol.ID { return s.proto }

// SetProtocol implements network.Stream.
func (s *FakeStream) SetProtocol(id protocol.ID) error { s.proto = id; return nil }

// Conn implements network.Stream.
func (s *FakeStream) Conn() network.Conn { return s.conn }

// HadDeadline reports whether the code under test ever set a (read) deadline.
func (s *FakeStream) HadDeadline() bool {
	s.mu.Lock()
	defer s.mu.Unlock()
	return s.DeadlineSet
}

// Deadline returns the deadline the code under test set (zero time: none).
func (s *FakeStream) Deadline() time.Time {
	s.mu.Lock()
	defer s.mu.Unlock()
	if !s.DeadlineSet {
		return time.Time{}
	}
	return s.deadline
}

// Written returns what the code under test wrote.
func (s *FakeStream) Written() []byte {
	s.mu.Lock()
	defer s.mu.Unlock()
	return append([]byte(nil), s.Out...)
}

// ConnClosed reports whether the handler closed the connection.
func (s *FakeStream) ConnClosed() bool { return s.conn.Closed }

// Frame encodes msg exactly as protocol.WriteStream puts it on a stream.
func Frame(msg types.Message) []byte {
	s := NewFakeStream("", "")
	_ = dhtproto.WriteStream(msg, s)
	return s.Out
}

// Unframe decodes bytes written with protocol.WriteStream into msg.
func Unframe(b []byte, msg types.Message) error {
	s := NewFakeStream("", "")
	s.In = b
	return dhtproto.ReadStream(msg, s)
}
