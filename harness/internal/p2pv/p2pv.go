// Package p2pv builds an in-process environment (protocol.P2PEnv) for the dht protocol packages of
// /repo: a real message queue with scripted "mempool" and "blockchain" modules, a libp2p host
// that never listens, and (for the stream protocols) a host wrapper whose NewStream /
// SetStreamHandler are served by scripted fake peers. Used by h_c33, h_c34, h_c35.
package p2pv

import (
	"context"
	"errors"
	"sync"
	"time"

	"github.com/33cn/chain33/client"
	"github.com/33cn/chain33/p2p"
	"github.com/33cn/chain33/queue"
	"github.com/33cn/chain33/system/mempool"
	ext "github.com/33cn/chain33/system/p2p/dht/extension"
	"github.com/33cn/chain33/system/p2p/dht/protocol"
	p2pty "github.com/33cn/chain33/system/p2p/dht/types"
	"github.com/33cn/chain33/types"
	"github.com/libp2p/go-libp2p"
	"github.com/libp2p/go-libp2p/core/crypto"
	"github.com/libp2p/go-libp2p/core/host"
	"github.com/libp2p/go-libp2p/core/peer"
)

// NewCfg returns the default chain33 configuration with p2p.types = p2pTypes.
func NewCfg(p2pTypes ...string) *types.Chain33Config {
	cfg := types.NewChain33Config(types.GetDefaultCfgstring())
	if len(p2pTypes) == 0 {
		p2pTypes = []string{"dht"}
	}
	cfg.GetModuleConfig().P2P.Types = p2pTypes
	return cfg
}

// DetRand is a deterministic io.Reader for key generation.
type DetRand struct{ s uint64 }

// NewDetRand seeds a reader.
func NewDetRand(seed uint64) *DetRand { return &DetRand{s: seed} }

func (r *DetRand) Read(p []byte) (int, error) {
	for i := range p {
		r.s += 0x9e3779b97f4a7c15
		z := r.s
		z = (z ^ (z >> 30)) * 0xbf58476d1ce4e5b9
		z = (z ^ (z >> 27)) * 0x94d049bb133111eb
		p[i] = byte(z ^ (z >> 31))
	}
	return len(p), nil
}

// PeerIDs returns n deterministic peer ids (ed25519 keys from a seeded stream).
func PeerIDs(seed uint64, n int) []peer.ID {
	r := NewDetRand(seed)
	out := make([]peer.ID, 0, n)
	for len(out) < n {
		_, pub, err := crypto.GenerateEd25519Key(r)
		if err != nil {
			panic(err)
		}
		id, err := peer.IDFromPublicKey(pub)
		if err != nil {
			panic(err)
		}
		out = append(out, id)
	}
	return out
}

// NewHost is a libp2p host without listeners or transports (nothing touches the network).
func NewHost(seed uint64) host.Host {
	priv, _, err := crypto.GenerateEd25519Key(NewDetRand(seed))
	if err != nil {
		panic(err)
	}
	h, err := libp2p.New(libp2p.NoListenAddrs, libp2p.Identity(priv), libp2p.DisableRelay())
	if err != nil {
		panic(err)
	}
	return h
}

// BlockPost is one block handed to the blockchain module.
type BlockPost struct {
	Event int64
	Pid   string
	Block *types.Block
}

// World is one environment.
type World struct {
	Cfg    *types.Chain33Config
	Q      queue.Queue
	Env    *protocol.P2PEnv
	Mgr    *p2p.Manager
	Cancel context.CancelFunc

	mu        sync.Mutex
	pool      *mempool.SHashTxCache
	poolUp    bool
	poolShort bool
	posts     []BlockPost
	replyOK   bool
	replyMsg  string
	getBlocks func(req *types.ReqBlocks) interface{} // reply data for EventGetBlocks
	sendTxErr error
	txPolicy  func(tx *types.Transaction) error
	txs       []*types.Transaction
	height    int64
}

// Options for NewWorld.
type Options struct {
	P2PTypes  []string
	Host      host.Host // default: NewHost(seed)
	HostSeed  uint64
	NoPubsub  bool
	SubConfig *p2pty.P2PSubConfig
}

// NewWorld builds queue, fake modules, manager, API and environment.
func NewWorld(o Options) *World {
	w := &World{poolUp: true, replyOK: true}
	w.Cfg = NewCfg(o.P2PTypes...)
	w.Q = queue.New("verif-p2p")
	w.Q.SetConfig(w.Cfg)
	w.pool = mempool.NewSHashTxCache(1 << 20)
	mgr := p2p.NewP2PMgr(w.Cfg)
	mgr.Client = w.Q.Client()
	mgr.SysAPI, _ = client.New(mgr.Client, nil)
	w.Mgr = mgr
	h := o.Host
	if h == nil {
		h = NewHost(o.HostSeed + 1)
	}
	sub := o.SubConfig
	if sub == nil {
		sub = &p2pty.P2PSubConfig{}
	}
	ctx, cancel := context.WithCancel(context.Background())
	w.Cancel = cancel
	api, _ := client.New(w.Q.Client(), nil)
	env := &protocol.P2PEnv{
		Ctx:         ctx,
		ChainCfg:    w.Cfg,
		SubConfig:   sub,
		API:         api,
		QueueClient: w.Q.Client(),
		Host:        h,
		P2PManager:  mgr,
	}
	if !o.NoPubsub {
		ps, err := ext.NewPubSub(ctx, h, &p2pty.PubSubConfig{})
		if err != nil {
			panic(err)
		}
		env.Pubsub = ps
	}
	w.Env = env
	w.startModule("mempool", w.handleMempool)
	w.startModule("blockchain", w.handleBlockchain)
	return w
}

// Close stops everything.
func (w *World) Close() {
	w.Cancel()
	done := make(chan struct{})
	go func() { w.Q.Close(); close(done) }()
	select {
	case <-done:
	case <-time.After(30 * time.Second):
	}
	if w.Env.Host != nil {
		_ = w.Env.Host.Close()
	}
}

func (w *World) startModule(topic string, f func(c queue.Client, m *queue.Message)) {
	c := w.Q.Client()
	c.Sub(topic)
	ready := make(chan struct{})
	go func() {
		close(ready)
		for m := range c.Recv() {
			f(c, m)
		}
	}()
	<-ready
}

// ---- mempool module

// PoolReset empties the pool.
func (w *World) PoolReset() {
	w.mu.Lock()
	defer w.mu.Unlock()
	w.pool = mempool.NewSHashTxCache(1 << 20)
	w.poolUp = true
	w.poolShort = false
}

// PoolShort makes the mempool module answer EventTxListByHash with one entry fewer than hashes were asked for.
func (w *World) PoolShort(short bool) {
	w.mu.Lock()
	defer w.mu.Unlock()
	w.poolShort = short
}

// PoolPush indexes tx under the short hash of hash (real SHashTxCache: first entry wins).
func (w *World) PoolPush(tx *types.Transaction, hash []byte) {
	w.mu.Lock()
	defer w.mu.Unlock()
	w.pool.Push(tx, hash)
}

// PoolRemove removes the entry of a full hash.
func (w *World) PoolRemove(hash []byte) {
	w.mu.Lock()
	defer w.mu.Unlock()
	w.pool.Remove(string(hash))
}

// PoolUp switches the mempool module between answering and replying with an error.
func (w *World) PoolUp(up bool) {
	w.mu.Lock()
	defer w.mu.Unlock()
	w.poolUp = up
}

// SetSendTxErr makes EventTx fail with err (nil: accept).
func (w *World) SetSendTxErr(err error) {
	w.mu.Lock()
	defer w.mu.Unlock()
	w.sendTxErr = err
}

// SetSendTxPolicy decides per transaction whether EventTx is accepted.
func (w *World) SetSendTxPolicy(f func(tx *types.Transaction) error) {
	w.mu.Lock()
	defer w.mu.Unlock()
	w.txPolicy = f
}

// TakeTxs returns and clears the transactions received by the mempool module.
func (w *World) TakeTxs() []*types.Transaction {
	w.mu.Lock()
	defer w.mu.Unlock()
	t := w.txs
	w.txs = nil
	return t
}

func (w *World) handleMempool(c queue.Client, m *queue.Message) {
	w.mu.Lock()
	defer w.mu.Unlock()
	switch m.Ty {
	case types.EventTxListByHash:
		if !w.poolUp {
			m.Reply(c.NewMessage("p2p", types.EventTxListByHash, errors.New("mempool down")))
			return
		}
		req := m.GetData().(*types.ReqTxHashList)
		// the five lines of mempool.getTxListByHash for IsShortHash (system/mempool/base.go)
		var reply types.ReplyTxList
		for _, sHash := range req.GetHashes() {
			tx := w.pool.GetSHashTxCache(sHash)
			reply.Txs = append(reply.Txs, tx)
		}
		if w.poolShort && len(reply.Txs) > 0 {
			reply.Txs = reply.Txs[:len(reply.Txs)-1]
		}
		m.Reply(c.NewMessage("p2p", types.EventTxListByHash, &reply))
	case types.EventTx:
		if tx, ok := m.GetData().(*types.Transaction); ok {
			w.txs = append(w.txs, tx)
		}
		err := w.sendTxErr
		if tx, ok := m.GetData().(*types.Transaction); ok && err == nil && w.txPolicy != nil {
			err = w.txPolicy(tx)
		}
		if err != nil {
			m.Reply(c.NewMessage("p2p", types.EventReply, err))
			return
		}
		m.Reply(c.NewMessage("p2p", types.EventReply, &types.Reply{IsOk: true}))
	case types.EventGetMempoolSize:
		m.Reply(c.NewMessage("p2p", types.EventMempoolSize, &types.MempoolSize{Size: 7}))
	default:
		m.Reply(c.NewMessage("p2p", types.EventReply, &types.Reply{IsOk: true}))
	}
}

// ---- blockchain module

// SetVerdict sets the reply given to broadcast blocks.
func (w *World) SetVerdict(ok bool, msg string) {
	w.mu.Lock()
	defer w.mu.Unlock()
	w.replyOK, w.replyMsg = ok, msg
}

// SetGetBlocks scripts the reply data to EventGetBlocks.
func (w *World) SetGetBlocks(f func(req *types.ReqBlocks) interface{}) {
	w.mu.Lock()
	defer w.mu.Unlock()
	w.getBlocks = f
}

// SetHeight sets the height reported by EventGetLastHeader.
func (w *World) SetHeight(h int64) {
	w.mu.Lock()
	defer w.mu.Unlock()
	w.height = h
}

// TakePosts returns and clears the blocks received by the blockchain module.
func (w *World) TakePosts() []BlockPost {
	w.mu.Lock()
	defer w.mu.Unlock()
	p := w.posts
	w.posts = nil
	return p
}

// Sync round-trips one message through a module, so that everything sent to it before has been handled.
func (w *World) Sync(topic string) {
	c := w.Q.Client()
	m := c.NewMessage(topic, types.EventIsSync, nil)
	if c.Send(m, true) == nil {
		_, _ = c.WaitTimeout(m, 60*time.Second)
	}
}

// SyncLow is Sync through the low-priority channel (the one asynchronous Send(msg,false) uses), so that
// everything sent asynchronously before has been handled.
func (w *World) SyncLow(topic string) {
	c := w.Q.Client()
	m := c.NewMessage(topic, types.EventIsSync, nil)
	if c.Send(m, false) == nil {
		_, _ = c.WaitTimeout(m, 120*time.Second)
	}
}

func (w *World) handleBlockchain(c queue.Client, m *queue.Message) {
	w.mu.Lock()
	defer w.mu.Unlock()
	switch m.Ty {
	case types.EventBroadcastAddBlock, types.EventSyncBlock:
		if bp, ok := m.GetData().(*types.BlockPid); ok {
			w.posts = append(w.posts, BlockPost{Event: m.Ty, Pid: bp.Pid, Block: bp.Block})
		}
		m.Reply(c.NewMessage("p2p", types.EventReply, &types.Reply{IsOk: w.replyOK, Msg: []byte(w.replyMsg)}))
	case types.EventGetBlocks:
		req, _ := m.GetData().(*types.ReqBlocks)
		var data interface{} = types.ErrStartHeight
		if w.getBlocks != nil {
			data = w.getBlocks(req)
		}
		m.Reply(c.NewMessage("p2p", types.EventBlocks, data))
	case types.EventGetLastHeader:
		m.Reply(c.NewMessage("p2p", types.EventHeader, &types.Header{Height: w.height}))
	case types.EventSnowmanLastChoice:
		m.Reply(c.NewMessage("p2p", types.EventSnowmanLastChoice, &types.SnowChoice{Height: w.height}))
	default:
		m.Reply(c.NewMessage("p2p", types.EventReply, &types.Reply{IsOk: true}))
	}
}

// PeerInfo is a scripted protocol.IPeerInfoManager.
type PeerInfo struct {
	mu      sync.Mutex
	Heights map[peer.ID]int64
	Infos   map[peer.ID]*types.Peer
}

// NewPeerInfo returns an empty manager.
func NewPeerInfo() *PeerInfo {
	return &PeerInfo{Heights: map[peer.ID]int64{}, Infos: map[peer.ID]*types.Peer{}}
}

// Set records a peer's height.
func (p *PeerInfo) Set(id peer.ID, h int64) {
	p.mu.Lock()
	defer p.mu.Unlock()
	p.Heights[id] = h
}

// Refresh implements IPeerInfoManager.
func (p *PeerInfo) Refresh(info *types.Peer) {
	if info == nil {
		return
	}
	p.mu.Lock()
	defer p.mu.Unlock()
	p.Infos[peer.ID(info.Name)] = info
}

// Fetch implements IPeerInfoManager.
func (p *PeerInfo) Fetch(pid peer.ID) *types.Peer {
	p.mu.Lock()
	defer p.mu.Unlock()
	return p.Infos[pid]
}

// FetchAll implements IPeerInfoManager.
func (p *PeerInfo) FetchAll() []*types.Peer { return nil }

// PeerHeight implements IPeerInfoManager (-1 for unknown peers, as the real manager).
func (p *PeerInfo) PeerHeight(pid peer.ID) int64 {
	p.mu.Lock()
	defer p.mu.Unlock()
	if h, ok := p.Heights[pid]; ok {
		return h
	}
	return -1
}

// PeerMaxHeight implements IPeerInfoManager.
func (p *PeerInfo) PeerMaxHeight() int64 { return 0 }
