// Package quiet silences chain33's log15 root logger (it writes to stdout, which is the harness's
// protocol channel). Import for side effect: _ "verifharness/internal/quiet".
package quiet

import (
	"github.com/33cn/chain33/common/log/log15"
)

func init() { log15.Root().SetHandler(log15.DiscardHandler()) }
