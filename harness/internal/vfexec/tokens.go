package vfexec

import (
	"errors"
	"fmt"
	"os"
	"strconv"
	"strings"

	"github.com/33cn/chain33/common/address"
	"github.com/33cn/chain33/common/crypto"
	"github.com/33cn/chain33/common/log/log15"
	"github.com/33cn/chain33/types"
)

// Quiet silences the node's logging and moves its scratch data dir under $VERIF_TMP.
func Quiet() {
	log15.Root().SetHandler(log15.DiscardHandler())
	if d := os.Getenv("VERIF_TMP"); d != "" {
		os.Setenv("TMPDIR", d)
	}
}

// DetKey returns a deterministic secp256k1 key (index i) and its address.
func DetKey(i int) (crypto.PrivKey, string) {
	c, err := crypto.Load(types.GetSignName("", types.SECP256K1), -1)
	if err != nil {
		panic(err)
	}
	b := make([]byte, 32)
	for j := range b {
		b[j] = byte(0x11 + i)
	}
	b[31] = byte(i + 1)
	priv, err := c.PrivKeyFromBytes(b)
	if err != nil {
		panic(err)
	}
	return priv, address.PubKeyToAddr(address.DefaultID, priv.PubKey().Bytes())
}

// AcctKey is the state key of addr's coins account.
func AcctKey(addr string) []byte { return []byte("mavl-coins-bty-" + addr) }

// TxDesc is the wire description of one transaction of a block.
type TxDesc struct {
	AcctKey []byte
	Fee     int64
	Execer  []byte
	ExecOps []Op
	LocOps  []Op
}

// Token renders "acctkeyhex,fee,execerhex,execops,localops".
func (t TxDesc) Token() string {
	return fmt.Sprintf("%s,%d,%s,%s,%s", Hx(t.AcctKey), t.Fee, Hx(t.Execer), FormatOps(t.ExecOps), FormatOps(t.LocOps))
}

// ParseTxToken is the inverse of Token.
func ParseTxToken(s string) (TxDesc, error) {
	f := strings.Split(s, ",")
	var t TxDesc
	if len(f) != 5 {
		return t, errors.New("bad tx token")
	}
	var err error
	if t.AcctKey, err = unhx(f[0]); err != nil {
		return t, err
	}
	if t.Fee, err = strconv.ParseInt(f[1], 10, 64); err != nil {
		return t, err
	}
	if t.Execer, err = unhx(f[2]); err != nil {
		return t, err
	}
	if t.ExecOps, err = ParseOps(f[3]); err != nil {
		return t, err
	}
	t.LocOps, err = ParseOps(f[4])
	return t, err
}

// Unit is a single transaction (len 1, Group false) or a group.
type Unit struct {
	Group bool
	Txs   []TxDesc
}

// Token renders "T<tx>" or "G<tx>+<tx>…".
func (u Unit) Token() string {
	if !u.Group {
		return "T" + u.Txs[0].Token()
	}
	parts := make([]string, len(u.Txs))
	for i, t := range u.Txs {
		parts[i] = t.Token()
	}
	return "G" + strings.Join(parts, "+")
}

// ParseUnitToken is the inverse of Unit.Token.
func ParseUnitToken(s string) (Unit, error) {
	if strings.HasPrefix(s, "T") {
		t, err := ParseTxToken(s[1:])
		return Unit{Txs: []TxDesc{t}}, err
	}
	if strings.HasPrefix(s, "G") {
		u := Unit{Group: true}
		for _, p := range strings.Split(s[1:], "+") {
			t, err := ParseTxToken(p)
			if err != nil {
				return u, err
			}
			u.Txs = append(u.Txs, t)
		}
		if len(u.Txs) < 2 {
			return u, errors.New("group of one")
		}
		return u, nil
	}
	return Unit{}, errors.New("bad unit token")
}
