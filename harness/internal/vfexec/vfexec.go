// Package vfexec: synthetic executors ("contracts as programs") and a non-mining test node for the
// C11/C12 checks.  The drivers are ordinary drivers.Register calls; each transaction carries a
// small program in its payload that the driver interprets against the real StateDB / LocalDB of
// the block-execution environment.  Every read performed by a program is recorded in a process
// global recorder keyed by the transaction hash (side channel: also failing transactions are seen).
package vfexec

import (
	"encoding/hex"
	"errors"
	"fmt"
	"sort"
	"strings"
	"sync"

	"github.com/33cn/chain33/common/address"
	"github.com/33cn/chain33/common/crypto"
	"github.com/33cn/chain33/queue"
	_ "github.com/33cn/chain33/system" // plugin registration
	drivers "github.com/33cn/chain33/system/dapp"
	"github.com/33cn/chain33/types"
	"github.com/33cn/chain33/util"
	"github.com/33cn/chain33/util/testnode"
)

// ---------------------------------------------------------------------------- programs

// Op is one instruction.  Kinds:
//
//	S k v  StateDB.Set + declared in the receipt      H k v  StateDB.Set only (hidden)
//	D k v  declared in the receipt only               G k    StateDB.Get
//	LS k v LocalDB.Set + declared in the local set    LH k v LocalDB.Set only (hidden)
//	LD k v declared in the local set only             LG k   LocalDB.Get
//	LL p   LocalDB.List(prefix p)                     F      return an error     P  panic
type Op struct {
	Kind string
	K, V []byte
}

// Hx renders bytes as lower-case hex, "-" for empty.
func Hx(b []byte) string {
	if len(b) == 0 {
		return "-"
	}
	return hex.EncodeToString(b)
}

func unhx(s string) ([]byte, error) {
	if s == "-" {
		return nil, nil
	}
	return hex.DecodeString(s)
}

// FormatOps renders a program as "op/op/…" ("-" when empty); no spaces, no commas.
func FormatOps(ops []Op) string {
	if len(ops) == 0 {
		return "-"
	}
	parts := make([]string, len(ops))
	for i, o := range ops {
		switch o.Kind {
		case "F", "P":
			parts[i] = o.Kind
		case "G", "LG", "LL":
			parts[i] = o.Kind + ":" + Hx(o.K)
		default:
			parts[i] = o.Kind + ":" + Hx(o.K) + ":" + Hx(o.V)
		}
	}
	return strings.Join(parts, "/")
}

// ParseOps is the inverse of FormatOps.
func ParseOps(s string) ([]Op, error) {
	if s == "-" || s == "" {
		return nil, nil
	}
	var out []Op
	for _, p := range strings.Split(s, "/") {
		f := strings.Split(p, ":")
		o := Op{Kind: f[0]}
		var err error
		switch f[0] {
		case "F", "P":
			if len(f) != 1 {
				return nil, errors.New("bad op " + p)
			}
		case "G", "LG", "LL":
			if len(f) != 2 {
				return nil, errors.New("bad op " + p)
			}
			if o.K, err = unhx(f[1]); err != nil {
				return nil, err
			}
		case "S", "H", "D", "LS", "LH", "LD":
			if len(f) != 3 {
				return nil, errors.New("bad op " + p)
			}
			if o.K, err = unhx(f[1]); err != nil {
				return nil, err
			}
			if o.V, err = unhx(f[2]); err != nil {
				return nil, err
			}
		default:
			return nil, errors.New("bad op " + p)
		}
		out = append(out, o)
	}
	return out, nil
}

// Payload encodes the two phases.  The leading 0xff makes the payload undecodable as protobuf so
// that the `none` driver treats the transaction as a plain notary transaction.
func Payload(execOps, localOps []Op) []byte {
	return append([]byte{0xff}, []byte(FormatOps(execOps)+"|"+FormatOps(localOps))...)
}

func parsePayload(p []byte) (execOps, localOps []Op, err error) {
	if len(p) < 1 || p[0] != 0xff {
		return nil, nil, errors.New("not a vf payload")
	}
	f := strings.Split(string(p[1:]), "|")
	if len(f) != 2 {
		return nil, nil, errors.New("bad vf payload")
	}
	if execOps, err = ParseOps(f[0]); err != nil {
		return nil, nil, err
	}
	localOps, err = ParseOps(f[1])
	return execOps, localOps, err
}

// ---------------------------------------------------------------------------- recorder

var (
	recMu sync.Mutex
	rec   = map[string][]string{}
)

// ResetRecorder clears all observations.
func ResetRecorder() {
	recMu.Lock()
	rec = map[string][]string{}
	wrote = map[string][]string{}
	recMu.Unlock()
}

func record(tx *types.Transaction, s string) {
	k := string(tx.Hash())
	recMu.Lock()
	rec[k] = append(rec[k], s)
	recMu.Unlock()
}

var wrote = map[string][]string{}

func recordWrite(tx *types.Transaction, key []byte) {
	k := string(tx.Hash())
	recMu.Lock()
	wrote[k] = append(wrote[k], string(key))
	recMu.Unlock()
}

// Writes returns the keys the synthetic driver itself passed to StateDB.Set while executing tx (its own
// record, independent of the key tracking inside StateDB).
func Writes(tx *types.Transaction) []string {
	recMu.Lock()
	defer recMu.Unlock()
	return append([]string(nil), wrote[string(tx.Hash())]...)
}

// Observations returns what the program of tx observed, in order.
func Observations(tx *types.Transaction) []string {
	recMu.Lock()
	defer recMu.Unlock()
	return append([]string(nil), rec[string(tx.Hash())]...)
}

// AcctRender renders a state value: coins accounts as "$<balance>" (and "$<balance>f<frozen>" if
// frozen is non-zero), everything else as hex.
func AcctRender(key, v []byte) string {
	if strings.HasPrefix(string(key), "mavl-coins-") && !strings.Contains(string(key), "-exec-") {
		var acc types.Account
		if err := types.Decode(v, &acc); err == nil {
			if acc.Frozen != 0 {
				return fmt.Sprintf("$%df%d", acc.Balance, acc.Frozen)
			}
			return fmt.Sprintf("$%d", acc.Balance)
		}
	}
	return Hx(v)
}

func errName(err error) string {
	switch err {
	case types.ErrNotFound:
		return "nf"
	case types.ErrDisableRead:
		return "dr"
	case types.ErrDisableWrite:
		return "dw"
	}
	return "err:" + err.Error()
}

// ---------------------------------------------------------------------------- drivers

// ErrVF is the error returned by the F instruction.
var ErrVF = errors.New("ErrVerifFail")

// UserLogTy is the type of the single log entry every successful synthetic receipt carries.
const UserLogTy = 7777

type vfDriver struct {
	drivers.DriverBase
	name   string
	order  int64
	friend bool
}

// Names of the synthetic drivers: vfa ordinary, vfb ExecLocalSameTime, vfc ordinary + friend rule,
// vfd ExecLocalSameTime + friend rule.
var Names = []string{"vfa", "vfb", "vfc", "vfd"}

func mk(name string, order int64, friend bool) drivers.DriverCreate {
	return func() drivers.Driver {
		d := &vfDriver{name: name, order: order, friend: friend}
		d.SetChild(d)
		return d
	}
}

var regOnce sync.Once

// EnsureAllowUser (re-)appends the synthetic names to types.AllowUserExec: creating a
// Chain33Config resets that process-wide list to "none" + the dapps of the fork config.
func EnsureAllowUser() {
	for _, n := range Names {
		found := false
		for _, a := range types.AllowUserExec {
			if string(a) == n {
				found = true
			}
		}
		if !found {
			types.AllowUserExec = append(types.AllowUserExec, []byte(n))
		}
	}
}

// Register registers the synthetic drivers (once per process) at height 0.
func Register(cfg *types.Chain33Config) {
	regOnce.Do(func() {
		drivers.Register(cfg, "vfa", mk("vfa", 0, false), 0)
		drivers.Register(cfg, "vfb", mk("vfb", drivers.ExecLocalSameTime, false), 0)
		drivers.Register(cfg, "vfc", mk("vfc", 0, true), 0)
		drivers.Register(cfg, "vfd", mk("vfd", drivers.ExecLocalSameTime, true), 0)
	})
	EnsureAllowUser()
}

func (d *vfDriver) GetDriverName() string { return d.name }
func (d *vfDriver) ExecutorOrder() int64  { return d.order }

// Allow: the driver's own name (after the para title is stripped) or user.<name>.<x>.
func (d *vfDriver) Allow(tx *types.Transaction, index int) error {
	if d.AllowIsSame(tx.Execer) || d.AllowIsUserDot2(tx.Execer) {
		return nil
	}
	return types.ErrNotAllow
}

// CheckTx accepts everything (the To address is set correctly by the harness anyway).
func (d *vfDriver) CheckTx(tx *types.Transaction, index int) error { return nil }

// FriendPrefix returns the key prefix the friend-giving driver `self` opens to others.
func FriendPrefix(self []byte) []byte { return []byte("mavl-" + string(self) + "-fr-") }

// IsFriend: drivers with the friend rule let transactions whose real executor is "vfa" write keys
// under mavl-<self>-fr-.
func (d *vfDriver) IsFriend(self, key []byte, other *types.Transaction) bool {
	if !d.friend {
		return false
	}
	if !strings.HasPrefix(string(key), string(FriendPrefix(self))) {
		return false
	}
	return string(types.GetRealExecName(other.Execer)) == "vfa"
}

func (d *vfDriver) Exec(tx *types.Transaction, index int) (*types.Receipt, error) {
	ops, _, err := parsePayload(tx.Payload)
	if err != nil {
		return nil, err
	}
	r := &types.Receipt{Ty: types.ExecOk}
	r.Logs = append(r.Logs, &types.ReceiptLog{Ty: UserLogTy, Log: []byte("x")})
	sdb, ldb := d.GetStateDB(), d.GetLocalDB()
	for _, o := range ops {
		switch o.Kind {
		case "S", "H":
			if err := sdb.Set(o.K, o.V); err != nil {
				record(tx, errName(err))
			} else {
				recordWrite(tx, o.K)
			}
			if o.Kind == "S" {
				r.KV = append(r.KV, &types.KeyValue{Key: o.K, Value: o.V})
			}
		case "D":
			r.KV = append(r.KV, &types.KeyValue{Key: o.K, Value: o.V})
		case "G":
			v, err := sdb.Get(o.K)
			if err != nil {
				record(tx, errName(err))
			} else {
				record(tx, AcctRender(o.K, v))
			}
		case "LS", "LH":
			if err := ldb.Set(o.K, o.V); err != nil {
				record(tx, errName(err))
			} else {
				record(tx, "ok")
			}
		case "LG":
			v, err := ldb.Get(o.K)
			if err != nil {
				record(tx, errName(err))
			} else {
				record(tx, Hx(v))
			}
		case "LL":
			record(tx, listLocal(d, o.K))
		case "F":
			return nil, ErrVF
		case "P":
			panic("vf program panic")
		}
	}
	return r, nil
}

func listLocal(d *vfDriver, prefix []byte) string {
	vals, err := d.GetLocalDB().List(prefix, nil, 0, 1|4) // ascending, key+value
	if err != nil {
		return errName(err)
	}
	var parts []string
	for _, v := range vals {
		var kv types.KeyValue
		if e := types.Decode(v, &kv); e != nil {
			parts = append(parts, "undecodable")
			continue
		}
		parts = append(parts, Hx(kv.Key)+"="+Hx(kv.Value))
	}
	return "(" + strings.Join(parts, "+") + ")"
}

// ExecLocal interprets the local phase.  For ExecLocalSameTime drivers it runs inside block
// execution (execLocalSameTime); for the others only when a block is added to the chain.
func (d *vfDriver) ExecLocal(tx *types.Transaction, receipt *types.ReceiptData, index int) (*types.LocalDBSet, error) {
	_, ops, err := parsePayload(tx.Payload)
	if err != nil {
		return nil, err
	}
	set := &types.LocalDBSet{}
	sdb, ldb := d.GetStateDB(), d.GetLocalDB()
	for _, o := range ops {
		switch o.Kind {
		case "LS", "LH":
			if err := ldb.Set(o.K, o.V); err != nil {
				record(tx, errName(err))
			} else {
				record(tx, "ok")
			}
			if o.Kind == "LS" {
				set.KV = append(set.KV, &types.KeyValue{Key: o.K, Value: o.V})
			}
		case "LD":
			set.KV = append(set.KV, &types.KeyValue{Key: o.K, Value: o.V})
		case "LG":
			v, err := ldb.Get(o.K)
			if err != nil {
				record(tx, errName(err))
			} else {
				record(tx, Hx(v))
			}
		case "LL":
			record(tx, listLocal(d, o.K))
		case "G":
			v, err := sdb.Get(o.K)
			if err != nil {
				record(tx, errName(err))
			} else {
				record(tx, AcctRender(o.K, v))
			}
		case "F":
			return nil, ErrVF
		case "P":
			panic("vf program panic (local)")
		}
	}
	return set, nil
}

// ExecDelLocal is not exercised.
func (d *vfDriver) ExecDelLocal(tx *types.Transaction, receipt *types.ReceiptData, index int) (*types.LocalDBSet, error) {
	return &types.LocalDBSet{}, nil
}

// ---------------------------------------------------------------------------- node

// Node is a non-mining testnode (genesis only) with the synthetic drivers registered.
type Node struct {
	Mock    *testnode.Chain33Mock
	Cfg     *types.Chain33Config
	Client  queue.Client
	Genesis *types.Block
	GenKey  crypto.PrivKey
	GenAddr string
}

// MinFeeRate is the fee rate configured on the node (so that fees are really charged).
const MinFeeRate = 100000

// NewNode starts the node.
func NewNode() *Node {
	cfg := testnode.GetDefaultConfig()
	cfg.GetModuleConfig().Consensus.Minerstart = false
	Register(cfg)
	mock := testnode.NewWithConfig(cfg, nil)
	c := mock.GetClient().GetConfig()
	c.SetMinFee(MinFeeRate)
	mock.WaitHeight(0)
	n := &Node{Mock: mock, Cfg: c, Client: mock.GetClient(), Genesis: mock.GetBlock(0),
		GenKey: mock.GetGenesisKey(), GenAddr: mock.GetGenesisAddress()}
	return n
}

// Close stops the node.
func (n *Node) Close() { n.Mock.Close() }

// TxSpec describes one transaction to build.
type TxSpec struct {
	Priv    crypto.PrivKey
	Execer  string
	Fee     int64
	ExecOps []Op
	LocOps  []Op
	Nonce   int64
}

// MakeTx builds and signs a single (ungrouped) transaction.
func (n *Node) MakeTx(s TxSpec) *types.Transaction {
	tx := &types.Transaction{Execer: []byte(s.Execer), Payload: Payload(s.ExecOps, s.LocOps)}
	tx.To = address.ExecAddress(s.Execer)
	tx.ChainID = n.Cfg.GetChainID()
	tx.Nonce = s.Nonce
	tx.Fee = s.Fee
	tx.Sign(types.SECP256K1, s.Priv)
	return tx
}

// MakeGroup builds a well-formed transaction group; every member is signed by its own key.
// The fee of the head becomes the sum of the members' fees.
func (n *Node) MakeGroup(specs []TxSpec) ([]*types.Transaction, error) {
	var txs []*types.Transaction
	for _, s := range specs {
		tx := &types.Transaction{Execer: []byte(s.Execer), Payload: Payload(s.ExecOps, s.LocOps)}
		tx.To = address.ExecAddress(s.Execer)
		tx.ChainID = n.Cfg.GetChainID()
		tx.Nonce = s.Nonce
		tx.Fee = s.Fee
		txs = append(txs, tx)
	}
	g, err := types.CreateTxGroup(txs, n.Cfg.GetMinTxFeeRate())
	if err != nil {
		return nil, err
	}
	for i, s := range specs {
		if err := g.SignN(i, types.SECP256K1, s.Priv); err != nil {
			return nil, err
		}
	}
	return g.GetTxs(), nil
}

// CommitBlock executes txs on top of parent (state = parent.StateHash), commits the resulting
// state to the store and returns the new block (not added to the chain).
func (n *Node) CommitBlock(parent *types.Block, txs []*types.Transaction) (*types.Block, *types.BlockDetail, error) {
	b := util.CreateNewBlock(n.Cfg, parent, txs)
	detail, _, err := util.ExecBlock(n.Client, parent.StateHash, b, false, true, false)
	if err != nil {
		return nil, nil, err
	}
	return detail.Block, detail, nil
}

// ExecTxList sends EventExecTxList for txs at the given height on top of stateHash and returns the
// receipts, or an error name ("blockpanic" when the executor replied ErrExecPanic).
func (n *Node) ExecTxList(stateHash []byte, height, blocktime int64, txs []*types.Transaction) (*types.Receipts, string) {
	list := &types.ExecTxList{
		StateHash: stateHash, Txs: txs, BlockTime: blocktime, Height: height,
		Difficulty: 1, IsMempool: false, ParentHash: make([]byte, 32),
	}
	msg := n.Client.NewMessage("execs", types.EventExecTxList, list)
	if err := n.Client.Send(msg, true); err != nil {
		return nil, "send:" + err.Error()
	}
	resp, err := n.Client.Wait(msg)
	if err != nil {
		if err == types.ErrExecPanic {
			return nil, "blockpanic"
		}
		return nil, "err:" + err.Error()
	}
	switch d := resp.GetData().(type) {
	case *types.Receipts:
		return d, ""
	case error:
		if d == types.ErrExecPanic {
			return nil, "blockpanic"
		}
		return nil, "err:" + d.Error()
	}
	return nil, "err:unexpected reply"
}

// ---------------------------------------------------------------------------- rendering

// ErrEnum maps the text of an error log to the closed enum used on the wire.
func ErrEnum(text string) string {
	switch text {
	case ErrVF.Error():
		return "fail"
	case types.ErrExecPanic.Error():
		return "panic"
	case types.ErrNotAllowMemSetKey.Error():
		return "memset"
	case types.ErrNotAllowKey.Error():
		return "notallowkey"
	case types.ErrNotAllowMemSetLocalKey.Error():
		return "memsetlocal"
	case types.ErrNoBalance.Error():
		return "nobalance"
	case types.ErrExecNameNotAllow.Error():
		return "execname"
	case types.ErrTxGroupCount.Error():
		return "groupcount"
	}
	return "err:" + strings.ReplaceAll(text, " ", "_")
}

// RenderReceipt canonicalises one receipt: ty{kv,…}{log,…}.
func RenderReceipt(r *types.Receipt) string {
	var kvs, logs []string
	for _, kv := range r.KV {
		kvs = append(kvs, Hx(kv.Key)+"="+AcctRender(kv.Key, kv.Value))
	}
	for _, l := range r.Logs {
		switch l.Ty {
		case types.TyLogFee:
			var t types.ReceiptAccountTransfer
			if err := types.Decode(l.Log, &t); err != nil {
				logs = append(logs, "fee(undecodable)")
			} else {
				logs = append(logs, fmt.Sprintf("fee(%d:%d)", t.GetPrev().GetBalance(), t.GetCurrent().GetBalance()))
			}
		case types.TyLogErr:
			logs = append(logs, "err("+ErrEnum(string(l.Log))+")")
		case UserLogTy:
			logs = append(logs, "user")
		default:
			logs = append(logs, fmt.Sprintf("l%d:%s", l.Ty, Hx(l.Log)))
		}
	}
	return fmt.Sprintf("%d{%s}{%s}", r.Ty, strings.Join(kvs, ","), strings.Join(logs, ","))
}

// Failed reports whether a receipt is that of a failed transaction (ExecErr, or an error log).
func Failed(r *types.Receipt) bool {
	if r.Ty == types.ExecErr {
		return true
	}
	for _, l := range r.Logs {
		if l.Ty == types.TyLogErr {
			return true
		}
	}
	return false
}

// SortedKeys returns the keys of m in order.
func SortedKeys(m map[string]string) []string {
	ks := make([]string, 0, len(m))
	for k := range m {
		ks = append(ks, k)
	}
	sort.Strings(ks)
	return ks
}
