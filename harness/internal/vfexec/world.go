package vfexec

import (
	"fmt"
	"strings"

	"github.com/33cn/chain33/common/crypto"
	drivers "github.com/33cn/chain33/system/dapp"
	"github.com/33cn/chain33/types"
	"github.com/33cn/chain33/util"
)

// Fee is the Fee every generated transaction offers.
const Fee = 1000000

// Sender is a funded account.
type Sender struct {
	Priv crypto.PrivKey
	Addr string
	Key  []byte
}

// Base is one committed parent state.
type Base struct {
	Block    *types.Block
	StoreTok string
}

// World is a node plus funded senders, base states and the key universe.
type World struct {
	N        *Node
	Senders  []Sender
	Bases    []Base
	AddrsTok string
	StateKs  [][]byte
	Nonce    int64
	Emit     func(op, impl string)
	MainTok  string // committed local data (LODB-vf…) of the node's chain db
}

// executors a generated transaction may name
// execers a generated transaction may name (the first six run on a synthetic driver).
var Execers = []string{"vfa", "vfb", "vfc", "vfd", "user.vfa.x1", "user.vfb.y", "user.zzz", "vfz", "user.p.x.vfa"}

// ExecW are generation weights for Execers.
var ExecW = []int{22, 34, 8, 12, 6, 8, 4, 3, 3}

// RealOf is types.GetRealExecName on strings.
func RealOf(e string) string { return string(types.GetRealExecName([]byte(e))) }

// SameTime: does e run on an ExecLocalSameTime synthetic driver (on the main chain).
func SameTime(e string) bool {
	r := RealOf(e)
	return (r == "vfb" || r == "vfd") && !strings.HasPrefix(e, "user.p.")
}

func (w *World) OwnKeys(e string) [][]byte {
	var ks [][]byte
	for i := 0; i < 3; i++ {
		ks = append(ks, []byte(fmt.Sprintf("mavl-%s-k%d", e, i)))
	}
	return ks
}

func (w *World) DepositKey(owner string, e string) []byte {
	return []byte("mavl-" + owner + "-exec-" + drivers.ExecAddress(e) + ":" + w.Senders[0].Addr)
}

func (w *World) buildUniverse() {
	seen := map[string]bool{}
	add := func(k []byte) {
		if !seen[string(k)] {
			seen[string(k)] = true
			w.StateKs = append(w.StateKs, k)
		}
	}
	for _, e := range Execers[:6] {
		for _, k := range w.OwnKeys(e) {
			add(k)
		}
		add(w.DepositKey("coins-bty", e))
		add(w.DepositKey("vfc-tok", e))
	}
	add([]byte("mavl-vfc-fr-k0"))
	add([]byte("mavl-vfd-fr-k0"))
	add([]byte("mavl-vfc-fr-k1"))
	add([]byte("nodash"))
	add([]byte("mavl-nodash"))
	add([]byte("mavlx-vfa-k0"))
	for _, s := range w.Senders {
		add(s.Key)
	}
}

func (w *World) storeToken(stateHash []byte) string {
	vals, err := w.N.Mock.GetAPI().StoreGet(&types.StoreGet{StateHash: stateHash, Keys: w.StateKs})
	if err != nil {
		panic(err)
	}
	var parts []string
	for i, v := range vals.Values {
		if len(v) == 0 {
			continue
		}
		parts = append(parts, Hx(w.StateKs[i])+"="+AcctRender(w.StateKs[i], v))
	}
	if len(parts) == 0 {
		return "-"
	}
	return strings.Join(parts, ",")
}

func mkop(kind, k, v string) Op { return Op{Kind: kind, K: []byte(k), V: []byte(v)} }

func (w *World) Setup() {
	n := w.N
	w.Senders = []Sender{{Priv: n.GenKey, Addr: n.GenAddr, Key: AcctKey(n.GenAddr)}}
	for i := 1; i <= 2; i++ {
		p, a := DetKey(i)
		w.Senders = append(w.Senders, Sender{Priv: p, Addr: a, Key: AcctKey(a)})
	}
	w.buildUniverse()
	var ad []string
	names := append([]string{}, Execers...)
	names = append(names, "coins", "none")
	for _, e := range names {
		ad = append(ad, Hx([]byte(e))+"="+Hx([]byte(drivers.ExecAddress(e))))
	}
	w.AddrsTok = strings.Join(ad, ",")
	writes := [][][3]string{
		{},
		{{"vfa", "mavl-vfa-k0", "b0"}, {"vfa", "mavl-vfa-k1", "b1"}, {"vfb", "mavl-vfb-k0", "b2"}, {"vfc", "mavl-vfc-fr-k0", "b3"}},
		{{"vfa", "mavl-vfa-k2", "c0"}, {"vfb", "mavl-vfb-k1", "c1"}, {"vfb", "mavl-vfb-k2", "c2"}, {"vfd", "mavl-vfd-k0", "c3"},
			{"user.vfa.x1", "mavl-user.vfa.x1-k0", "c4"}, {"vfd", "mavl-vfd-fr-k0", "c5"}},
	}
	for bi, ws := range writes {
		txs := []*types.Transaction{
			util.CreateCoinsTx(n.Cfg, n.GenKey, w.Senders[1].Addr, 2*Fee+Fee/2),
			util.CreateCoinsTx(n.Cfg, n.GenKey, w.Senders[2].Addr, Fee/2),
		}
		for _, x := range ws {
			w.Nonce++
			spec := TxSpec{Priv: n.GenKey, Execer: x[0], Fee: Fee, Nonce: w.Nonce, ExecOps: []Op{mkop("S", x[1], x[2])}}
			if bi == 2 && SameTime(x[0]) {
				// local KVs: this block is added to the chain below, which persists them in the chain db
				spec.LocOps = []Op{mkop("LD", "LODB-"+x[0]+"-k0", "m"+x[2]), mkop("LD", "LODB-"+x[0]+"-m"+x[2], "m1")}
			}
			txs = append(txs, n.MakeTx(spec))
		}
		b, det, err := n.CommitBlock(n.Genesis, txs)
		if err != nil {
			panic(err)
		}
		if len(det.Receipts) != len(txs) {
			panic("setup tx dropped")
		}
		for _, r := range det.Receipts {
			if r.Ty != types.ExecOk {
				panic("setup tx failed")
			}
		}
		w.Bases = append(w.Bases, Base{Block: b, StoreTok: w.storeToken(b.StateHash)})
	}
	// connect the last base block to the chain: procExecAddBlock runs the ExecLocal of its transactions
	// and the blockchain module writes the resulting local KVs to its db -- the "main" layer under
	// every later block's local transaction.
	last := w.Bases[len(w.Bases)-1].Block
	if _, _, _, err := n.Mock.GetBlockChain().ProcessBlock(false, &types.BlockDetail{Block: last}, "self", true, 0); err != nil {
		panic(err)
	}
	vals, err := n.Mock.GetAPI().LocalList(&types.LocalDBList{Prefix: []byte("LODB-vf"), Count: 0, Direction: 1 | 4})
	if err != nil {
		panic(err)
	}
	var parts []string
	for _, v := range vals.Values {
		var kv types.KeyValue
		if e := types.Decode(v, &kv); e != nil {
			panic(e)
		}
		parts = append(parts, Hx(kv.Key)+"="+Hx(kv.Value))
	}
	w.MainTok = "-"
	if len(parts) > 0 {
		w.MainTok = strings.Join(parts, ",")
	}
}

// ---------------------------------------------------------------------------- running a block

// Result of one block execution.
type Result struct {
	Panicked bool
	Receipts []*types.Receipt
	Obs      [][]string
	Writes   [][]string // per transaction: keys the driver itself wrote through StateDB
	Line     string
}

func (w *World) SenderOf(acctKey []byte) *Sender {
	for i := range w.Senders {
		if string(w.Senders[i].Key) == string(acctKey) {
			return &w.Senders[i]
		}
	}
	return nil
}

// run executes units on base bi through the real executor and emits the op line.
func (w *World) Run(bi int, units []Unit) *Result {
	var txs []*types.Transaction
	var toks []string
	for ui := range units {
		u := &units[ui]
		var specs []TxSpec
		for _, t := range u.Txs {
			s := w.SenderOf(t.AcctKey)
			if s == nil {
				return nil
			}
			w.Nonce++
			specs = append(specs, TxSpec{Priv: s.Priv, Execer: string(t.Execer), Fee: Fee, Nonce: w.Nonce,
				ExecOps: t.ExecOps, LocOps: t.LocOps})
		}
		if u.Group {
			g, err := w.N.MakeGroup(specs)
			if err != nil {
				panic(err)
			}
			for i, tx := range g {
				u.Txs[i].Fee = tx.Fee
			}
			txs = append(txs, g...)
		} else {
			tx := w.N.MakeTx(specs[0])
			u.Txs[0].Fee = tx.Fee
			txs = append(txs, tx)
		}
		toks = append(toks, u.Token())
	}
	b := w.Bases[bi]
	ResetRecorder()
	rs, e := w.N.ExecTxList(b.Block.StateHash, b.Block.Height+1, b.Block.BlockTime+1, txs)
	opline := fmt.Sprintf("blk 11111 b%d %s %s %s %s", bi, w.AddrsTok, b.StoreTok, w.MainTok, strings.Join(toks, " "))
	res := &Result{}
	switch {
	case e == "blockpanic":
		res.Panicked = true
		res.Line = "blockpanic"
	case e != "":
		res.Panicked = true
		res.Line = e
	default:
		var rr, oo []string
		for i, r := range rs.Receipts {
			rr = append(rr, RenderReceipt(r))
			o := Observations(txs[i])
			res.Obs = append(res.Obs, o)
			res.Writes = append(res.Writes, Writes(txs[i]))
			oo = append(oo, "["+strings.Join(o, ",")+"]")
		}
		res.Receipts = rs.Receipts
		res.Line = strings.Join(rr, " ") + " | " + strings.Join(oo, " ")
	}
	w.Emit(opline, res.Line)
	return res
}

// OverlapGroup rewrites a generated group so that a later member touches a state key an earlier member
// wrote and reported (begin() runs once per group, StartTx() resets the written-key list per member,
// and accepted members' receipt KVs are already in the transaction cache):
//
//	hidden:   member j writes the key through StateDB without reporting it   (must fail: ErrNotAllowMemSetKey)
//	differ:   member j writes it and reports the key with a different value  (key reported: allowed)
//	reported: member j writes and reports it                                 (allowed in its own namespace)
//
// sameExec makes member j use member i's executor (own namespace), otherwise the key is foreign to it.
// acctKey != nil uses the head sender's coins account key (written by the framework with the fee) instead.
func OverlapGroup(txs []TxDesc, i, j int, shape string, sameExec bool, acctKey []byte, val []byte) {
	var key []byte
	if acctKey != nil {
		key = acctKey
	} else {
		for _, o := range txs[i].ExecOps {
			if o.Kind == "S" {
				key = o.K
				break
			}
		}
		if key == nil {
			ks := []byte("mavl-" + string(txs[i].Execer) + "-k0")
			key = ks
			txs[i].ExecOps = append([]Op{{Kind: "S", K: key, V: []byte("g0")}}, txs[i].ExecOps...)
		}
	}
	if sameExec && string(txs[j].Execer) != string(txs[i].Execer) {
		txs[j].Execer = txs[i].Execer
		txs[j].LocOps = nil // the local program was generated for the other executor's prefix
	}
	var ops []Op
	switch shape {
	case "hidden":
		ops = []Op{{Kind: "H", K: key, V: val}}
	case "differ":
		ops = []Op{{Kind: "H", K: key, V: val}, {Kind: "D", K: key, V: append([]byte("d"), val...)}}
	default:
		ops = []Op{{Kind: "S", K: key, V: val}}
	}
	txs[j].ExecOps = append(ops, txs[j].ExecOps...)
}

// Balance reads the committed balance of a coins account key in base state bi straight from the store.
func (w *World) Balance(bi int, acctKey []byte) int64 {
	vals, err := w.N.Mock.GetAPI().StoreGet(&types.StoreGet{StateHash: w.Bases[bi].Block.StateHash, Keys: [][]byte{acctKey}})
	if err != nil {
		panic(err)
	}
	if len(vals.Values) == 0 || len(vals.Values[0]) == 0 {
		return 0
	}
	var acc types.Account
	if err := types.Decode(vals.Values[0], &acc); err != nil {
		panic(err)
	}
	return acc.Balance
}
