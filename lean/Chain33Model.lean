import Chain33Model.Base.Wire
import Chain33Model.Model.C20
import Chain33Model.Props.C20
