-- Root module intentionally minimal: `./check --setup` builds every Props/Cxx.lean and driver it finds.
import Chain33Model.Base.Wire
