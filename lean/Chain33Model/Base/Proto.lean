/-
proto3 deterministic wire encoding primitives (golang/protobuf `proto.Marshal` for the message
shapes chain33 uses: scalar fields in field-number order, default values omitted).
Core Lean only.  Injectivity lemmas live in Proofs/ files of the properties that need them.
-/
namespace Proto

abbrev Bytes := List UInt8

/-- base-128 varint, little-endian groups. -/
def varint (n : Nat) : Bytes :=
  if h : n < 128 then [UInt8.ofNat n]
  else UInt8.ofNat (n % 128 + 128) :: varint (n / 128)
decreasing_by omega

/-- field key: `(field << 3) | wiretype`. -/
def tag (field wire : Nat) : Bytes := varint (field * 8 + wire)

/-- two's-complement view of an int64/int32 as the uint64 that protobuf varint-encodes. -/
def int64ToU (i : Int) : Nat := if 0 ≤ i then i.toNat else (2^64 + i).toNat

/-- `bytes`/`string` field (wire type 2); omitted when empty (proto3). -/
def fBytes (field : Nat) (b : Bytes) : Bytes :=
  if b.isEmpty then [] else tag field 2 ++ varint b.length ++ b

/-- unsigned varint field; omitted when zero. -/
def fVarint (field : Nat) (n : Nat) : Bytes :=
  if n = 0 then [] else tag field 0 ++ varint n

/-- `int64`/`int32` field; omitted when zero. -/
def fInt64 (field : Nat) (i : Int) : Bytes := fVarint field (int64ToU i)

def fBool (field : Nat) (b : Bool) : Bytes := if b then tag field 0 ++ [1] else []

/-- embedded message field: present (even when its encoding is empty) iff the pointer is non-nil. -/
def fMsg (field : Nat) (enc : Option Bytes) : Bytes :=
  match enc with
  | none => []
  | some e => tag field 2 ++ varint e.length ++ e

/-- `repeated bytes` / repeated message: every element emitted, even empty ones. -/
def fRepBytes (field : Nat) (xs : List Bytes) : Bytes :=
  xs.foldr (fun e acc => tag field 2 ++ varint e.length ++ e ++ acc) []

end Proto
