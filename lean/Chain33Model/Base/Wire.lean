/-
Line protocol helpers shared by every driver (core Lean only, no Mathlib):
hex <-> bytes, decimal parsing, the stdin/stdout loop.
-/
namespace Wire

abbrev Bytes := List UInt8

def hexDigit (n : Nat) : Char :=
  if n < 10 then Char.ofNat (48 + n) else Char.ofNat (87 + n)

def toHex (b : Bytes) : String :=
  String.ofList (b.foldr (fun x acc => hexDigit (x.toNat / 16) :: hexDigit (x.toNat % 16) :: acc) [])

def hexVal (c : Char) : Option Nat :=
  if '0' ≤ c ∧ c ≤ '9' then some (c.toNat - 48)
  else if 'a' ≤ c ∧ c ≤ 'f' then some (c.toNat - 87)
  else if 'A' ≤ c ∧ c ≤ 'F' then some (c.toNat - 55)
  else none

def fromHexChars : List Char → Option Bytes
  | [] => some []
  | [_] => none
  | a :: b :: rest => do
    let x ← hexVal a
    let y ← hexVal b
    let r ← fromHexChars rest
    pure (UInt8.ofNat (x * 16 + y) :: r)

/-- `-` is the empty/nil byte string on the wire. -/
def fromHex (s : String) : Option Bytes :=
  if s == "-" then some [] else fromHexChars s.toList

def toHexOrDash (b : Bytes) : String := if b.isEmpty then "-" else toHex b

def words (line : String) : List String :=
  (line.splitOn " ").filter (fun w => w != "")

def parseInt? (s : String) : Option Int :=
  if s.startsWith "-" then (s.drop 1).toNat?.map (fun n => -(Int.ofNat n))
  else s.toNat?.map Int.ofNat

def chomp (s : String) : String :=
  String.ofList ((s.toList.reverse.dropWhile (fun c => c == '\n' || c == '\r')).reverse)

/-- Stateless driver loop: one output line per input line. -/
partial def loopPure (h : IO.FS.Stream) (out : IO.FS.Stream) (f : String → String) : IO Unit := do
  let line ← h.getLine
  if line.isEmpty then return ()
  let l := chomp line
  out.putStrLn (f l)
  loopPure h out f

/-- Stateful driver loop. -/
partial def loopState {σ : Type} (h : IO.FS.Stream) (out : IO.FS.Stream)
    (f : σ → String → σ × String) (s : σ) : IO Unit := do
  let line ← h.getLine
  if line.isEmpty then return ()
  let l := chomp line
  let (s', o) := f s l
  out.putStrLn o
  loopState h out f s'

end Wire
