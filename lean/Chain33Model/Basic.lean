def hello := "world"
