/-
C01 — MAVL authenticated state tree (system/store/mavl/db/{node,tree}.go, system/store/mavl/mavl.go).
Executable model, core Lean only.

Layers
  1. `cmpB`                     = Go `bytes.Compare`
  2. `Node` + `set/get/has/getByIndex/balance/rotate*/traverse`   = node.go (copy-on-write is value return)
  3. hashing (`leafEnc/innerEnc/hashNode`)  = Node.Hash, types.LeafNode.Hash / InnerNode.Hash; the hash function
     is a parameter `H` (the drivers instantiate SHA-256; theorems quantify over every `H`)
  4. node records (`storeRec`, `save`, `load`) over a key/value map = nodeDB.SaveNode/GetNode/MakeNode
  5. `Store` (`setKV/memSet/commit/rollback/get/iterate`)  = mavl.go + tree.go SetKVPair/GetKVPair/...
  6. sorted-association-list specification (`SMap`) used by the theorems.

Go panics are `none` of `Option` in layer 2 and `Res.panic` in layers 4/5.  int32 height/size are `Nat`
(the code never reaches 2^31 leaves); the index returned by `get` is an `Int` exactly as computed by the code.
Loading is eager (whole tree) where the Go code is lazy: identical on every database in which all records reachable
from the root are present (which `save` guarantees — theorems `C01.load_save_partial`, `C01.old_roots_stable`).
-/
import Std.Data.HashMap
import Chain33Model.Base.Proto
import Chain33Model.Base.Wire
import Chain33Model.Base.Sha256
namespace C01

abbrev Bytes := List UInt8

/-! ## 1. byte-string order (`bytes.Compare`) -/

def cmpB : Bytes → Bytes → Ordering
  | [], [] => .eq
  | [], _ :: _ => .lt
  | _ :: _, [] => .gt
  | a :: as, b :: bs => if a < b then .lt else if b < a then .gt else cmpB as bs

/-! ## 2. nodes -/

/-- bookkeeping fields of a Go `Node` that are not part of the abstract tree:
`hk` = `node.hash` (the database key of the node once computed; carries the height prefix under
`EnableMavlPrefix`), `persisted` = `node.persisted`. -/
structure Meta where
  hk : Option Bytes
  persisted : Bool
  deriving Repr, DecidableEq

def Meta.fresh : Meta := ⟨none, false⟩

inductive Node where
  | leaf (key value : Bytes) (m : Meta)
  | inner (key : Bytes) (height size : Nat) (l r : Node) (m : Meta)
  deriving Repr, DecidableEq

/-- `afterStart := start == nil || bytes.Compare(start, node.key) <= 0`. -/
def afterStart (start : Option Bytes) (k : Bytes) : Bool :=
  match start with
  | none => true
  | some s => cmpB s k != .gt

/-- `beforeEnd := end == nil || bytes.Compare(node.key, end) < 0` (`<= 0` when inclusive). -/
def beforeEnd (stop : Option Bytes) (incl : Bool) (k : Bytes) : Bool :=
  match stop with
  | none => true
  | some e => if incl then cmpB k e != .gt else cmpB k e == .lt

namespace Node

def height : Node → Nat
  | leaf .. => 0
  | inner _ h .. => h

def size : Node → Nat
  | leaf .. => 1
  | inner _ _ s .. => s

def info : Node → Meta
  | leaf _ _ m => m
  | inner _ _ _ _ _ m => m

def key : Node → Bytes
  | leaf k _ _ => k
  | inner k .. => k

/-- a fresh copy with `calcHeightAndSize` applied. -/
def mk (key : Bytes) (l r : Node) : Node :=
  inner key (max l.height r.height + 1) (l.size + r.size) l r Meta.fresh

/-- `rotateRight`; `none` = Go panic (`_copy` of a value node / missing child). -/
def rotateRight : Node → Option Node
  | inner k _ _ (inner lk _ _ ll lr _) r _ => some (mk lk ll (mk k lr r))
  | _ => none

/-- `rotateLeft`. -/
def rotateLeft : Node → Option Node
  | inner k _ _ l (inner rk _ _ rl rr _) _ => some (mk rk (mk k l rl) rr)
  | _ => none

/-- `calcBalance` (children heights as stored); `none` on a leaf (Go: nil child lookup panics). -/
def calcBalance : Node → Option Int
  | inner _ _ _ l r _ => some ((l.height : Int) - (r.height : Int))
  | leaf .. => none

/-- `balance`. -/
def balance : Node → Option Node
  | leaf .. => none
  | inner k h s l r m =>
    let b : Int := (l.height : Int) - (r.height : Int)
    if b > 1 then
      match calcBalance l with
      | none => none
      | some lb =>
        if lb ≥ 0 then rotateRight (inner k h s l r m)
        else match rotateLeft l with
          | none => none
          | some l' => rotateRight (inner k h s l' r m)
    else if b < -1 then
      match calcBalance r with
      | none => none
      | some rb =>
        if rb ≤ 0 then rotateLeft (inner k h s l r m)
        else match rotateRight r with
          | none => none
          | some r' => rotateLeft (inner k h s l r' m)
    else some (inner k h s l r m)

/-- `Node.set`: returns the new subtree and `updated`. -/
def set : Node → Bytes → Bytes → Option (Node × Bool)
  | leaf nk nv m, key, value =>
    match cmpB key nk with
    | .lt => some (inner nk 1 2 (leaf key value Meta.fresh) (leaf nk nv m) Meta.fresh, false)
    | .eq => some (leaf key value Meta.fresh, true)
    | .gt => some (inner key 1 2 (leaf nk nv m) (leaf key value Meta.fresh) Meta.fresh, false)
  | inner nk h s l r _, key, value =>
    if cmpB key nk = .lt then
      match set l key value with
      | none => none
      | some (l', true) => some (inner nk h s l' r Meta.fresh, true)
      | some (l', false) => (balance (mk nk l' r)).map (fun n => (n, false))
    else
      match set r key value with
      | none => none
      | some (r', true) => some (inner nk h s l r' Meta.fresh, true)
      | some (r', false) => (balance (mk nk l r')).map (fun n => (n, false))

/-- result of `Node.remove`. -/
inductive RemRes where
  | notFound                                        -- `removed = false`: the subtree is returned unchanged
  | gone (value : Bytes)                            -- the node was the leaf holding the key (`nil, nil`)
  | replaced (n : Node) (newKey : Option Bytes) (value : Bytes)   -- new subtree, new leftmost key if it changed

/-- `Node.remove` (tree API `Tree.Remove` / `DelKVPair`; `Store.Del` is "not support"): the sibling replaces the
parent of the removed leaf, `newKey` carries the new leftmost key up to the first ancestor entered from the right,
every rebuilt node is re-measured and rebalanced.  `none` = Go panic inside `balance`. -/
def remove : Node → Bytes → Option RemRes
  | leaf k v _, key => some (if k = key then .gone v else .notFound)
  | inner nk _ _ l r _, key =>
    if cmpB key nk = .lt then
      match remove l key with
      | none => none
      | some .notFound => some .notFound
      | some (.gone v) => some (.replaced r (some nk) v)
      | some (.replaced l' nkey v) => (balance (mk nk l' r)).map (fun n => .replaced n nkey v)
    else
      match remove r key with
      | none => none
      | some .notFound => some .notFound
      | some (.gone v) => some (.replaced l none v)
      | some (.replaced r' nkey v) =>
        let k' := match nkey with | some k => k | none => nk
        (balance (mk k' l r')).map (fun n => .replaced n none v)

/-- `Node.get`: (index, value if the key exists). -/
def get : Node → Bytes → Int × Option Bytes
  | leaf nk nv _, key =>
    match cmpB nk key with
    | .eq => (0, some nv)
    | .lt => (1, none)
    | .gt => (0, none)
  | inner nk _ s l r _, key =>
    if cmpB key nk = .lt then get l key
    else
      let (i, v) := get r key
      (i + ((s : Int) - (r.size : Int)), v)

/-- `Node.has` (note: an inner node whose key equals the probe answers `true` without descending). -/
def has : Node → Bytes → Bool
  | leaf nk _ _, key => nk == key
  | inner nk _ _ l r _, key =>
    if nk == key then true
    else if cmpB key nk = .lt then has l key else has r key

/-- `getByIndex`; `none` = Go panic ("getByIndex asked for invalid index"). -/
def getByIndex : Node → Int → Option (Bytes × Bytes)
  | leaf k v _, i => if i = 0 then some (k, v) else none
  | inner _ _ _ l r _, i =>
    if i < (l.size : Int) then getByIndex l i else getByIndex r (i - (l.size : Int))

/-- in-order list of leaves. -/
def toList : Node → List (Bytes × Bytes)
  | leaf k v _ => [(k, v)]
  | inner _ _ _ l r _ => toList l ++ toList r

/-- `traverseInRange` with the leaf-only callback used by `IterateRange[Inclusive]`:
`f st k v = (st', stop)`.  Returns the final state and the `stopped` flag. -/
def traverse {σ : Type} (start stop : Option Bytes) (asc incl : Bool)
    (f : σ → Bytes → Bytes → σ × Bool) : Node → σ → σ × Bool
  | leaf k v _, st =>
    if afterStart start k && beforeEnd stop incl k then f st k v else (st, false)
  | inner k _ _ l r _, st =>
    if asc then
      let (st1, stopped) := if afterStart start k then traverse start stop asc incl f l st else (st, false)
      if stopped then (st1, true)
      else if beforeEnd stop incl k then traverse start stop asc incl f r st1 else (st1, false)
    else
      let (st1, stopped) := if beforeEnd stop incl k then traverse start stop asc incl f r st else (st, false)
      if stopped then (st1, true)
      else if afterStart start k then traverse start stop asc incl f l st1 else (st1, false)

end Node

/-- `Tree.root` (`nil` = empty tree). -/
abbrev Tree := Option Node

/-- `Tree.Set`. -/
def Tree.set : Tree → Bytes → Bytes → Option (Tree × Bool)
  | none, k, v => some (some (Node.leaf k v Meta.fresh), false)
  | some n, k, v => (n.set k v).map (fun (n', u) => (some n', u))

/-- `Tree.Set` folded over a batch (the loop of `SetKVPair`/`MemSet`). -/
def Tree.setMany : Tree → List (Bytes × Bytes) → Option Tree
  | t, [] => some t
  | t, (k, v) :: kvs =>
    match Tree.set t k v with
    | none => none
    | some (t', _) => Tree.setMany t' kvs

/-- `Tree.Remove`: new tree and the removed value (`none` = key absent). -/
def Tree.remove : Tree → Bytes → Option (Tree × Option Bytes)
  | none, _ => some (none, none)
  | some n, k =>
    match n.remove k with
    | none => none
    | some .notFound => some (some n, none)
    | some (.gone v) => some (none, some v)
    | some (.replaced n' _ v) => some (some n', some v)

/-- the loop of `DelKVPair`: the values of the keys that were removed. -/
def Tree.removeMany : Tree → List Bytes → Option (Tree × List (Option Bytes))
  | t, [] => some (t, [])
  | t, k :: ks =>
    match Tree.remove t k with
    | none => none
    | some (t', v) =>
      match Tree.removeMany t' ks with
      | none => none
      | some (t'', vs) => some (t'', v :: vs)

def Tree.get : Tree → Bytes → Int × Option Bytes
  | none, _ => (0, none)
  | some n, k => n.get k

def Tree.size : Tree → Nat
  | none => 0
  | some n => n.size

def Tree.height : Tree → Nat
  | none => 0
  | some n => n.height

def Tree.toList : Tree → List (Bytes × Bytes)
  | none => []
  | some n => n.toList

/-- callback used by the drivers / the iteration theorem: collect pairs, stop after `lim` pairs
(`none` = never stop). -/
def collectCb (lim : Option Nat) (st : List (Bytes × Bytes)) (k v : Bytes) : List (Bytes × Bytes) × Bool :=
  let st' := st ++ [(k, v)]
  (st', match lim with | none => false | some n => decide (st'.length ≥ n))

/-- `Tree.IterateRange` / `IterateRangeInclusive` with the collecting callback. -/
def Tree.iterate (t : Tree) (start stop : Option Bytes) (asc incl : Bool) (lim : Option Nat) :
    List (Bytes × Bytes) × Bool :=
  match t with
  | none => ([], false)
  | some n => n.traverse start stop asc incl (collectCb lim) []

/-! ## 3. hashing -/

/-- keep the last 32 bytes (`InnerNode.Hash`, `Proof.Verify`). -/
def last32 (b : Bytes) : Bytes := if b.length > 32 then b.drop (b.length - 32) else b

/-- `types.Encode(&LeafNode{Key, Value, Height: 0, Size: 1})`. -/
def leafEnc (k v : Bytes) : Bytes :=
  Proto.fBytes 1 k ++ Proto.fBytes 2 v ++ Proto.fInt64 3 0 ++ Proto.fInt64 4 1

/-- `InnerNode.Hash` pre-image: both child hashes cut to their last 32 bytes. -/
def innerEnc (lh rh : Bytes) (height size : Int) : Bytes :=
  Proto.fBytes 1 (last32 lh) ++ Proto.fBytes 2 (last32 rh) ++ Proto.fInt64 3 height ++ Proto.fInt64 4 size

/-- the store's sub-configuration (`TreeConfig`). -/
structure Cfg where
  pfx : Bool      -- EnableMavlPrefix
  prune : Bool    -- EnableMavlPrune
  memTree : Bool  -- EnableMemTree
  memVal : Bool   -- EnableMemVal
  mvcc : Bool     -- EnableMVCC
  deriving Repr, DecidableEq

def Cfg.default : Cfg := ⟨false, false, false, false, false⟩

def digits10 (n : Nat) : Bytes :=
  let ds := (Nat.toDigits 10 n).map (fun c => UInt8.ofNat c.toNat)
  List.replicate (10 - ds.length) 48 ++ ds

/-- `genPrefixHashKey`: `"_mb_-%010d-"` for leaves, `"_mh_-%010d-"` for inner nodes (heights ≥ 0). -/
def prefixKey (isLeaf : Bool) (blockHeight : Nat) : Bytes :=
  (if isLeaf then "_mb_-" else "_mh_-").toUTF8.toList ++ digits10 blockHeight ++ [45]

/-- `Node.Hash`: fills `hk` bottom-up where it is still unknown and returns the node's key.
`rootHeight` = `t.root.height`: the prefix is added iff `node.height != t.root.height` (as written). -/
def hashNode (H : Bytes → Bytes) (cfg : Cfg) (bh : Nat) (rootHeight : Nat) : Node → Node × Bytes
  | .leaf k v m =>
    match m.hk with
    | some h => (.leaf k v m, h)
    | none =>
      let h0 := H (leafEnc k v)
      let h := if cfg.pfx && (0 != rootHeight) then prefixKey true bh ++ h0 else h0
      (.leaf k v { m with hk := some h }, h)
  | .inner k ht sz l r m =>
    match m.hk with
    | some h => (.inner k ht sz l r m, h)
    | none =>
      let (l', lh) := hashNode H cfg bh rootHeight l
      let (r', rh) := hashNode H cfg bh rootHeight r
      let h0 := H (innerEnc lh rh ht sz)
      let h := if cfg.pfx && (ht != rootHeight) then prefixKey false bh ++ h0 else h0
      (.inner k ht sz l' r' { m with hk := some h }, h)

/-- `Tree.Hash` / the hashing half of `Tree.Save` on a non-empty tree. -/
def hashRoot (H : Bytes → Bytes) (cfg : Cfg) (bh : Nat) (n : Node) : Node × Bytes :=
  hashNode H cfg bh n.height n

/-! ## 4. node records -/

abbrev NodeDB := Std.HashMap Bytes Bytes

inductive Res (α : Type) where
  | ok (a : α)
  | notfound        -- ErrNodeNotExist returned as an error (root lookup)
  | panic           -- Go panic (missing child, undecodable record, invalid index …)
  deriving Repr

/-- `Node.storeNode` encoding of a `types.StoreNode`. -/
def storeRec (cfg : Cfg) (key value lh rh : Bytes) (height size : Nat) : Bytes :=
  Proto.fBytes 1 key ++ Proto.fBytes 2 (if height = 0 ∧ !cfg.mvcc then value else []) ++
  Proto.fBytes 3 lh ++ Proto.fBytes 4 rh ++ Proto.fInt64 5 height ++ Proto.fInt64 6 size

/-- `Node.save`: children before parents, persisted subtrees skipped, one record per new node.
`none`: a node without hash (cannot happen after `hashNode`; Go would hash it first). -/
def save (cfg : Cfg) : Node → NodeDB → Option (Node × NodeDB)
  | .leaf k v m, db =>
    match m.hk with
    | none => none
    | some h =>
      if m.persisted then some (.leaf k v m, db)
      else some (.leaf k v { m with persisted := true }, db.insert h (storeRec cfg k v [] [] 0 1))
  | .inner k ht sz l r m, db =>
    match m.hk with
    | none => none
    | some h =>
      if m.persisted then some (.inner k ht sz l r m, db)
      else
        match save cfg l db with
        | none => none
        | some (l', db1) =>
          match save cfg r db1 with
          | none => none
          | some (r', db2) =>
            match l'.info.hk, r'.info.hk with
            | some lh, some rh =>
              some (.inner k ht sz l' r' { m with persisted := true },
                    db2.insert h (storeRec cfg k [] lh rh ht sz))
            | _, _ => none

/-! ### proto3 wire decoding (google.golang.org/protobuf `unmarshalPointer` / `protowire`) -/

/-- `protowire.ConsumeVarint`: at most 10 bytes, the 10th at most 1; value and rest. -/
def readVarintAux : Nat → Nat → Nat → Bytes → Option (Nat × Bytes)
  | _, _, _, [] => none
  | i, shift, acc, b :: bs =>
    if i = 9 then
      if b.toNat < 2 then some (acc + b.toNat * 2 ^ shift, bs) else none
    else if b.toNat < 128 then some (acc + b.toNat * 2 ^ shift, bs)
    else readVarintAux (i + 1) (shift + 7) (acc + (b.toNat - 128) * 2 ^ shift) bs

def readVarint (b : Bytes) : Option (Nat × Bytes) := readVarintAux 0 0 0 b

def takeN (n : Nat) (b : Bytes) : Option (Bytes × Bytes) :=
  if n ≤ b.length then some (b.take n, b.drop n) else none

/-- `protowire.ConsumeBytes`. -/
def readBytes (b : Bytes) : Option (Bytes × Bytes) :=
  match readVarint b with
  | none => none
  | some (n, rest) => takeN n rest

inductive WVal where
  | varint (v : Nat)
  | bytes (b : Bytes)
  | skipped            -- fixed32 / fixed64 / group: never a known field of the messages used here
  deriving Repr

mutual
/-- `protowire.consumeFieldValueD` (value of a field whose tag has been read). -/
def skipValue : Nat → Int → Nat → Nat → Bytes → Option Bytes
  | 0, _, _, _, _ => none
  | fuel + 1, depth, num, wt, b =>
    match wt with
    | 0 => (readVarint b).map (·.2)
    | 5 => (takeN 4 b).map (·.2)
    | 1 => (takeN 8 b).map (·.2)
    | 2 => (readBytes b).map (·.2)
    | 3 => if depth < 0 then none else skipGroup fuel depth num b
    | _ => none
/-- body of a group: fields until the matching end-group tag (`ConsumeTag`: field number 1..2^31-1). -/
def skipGroup : Nat → Int → Nat → Bytes → Option Bytes
  | 0, _, _, _ => none
  | fuel + 1, depth, num, b =>
    match readVarint b with
    | none => none
    | some (tag, rest) =>
      let num2 := tag / 8
      let wt2 := tag % 8
      if num2 > 2147483647 ∨ num2 < 1 then none
      else if wt2 = 4 then (if num = num2 then some rest else none)
      else match skipValue fuel (depth - 1) num2 wt2 rest with
        | none => none
        | some rest' => skipGroup fuel depth num rest'
end

/-- the field loop of `unmarshalPointer` (no group context): every field with its payload, in order.
A field of wire type 0/2 is consumed the same way whether or not the message knows it. -/
def parseFields : Nat → Bytes → Option (List (Nat × WVal))
  | 0, _ => none
  | _ + 1, [] => some []
  | fuel + 1, b =>
    match readVarint b with
    | none => none
    | some (tag, rest) =>
      let num := tag / 8
      let wt := tag % 8
      if num < 1 ∨ num > 536870911 then none
      else if wt = 4 then none
      else if wt = 0 then
        match readVarint rest with
        | none => none
        | some (v, rest') => (parseFields fuel rest').map (fun fs => (num, WVal.varint v) :: fs)
      else if wt = 2 then
        match readBytes rest with
        | none => none
        | some (v, rest') => (parseFields fuel rest').map (fun fs => (num, WVal.bytes v) :: fs)
      else
        match skipValue (2 * rest.length + 4) 10000 num wt rest with
        | none => none
        | some rest' => (parseFields fuel rest').map (fun fs => (num, WVal.skipped) :: fs)

def parseMsg (b : Bytes) : Option (List (Nat × WVal)) := parseFields (b.length + 1) b

/-- `int32(v)` of a decoded varint. -/
def toInt32 (v : Nat) : Int :=
  let w : Nat := v % 2 ^ 32
  if w < 2 ^ 31 then (w : Int) else (w : Int) - 2 ^ 32

structure StoreNode where
  key : Bytes := []
  value : Bytes := []
  leftHash : Bytes := []
  rightHash : Bytes := []
  height : Int := 0
  size : Int := 0
  deriving Repr

/-- `types.Decode(buf, &storeNode)`: last occurrence of a field wins, mismatching wire types are unknown fields. -/
def decodeStoreNode (b : Bytes) : Option StoreNode :=
  (parseMsg b).map fun fs =>
    fs.foldl (fun (sn : StoreNode) f =>
      match f with
      | (1, .bytes x) => { sn with key := x }
      | (2, .bytes x) => { sn with value := x }
      | (3, .bytes x) => { sn with leftHash := x }
      | (4, .bytes x) => { sn with rightHash := x }
      | (5, .varint x) => { sn with height := toInt32 x }
      | (6, .varint x) => { sn with size := toInt32 x }
      | _ => sn) {}

/-- `nodeDB.GetNode` + `MakeNode`, eagerly for the whole subtree.  `top = true`: a missing record is the
error `ErrNodeNotExist`; below the root the Go code panics when it visits the missing child. -/
def load (db : NodeDB) : Nat → Bool → Bytes → Res Node
  | 0, _, _ => .panic
  | fuel + 1, top, hash =>
    match db[hash]? with
    | none => if top then .notfound else .panic
    | some buf =>
      if buf.isEmpty then (if top then .notfound else .panic)
      else match decodeStoreNode buf with
        | none => .panic
        | some sn =>
          if sn.height = 0 then .ok (.leaf sn.key sn.value ⟨some hash, true⟩)
          else
            match load db fuel false sn.leftHash with
            | .ok l =>
              match load db fuel false sn.rightHash with
              | .ok r => .ok (.inner sn.key sn.height.toNat sn.size.toNat l r ⟨some hash, true⟩)
              | _ => .panic
            | _ => .panic

/-- recursion budget of `load` (an AVL tree with fewer than 2^31 leaves is lower than this). -/
def loadFuel : Nat := 100

/-- `Tree.Load`: nil / all-zero root hash is the empty tree. -/
def loadTree (db : NodeDB) (hash : Bytes) : Res Tree :=
  if hash.isEmpty ∨ hash = List.replicate 32 0 then .ok none
  else match load db loadFuel true hash with
    | .ok n => .ok (some n)
    | .notfound => .notfound
    | .panic => .panic

/-! ## 5. the store (mavl.go) -/

structure Store where
  cfg : Cfg
  db : NodeDB
  /-- `Store.trees`: pending trees by root hash (`none` = "empty update, reuse parent"). -/
  trees : List (Bytes × Option Node)
  /-- `nodeDB.cache` (the per-database node cache, `db.GetCache()`), at the granularity this eager model
  needs: root hash ↦ loaded tree (as the records describe it).  Emptied by `reopen`. -/
  cache : Std.HashMap Bytes Node

def Store.new (cfg : Cfg) : Store := ⟨cfg, {}, [], {}⟩

/-- close and reopen the database: pending trees and the node cache are gone, the records stay. -/
def Store.reopen (s : Store) : Store := { s with trees := [], cache := {} }

/-- `Tree.Load` through the node cache. -/
def Store.loadRoot (s : Store) (hash : Bytes) : Res Tree × Store :=
  match s.cache[hash]? with
  | some n => (.ok (some n), s)
  | none =>
    match loadTree s.db hash with
    | .ok (some n) => (.ok (some n), { s with cache := s.cache.insert hash n })
    | r => (r, s)

/-- `Tree.Save` after the sets: hash, write the new records; result = root hash (`[]` = nil),
the saved tree and the new database. -/
def saveTree (H : Bytes → Bytes) (cfg : Cfg) (bh : Nat) (t : Tree) (db : NodeDB) : Res (Bytes × Tree × NodeDB) :=
  match t with
  | none => .ok ([], none, db)
  | some n =>
    let (n', root) := hashRoot H cfg bh n
    match save cfg n' db with
    | none => .panic
    | some (n'', db') => .ok (root, some n'', db')

/-- leaf values dropped: what a tree read back from MVCC-elided records looks like. -/
def stripValues : Node → Node
  | .leaf k _ m => .leaf k [] m
  | .inner k h s l r m => .inner k h s (stripValues l) (stripValues r) m

/-- remember a saved tree in the node cache.  `nodeDB.cache` never holds leaves (only nodes higher than 2), so
under MVCC a later read sees no values: the cached tree is the one the records describe. -/
def Store.cacheTree (s : Store) (root : Bytes) (t : Tree) : Store :=
  match t with
  | none => s
  | some n => { s with cache := s.cache.insert root (if s.cfg.mvcc then stripValues n else n) }

/-- `SetKVPair` (= `Store.Set`). -/
def Store.setKV (H : Bytes → Bytes) (s : Store) (parent : Bytes) (bh : Nat) (kvs : List (Bytes × Bytes)) :
    Res Bytes × Store :=
  match s.loadRoot parent with
  | (.notfound, s) => (.notfound, s)
  | (.panic, s) => (.panic, s)
  | (.ok t, s) =>
    match Tree.setMany t kvs with
    | none => (.panic, s)
    | some t' =>
      match saveTree H s.cfg bh t' s.db with
      | .ok (root, t'', db') => (.ok root, ({ s with db := db' }).cacheTree root t'')
      | .notfound => (.notfound, s)
      | .panic => (.panic, s)

/-- `DelKVPair` (tree API; a fresh `Tree` has block height 0): load, remove the keys, save. -/
def Store.delKV (H : Bytes → Bytes) (s : Store) (parent : Bytes) (keys : List Bytes) :
    Res (Bytes × List (Option Bytes)) × Store :=
  match s.loadRoot parent with
  | (.notfound, s) => (.notfound, s)
  | (.panic, s) => (.panic, s)
  | (.ok t, s) =>
    match Tree.removeMany t keys with
    | none => (.panic, s)
    | some (t', vs) =>
      match saveTree H s.cfg 0 t' s.db with
      | .ok (root, t'', db') => (.ok (root, vs), ({ s with db := db' }).cacheTree root t'')
      | .notfound => (.notfound, s)
      | .panic => (.panic, s)

def lookupTree (trees : List (Bytes × Option Node)) (h : Bytes) : Option (Option Node) :=
  match trees.find? (fun p => p.1 == h) with
  | none => none
  | some p => some p.2

def storeTree (trees : List (Bytes × Option Node)) (h : Bytes) (t : Option Node) : List (Bytes × Option Node) :=
  (h, t) :: trees.filter (fun p => !(p.1 == h))

/-- the tree `Store.Get` reads from: a pending non-nil tree under that hash, else the database. -/
def Store.treeAt (s : Store) (root : Bytes) : Res Tree × Store :=
  match lookupTree s.trees root with
  | some (some n) => (.ok (some n), s)
  | _ => s.loadRoot root

/-- `Store.Get`: values (`none` = nil) — all nil when the root cannot be loaded. -/
def Store.get (s : Store) (root : Bytes) (keys : List Bytes) : Res (List (Option Bytes)) × Store :=
  match s.treeAt root with
  | (.ok t, s) => (.ok (keys.map (fun k => (Tree.get t k).2)), s)
  | (.notfound, s) => (.ok (keys.map (fun _ => none)), s)
  | (.panic, s) => (.panic, s)

/-- `IterateRangeByStateHash` (database only; half-open range). -/
def Store.iterate (s : Store) (root : Bytes) (start stop : Option Bytes) (asc : Bool) (lim : Option Nat) :
    Res (List (Bytes × Bytes)) × Store :=
  match s.loadRoot root with
  | (.ok t, s) => (.ok (Tree.iterate t start stop asc false lim).1, s)
  | (.notfound, s) => (.ok [], s)
  | (.panic, s) => (.panic, s)

/-! ## 6. specification side: strictly sorted association lists -/

abbrev SMap := List (Bytes × Bytes)

/-- insert or overwrite, keeping the list sorted by key. -/
def SMap.ins (k v : Bytes) : SMap → SMap
  | [] => [(k, v)]
  | (k', v') :: rest =>
    match cmpB k k' with
    | .lt => (k, v) :: (k', v') :: rest
    | .eq => (k, v) :: rest
    | .gt => (k', v') :: SMap.ins k v rest

def SMap.lookup (k : Bytes) : SMap → Option Bytes
  | [] => none
  | (k', v') :: rest => if cmpB k k' = .eq then some v' else SMap.lookup k rest

def SMap.insMany (m : SMap) (kvs : List (Bytes × Bytes)) : SMap :=
  kvs.foldl (fun m kv => SMap.ins kv.1 kv.2 m) m

/-- is `k` inside the requested bounds. -/
def inRange (start stop : Option Bytes) (incl : Bool) (k : Bytes) : Bool :=
  afterStart start k && beforeEnd stop incl k

/-- run a stopping callback over a list. -/
def runCb {σ : Type} (f : σ → Bytes → Bytes → σ × Bool) : List (Bytes × Bytes) → σ → σ × Bool
  | [], st => (st, false)
  | (k, v) :: rest, st =>
    let (st', stop) := f st k v
    if stop then (st', true) else runCb f rest st'

/-- digest of the whole record map: number of records and the hash of the length-prefixed records in key order
(compared with the same digest of the real database: pins exactly what has been written). -/
def dumpDb (H : Bytes → Bytes) (db : NodeDB) : Nat × Bytes :=
  let recs := db.toList.mergeSort (fun a b => cmpB a.1 b.1 != .gt)
  let enc := recs.foldr (fun p acc => Proto.varint p.1.length ++ p.1 ++ Proto.varint p.2.length ++ p.2 ++ acc) []
  (recs.length, H enc)

/-! ## 7. line protocol (shared by drv_c01 / drv_c02 / drv_c03) -/

namespace Drv
open Wire

/-- bytes token: `.` (or `-`) = empty, else hex. -/
def pBytes (w : String) : Option Bytes :=
  if w == "." || w == "-" then some [] else fromHexChars w.toList

/-- optional bytes token: `-` = nil, `.` = empty non-nil. -/
def pOptBytes (w : String) : Option (Option Bytes) :=
  if w == "-" then some none else (pBytes w).map some

def hx (b : Bytes) : String := if b.isEmpty then "." else toHex b

def pKV (w : String) : Option (Bytes × Bytes) :=
  match w.splitOn "=" with
  | [k, v] => do let k ← pBytes k; let v ← pBytes v; pure (k, v)
  | _ => none

def pKVs (w : String) : Option (List (Bytes × Bytes)) :=
  if w == "-" then some [] else (w.splitOn ",").mapM pKV

def pKeys (w : String) : Option (List Bytes) :=
  if w == "-" then some [] else (w.splitOn ",").mapM pBytes

def pBool (w : String) : Option Bool :=
  if w == "1" then some true else if w == "0" then some false else none

def pLim (w : String) : Option (Option Nat) :=
  if w == "-" then some none else w.toNat?.map some

def showKVs (l : List (Bytes × Bytes)) : String :=
  if l.isEmpty then "-" else ",".intercalate (l.map (fun (k, v) => hx k ++ "=" ++ hx v))

def pCfg (w : String) : Option Cfg :=
  match w.toList.map (fun c => c == '1') with
  | [a, b, c, d, e] => if w.toList.all (fun c => c == '0' || c == '1') then some ⟨a, b, c, d, e⟩ else none
  | _ => none

def b01 (b : Bool) : String := if b then "1" else "0"

/-- `mavl.New`: enabling pruning forces the prefix on. -/
def newStore (c : Cfg) : Store := Store.new { c with pfx := c.pfx || c.prune }

def H : Bytes → Bytes := Sha256.hash

def handle (s : Store) (ws : List String) : Option (Store × String) :=
  match ws with
  | ["new", c] => (pCfg c).map fun c => (newStore c, "ok")
  | ["reopen"] => some (s.reopen, "ok")
  | ["dump"] =>
    let (n, d) := dumpDb H s.db
    some (s, s!"{n} " ++ toHex d)
  | ["set", parent, bh, kvs] => do
    let parent ← pBytes parent
    let bh ← bh.toNat?
    let kvs ← pKVs kvs
    match s.setKV H parent bh kvs with
    | (.ok root, s') => pure (s', "root " ++ hx root)
    | (.notfound, s') => pure (s', "notfound")
    | (.panic, s') => pure (s', "panic")
  | ["del", parent, keys] => do
    let parent ← pBytes parent
    let keys ← pKeys keys
    match s.delKV H parent keys with
    | (.ok (root, vs), s') =>
      pure (s', "root " ++ hx root ++ " " ++ ",".intercalate (vs.map (fun v => match v with | none => "-" | some b => if b.isEmpty then "-" else toHex b)))
    | (.notfound, s') => pure (s', "notfound")
    | (.panic, s') => pure (s', "panic")
  | ["get", root, keys] => do
    let root ← pBytes root
    let keys ← pKeys keys
    match s.get root keys with
    | (.ok vs, s') => pure (s', ",".intercalate (vs.map (fun v => match v with | none => "-" | some b => if b.isEmpty then "-" else toHex b)))
    | (_, s') => pure (s', "panic")
  | ["iter", root, st, en, asc, lim] => do
    let root ← pBytes root
    let st ← pOptBytes st
    let en ← pOptBytes en
    let asc ← pBool asc
    let lim ← pLim lim
    match s.iterate root st en asc lim with
    | (.ok l, s') => pure (s', showKVs l)
    | (_, s') => pure (s', "panic")
  | ["info", root] => do
    let root ← pBytes root
    match s.loadRoot root with
    | (.ok t, s') => pure (s', s!"h {Tree.height t} n {Tree.size t}")
    | (.notfound, s') => pure (s', "notfound")
    | (.panic, s') => pure (s', "panic")
  | ["tget", root, k] => do
    let root ← pBytes root
    let k ← pBytes k
    match s.loadRoot root with
    | (.ok t, s') =>
      let (i, v) := Tree.get t k
      pure (s', s!"{i} " ++ (match v with | none => "0 ." | some b => "1 " ++ hx b))
    | (.notfound, s') => pure (s', "notfound")
    | (.panic, s') => pure (s', "panic")
  | ["thas", root, k] => do
    let root ← pBytes root
    let k ← pBytes k
    match s.loadRoot root with
    | (.ok t, s') => pure (s', b01 (match t with | none => false | some n => n.has k))
    | (.notfound, s') => pure (s', "notfound")
    | (.panic, s') => pure (s', "panic")
  | ["tidx", root, i] => do
    let root ← pBytes root
    let i ← parseInt? i
    match s.loadRoot root with
    | (.ok none, s') => pure (s', "nil")
    | (.ok (some n), s') =>
      pure (s', match n.getByIndex i with | none => "panic" | some (k, v) => hx k ++ "=" ++ hx v)
    | (.notfound, s') => pure (s', "notfound")
    | (.panic, s') => pure (s', "panic")
  | ["titer", root, st, en, asc, incl, lim] => do
    let root ← pBytes root
    let st ← pOptBytes st
    let en ← pOptBytes en
    let asc ← pBool asc
    let incl ← pBool incl
    let lim ← pLim lim
    match s.loadRoot root with
    | (.ok t, s') =>
      let (l, stopped) := Tree.iterate t st en asc incl lim
      pure (s', b01 stopped ++ " " ++ showKVs l)
    | (.notfound, s') => pure (s', "notfound")
    | (.panic, s') => pure (s', "panic")
  | _ => none

def step (s : Store) (line : String) : Store × String :=
  match handle s (words line) with
  | some r => r
  | none => (s, "bad-op")

end Drv

end C01
