/-
C02 — pending updates and storage configurations (system/store/mavl/mavl.go MemSet/Commit/Rollback,
tree.go Tree.Hash/Save, node.go Hash with the height prefix, storeNode with MVCC value elision).
Built on the C01 model: the configuration only changes database *keys* (`hashNode` prefix), the stored
record (`storeRec` under `mvcc`) and which cache is asked first; `C02.root_cfg_independent` shows the root
hash does not see any of it.  Executable, core Lean only.

memTree / tkCloseCache (EnableMemTree, EnableMemVal): process-global caches `farm64(hash) ↦ node fields` fed by
`Tree.Hash` and by `GetNode`, consulted by `GetNode` before the database.  They are modelled by the same
transparent node cache as `nodeDB.cache` (`C01.Store.cache`): a hit returns the fields of the node stored under
that key (farm64 assumed collision-free on the keys of a run — trusted base).  The two flags are carried in
`Cfg` and have no other effect in the model; the differential run exercises all 32 flag combinations.
-/
import Chain33Model.Model.C01
namespace C02
open C01

/-- `Store.MemSet`: an empty update records "reuse the parent" under the parent's hash; otherwise the
new tree is hashed (`Tree.Hash`) and kept under its root hash, nothing is written. -/
def memSet (H : Bytes → Bytes) (s : Store) (parent : Bytes) (bh : Nat) (kvs : List (Bytes × Bytes)) :
    Res Bytes × Store :=
  if kvs.isEmpty then (.ok parent, { s with trees := storeTree s.trees parent none })
  else
    match s.loadRoot parent with
    | (.notfound, s) => (.notfound, s)
    | (.panic, s) => (.panic, s)
    | (.ok t, s) =>
      match Tree.setMany t kvs with
      | none => (.panic, s)
      | some none => (.panic, s)          -- unreachable: a non-empty batch leaves a non-empty tree
      | some (some n) =>
        let (n', root) := hashRoot H s.cfg bh n
        (.ok root, { s with trees := storeTree s.trees root (some n') })

inductive ReqRes where
  | ok (h : Bytes)
  | notfound      -- types.ErrHashNotFound
  | dbdamage      -- types.ErrDataBaseDamage
  | panic

/-- `Store.Commit`: write the pending tree's new records (`Tree.Save`), forget the pending entry. -/
def commit (s : Store) (root : Bytes) : ReqRes × Store :=
  match lookupTree s.trees root with
  | none => (.notfound, s)
  | some none => (.ok root, { s with trees := s.trees.filter (fun p => !(p.1 == root)) })
  | some (some n) =>
    match save s.cfg n s.db with
    | none => (.panic, s)
    | some (n', db') =>
      (.ok root, ({ s with db := db', trees := s.trees.filter (fun p => !(p.1 == root)) }).cacheTree root (some n'))

/-- `Store.Rollback`. -/
def rollback (s : Store) (root : Bytes) : ReqRes × Store :=
  match lookupTree s.trees root with
  | none => (.notfound, s)
  | some _ => (.ok root, { s with trees := s.trees.filter (fun p => !(p.1 == root)) })

namespace Drv
open C01.Drv Wire

def showReq : ReqRes → String
  | .ok h => "ok " ++ hx h
  | .notfound => "notfound"
  | .dbdamage => "dbdamage"
  | .panic => "panic"

def handle (s : Store) (ws : List String) : Option (Store × String) :=
  match ws with
  | ["mset", parent, bh, kvs] => do
    let parent ← pBytes parent
    let bh ← bh.toNat?
    let kvs ← pKVs kvs
    match memSet C01.Drv.H s parent bh kvs with
    | (.ok root, s') => pure (s', "root " ++ hx root)
    | (.notfound, s') => pure (s', "notfound")
    | (.panic, s') => pure (s', "panic")
  | ["commit", root] => do
    let root ← pBytes root
    let (r, s') := commit s root
    pure (s', showReq r)
  | ["rollback", root] => do
    let root ← pBytes root
    let (r, s') := rollback s root
    pure (s', showReq r)
  | _ => C01.Drv.handle s ws

def step (s : Store) (line : String) : Store × String :=
  match handle s (words line) with
  | some r => r
  | none => (s, "bad-op")

end Drv
end C02
