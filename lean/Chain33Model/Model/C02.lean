/-
C02 — pending updates and storage configurations (system/store/mavl/mavl.go MemSet/Commit/Rollback,
tree.go Tree.Hash/Save, node.go Hash with the height prefix, storeNode with MVCC value elision).
Built on the C01 model: the configuration only changes database *keys* (`hashNode` prefix), the stored
record (`storeRec` under `mvcc`) and which cache is asked first; `C02.root_cfg_independent` shows the root
hash does not see any of it.  Executable, core Lean only.

memTree / tkCloseCache (EnableMemTree, EnableMemVal): process-global caches `farm64(hash) ↦ node fields` fed by
`Tree.Hash` and by `GetNode`, consulted by `GetNode` before the database.  They are modelled by the same
transparent node cache as `nodeDB.cache` (`C01.Store.cache`): a hit returns the fields of the node stored under
that key (farm64 assumed collision-free on the keys of a run — trusted base).  The two flags are carried in
`Cfg` and have no other effect in the model; the differential run exercises all 32 flag combinations.
-/
import Chain33Model.Model.C01
namespace C02
open C01

/-- `Store.MemSet`: an empty update records "reuse the parent" under the parent's hash unless an entry exists; otherwise the
new tree is hashed (`Tree.Hash`) and kept under its root hash, nothing is written. -/
def memSet (H : Bytes → Bytes) (s : Store) (parent : Bytes) (bh : Nat) (kvs : List (Bytes × Bytes)) :
    Res Bytes × Store :=
  if kvs.isEmpty then
    -- `trees.LoadOrStore(parentHash, nil)` (/repo e6adcc5): an entry that is already there — in particular the
    -- pending tree of a parent that is itself still pending — is kept
    (.ok parent, match lookupTree s.trees parent with
      | some _ => s
      | none => { s with trees := storeTree s.trees parent none })
  else
    match s.loadRoot parent with
    | (.notfound, s) => (.notfound, s)
    | (.panic, s) => (.panic, s)
    | (.ok t, s) =>
      match Tree.setMany t kvs with
      | none => (.panic, s)
      | some none => (.panic, s)          -- unreachable: a non-empty batch leaves a non-empty tree
      | some (some n) =>
        let (n', root) := hashRoot H s.cfg bh n
        (.ok root, { s with trees := storeTree s.trees root (some n') })

inductive ReqRes where
  | ok (h : Bytes)
  | notfound      -- types.ErrHashNotFound
  | dbdamage      -- types.ErrDataBaseDamage
  | panic

/-- `Store.Commit`: write the pending tree's new records (`Tree.Save`), forget the pending entry. -/
def commit (s : Store) (root : Bytes) : ReqRes × Store :=
  match lookupTree s.trees root with
  | none => (.notfound, s)
  | some none => (.ok root, { s with trees := s.trees.filter (fun p => !(p.1 == root)) })
  | some (some n) =>
    match save s.cfg n s.db with
    | none => (.panic, s)
    | some (n', db') =>
      (.ok root, ({ s with db := db', trees := s.trees.filter (fun p => !(p.1 == root)) }).cacheTree root (some n'))

/-- `Store.Rollback`. -/
def rollback (s : Store) (root : Bytes) : ReqRes × Store :=
  match lookupTree s.trees root with
  | none => (.notfound, s)
  | some _ => (.ok root, { s with trees := s.trees.filter (fun p => !(p.1 == root)) })

/-! ### the in-memory evolution of one store's state tree (specification level, used by the theorems)

One block = the ordered writes applied to the current tree followed by `Node.Hash` (what both `SetKVPair` and
`MemSet` do before anything is written).  `roots` returns the root hash after every block (`[]` = nil). -/

def applyBlock (H : Bytes → Bytes) (cfg : Cfg) (bh : Nat) (t : Tree) (kvs : List (Bytes × Bytes)) :
    Option (Tree × Bytes) :=
  match Tree.setMany t kvs with
  | none => none
  | some none => some (none, [])
  | some (some n) => let (n', root) := hashRoot H cfg bh n; some (some n', root)

def roots (H : Bytes → Bytes) (cfg : Cfg) : Tree → List (Nat × List (Bytes × Bytes)) → Option (List Bytes)
  | _, [] => some []
  | t, (bh, kvs) :: rest =>
    match applyBlock H cfg bh t kvs with
    | none => none
    | some (t', root) => (roots H cfg t' rest).map (fun rs => root :: rs)

/-! ### the memTree protocol in isolation (abstract keys)

`tree.go`: `Tree.Hash` (MemSet path) moves the pending tree's `updateNode` entries into the process-global
`memTree` *before anything is committed* (leaves only under `EnableMemVal`; `TreeMap.Add` toggles an existing key
off); `Tree.Save` writes records to the database; `nodeDB.GetNode` asks `memTree` first and the database second.
`Mem` keeps exactly that protocol over abstract node keys, so that "the cache is transparent" can be stated and
refuted (`C02.cache_transparent_full_false`); the witness is replayed on the real code by `h_c02` (hunt mode).
The byte-level model above does not contain memTree (it models it as transparent), and the differential run never
produces the witness shape; see `vf/props/c02.py`. -/
namespace Mem

abbrev Key := Nat

/-- the fields memTree / the database keep for a node: its children keys (`none` = leaf). -/
structure Rec where
  children : Option (Key × Key)
  deriving DecidableEq, Repr

abbrev Tbl := List (Key × Rec)

def find (t : Tbl) (k : Key) : Option Rec :=
  match t with
  | [] => none
  | (k', r) :: rest => if k' = k then some r else find rest k

structure St where
  db : Tbl
  mem : Tbl

/-- `TreeMap.Add`: adding an existing key deletes it. -/
def memAdd (mem : Tbl) (k : Key) (r : Rec) : Tbl :=
  if (find mem k).isSome then mem.filter (fun p => p.1 != k) else (k, r) :: mem

inductive Op where
  /-- `Tree.Hash` of a pending update: its new nodes go to memTree (leaves only when `memVal`). -/
  | hashPending (nodes : Tbl) (memVal : Bool)
  /-- `Tree.Save`: the new nodes' records go to the database. -/
  | save (nodes : Tbl)

def step (s : St) : Op → St
  | .hashPending nodes memVal =>
    { s with mem := nodes.foldl (fun m p => if p.2.children.isSome || memVal then memAdd m p.1 p.2 else m) s.mem }
  | .save nodes => { s with db := nodes ++ s.db }

def run (ops : List Op) : St := ops.foldl step ⟨[], []⟩

/-- `GetNode`: memTree before the database. -/
def getNode (s : St) (k : Key) : Option Rec :=
  match find s.mem k with
  | some r => some r
  | none => find s.db k

/-- can the whole subtree under `k` be resolved through `get` (what a traversal needs)? -/
def readable (get : Key → Option Rec) : Nat → Key → Bool
  | 0, _ => false
  | fuel + 1, k =>
    match get k with
    | none => false
    | some ⟨none⟩ => true
    | some ⟨some (l, r)⟩ => readable get fuel l && readable get fuel r

end Mem

namespace Drv
open C01.Drv Wire

def showReq : ReqRes → String
  | .ok h => "ok " ++ hx h
  | .notfound => "notfound"
  | .dbdamage => "dbdamage"
  | .panic => "panic"

def handle (s : Store) (ws : List String) : Option (Store × String) :=
  match ws with
  | ["mset", parent, bh, kvs] => do
    let parent ← pBytes parent
    let bh ← bh.toNat?
    let kvs ← pKVs kvs
    match memSet C01.Drv.H s parent bh kvs with
    | (.ok root, s') => pure (s', "root " ++ hx root)
    | (.notfound, s') => pure (s', "notfound")
    | (.panic, s') => pure (s', "panic")
  | ["commit", root] => do
    let root ← pBytes root
    let (r, s') := commit s root
    pure (s', showReq r)
  | ["rollback", root] => do
    let root ← pBytes root
    let (r, s') := rollback s root
    pure (s', showReq r)
  | _ => C01.Drv.handle s ws

def step (s : Store) (line : String) : Store × String :=
  match handle s (words line) with
  | some r => r
  | none => (s, "bad-op")

end Drv
end C02
