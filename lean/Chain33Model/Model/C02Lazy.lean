/-
C02 (memTree) — a literal, lazily loading model of node.go / tree.go / mavl.go with the process-global memTree and
the per-database node cache, used by the driver to replay the stale-memTree scenarios of the C02 finding byte for
byte (which node is fetched from where, which fetch fails).  It mirrors the Go code statement by statement:
children are a hash and/or an in-memory node, `GetNode` asks nodeDB.cache, then memTree, then the database and
feeds the caches, `Tree.Hash` moves obsoleteNode/updateNode into memTree (`TreeMap.Add` toggles), a Go panic keeps
the cache mutations done so far.  No theorem is stated about this model (the theorems are about `C01`/`C02`; on
histories without stale entries both models give the same answers, which the differential run checks);
general recursion (`partial`) is used freely.  Not modelled: tkCloseCache (closed tickets), pruning bookkeeping
(`EnableMavlPrune` scenarios stay predicate-only), ARC eviction of the 102400-entry node cache, farm64 collisions.
-/
import Chain33Model.Model.C02
namespace C02L
open C01

inductive LNode where
  | mk (key value : Bytes) (height size : Nat) (hash leftHash rightHash : Option Bytes)
       (left right : Option LNode) (persisted : Bool)

namespace LNode
def key : LNode → Bytes | mk k _ _ _ _ _ _ _ _ _ => k
def value : LNode → Bytes | mk _ v _ _ _ _ _ _ _ _ => v
def height : LNode → Nat | mk _ _ h _ _ _ _ _ _ _ => h
def size : LNode → Nat | mk _ _ _ s _ _ _ _ _ _ => s
def hash : LNode → Option Bytes | mk _ _ _ _ h _ _ _ _ _ => h
def leftHash : LNode → Option Bytes | mk _ _ _ _ _ l _ _ _ _ => l
def rightHash : LNode → Option Bytes | mk _ _ _ _ _ _ r _ _ _ => r
def left : LNode → Option LNode | mk _ _ _ _ _ _ _ l _ _ => l
def right : LNode → Option LNode | mk _ _ _ _ _ _ _ _ r _ => r
def persisted : LNode → Bool | mk _ _ _ _ _ _ _ _ _ p => p
end LNode

def newLeaf (k v : Bytes) : LNode := .mk k v 0 1 none none none none none false

/-- `memNode`. -/
structure MemNode where
  left : Option Bytes
  right : Option Bytes
  key : Bytes
  value : Option Bytes
  height : Nat
  size : Nat

structure Ctx where
  cfg : Cfg
  db : NodeDB
  cache : Std.HashMap Bytes LNode          -- nodeDB.cache (nodes higher than 2)
  memTree : Std.HashMap Bytes MemNode      -- process global
  -- per tree (`Tree.obsoleteNode`, `Tree.updateNode`, `Tree.blockHeight`, `t.root.height` during Hash)
  obsolete : List Bytes
  update : List (Bytes × MemNode)
  bh : Nat
  rootHeight : Nat

inductive Err where
  | notfound
  | panic

abbrev M := ExceptT Err (StateM Ctx)

def memAdd (m : Std.HashMap Bytes MemNode) (k : Bytes) (v : MemNode) : Std.HashMap Bytes MemNode :=
  if m.contains k then m.erase k else m.insert k v

def cacheNode (n : LNode) : M Unit :=
  match n.hash with
  | some h => if n.height > 2 then modify fun c => { c with cache := c.cache.insert h n } else pure ()
  | none => pure ()

/-- `nodeDB.GetNode`. -/
def getNode (hash : Option Bytes) : M LNode := do
  let c ← get
  let h := match hash with | some h => h | none => []
  match c.cache[h]? with
  | some n => return n
  | none =>
    if c.cfg.memTree then
      match c.memTree[h]? with
      | some sn => return .mk sn.key (match sn.value with | some v => v | none => []) sn.height sn.size (some h) sn.left sn.right none none true
      | none => pure ()
    match c.db[h]? with
    | none => throw .notfound
    | some buf =>
      if buf.isEmpty then throw .notfound
      match decodeStoreNode buf with
      | none => throw .panic
      | some sn =>
        let ht := sn.height.toNat
        let node : LNode :=
          if sn.height = 0 then .mk sn.key sn.value 0 sn.size.toNat (some h) none none none none true
          else .mk sn.key [] ht sn.size.toNat (some h) (some sn.leftHash) (some sn.rightHash) none none true
        cacheNode node
        if c.cfg.memTree ∧ (c.cfg.memVal ∨ node.height ≠ 0) then
          let mn : MemNode := ⟨node.leftHash, node.rightHash, node.key, if node.height = 0 then some node.value else none, node.height, node.size⟩
          modify fun c => { c with memTree := memAdd c.memTree h mn }
        return node

def getLeft (n : LNode) : M LNode :=
  match n.left with
  | some l => pure l
  | none => tryCatch (getNode n.leftHash) (fun _ => throw .panic)

def getRight (n : LNode) : M LNode :=
  match n.right with
  | some r => pure r
  | none => tryCatch (getNode n.rightHash) (fun _ => throw .panic)

/-- `removeOrphan`. -/
def removeOrphan (n : LNode) : M Unit :=
  if !n.persisted then pure ()
  else match n.hash with
    | none => throw .panic
    | some h => modify fun c =>
      { c with obsolete := if c.cfg.memTree then h :: c.obsolete else c.obsolete, cache := c.cache.erase h }

/-- `_copy`. -/
def copy (n : LNode) : M LNode :=
  if n.height = 0 then throw .panic
  else pure (.mk n.key [] n.height n.size none n.leftHash n.rightHash n.left n.right false)

def withLeft (n : LNode) (h : Option Bytes) (l : Option LNode) : LNode :=
  .mk n.key n.value n.height n.size n.hash h n.rightHash l n.right n.persisted
def withRight (n : LNode) (h : Option Bytes) (r : Option LNode) : LNode :=
  .mk n.key n.value n.height n.size n.hash n.leftHash h n.left r n.persisted

/-- `calcHeightAndSize`. -/
def calcHS (n : LNode) : M LNode := do
  let l ← getLeft n
  let r ← getRight n
  pure (.mk n.key n.value (max l.height r.height + 1) (l.size + r.size) n.hash n.leftHash n.rightHash n.left n.right n.persisted)

def calcBalance (n : LNode) : M Int := do
  let l ← getLeft n
  let r ← getRight n
  pure ((l.height : Int) - (r.height : Int))

def rotateRight (node : LNode) : M LNode := do
  let node ← copy node
  let l ← getLeft node
  removeOrphan l
  let l' ← copy l
  let node := withLeft node l'.rightHash l'.right
  let node ← calcHS node
  let l' := withRight l' node.hash (some node)
  calcHS l'

def rotateLeft (node : LNode) : M LNode := do
  let node ← copy node
  let r ← getRight node
  removeOrphan r
  let r' ← copy r
  let node := withRight node r'.leftHash r'.left
  let node ← calcHS node
  let r' := withLeft r' node.hash (some node)
  calcHS r'

def balance (node : LNode) : M LNode := do
  if node.persisted then throw .panic
  let b ← calcBalance node
  if b > 1 then
    let l ← getLeft node
    let lb ← calcBalance l
    if lb ≥ 0 then rotateRight node
    else
      let left ← getLeft node
      removeOrphan left
      let l' ← rotateLeft left
      rotateRight (withLeft node none (some l'))
  else if b < -1 then
    let r ← getRight node
    let rb ← calcBalance r
    if rb ≤ 0 then rotateLeft node
    else
      let right ← getRight node
      removeOrphan right
      let r' ← rotateRight right
      rotateLeft (withRight node none (some r'))
  else pure node

partial def set (node : LNode) (key value : Bytes) : M (LNode × Bool) := do
  if node.height = 0 then
    match cmpB key node.key with
    | .lt => pure (.mk node.key [] 1 2 none none none (some (newLeaf key value)) (some node) false, false)
    | .eq => do removeOrphan node; pure (newLeaf key value, true)
    | .gt => pure (.mk key [] 1 2 none none none (some node) (some (newLeaf key value)) false, false)
  else
    removeOrphan node
    let node ← copy node
    if cmpB key node.key = .lt then
      let l ← getLeft node
      let (l', upd) ← set l key value
      let node := withLeft node none (some l')
      if upd then pure (node, true)
      else do let node ← calcHS node; let n ← balance node; pure (n, false)
    else
      let r ← getRight node
      let (r', upd) ← set r key value
      let node := withRight node none (some r')
      if upd then pure (node, true)
      else do let node ← calcHS node; let n ← balance node; pure (n, false)

/-- `Node.Hash` (with `updateLocalMemTree`). -/
partial def hashNode (H : Bytes → Bytes) (node : LNode) : M LNode := do
  match node.hash with
  | some _ => pure node
  | none =>
    let c ← get
    let finish (n : LNode) (h0 : Bytes) (isLeaf : Bool) : M LNode := do
      let h := if c.cfg.pfx && (n.height != c.rootHeight) then prefixKey isLeaf c.bh ++ h0 else h0
      let n' : LNode := .mk n.key n.value n.height n.size (some h) n.leftHash n.rightHash n.left n.right n.persisted
      if c.cfg.memTree ∧ (c.cfg.memVal ∨ n.height ≠ 0) then
        let mn : MemNode := ⟨n.leftHash, n.rightHash, n.key, if n.height = 0 then some n.value else none, n.height, n.size⟩
        modify fun c => { c with update := (h, mn) :: c.update.filter (fun p => !(p.1 == h)) }
      pure n'
    if node.height = 0 then
      finish node (H (leafEnc node.key node.value)) true
    else
      let (node, lh) ← match node.left with
        | some l => do let l' ← hashNode H l; pure (withLeft node l'.hash (some l'), l'.hash)
        | none => pure (node, node.leftHash)
      let (node, rh) ← match node.right with
        | some r => do let r' ← hashNode H r; pure (withRight node r'.hash (some r'), r'.hash)
        | none => pure (node, node.rightHash)
      match lh, rh with
      | some l, some r => finish node (H (innerEnc l r node.height node.size)) false
      | _, _ => throw .panic

/-- `Node.save`: returns the saved node (children pointers dropped) and writes the records. -/
partial def save (node : LNode) : M LNode := do
  if node.persisted then pure node
  else
    match node.left with | some l => discard (save l) | none => pure ()
    match node.right with | some r => discard (save r) | none => pure ()
    let c ← get
    match node.hash with
    | none => throw .panic
    | some h =>
      let rec' :=
        if node.height = 0 then storeRec c.cfg node.key node.value [] [] 0 node.size
        else storeRec c.cfg node.key [] (match node.leftHash with | some x => x | none => []) (match node.rightHash with | some x => x | none => []) node.height node.size
      let n' : LNode := .mk node.key node.value node.height node.size node.hash node.leftHash node.rightHash none none true
      modify fun c => { c with db := c.db.insert h rec' }
      cacheNode n'
      pure n'

partial def getKey (node : LNode) (key : Bytes) : M (Option Bytes) := do
  if node.height = 0 then
    pure (if cmpB node.key key = .eq then some node.value else none)
  else if cmpB key node.key = .lt then do let l ← getLeft node; getKey l key
  else do let r ← getRight node; getKey r key

partial def traverse (node : LNode) (start stop : Option Bytes) (asc : Bool) (lim : Option Nat)
    (acc : List (Bytes × Bytes)) : M (List (Bytes × Bytes) × Bool) := do
  let after := afterStart start node.key
  let before := beforeEnd stop false node.key
  if node.height = 0 then
    if after && before then
      let acc' := acc ++ [(node.key, node.value)]
      pure (acc', match lim with | none => false | some n => decide (acc'.length ≥ n))
    else pure (acc, false)
  else if asc then
    let (a1, s1) ← if after then do let l ← getLeft node; traverse l start stop asc lim acc else pure (acc, false)
    if s1 then pure (a1, true)
    else if before then do let r ← getRight node; traverse r start stop asc lim a1 else pure (a1, false)
  else
    let (a1, s1) ← if before then do let r ← getRight node; traverse r start stop asc lim acc else pure (acc, false)
    if s1 then pure (a1, true)
    else if after then do let l ← getLeft node; traverse l start stop asc lim a1 else pure (a1, false)

/-! ### trees and the store -/

structure LTree where
  root : Option LNode
  bh : Nat
  obsolete : List Bytes
  update : List (Bytes × MemNode)

structure LState where
  cfg : Cfg
  db : NodeDB
  cache : Std.HashMap Bytes LNode
  memTree : Std.HashMap Bytes MemNode
  trees : List (Bytes × Option LTree)

def LState.new (cfg : Cfg) : LState := ⟨{ cfg with pfx := cfg.pfx || cfg.prune }, {}, {}, {}, []⟩
/-- cold restart: a new process on the same database. -/
def LState.restart (s : LState) : LState := { s with cache := {}, memTree := {}, trees := [] }

inductive Out (α : Type) where
  | ok (a : α)
  | notfound
  | panic

/-- run a tree operation: the caches keep whatever was done before a panic. -/
def runT {α : Type} (s : LState) (t : LTree) (rootHeight : Nat) (m : M α) : Out α × LState × LTree :=
  let ctx : Ctx := ⟨s.cfg, s.db, s.cache, s.memTree, t.obsolete, t.update, t.bh, rootHeight⟩
  let (r, c) := (m.run).run ctx
  let s' := { s with db := c.db, cache := c.cache, memTree := c.memTree }
  let t' := { t with obsolete := c.obsolete, update := c.update }
  match r with
  | .ok a => (.ok a, s', t')
  | .error .notfound => (.notfound, s', t')
  | .error .panic => (.panic, s', t')

def isEmptyRoot (h : Bytes) : Bool := h.isEmpty || h == List.replicate 32 0

/-- `Tree.Load` + the loop of `tree.Set`. -/
def loadAndSet (s : LState) (parent : Bytes) (bh : Nat) (kvs : List (Bytes × Bytes)) : Out Unit × LState × LTree :=
  let t0 : LTree := ⟨none, bh, [], []⟩
  let m : M (Option LNode) := do
    let root ← if isEmptyRoot parent then pure none else (do let n ← getNode (some parent); pure (some n))
    kvs.foldlM (fun (r : Option LNode) kv =>
      match r with
      | none => pure (some (newLeaf kv.1 kv.2))
      | some n => do let (n', _) ← set n kv.1 kv.2; pure (some n')) root
  match runT s t0 0 m with
  | (.ok r, s', t') => (.ok (), s', { t' with root := r })
  | (.notfound, s', t') => (.notfound, s', t')
  | (.panic, s', t') => (.panic, s', t')

/-- `Tree.Hash` of the root only (inside Save) or the full `Tree.Hash` (MemSet: flush into memTree). -/
def hashTree (H : Bytes → Bytes) (s : LState) (t : LTree) (flush : Bool) : Out Bytes × LState × LTree :=
  match t.root with
  | none => (.ok [], s, t)
  | some n =>
    match runT s t n.height (hashNode H n) with
    | (.ok n', s', t') =>
      let s'' := if flush && s'.cfg.memTree then
          let m1 := t'.obsolete.foldl (fun m k => m.erase k) s'.memTree
          { s' with memTree := t'.update.foldl (fun m p => memAdd m p.1 p.2) m1 }
        else s'
      (.ok (match n'.hash with | some h => h | none => []), s'', { t' with root := some n' })
    | (.notfound, s', t') => (.notfound, s', t')
    | (.panic, s', t') => (.panic, s', t')

/-- `Tree.Save` (without pruning bookkeeping). -/
def saveTree (H : Bytes → Bytes) (s : LState) (t : LTree) : Out Bytes × LState :=
  match hashTree H s t false with
  | (.ok _, s1, t1) =>
    (match t1.root with
     | none => (.ok [], s1)
     | some n =>
       match runT s1 t1 n.height (save n) with
       | (.ok n', s2, _) => (.ok (match n'.hash with | some h => h | none => []), s2)
       | (.notfound, s2, _) => (.notfound, s2)
       | (.panic, s2, _) => (.panic, s2))
  | (.notfound, s1, _) => (.notfound, s1)
  | (.panic, s1, _) => (.panic, s1)

def setKV (H : Bytes → Bytes) (s : LState) (parent : Bytes) (bh : Nat) (kvs : List (Bytes × Bytes)) : Out Bytes × LState :=
  match loadAndSet s parent bh kvs with
  | (.ok _, s1, t) => saveTree H s1 t
  | (.notfound, s1, _) => (.notfound, s1)
  | (.panic, s1, _) => (.panic, s1)

def lookupL (trees : List (Bytes × Option LTree)) (h : Bytes) : Option (Option LTree) :=
  (trees.find? (fun p => p.1 == h)).map (·.2)

def memSet (H : Bytes → Bytes) (s : LState) (parent : Bytes) (bh : Nat) (kvs : List (Bytes × Bytes)) : Out Bytes × LState :=
  if kvs.isEmpty then
    (.ok parent, match lookupL s.trees parent with
      | some _ => s
      | none => { s with trees := (parent, none) :: s.trees })
  else
    match loadAndSet s parent bh kvs with
    | (.ok _, s1, t) =>
      (match hashTree H s1 t true with
       | (.ok root, s2, t2) => (.ok root, { s2 with trees := (root, some t2) :: s2.trees.filter (fun p => !(p.1 == root)) })
       | (.notfound, s2, _) => (.notfound, s2)
       | (.panic, s2, _) => (.panic, s2))
    | (.notfound, s1, _) => (.notfound, s1)
    | (.panic, s1, _) => (.panic, s1)

def commit (H : Bytes → Bytes) (s : LState) (root : Bytes) : C02.ReqRes × LState :=
  match lookupL s.trees root with
  | none => (.notfound, s)
  | some none => (.ok root, { s with trees := s.trees.filter (fun p => !(p.1 == root)) })
  | some (some t) =>
    match saveTree H s t with
    | (.ok _, s') => (.ok root, { s' with trees := s'.trees.filter (fun p => !(p.1 == root)) })
    | (_, s') => (.panic, s')

def rollback (s : LState) (root : Bytes) : C02.ReqRes × LState :=
  match lookupL s.trees root with
  | none => (.notfound, s)
  | some _ => (.ok root, { s with trees := s.trees.filter (fun p => !(p.1 == root)) })

/-- the tree a read uses: `Store.Get` looks at the pending trees first, iteration only loads. -/
def readTree (s : LState) (root : Bytes) (usePending : Bool) : Option LTree :=
  match (if usePending then lookupL s.trees root else none) with
  | some (some t) => some t
  | _ => none

def getKeys (s : LState) (root : Bytes) (keys : List Bytes) : Out (List (Option Bytes)) × LState :=
  let t0 : LTree := match readTree s root true with | some t => t | none => ⟨none, 0, [], []⟩
  let m : M (List (Option Bytes)) := do
    let r ← match t0.root with
      | some n => pure (some n)
      | none => if isEmptyRoot root then pure none else (do let n ← getNode (some root); pure (some n))
    match r with
    | none => pure (keys.map fun _ => none)
    | some n => keys.mapM (fun k => getKey n k)
  match runT s t0 0 m with
  | (.ok vs, s', _) => (.ok vs, s')
  | (.notfound, s', _) => (.ok (keys.map fun _ => none), s')
  | (.panic, s', _) => (.panic, s')

def iterate (s : LState) (root : Bytes) (start stop : Option Bytes) (asc : Bool) (lim : Option Nat) :
    Out (List (Bytes × Bytes)) × LState :=
  let t0 : LTree := ⟨none, 0, [], []⟩
  let m : M (List (Bytes × Bytes)) := do
    if isEmptyRoot root then pure []
    else do
      let n ← getNode (some root)
      let (l, _) ← traverse n start stop asc lim []
      pure l
  match runT s t0 0 m with
  | (.ok l, s', _) => (.ok l, s')
  | (.notfound, s', _) => (.ok [], s')
  | (.panic, s', _) => (.panic, s')

namespace Drv
open C01.Drv Wire

def showVals (vs : List (Option C01.Bytes)) : String :=
  ",".intercalate (vs.map (fun v => match v with | none => "-" | some b => if b.isEmpty then "-" else toHex b))

def handle (s : LState) (ws : List String) : Option (LState × String) :=
  match ws with
  | ["new", c] => (pCfg c).map fun c => (LState.new c, "ok")
  | ["reopen"] => some (s.restart, "ok")
  | ["set", parent, bh, kvs] => do
    let parent ← pBytes parent
    let bh ← bh.toNat?
    let kvs ← pKVs kvs
    match setKV C01.Drv.H s parent bh kvs with
    | (.ok root, s') => pure (s', "root " ++ hx root)
    | (.notfound, s') => pure (s', "notfound")
    | (.panic, s') => pure (s', "panic")
  | ["mset", parent, bh, kvs] => do
    let parent ← pBytes parent
    let bh ← bh.toNat?
    let kvs ← pKVs kvs
    match memSet C01.Drv.H s parent bh kvs with
    | (.ok root, s') => pure (s', "root " ++ hx root)
    | (.notfound, s') => pure (s', "notfound")
    | (.panic, s') => pure (s', "panic")
  | ["commit", root] => do
    let root ← pBytes root
    let (r, s') := commit C01.Drv.H s root
    pure (s', C02.Drv.showReq r)
  | ["rollback", root] => do
    let root ← pBytes root
    let (r, s') := rollback s root
    pure (s', C02.Drv.showReq r)
  | ["info", root] => do
    let root ← pBytes root
    if isEmptyRoot root then pure (s, "h 0 n 0")
    else
      match runT s ⟨none, 0, [], []⟩ 0 (getNode (some root)) with
      | (.ok n, s', _) => pure (s', s!"h {n.height} n {n.size}")
      | (.notfound, s', _) => pure (s', "notfound")
      | (.panic, s', _) => pure (s', "panic")
  | ["get", root, keys] => do
    let root ← pBytes root
    let keys ← pKeys keys
    match getKeys s root keys with
    | (.ok vs, s') => pure (s', showVals vs)
    | (_, s') => pure (s', "panic")
  | ["iter", root, st, en, asc, lim] => do
    let root ← pBytes root
    let st ← pOptBytes st
    let en ← pOptBytes en
    let asc ← pBool asc
    let lim ← pLim lim
    match iterate s root st en asc lim with
    | (.ok l, s') => pure (s', showKVs l)
    | (_, s') => pure (s', "panic")
  | _ => none

/-- driver state of `drv_c02`: the eager model of C01/C02 by default; after the line `lazy` the literal lazy model
(used for the stale-memTree hunt scenarios). -/
structure DS where
  lazy : Bool
  s : C01.Store
  l : LState

def DS.init : DS := ⟨false, C01.Store.new C01.Cfg.default, LState.new C01.Cfg.default⟩

def step (d : DS) (line : String) : DS × String :=
  let ws := words line
  if ws == ["lazy"] then ({ d with lazy := true }, "ok")
  else if ws == ["eager"] then ({ d with lazy := false }, "ok")
  else if d.lazy then
    match handle d.l ws with
    | some (l', o) => ({ d with l := l' }, o)
    | none => (d, "bad-op")
  else
    let (s', o) := C02.Drv.step d.s line
    ({ d with s := s' }, o)

end Drv
end C02L
