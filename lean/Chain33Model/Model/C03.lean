/-
C03 — MAVL proofs (system/store/mavl/db/proof.go, tree.go Proof/GetKVPairProof/VerifyKVPairProof,
types.InnerNode.Hash).  Executable model on top of C01, core Lean only.
The decoder of proof bytes is `C01.parseMsg` (the protobuf-go field loop) specialised to `MAVLProof`.
-/
import Chain33Model.Model.C02
namespace C03
open C01

/-- `types.InnerNode` as it travels in a proof. -/
structure InnerNode where
  leftHash : Bytes
  rightHash : Bytes
  height : Int
  size : Int
  deriving Repr, DecidableEq

/-- `Proof`. -/
structure Proof where
  leafHash : Bytes
  inners : List InnerNode
  rootHash : Bytes
  deriving Repr

/-- `types.Encode(&InnerNode)` (hashes as they are — not cut to 32 bytes). -/
def encInnerNode (n : InnerNode) : Bytes :=
  Proto.fBytes 1 n.leftHash ++ Proto.fBytes 2 n.rightHash ++ Proto.fInt64 3 n.height ++ Proto.fInt64 4 n.size

/-- `types.Encode(&MAVLProof{InnerNodes: …})` as built by `Tree.Proof` (leafHash / rootHash unset). -/
def encProof (ns : List InnerNode) : Bytes :=
  Proto.fRepBytes 2 (ns.map encInnerNode)

/-- result of `constructProof`. -/
inductive PRes where
  | absent                                   -- key not in the tree
  | found (value leafHash : Bytes) (inners : List InnerNode)
  | nohash                                   -- a visited node has no hash (excluded by `Tree.ConstructProof` hashing first)
  deriving Repr

/-- `Node.constructProof`: the leaf's value and hash, then one branch per ancestor, leaf upwards.
`LeftHash = nil` marks "the child is the left one". -/
def constructProof : Node → Bytes → PRes
  | .leaf k v m, key =>
    if k = key then
      match m.hk with
      | some h => .found v h []
      | none => .nohash
    else .absent
  | .inner k ht sz l r _, key =>
    if cmpB key k = .lt then
      match constructProof l key with
      | .found v lh ins =>
        match r.info.hk with
        | some rh => .found v lh (ins ++ [⟨[], rh, ht, sz⟩])
        | none => .nohash
      | o => o
    else
      match constructProof r key with
      | .found v lh ins =>
        match l.info.hk with
        | some lh' => .found v lh (ins ++ [⟨lh', [], ht, sz⟩])
        | none => .nohash
      | o => o

/-- `Tree.ConstructProof` + `Tree.Proof`: `none` = key absent (or empty tree). The tree created by
`GetKVPairProof` has block height 0; a loaded tree is fully hashed already. -/
def treeProof (H : Bytes → Bytes) (cfg : Cfg) (t : Tree) (key : Bytes) : Res (Option (Bytes × Bytes)) :=
  match t with
  | none => .ok none
  | some n =>
    let (n', _) := hashRoot H cfg 0 n
    match constructProof n' key with
    | .absent => .ok none
    | .found v _ ins => .ok (some (v, encProof ins))
    | .nohash => .panic

/-- `InnerNodeProofHash`. -/
def innerNodeProofHash (H : Bytes → Bytes) (child : Bytes) (b : InnerNode) : Bytes :=
  if b.leftHash.isEmpty then H (innerEnc child b.rightHash b.height b.size)
  else H (innerEnc b.leftHash child b.height b.size)

/-- `Proof.Verify` as it was before /repo commit 5751cd9 (no check on the branch nodes).  Kept only for the
regression theorems `C03.membership_forgery_old*`; the drivers use `Proof.verify`. -/
def Proof.verifyOld (H : Bytes → Bytes) (p : Proof) (key value root : Bytes) : Bool :=
  if p.rootHash != root then false
  else
    let leafHash := H (leafEnc key value)
    if leafHash != last32 p.leafHash then false
    else p.inners.foldl (innerNodeProofHash H) leafHash == p.rootHash

/-- the branch check of 5751cd9: `branch.GetHeight() < 1 || branch.GetSize() < 2` ⇒ reject. -/
def goodBranch (b : InnerNode) : Bool := !(decide (b.height < 1) || decide (b.size < 2))

/-- the loop of `Proof.Verify`: `none` = returned `false` at a branch that fails the check (before hashing it). -/
def verifyLoop (H : Bytes → Bytes) : Bytes → List InnerNode → Option Bytes
  | h, [] => some h
  | h, b :: rest => if goodBranch b then verifyLoop H (innerNodeProofHash H h b) rest else none

/-- `Proof.Verify` (current code). -/
def Proof.verify (H : Bytes → Bytes) (p : Proof) (key value root : Bytes) : Bool :=
  if p.rootHash != root then false
  else
    let leafHash := H (leafEnc key value)
    if leafHash != last32 p.leafHash then false
    else match verifyLoop H leafHash p.inners with
      | none => false
      | some h => h == p.rootHash

/-- decode one `InnerNode` (last occurrence of a field wins; other fields / wire types are skipped). -/
def decodeInnerNode (b : Bytes) : Option InnerNode :=
  (parseMsg b).map fun fs =>
    fs.foldl (fun (n : InnerNode) f =>
      match f with
      | (1, .bytes x) => { n with leftHash := x }
      | (2, .bytes x) => { n with rightHash := x }
      | (3, .varint x) => { n with height := toInt32 x }
      | (4, .varint x) => { n with size := toInt32 x }
      | _ => n) ⟨[], [], 0, 0⟩

/-- `proto.Unmarshal(data, &MAVLProof)`, keeping the inner nodes: `none` = unmarshal error. -/
def decodeProof (b : Bytes) : Option (List InnerNode) :=
  match parseMsg b with
  | none => none
  | some fs =>
    fs.foldl (fun (acc : Option (List InnerNode)) f =>
      match acc, f with
      | none, _ => none
      | some ns, (2, .bytes x) =>
        match decodeInnerNode x with
        | none => none
        | some n => some (ns ++ [n])
      | some ns, _ => some ns) (some [])

/-- `VerifyKVPairProof` over the old `Proof.Verify` (regression theorems only). -/
def verifyKVPairProofOld (H : Bytes → Bytes) (root key value proof : Bytes) : Bool :=
  let leafHash := H (leafEnc key value)
  match decodeProof proof with
  | none => false
  | some ins => Proof.verifyOld H ⟨leafHash, ins, root⟩ key value root

/-- `ReadProof` + `VerifyKVPairProof`: never panics; undecodable bytes ⇒ `false`. -/
def verifyKVPairProof (H : Bytes → Bytes) (root key value proof : Bytes) : Bool :=
  let leafHash := H (leafEnc key value)
  match decodeProof proof with
  | none => false
  | some ins => Proof.verify H ⟨leafHash, ins, root⟩ key value root

/-! ### the same verifier with the Go slice expressions explicit (for `C03.verify_total`)

`Proof.Verify` and `InnerNode.Hash` cut hashes with `h[len(h)-32:]`; a Go slice expression panics when the bound
is out of range.  `sliceFrom` is that expression with its panic outcome; the `…P` functions are the verifier written
with it.  (The other operations on the path cannot panic: `proto.Unmarshal` returns an error and allocates every
element of the repeated field, the getters are nil-safe, the rest is hashing and comparison.)  The driver runs
`verifyKVPairProofP`. -/

/-- `b[i:]`: panics when `i > len(b)`. -/
def sliceFrom (b : Bytes) (i : Nat) : Res Bytes := if i ≤ b.length then .ok (b.drop i) else .panic

/-- `if len(h) > 32 { h = h[len(h)-32:] }`. -/
def last32P (b : Bytes) : Res Bytes := if b.length > 32 then sliceFrom b (b.length - 32) else .ok b

/-- `InnerNode.Hash` pre-image with the two slice expressions explicit. -/
def innerEncP (lh rh : Bytes) (height size : Int) : Res Bytes :=
  match last32P lh, last32P rh with
  | .ok l, .ok r => .ok (Proto.fBytes 1 l ++ Proto.fBytes 2 r ++ Proto.fInt64 3 height ++ Proto.fInt64 4 size)
  | _, _ => .panic

def innerNodeProofHashP (H : Bytes → Bytes) (child : Bytes) (b : InnerNode) : Res Bytes :=
  match (if b.leftHash.isEmpty then innerEncP child b.rightHash b.height b.size
         else innerEncP b.leftHash child b.height b.size) with
  | .ok e => .ok (H e)
  | _ => .panic

def verifyLoopP (H : Bytes → Bytes) : Bytes → List InnerNode → Res (Option Bytes)
  | h, [] => .ok (some h)
  | h, b :: rest =>
    if goodBranch b then
      match innerNodeProofHashP H h b with
      | .ok h' => verifyLoopP H h' rest
      | _ => .panic
    else .ok none

def Proof.verifyP (H : Bytes → Bytes) (p : Proof) (key value root : Bytes) : Res Bool :=
  if p.rootHash != root then .ok false
  else
    let leafHash := H (leafEnc key value)
    match last32P p.leafHash with
    | .ok lh =>
      if leafHash != lh then .ok false
      else match verifyLoopP H leafHash p.inners with
        | .ok none => .ok false
        | .ok (some h) => .ok (h == p.rootHash)
        | _ => .panic
    | _ => .panic

def verifyKVPairProofP (H : Bytes → Bytes) (root key value proof : Bytes) : Res Bool :=
  let leafHash := H (leafEnc key value)
  match decodeProof proof with
  | none => .ok false
  | some ins => Proof.verifyP H ⟨leafHash, ins, root⟩ key value root

namespace Drv
open C01.Drv Wire

def handle (s : Store) (ws : List String) : Option (Store × String) :=
  match ws with
  | ["proof", root, k] => do
    let root ← pBytes root
    let k ← pBytes k
    match s.loadRoot root with
    | (.ok t, s') =>
      match treeProof C01.Drv.H s'.cfg t k with
      | .ok none => pure (s', "0 .")
      | .ok (some (_, p)) => pure (s', "1 " ++ hx p)
      | _ => pure (s', "panic")
    | (.notfound, s') => pure (s', "notfound")
    | (.panic, s') => pure (s', "panic")
  | ["pverify", root, pk, k, v, vroot] => do
    -- Tree.ConstructProof(pk) at root, then Proof.Verify(k, v, vroot) directly
    let root ← pBytes root
    let pk ← pBytes pk
    let k ← pBytes k
    let v ← pBytes v
    let vroot ← pBytes vroot
    match s.loadRoot root with
    | (.ok none, s') => pure (s', "noproof")
    | (.ok (some n), s') =>
      let (n', rootKey) := hashRoot C01.Drv.H s'.cfg 0 n
      match constructProof n' pk with
      | .absent => pure (s', "noproof")
      | .found _ lh ins => pure (s', b01 (Proof.verify C01.Drv.H ⟨lh, ins, rootKey⟩ k v vroot))
      | .nohash => pure (s', "panic")
    | (.notfound, s') => pure (s', "notfound")
    | (.panic, s') => pure (s', "panic")
  | ["verify", root, k, v, p] => do
    let root ← pBytes root
    let k ← pBytes k
    let v ← pBytes v
    let p ← pBytes p
    pure (s, match verifyKVPairProofP C01.Drv.H root k v p with | .ok b => b01 b | _ => "panic")
  | _ => C02.Drv.handle s ws

def step (s : Store) (line : String) : Store × String :=
  match handle s (words line) with
  | some r => r
  | none => (s, "bad-op")

end Drv
end C03
