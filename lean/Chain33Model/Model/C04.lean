/-
C04 — the store as a labelled transition system (system/store/mavl/mavl.go: Set / MemSet / Commit / Rollback / Get,
`trees` = the sync.Map of pending trees; one label = one atomic request: a `sync.Map` operation plus at most one
batch write).  The transition functions are the ones of C01/C02 (`Store.setKV`, `C02.memSet`, `C02.commit`,
`C02.rollback`, `Store.get`); this file only names the labels and the step function, so that histories and
interleavings can be quantified over.  Executable, core Lean only.
-/
import Chain33Model.Model.C02
namespace C04
open C01 C02

/-- `Store.MemSet` as it was BEFORE /repo e6adcc5: the empty-KV branch did `trees.Store(parentHash, nil)`, overwriting
a pending tree stored under that hash.  Kept only for the regression theorem `C04.commit_exact_old_false`. -/
def memSetOld (H : Bytes → Bytes) (s : Store) (parent : Bytes) (bh : Nat) (kvs : List (Bytes × Bytes)) :
    Res Bytes × Store :=
  if kvs.isEmpty then (.ok parent, { s with trees := storeTree s.trees parent none })
  else memSet H s parent bh kvs

inductive Label where
  | set (parent : Bytes) (height : Nat) (kvs : List (Bytes × Bytes))
  | memSet (parent : Bytes) (height : Nat) (kvs : List (Bytes × Bytes))
  | commit (root : Bytes)
  | rollback (root : Bytes)
  | get (root : Bytes) (keys : List Bytes)
  | restart

inductive Reply where
  | root (r : Res Bytes)
  | req (r : ReqRes)
  | values (r : Res (List (Option Bytes)))
  | done

def step (H : Bytes → Bytes) (s : Store) : Label → Store × Reply
  | .set p h kvs => let (r, s') := s.setKV H p h kvs; (s', .root r)
  | .memSet p h kvs => let (r, s') := memSet H s p h kvs; (s', .root r)
  | .commit r => let (x, s') := commit s r; (s', .req x)
  | .rollback r => let (x, s') := rollback s r; (s', .req x)
  | .get r ks => let (x, s') := s.get r ks; (s', .values x)
  | .restart => (s.reopen, .done)

def run (H : Bytes → Bytes) (s : Store) (ls : List Label) : Store := ls.foldl (fun s l => (step H s l).1) s

namespace Drv
def step := C02.Drv.step
end Drv

end C04
