/-
C05 — state pruning (system/store/mavl/db/prune.go, tree.go Save / isRemoveLeafCountKey / DelLeafCountKV /
RemoveLeafCountKey / saveRootHash, node.go Hash (parentNode) / SaveNode (leaf-count index)).
Executable model on top of C01/C02, core Lean only.  The database is the same key/value map as in C01; besides the
node records it now holds

  "..mk.."  ++ key ++ %010d height ++ leafHash ++ %03d len(leafHash)  ↦ PruneData{parent hashes}   (leaf-count index)
  "..mok.." ++ …                                                                                 (second level)
  "_mrhp_"  ++ %010d height ++ rootHash ↦ Int64{height}                                           (roots per height)
  "_..mcmbh.._" ↦ Int64{max height},  "_..mslphk.._" ↦ Int64{last second-level pruning height}

Process-global variables of the Go package (`maxBlockHeight`, `secLvlPruningH`) are fields of the state; a restart
clears them.  The background pruning goroutine started by `Tree.Save` is run to completion right after the save
(the harness joins it through the `verif` hook `VerifWaitPrune`).  Reads walk the records lazily, exactly like
`Node.get` / `Node.getHash`, so a missing record panics only when it is visited.
-/
import Chain33Model.Model.C02
namespace C05
open C01

def str (s : String) : Bytes := s.toUTF8.toList

/-- `w` decimal digits of `n`, most significant first (`%0wd` for `n < 10^w`). -/
def fixedDec : Nat → Nat → Bytes
  | 0, _ => []
  | w + 1, n => fixedDec w (n / 10) ++ [UInt8.ofNat (48 + n % 10)]

/-- `fmt.Sprintf("%0wd", n)` for non-negative `n`: zero padded to width `w`, longer when `n ≥ 10^w`. -/
def digitsN (w n : Nat) : Bytes :=
  if n < 10 ^ w then fixedDec w n
  else (Nat.toDigits 10 n).map (fun c => UInt8.ofNat c.toNat)

def leafCountPrefix : Bytes := str "..mk.."
def oldLeafCountPrefix : Bytes := str "..mok.."
def rootHashPrefix : Bytes := str "_mrhp_"
def maxHeightKey : Bytes := str "_..mcmbh.._"
def secLvlKey : Bytes := str "_..mslphk.._"

/-- `genLeafCountKey` / `genOldLeafCountKey` (by prefix). -/
def leafCountKey (pfx key hash : Bytes) (height : Nat) : Bytes :=
  pfx ++ key ++ digitsN 10 height ++ hash ++ digitsN 3 hash.length

/-- `genRootHashHeight`. -/
def rootHashKey (height : Nat) (hash : Bytes) : Bytes := rootHashPrefix ++ digitsN 10 height ++ hash

def encInt64 (n : Nat) : Bytes := Proto.fInt64 1 n
def encPruneData (hs : List Bytes) : Bytes := Proto.fRepBytes 1 hs

def decInt64 (b : Bytes) : Option Int :=
  (parseMsg b).map fun fs =>
    fs.foldl (fun (acc : Int) f => match f with
      | (1, .varint x) => (if x % 2 ^ 64 < 2 ^ 63 then ((x % 2 ^ 64 : Nat) : Int) else ((x % 2 ^ 64 : Nat) : Int) - 2 ^ 64)
      | _ => acc) 0

def decPruneData (b : Bytes) : Option (List Bytes) :=
  (parseMsg b).map fun fs => fs.filterMap (fun f => match f with | (1, .bytes x) => some x | _ => none)

/-- decimal `strconv.Atoi` on the digit strings the code writes (`none` = error). -/
def atoi (b : Bytes) : Option Nat :=
  if b.isEmpty then none
  else b.foldl (fun acc c => match acc with
    | none => none
    | some n => if 48 ≤ c.toNat ∧ c.toNat ≤ 57 then some (n * 10 + (c.toNat - 48)) else none) (some 0)

def isInfix (p b : Bytes) : Bool := (List.range (b.length + 1)).any (fun i => (b.drop i).take p.length == p)

/-- `getKeyHeightFromLeafCountKey` / `…OldLeafCountKey`: `.notfound` = the error return, `.panic` = slice out of
range. -/
def parseLeafCountKey (pfx hk : Bytes) : Res (Bytes × Nat × Bytes) :=
  if hk.length < pfx.length + 10 + 32 + 3 then .notfound
  else if !isInfix pfx hk then .notfound
  else match atoi (hk.drop (hk.length - 3)) with
    | none => .notfound
    | some iLen =>
      let k := if pfx.isPrefixOf hk then hk.drop pfx.length else hk
      if k.length < iLen + 13 then .panic
      else
        let keyLen := k.length - iLen - 13
        let key := k.take keyLen
        let heightHash := (k.drop keyLen).take (k.length - 3 - keyLen)
        match atoi (heightHash.take 10) with
        | none => .notfound
        | some height => .ok (key, height, heightHash.drop 10)

/-! ### ordered scans (`db.Iterator(prefix, nil, reverse = true)`) -/

def bytesLe (a b : Bytes) : Bool := cmpB a b != .gt

/-- all records whose key starts with `pfx`, in descending key order. -/
def scanDesc (db : NodeDB) (pfx : Bytes) : List (Bytes × Bytes) :=
  ((db.toList.filter (fun p => pfx.isPrefixOf p.1)).mergeSort (fun a b => bytesLe b.1 a.1))

/-! ### lazy reads (`Node.get`, `Node.getHash`) -/

/-- walk from the node stored under `h` to the leaf for `key`: `(value, leaf hash)` if the key is there.
`.panic` = a visited record is missing / undecodable (Go: `panic(… ErrNodeNotExist)`). -/
def walk (db : NodeDB) : Nat → Bytes → Bytes → Res (Option (Bytes × Bytes))
  | 0, _, _ => .panic
  | fuel + 1, h, key =>
    match db[h]? with
    | none => .panic
    | some buf =>
      if buf.isEmpty then .panic
      else match decodeStoreNode buf with
        | none => .panic
        | some sn =>
          if sn.height = 0 then
            (if cmpB sn.key key = .eq then .ok (some (sn.value, h)) else .ok none)
          else if cmpB key sn.key = .lt then walk db fuel sn.leftHash key
          else walk db fuel sn.rightHash key

/-- `Tree.Load` + `Tree.Get`/`GetHash`: `.notfound` = the root itself cannot be loaded (error, no panic). -/
def walkTop (db : NodeDB) (root key : Bytes) : Res (Option (Bytes × Bytes)) :=
  if root.isEmpty ∨ root = List.replicate 32 0 then .ok none
  else match db[root]? with
    | none => .notfound
    | some buf => if buf.isEmpty then .notfound else walk db loadFuel root key

/-! ### saving with the leaf-count index -/

/-- `Node.save` under `EnableMavlPrune`: node records as in `C01.save`, plus one index entry per new leaf holding the
hashes of its ancestors, nearest first (`getHashNode` over the `parentNode` chain set by `Node.Hash`).
Returns the writes (the batch). -/
def saveWrites (cfg : Cfg) (bh : Nat) : Node → List Bytes → Option (List (Bytes × Bytes))
  | .leaf k v m, anc =>
    match m.hk with
    | none => none
    | some h =>
      if m.persisted then some []
      else some [(h, storeRec cfg k v [] [] 0 1), (leafCountKey leafCountPrefix k h bh, encPruneData anc)]
  | .inner k ht sz l r m, anc =>
    match m.hk with
    | none => none
    | some h =>
      if m.persisted then some []
      else
        match saveWrites cfg bh l (h :: anc), saveWrites cfg bh r (h :: anc), l.info.hk, r.info.hk with
        | some wl, some wr, some lh, some rh => some (wl ++ wr ++ [(h, storeRec cfg k [] lh rh ht sz)])
        | _, _, _, _ => none

structure PState where
  cfg : Cfg
  pruneHeight : Nat
  db : NodeDB
  trees : List (Bytes × Option (Node × Nat))   -- pending trees with their block height
  gMaxH : Nat            -- process global maxBlockHeight (0 = not yet read)
  gSecLvl : Nat          -- process global secLvlPruningH

def PState.new (ph : Nat) : PState := ⟨⟨true, true, false, false, false⟩, ph, {}, [], 0, 0⟩

/-- process restart on the same database. -/
def PState.restart (s : PState) : PState := { s with trees := [], gMaxH := 0, gSecLvl := 0 }

def readInt (db : NodeDB) (key : Bytes) : Nat :=
  match db[key]? with
  | none => 0
  | some v => if v.isEmpty then 0 else match decInt64 v with
    | none => 0
    | some i => i.toNat

/-- `RemoveLeafCountKey` for one root recorded at `height`: for every leaf record created at that height (by any
fork), if the root's tree has that key, drop the index entry (key, the tree's leaf hash, height). -/
def removeLeafCountKey (db : NodeDB) (root : Bytes) (height : Nat) : Res NodeDB :=
  let leaves := scanDesc db (prefixKey true height)
  let keys := leaves.filterMap (fun p => (decodeStoreNode p.2).map (·.key))
  keys.foldl (fun (acc : Res NodeDB) k =>
    match acc with
    | .ok d =>
      (match walk db loadFuel root k with
       | .ok (some (_, hash)) => .ok (d.erase (leafCountKey leafCountPrefix k hash height))
       | .ok none => .ok d
       | _ => .panic)
    | e => e) (.ok db)

/-- `DelLeafCountKV`: every root recorded for `height` that can still be loaded. -/
def delLeafCountKV (db : NodeDB) (height : Nat) : Res NodeDB :=
  let roots := scanDesc db (rootHashPrefix ++ digitsN 10 height)
  roots.foldl (fun (acc : Res NodeDB) p =>
    match acc with
    | .ok d =>
      if p.1.length < 6 + 10 + 32 then .ok d
      else
        let hash := p.1.drop (p.1.length - 32)
        (match d[hash]? with
         | none => .ok d
         | some buf => if buf.isEmpty then .ok d else
            match decodeStoreNode buf with
            | none => .panic
            | some _ => removeLeafCountKey d hash height)
    | e => e) (.ok db)

/-! ### pruning -/

structure HashData where
  height : Nat
  hash : Bytes
  deriving DecidableEq, Repr

/-- the deletion rule of `deleteNode` / `deleteOldNode` on one key's versions in scan order (newest first): keep the
newest, delete the rest — unless the two newest share a height. -/
def delRule : List HashData → List HashData
  | v0 :: v1 :: rest => if v1.height != v0.height then v1 :: rest else []
  | _ => []

/-- group (in scan order) by parsed key, keeping first-seen order of the keys. -/
def addToGroup (mp : List (Bytes × List HashData)) (key : Bytes) (d : HashData) : List (Bytes × List HashData) :=
  if mp.any (fun p => p.1 == key) then mp.map (fun p => if p.1 == key then (p.1, p.2 ++ [d]) else p)
  else mp ++ [(key, [d])]

/-- `deleteNode` / the first branch of `deleteOldNode`: keep `vals[0]`, delete the older versions with the parents
recorded for them — unless the two newest share a height. -/
def deleteVersions (pfx : Bytes) (db : NodeDB) (mp : List (Bytes × List HashData)) (cur ph : Nat) : NodeDB :=
  mp.foldl (fun d (p : Bytes × List HashData) =>
    (delRule p.2).foldl (fun d (val : HashData) =>
      if cur ≥ val.height + ph then
        let lck := leafCountKey pfx p.1 val.hash val.height
        let parents := match db[lck]? with
          | none => []
          | some v => match decPruneData v with
            | some hs => hs
            | none => []
        ((parents.foldl (fun d h => d.erase h) d).erase lck).erase val.hash
      else d) d) db

/-- third-level branch of `deleteOldNode`: only index entries older than 1 500 000 heights are dropped. -/
def deleteOld (db : NodeDB) (mp : List (Bytes × List HashData)) (cur ph : Nat) : NodeDB :=
  mp.foldl (fun d (p : Bytes × List HashData) =>
    match p.2 with
    | v0 :: v1 :: rest =>
      if v1.height != v0.height then deleteVersions oldLeafCountPrefix d [p] cur ph
      else (v0 :: v1 :: rest).foldl (fun d (val : HashData) =>
        if cur ≥ val.height + 1500000 then d.erase (leafCountKey oldLeafCountPrefix p.1 val.hash val.height) else d) d
    | [v0] => if cur ≥ v0.height + 1500000 then d.erase (leafCountKey oldLeafCountPrefix p.1 v0.hash v0.height) else d
    | [] => d) db

structure Scan where
  db : NodeDB
  mp : List (Bytes × List HashData)
  count : Nat
  kvs : List (Bytes × Bytes)

def moveToSecond (db : NodeDB) (kvs : List (Bytes × Bytes)) : NodeDB :=
  kvs.foldl (fun d kv => (d.erase kv.1).insert (oldLeafCountPrefix ++ kv.1.drop leafCountPrefix.length) kv.2) db

/-- `pruningFirstLevelNode`.  The entries are read from the database as it was when the iterator was opened
(goleveldb iterators are snapshots); deletions go to the live database. -/
def pruneFirst (db : NodeDB) (cur ph : Nat) : NodeDB :=
  let entries := scanDesc db leafCountPrefix
  let fin := entries.foldl (fun (s : Scan) (e : Bytes × Bytes) =>
    match parseLeafCountKey leafCountPrefix e.1 with
    | .ok (key, height, hash) =>
      let s1 : Scan :=
        if cur < height + 500000 then
          (if cur ≥ height + ph then { s with mp := addToGroup s.mp key ⟨height, hash⟩, count := s.count + 1 } else s)
        else { s with kvs := s.kvs ++ [e] }
      let s2 : Scan :=
        if s1.mp.length ≥ 999 ∨ s1.count > 10000 then
          { s1 with db := deleteVersions leafCountPrefix s1.db s1.mp cur ph, mp := [], count := 0 }
        else s1
      if s2.kvs.length ≥ 1000 then { s2 with db := moveToSecond s2.db s2.kvs, kvs := [] } else s2
    | _ => s) ⟨db, [], 0, []⟩
  let d1 := if fin.mp.isEmpty then fin.db else deleteVersions leafCountPrefix fin.db fin.mp cur ph
  if fin.kvs.isEmpty then d1 else moveToSecond d1 fin.kvs

/-- `pruningSecondLevelNode`. -/
def pruneSecondNodes (db : NodeDB) (cur ph : Nat) : NodeDB :=
  let entries := scanDesc db oldLeafCountPrefix
  let fin := entries.foldl (fun (s : Scan) (e : Bytes × Bytes) =>
    match parseLeafCountKey oldLeafCountPrefix e.1 with
    | .ok (key, height, hash) =>
      let s1 : Scan := { s with mp := addToGroup s.mp key ⟨height, hash⟩, count := s.count + 1 }
      if s1.mp.length ≥ 999 ∨ s1.count > 10000 then { s1 with db := deleteOld s1.db s1.mp cur ph, mp := [], count := 0 }
      else s1
    | _ => s) ⟨db, [], 0, []⟩
  if fin.mp.isEmpty then fin.db else deleteOld fin.db fin.mp cur ph

/-- `pruningTree` (first level, then second level when a new 500 000 window is reached). -/
def pruningTree (s : PState) (cur : Nat) : PState :=
  let d1 := pruneFirst s.db cur s.pruneHeight
  let sec := if s.gSecLvl = 0 then readInt d1 secLvlKey else s.gSecLvl
  if cur / 500000 > 1 ∧ cur / 500000 ≠ sec / 500000 then
    let d2 := pruneSecondNodes d1 cur s.pruneHeight
    { s with db := d2.insert secLvlKey (encInt64 cur), gSecLvl := cur }
  else { s with db := d1, gSecLvl := sec }

/-! ### the store operations under pruning -/

/-- `Tree.Save` of an already hashed tree at block height `bh`. -/
def saveP (s : PState) (n : Node) (bh : Nat) : Res PState :=
  let g := if s.gMaxH = 0 then readInt s.db maxHeightKey else s.gMaxH
  let pre : Res (NodeDB × Nat × List (Bytes × Bytes)) :=
    if bh > g then .ok (s.db, bh, [(maxHeightKey, encInt64 bh)])
    else match delLeafCountKV s.db bh with
      | .ok d => .ok (d, g, [])
      | _ => .panic
  match pre with
  | .ok (d, g', w0) =>
    (match saveWrites s.cfg bh n [], n.info.hk with
     | some ws, some root =>
       let all := w0 ++ ws ++ [(rootHashKey bh root, encInt64 bh)]
       let d' := all.foldl (fun d p => d.insert p.1 p.2) d
       let s' := { s with db := d', gMaxH := g' }
       if s.pruneHeight ≠ 0 ∧ bh % s.pruneHeight = 0 ∧ bh / s.pruneHeight > 1 then .ok (pruningTree s' bh) else .ok s'
     | _, _ => .panic)
  | _ => .panic

/-- `SetKVPair` (= `Store.Set`). -/
def setKV (H : Bytes → Bytes) (s : PState) (parent : Bytes) (bh : Nat) (kvs : List (Bytes × Bytes)) : Res Bytes × PState :=
  match loadTree s.db parent with
  | .notfound => (.notfound, s)
  | .panic => (.panic, s)
  | .ok t =>
    match Tree.setMany t kvs with
    | none => (.panic, s)
    | some none => (.ok [], s)
    | some (some n) =>
      let (n', root) := hashRoot H s.cfg bh n
      match saveP s n' bh with
      | .ok s' => (.ok root, s')
      | _ => (.panic, s)

def lookupP (trees : List (Bytes × Option (Node × Nat))) (h : Bytes) : Option (Option (Node × Nat)) :=
  (trees.find? (fun p => p.1 == h)).map (·.2)

def storeP (trees : List (Bytes × Option (Node × Nat))) (h : Bytes) (t : Option (Node × Nat)) :=
  (h, t) :: trees.filter (fun p => !(p.1 == h))

/-- `Store.MemSet`. -/
def memSet (H : Bytes → Bytes) (s : PState) (parent : Bytes) (bh : Nat) (kvs : List (Bytes × Bytes)) : Res Bytes × PState :=
  if kvs.isEmpty then
    (.ok parent, match lookupP s.trees parent with
      | some _ => s
      | none => { s with trees := storeP s.trees parent none })
  else match loadTree s.db parent with
    | .notfound => (.notfound, s)
    | .panic => (.panic, s)
    | .ok t =>
      match Tree.setMany t kvs with
      | some (some n) =>
        let (n', root) := hashRoot H s.cfg bh n
        (.ok root, { s with trees := storeP s.trees root (some (n', bh)) })
      | _ => (.panic, s)

/-- `Store.Commit`. -/
def commit (s : PState) (root : Bytes) : C02.ReqRes × PState :=
  match lookupP s.trees root with
  | none => (.notfound, s)
  | some none => (.ok root, { s with trees := s.trees.filter (fun p => !(p.1 == root)) })
  | some (some (n, bh)) =>
    match saveP s n bh with
    | .ok s' => (.ok root, { s' with trees := s'.trees.filter (fun p => !(p.1 == root)) })
    | _ => (.panic, s)

def rollback (s : PState) (root : Bytes) : C02.ReqRes × PState :=
  match lookupP s.trees root with
  | none => (.notfound, s)
  | some _ => (.ok root, { s with trees := s.trees.filter (fun p => !(p.1 == root)) })

/-- `Store.Get`: a pending tree under that hash first, else the records, lazily. -/
def get (s : PState) (root : Bytes) (keys : List Bytes) : Res (List (Option Bytes)) :=
  match lookupP s.trees root with
  | some (some (n, _)) => .ok (keys.map (fun k => (n.get k).2))
  | _ =>
    keys.foldl (fun (acc : Res (List (Option Bytes))) k =>
      match acc with
      | .ok vs =>
        (match walkTop s.db root k with
         | .ok r => .ok (vs ++ [r.map (·.1)])
         | .notfound => .ok (vs ++ [none])
         | .panic => .panic)
      | e => e) (.ok [])

/-- digest of the whole database: number of records and SHA-256 over the length-prefixed sorted records. -/
def dump (H : Bytes → Bytes) (db : NodeDB) : Nat × Bytes :=
  let recs := db.toList.mergeSort (fun a b => bytesLe a.1 b.1)
  let enc := recs.foldr (fun p acc => Proto.varint p.1.length ++ p.1 ++ Proto.varint p.2.length ++ p.2 ++ acc) []
  (recs.length, H enc)

namespace Drv
open C01.Drv Wire

def showReq : C02.ReqRes → String
  | .ok h => "ok " ++ hx h
  | .notfound => "notfound"
  | .dbdamage => "dbdamage"
  | .panic => "panic"

def handle (s : PState) (ws : List String) : Option (PState × String) :=
  match ws with
  | ["new", ph] => ph.toNat?.map fun ph => (PState.new ph, "ok")
  | ["restart"] => some (s.restart, "ok")
  | ["set", parent, bh, kvs] => do
    let parent ← pBytes parent
    let bh ← bh.toNat?
    let kvs ← pKVs kvs
    match setKV C01.Drv.H s parent bh kvs with
    | (.ok root, s') => pure (s', "root " ++ hx root)
    | (.notfound, s') => pure (s', "notfound")
    | (.panic, s') => pure (s', "panic")
  | ["mset", parent, bh, kvs] => do
    let parent ← pBytes parent
    let bh ← bh.toNat?
    let kvs ← pKVs kvs
    match memSet C01.Drv.H s parent bh kvs with
    | (.ok root, s') => pure (s', "root " ++ hx root)
    | (.notfound, s') => pure (s', "notfound")
    | (.panic, s') => pure (s', "panic")
  | ["commit", root] => do
    let root ← pBytes root
    let (r, s') := commit s root
    pure (s', showReq r)
  | ["rollback", root] => do
    let root ← pBytes root
    let (r, s') := rollback s root
    pure (s', showReq r)
  | ["get", root, keys] => do
    let root ← pBytes root
    let keys ← pKeys keys
    match get s root keys with
    | .ok vs => pure (s, ",".intercalate (vs.map (fun v => match v with | none => "-" | some b => if b.isEmpty then "-" else toHex b)))
    | _ => pure (s, "panic")
  | ["prune", h] => do
    let h ← h.toNat?
    pure (pruningTree s h, "ok")
  | ["dumpall"] =>
    let recs := s.db.toList.mergeSort (fun a b => bytesLe a.1 b.1)
    some (s, showKVs recs)
  | ["dump"] =>
    let (n, d) := dump C01.Drv.H s.db
    some (s, s!"{n} " ++ toHex d)
  | _ => none

def step (s : PState) (line : String) : PState × String :=
  match handle s (words line) with
  | some r => r
  | none => (s, "bad-op")

end Drv
end C05
