import Chain33Model.Base.Wire
/-
C06 — key-value backends as an ordered map with iterators (common/db/{db,go_level_db,
go_mem_db,go_badger_db}.go).  Executable model, core Lean only.

This file is also the shared KV oracle of C07–C10/C14:

* `Bytes = List UInt8` with `blt`/`ble` = Go `bytes.Compare` (lexicographic, shorter first);
* `prefixUpper` = `bytesPrefix`;
* `Map` = strictly sorted association list with `get / insert / erase / range`, `Batch`;
* `Iter` mirrors `goLevelDBIt` (used by GoLevelDB and GoMemDB) on top of the goleveldb / memdb
  range iterator: position `soi | eoi | on i` over the entries of `[start, limit)`,
  `First/Last/Seek/Next/Prev` of the underlying iterator, `itBase.checkKey`,
  `Rewind/Seek/Next/Valid` of the wrapper;
* `BIter` mirrors `goBadgerDBIt`: badger's iterator runs over the *whole* database; the wrapper
  clamps seek targets into `[start, end)` and `Valid` rejects keys outside it (exclusive end).
-/
namespace C06

-- `Bytes = List UInt8` (the shared wire type), re-exported as `C06.Bytes`.
export Wire (Bytes)
abbrev Entry := Bytes × Bytes
/-- association list, intended invariant: strictly ascending keys (`Sorted`, see Proofs). -/
abbrev Map := List Entry

/-! ### byte-string order (`bytes.Compare`) -/

/-- `bytes.Compare a b < 0`. -/
def blt : Bytes → Bytes → Bool
  | _, [] => false
  | [], _ :: _ => true
  | a :: as, b :: bs => if a < b then true else if b < a then false else blt as bs

/-- `bytes.Compare a b <= 0`. -/
def ble (a b : Bytes) : Bool := !blt b a

/-- `bytesPrefix`: the least byte string greater than every string with prefix `p`;
`none` (Go `nil`) when `p` is empty or all `0xff`. -/
def prefixUpper : Bytes → Option Bytes
  | [] => none
  | c :: cs =>
    match prefixUpper cs with
    | some u => some (c :: u)
    | none => if c < 255 then some [c + 1] else none

/-- `types.EmptyValue`: as an `end` argument it means "no upper bound". -/
-- the ASCII bytes of "FFFFFFFFemptyBVBiCj5jvE15pEiwro8TQRGnJSNsJF" (spelled out so that it reduces in proofs)
def emptyValue : Bytes :=
  [70, 70, 70, 70, 70, 70, 70, 70, 101, 109, 112, 116, 121, 66, 86, 66, 105, 67, 106, 53, 106, 118, 69, 49, 53, 112, 69, 105, 119, 114, 111, 56, 84, 81, 82, 71, 110, 74, 83, 78, 115, 74, 70]

/-! ### ordered map -/

def get : Map → Bytes → Option Bytes
  | [], _ => none
  | (k', v') :: m, k => if k' = k then some v' else get m k

def insert : Map → Bytes → Bytes → Map
  | [], k, v => [(k, v)]
  | (k', v') :: m, k, v =>
    if blt k k' then (k, v) :: (k', v') :: m
    else if blt k' k then (k', v') :: insert m k v
    else (k, v) :: m

def erase : Map → Bytes → Map
  | [], _ => []
  | (k', v') :: m, k => if k' = k then m else (k', v') :: erase m k

/-- the upper-bound condition: no bound (`none`), or `k` strictly below it. -/
def belowUpper (u : Option Bytes) (k : Bytes) : Bool :=
  match u with
  | none => true
  | some u => blt k u

/-- `lo ≤ k` and, when `hi = some h`, `k < h`. -/
def inRange (lo : Bytes) (hi : Option Bytes) (k : Bytes) : Bool :=
  ble lo k && belowUpper hi k

/-- entries with key in `[lo, hi)`, ascending. -/
def range (m : Map) (lo : Bytes) (hi : Option Bytes) : Map :=
  m.filter (fun e => inRange lo hi e.1)

/-- entries whose key has prefix `p`. -/
def withPrefix (m : Map) (p : Bytes) : Map := m.filter (fun e => p.isPrefixOf e.1)

/-! ### batches -/

/-- "strictly before `k`" in iteration order (ascending, or descending when `rev`). -/
def before (rev : Bool) (k : Bytes) (e : Entry) : Bool := if rev then blt k e.1 else blt e.1 k


inductive BOp where
  | set (k v : Bytes)
  | del (k : Bytes)
  deriving Repr, DecidableEq

def applyOp (m : Map) : BOp → Map
  | .set k v => insert m k v
  | .del k => erase m k

/-- `Batch.Write`: all operations, in order. -/
def applyBatch (m : Map) (ops : List BOp) : Map := ops.foldl applyOp m

/-! ### the batch wrappers (`memBatch`, `goLevelDBBatch`, `GoBadgerDBBatch`)

A Go `[]byte` argument is `Option Bytes`: `none` = `nil`, `some []` = a non-nil empty slice. -/

/-- a call of the `Batch` interface. -/
inductive BCall where
  | set (k : Bytes) (v : Option Bytes)
  | delete (k : Bytes)
  | reset
  deriving Repr, DecidableEq

/-- `len(v)`. -/
def goLen : Option Bytes → Nat
  | none => 0
  | some v => v.length

/-- `cloneByte(v)`: `make([]byte, len(v))` + copy — never nil. -/
def cloneByte : Option Bytes → Option Bytes
  | none => some []
  | some v => some v

/-- `memBatch{writes []kv, size, len}`; `goLevelDBBatch` and `GoBadgerDBBatch` keep the same two
counters next to the engine's own batch, whose content is the same list (`Put(k, nil)` stores an
empty value there as well). -/
structure Batch where
  /-- `kv{k, v}`: `v = none` (nil) marks a delete. -/
  writes : List (Bytes × Option Bytes) := []
  /-- `ValueSize()`. -/
  size : Nat := 0
  /-- `ValueLen()` — grows by `len(value)` per `Set` and by 1 per `Delete` (as written). -/
  len : Nat := 0
  deriving Repr

/-- `Set`: `writes = append(writes, kv{cloneByte(key), cloneByte(value)})` — a nil value becomes a
non-nil empty one, so it is *not* a delete. -/
def Batch.set (b : Batch) (k : Bytes) (v : Option Bytes) : Batch :=
  { writes := b.writes ++ [(k, cloneByte v)], size := b.size + goLen v + k.length, len := b.len + goLen v }

/-- `Delete`: `kv{cloneByte(key), nil}`. -/
def Batch.delete (b : Batch) (k : Bytes) : Batch :=
  { writes := b.writes ++ [(k, none)], size := b.size + k.length, len := b.len + 1 }

def Batch.reset (_ : Batch) : Batch := {}

def Batch.call (b : Batch) : BCall → Batch
  | .set k v => b.set k v
  | .delete k => b.delete k
  | .reset => b.reset

/-- `GoMemDB.Set` / `Delete` on the database; `true` = an error was returned
(memdb reports the delete of an absent key). -/
def dbSet (m : Map) (k : Bytes) (v : Option Bytes) : Map × Bool :=
  (insert m k (match v with
               | some v => v
               | none => []), false)

def dbDelete (m : Map) (k : Bytes) : Map × Bool := (erase m k, (get m k).isNone)

/-- `memBatch.Write`: `for _, kv := range writes { if kv.v == nil { err = Delete } else { err = Set } }`
— every write is applied, only the last error is returned. -/
def Batch.write (b : Batch) (m : Map) : Map × Bool :=
  b.writes.foldl (fun (acc : Map × Bool) (kv : Bytes × Option Bytes) =>
    match kv.2 with
    | none => dbDelete acc.1 kv.1
    | some v => dbSet acc.1 kv.1 (some v)) (m, false)

/-- the specification-level operations a batch stands for. -/
def Batch.toBOps (b : Batch) : List BOp :=
  b.writes.map (fun kv => match kv.2 with
                          | none => BOp.del kv.1
                          | some v => BOp.set kv.1 v)

/-! ### iterator bounds (`DB.Iterator(start, end, reverse)`) -/

/-- The `end` stored in `itBase` and used as the underlying exclusive limit:
`end == nil ⇒ bytesPrefix(start)`; `end == types.EmptyValue ⇒ nil`. `none` is Go `nil`. -/
def effEnd (start : Bytes) (end_ : Option Bytes) : Option Bytes :=
  let e := match end_ with
    | none => prefixUpper start
    | some e => some e
  match e with
  | some e => if e = emptyValue then none else some e
  | none => none

/-- `itBase.checkKey`: `start ≤ key` and `key ≤ end` (inclusive!) when `end ≠ nil`. -/
def checkKey (start : Bytes) (end_ : Option Bytes) (k : Bytes) : Bool :=
  ble start k && (match end_ with | none => true | some e => ble k e)

/-! ### goLevelDBIt (GoLevelDB, GoMemDB) -/

/-- position of the underlying goleveldb/memdb iterator. -/
inductive Pos where
  | soi            -- before the first entry (fresh iterator, or stepped back past the first)
  | eoi            -- after the last entry
  | on (i : Nat)   -- on entry `i` of `ents`
  deriving Repr, DecidableEq

structure Iter where
  /-- snapshot of the entries in `[start, limit)`, ascending (what `NewIterator(&util.Range{…})` ranges over). -/
  ents : List Entry
  start : Bytes
  /-- `itBase.end` (= the exclusive underlying limit). -/
  end_ : Option Bytes
  reverse : Bool
  pos : Pos
  deriving Repr

/-- `db.Iterator(start, end, reverse)` on map `m`. -/
def Iter.mk' (m : Map) (start : Bytes) (end_ : Option Bytes) (reverse : Bool) : Iter :=
  let e := effEnd start end_
  { ents := range m start e, start := start, end_ := e, reverse := reverse, pos := .soi }

/-- entry under the cursor of the underlying iterator. -/
def Iter.cur (it : Iter) : Option Entry :=
  match it.pos with
  | .on i => it.ents[i]?
  | _ => none

/-- underlying `Valid()`. -/
def Iter.uValid (it : Iter) : Bool := it.cur.isSome

/-- `Key()` (`nil` = `[]` when not positioned). -/
def Iter.key (it : Iter) : Bytes :=
  match it.cur with
  | some e => e.1
  | none => []

/-- `Value()`. -/
def Iter.value (it : Iter) : Bytes :=
  match it.cur with
  | some e => e.2
  | none => []

/-- `goLevelDBIt.Valid`: underlying valid and `checkKey(Key())`. -/
def Iter.valid (it : Iter) : Bool :=
  match it.cur with
  | some e => checkKey it.start it.end_ e.1
  | none => false

def Iter.uFirst (it : Iter) : Iter :=
  { it with pos := if it.ents.isEmpty then .eoi else .on 0 }

def Iter.uLast (it : Iter) : Iter :=
  { it with pos := match it.ents.length with
                   | 0 => .soi
                   | n + 1 => .on n }

/-- index of the first entry with key ≥ `k` (= `ents.length` if none). -/
def findGE (ents : List Entry) (k : Bytes) : Nat :=
  match ents with
  | [] => 0
  | e :: rest => if blt e.1 k then findGE rest k + 1 else 0

def Iter.uSeek (it : Iter) (k : Bytes) : Iter :=
  let i := findGE it.ents k
  { it with pos := if i < it.ents.length then .on i else .eoi }

def Iter.uNext (it : Iter) : Iter :=
  match it.pos with
  | .soi => it.uFirst
  | .eoi => it
  | .on i => { it with pos := if i + 1 < it.ents.length then .on (i + 1) else .eoi }

def Iter.uPrev (it : Iter) : Iter :=
  match it.pos with
  | .soi => it
  | .eoi => it.uLast
  | .on 0 => { it with pos := .soi }
  | .on (j + 1) => { it with pos := .on j }

/-- `goLevelDBIt.Rewind`. -/
def Iter.rewind (it : Iter) : Iter × Bool :=
  let it' := if it.reverse then it.uLast else it.uFirst
  (it', it'.uValid && it'.valid)

/-- `goLevelDBIt.Next`. -/
def Iter.next (it : Iter) : Iter × Bool :=
  let it' := if it.reverse then it.uPrev else it.uNext
  (it', it'.uValid && it'.valid)

/-- `goLevelDBIt.Seek`: forward = first key ≥ `k`; reverse = first key ≥ `k`, then one step
back unless that key equals `k` (from EOI the step back is `Last`). -/
def Iter.seek (it : Iter) (k : Bytes) : Iter × Bool :=
  let it1 := it.uSeek k
  if it.reverse && it1.key != k then
    let it2 := it1.uPrev
    (it2, it2.uValid && it2.valid)
  else (it1, it1.uValid)

/-- the entries visited by `for ; it.Valid(); it.Next() { … }` from the current position
(at most `fuel` of them). -/
def Iter.drain : Nat → Iter → List Entry
  | 0, _ => []
  | fuel + 1, it => if it.valid then (it.key, it.value) :: Iter.drain fuel it.next.1 else []

/-- `for it.Rewind(); it.Valid(); it.Next() { visit(it.Key(), it.Value()) }`. -/
def Iter.scan (it : Iter) : List Entry := Iter.drain (it.ents.length + 1) it.rewind.1

/-! ### goBadgerDBIt -/

structure BIter where
  /-- snapshot of the whole database (badger iterators have no range). -/
  all : List Entry
  start : Bytes
  end_ : Option Bytes
  reverse : Bool
  /-- `none`: the badger iterator is exhausted (`item == nil`). -/
  pos : Option Nat
  /-- not positioned yet (set by the constructor, cleared by `Rewind`/`Seek`). -/
  fresh : Bool
  /-- positioned before the first entry by a reverse `Seek` with an empty target. -/
  done : Bool
  deriving Repr

/-- number of entries with key ≤ `k` (they form a prefix of a sorted list). -/
def countLE (ents : List Entry) (k : Bytes) : Nat :=
  match ents with
  | [] => 0
  | e :: rest => if ble e.1 k then countLE rest k + 1 else 0

/-- `badger.Iterator.Seek`: empty key = rewind; forward = first key ≥ `k`;
reverse = last key ≤ `k`. -/
def BIter.bSeek (it : BIter) (k : Bytes) : BIter :=
  let n := it.all.length
  if k.isEmpty then
    { it with pos := if n = 0 then none else if it.reverse then some (n - 1) else some 0 }
  else if it.reverse then
    { it with pos := match countLE it.all k with
                     | 0 => none
                     | c + 1 => some c }
  else
    let i := findGE it.all k
    { it with pos := if i < n then some i else none }

def optBytes : Option Bytes → Bytes
  | some b => b
  | none => []

def BIter.cur (it : BIter) : Option Entry :=
  match it.pos with
  | some i => it.all[i]?
  | none => none

/-- `goBadgerDBIt.Valid`: not fresh, not done, underlying valid, `checkKey`, and the key strictly
below the (exclusive) end bound. -/
def BIter.valid (it : BIter) : Bool :=
  if it.fresh || it.done then false
  else
    match it.cur with
    | some e => checkKey it.start it.end_ e.1 && belowUpper it.end_ e.1
    | none => false

def BIter.key (it : BIter) : Bytes :=
  match it.cur with
  | some e => e.1
  | none => []

def BIter.value (it : BIter) : Bytes :=
  match it.cur with
  | some e => e.2
  | none => []

/-- `badger.Iterator.Next` on a positioned iterator: one step in iteration direction. -/
def BIter.uNext (it : BIter) : BIter :=
  match it.pos with
  | none => it
  | some i =>
    if it.reverse then
      { it with pos := match i with
                       | 0 => none
                       | j + 1 => some j }
    else { it with pos := if i + 1 < it.all.length then some (i + 1) else none }

/-- `seekLast`: `Seek(end)`, then step over an item equal to the (exclusive) end bound. -/
def BIter.seekLast (it : BIter) : BIter :=
  let it1 := it.bSeek (optBytes it.end_)
  match it.end_, it1.cur with
  | some e, some c => if c.1 = e then it1.uNext else it1
  | _, _ => it1

/-- `it.fresh, it.done = false, false`. -/
def BIter.clear (it : BIter) : BIter := { it with fresh := false, done := false }

/-- `goBadgerDBIt.Rewind`. -/
def BIter.rewind (it : BIter) : BIter × Bool :=
  let it' := if it.reverse then it.clear.seekLast else it.clear.bSeek it.start
  (it', it'.valid)

/-- `GoBadgerDB.Iterator`: the constructor leaves the iterator unpositioned (`fresh`). -/
def BIter.mk' (m : Map) (start : Bytes) (end_ : Option Bytes) (reverse : Bool) : BIter :=
  { all := m, start := start, end_ := effEnd start end_, reverse := reverse, pos := none,
    fresh := true, done := false }

/-- `goBadgerDBIt.Seek`: the target is clamped into `[start, end)`; a reverse seek with an empty
target is "below every key" (`done`). -/
def BIter.seek (it : BIter) (k : Bytes) : BIter × Bool :=
  if it.reverse && k.isEmpty then ({ it.clear with done := true }, false)
  else
    let it' :=
      if it.reverse then
        match it.end_ with
        | some e => if ble e k then it.clear.seekLast else it.clear.bSeek k
        | none => it.clear.bSeek k
      else if blt k it.start then it.clear.bSeek it.start else it.clear.bSeek k
    (it', it'.valid)

/-- `goBadgerDBIt.Next`: the first call on a fresh forward iterator is `Rewind`, on a fresh
reverse iterator it finds nothing (`done`); false when done or exhausted. -/
def BIter.next (it : BIter) : BIter × Bool :=
  if it.fresh then
    if it.reverse then ({ it with fresh := false, done := true }, false) else it.rewind
  else if it.done then (it, false)
  else
    match it.pos with
    | none => (it, false)
    | some _ =>
      let it' := it.uNext
      (it', it'.valid)

/-- the entries visited by `for ; it.Valid(); it.Next()` on a badger iterator. -/
def BIter.drain : Nat → BIter → List Entry
  | 0, _ => []
  | fuel + 1, it => if it.valid then (it.key, it.value) :: BIter.drain fuel it.next.1 else []

def BIter.scan (it : BIter) : List Entry := BIter.drain (it.all.length + 1) it.rewind.1

/-! ### iterator sessions (for the step-level comparison of the two iterator machines) -/

/-- one call on an open iterator. -/
inductive IStep where
  | rewind
  | seek (k : Bytes)
  | next
  deriving Repr, DecidableEq

/-- what a caller sees after a call: the returned Bool and, when `Valid()`, `Key()`/`Value()`. -/
abbrev Obs := Bool × Option Entry

def Iter.step (it : Iter) : IStep → Iter × Bool
  | .rewind => it.rewind
  | .seek k => it.seek k
  | .next => it.next

def Iter.obs (r : Iter × Bool) : Obs := (r.2, if r.1.valid then some (r.1.key, r.1.value) else none)

/-- the observations of a sequence of calls. -/
def Iter.session (it : Iter) : List IStep → List Obs
  | [] => []
  | st :: rest => Iter.obs (it.step st) :: Iter.session (it.step st).1 rest

/-- the specification of an iterator session: a cursor over `all` (the in-range entries in
iteration order).  State `none` = freshly created; `some L` = `L` remains to be visited. -/
def specStep (all : List Entry) (rev : Bool) (st : Option (List Entry)) : IStep → List Entry
  | .rewind => all
  | .seek k => all.dropWhile (before rev k)
  | .next =>
    match st with
    | none => if rev then [] else all
    | some L => L.tail

def specSession (all : List Entry) (rev : Bool) : Option (List Entry) → List IStep → List Obs
  | _, [] => []
  | st, step :: rest =>
    let L := specStep all rev st step
    (!L.isEmpty, L.head?) :: specSession all rev (some L) rest

def BIter.step (it : BIter) : IStep → BIter × Bool
  | .rewind => it.rewind
  | .seek k => it.seek k
  | .next => it.next

def BIter.obs (r : BIter × Bool) : Obs := (r.2, if r.1.valid then some (r.1.key, r.1.value) else none)

def BIter.session (it : BIter) : List IStep → List Obs
  | [] => []
  | st :: rest => BIter.obs (it.step st) :: BIter.session (it.step st).1 rest

end C06
