import Chain33Model.Base.Proto
import Chain33Model.Model.C06
/-
C07 — paged listing (common/db/list_helper.go) and the merged iterator over layered
databases (common/db/merge_iter.go).  Executable model, core Lean only.

* `ItOps σ` is the part of Go's `db.Iterator` interface that `ListHelper` uses; `iterOps` is
  the instance for a single database (`C06.Iter` = `goLevelDBIt`), `mergedOps` the instance
  for `mergedIterator`.
* Go's `for it.Valid() { …; it.Next() }` loops are run with explicit fuel; `none` means the
  fuel ran out (never happens for fuel > number of entries — see Proofs/C07*).
* `[][]byte(nil)` and the empty result are identified (`[]`).
-/
namespace C07
open C06

structure ItOps (σ : Type) where
  rewind : σ → σ × Bool
  seek : σ → Bytes → σ × Bool
  next : σ → σ × Bool
  valid : σ → Bool
  key : σ → Bytes
  value : σ → Bytes

/-! ### direction bits -/

def ListDESC : Nat := 0
def ListASC : Nat := 1
def ListSeek : Nat := 2
def ListWithKey : Nat := 4
def ListKeyOnly : Nat := 8

/-- `isASC`: bit 0. -/
def isASC (dir : Nat) : Bool := dir % 2 == 1

/-- `types.Encode(&types.KeyValue{Key, Value})`. -/
def encodeKV (k v : Bytes) : Bytes := Proto.fBytes 1 k ++ Proto.fBytes 2 v

/-- `collector.collect`: `ListKeyOnly` (bit 3) wins over `ListWithKey` (bit 2), default value. -/
def collect (dir : Nat) (k v : Bytes) : Bytes :=
  if (dir / 8) % 2 == 1 then k
  else if (dir / 4) % 2 == 1 then encodeKV k v
  else v

/-- `isdeleted`. -/
def isDeleted (v : Bytes) : Bool := v.isEmpty

/-! ### ListHelper over an abstract iterator -/

section
variable {σ : Type} (ops : ItOps σ)

/-- `for ; it.Valid(); it.Next() { if isdeleted {continue}; collect; i++; if i == count {break} }`
(`count ≤ 0` never matches: unlimited). `i` = number collected so far.  The entries are
returned as `(key, value)`; `encodeItems` applies `collector.collect` afterwards. -/
def scanLoop (count : Nat) : Nat → σ → Nat → Option (List Entry)
  | 0, _, _ => none
  | fuel + 1, s, i =>
    if ops.valid s then
      if isDeleted (ops.value s) then scanLoop count fuel (ops.next s).1 i
      else
        let item : Entry := (ops.key s, ops.value s)
        if i + 1 == count then some [item]
        else (scanLoop count fuel (ops.next s).1 (i + 1)).map (item :: ·)
    else some []

/-- `iteratorScan` (from first / from last): `it.Rewind()` then the loop. -/
def scanFromEnd (fuel : Nat) (it : σ) (count : Nat) : Option (List Entry) :=
  scanLoop ops count fuel (ops.rewind it).1 0

/-- `IteratorScan`: seek `key`; nothing if invalid; skip `key` itself if present; loop. -/
def iteratorScan (fuel : Nat) (it : σ) (key : Bytes) (count : Nat) : Option (List Entry) :=
  let s1 := (ops.seek it key).1
  if !ops.valid s1 then some []
  else
    let s2 := if ops.key s1 == key then (ops.next s1).1 else s1
    scanLoop ops count fuel s2 0

/-- `for it.Valid() && isdeleted(it.Value()) { it.Next() }`. -/
def skipDeleted : Nat → σ → Option σ
  | 0, _ => none
  | fuel + 1, s =>
    if ops.valid s && isDeleted (ops.value s) then skipDeleted fuel (ops.next s).1 else some s

/-- `nextKeyValue` (`it` is a *reverse* iterator): the entry at or before `key`, `[key, value]`. -/
def nextKeyValue (fuel : Nat) (it : σ) (key : Bytes) : Option (List Bytes) :=
  match skipDeleted ops fuel (ops.seek it key).1 with
  | none => none
  | some s => if ops.valid s then some [ops.key s, ops.value s] else some []

/-- the entries of one page: the two scanning branches of `ListHelper.List`
(`key` empty: from the first / last entry; otherwise continue after `key`).
`mk reverse` = `db.Iterator(prefix, nil, reverse)`. -/
def listEntries (mk : Bool → σ) (fuel : Nat) (key : Bytes) (count dir : Nat) : Option (List Entry) :=
  if key.isEmpty then scanFromEnd ops fuel (mk (!isASC dir)) count
  else iteratorScan ops fuel (mk (!isASC dir)) key count

/-- `collector.collect` on every entry of a page. -/
def encodeItems (dir : Nat) (es : List Entry) : List Bytes := es.map (fun e => collect dir e.1 e.2)

/-- `ListHelper.List`. -/
def list (mk : Bool → σ) (fuel : Nat) (key : Bytes) (count dir : Nat) : Option (List Bytes) :=
  if !key.isEmpty && count == 1 && dir == ListSeek then nextKeyValue ops fuel (mk true) key
  else (listEntries ops mk fuel key count dir).map (encodeItems dir)

def countLoop : Nat → σ → Option Nat
  | 0, _ => none
  | fuel + 1, s =>
    if ops.valid s then
      (countLoop fuel (ops.next s).1).map (· + (if isDeleted (ops.value s) then 0 else 1))
    else some 0

/-- `ListHelper.PrefixCount` (`it` = `db.Iterator(prefix, nil, true)`). -/
def prefixCount (fuel : Nat) (it : σ) : Option Nat :=
  countLoop ops fuel (ops.rewind it).1

end

/-! ### single database -/

def iterOps : ItOps Iter :=
  { rewind := Iter.rewind, seek := Iter.seek, next := Iter.next,
    valid := Iter.valid, key := Iter.key, value := Iter.value }

/-- `NewListHelper(db).List(prefix, key, count, direction)` on the map `m`. -/
def listPlain (m : Map) (pfx key : Bytes) (count dir : Nat) : Option (List Bytes) :=
  list iterOps (fun rev => Iter.mk' m pfx none rev) (m.length + 2) key count dir

/-- the entries of one page on a single database. -/
def listEntriesPlain (m : Map) (pfx key : Bytes) (count dir : Nat) : Option (List Entry) :=
  listEntries iterOps (fun rev => Iter.mk' m pfx none rev) (m.length + 2) key count dir

def countPlain (m : Map) (pfx : Bytes) : Option Nat :=
  prefixCount iterOps (m.length + 2) (Iter.mk' m pfx none true)

/-! ### mergedIterator -/

inductive MDir where
  | soi | eoi | forward | seek
  /-- not a Go state: the Go code would index out of range, or the model's fuel ran out
  (unreachable; the driver prints `fault`). -/
  | fault
  deriving Repr, DecidableEq

structure MIter where
  iters : List Iter
  reverse : Bool
  keys : List (Option Bytes)
  prevKey : Bytes
  index : Nat
  dir : MDir
  deriving Repr

/-- `NewMergedIterator`: with fewer than two iterators `reverse` defaults to `true`.
(All layers are opened with the same direction, so the mixed-direction panic cannot occur.) -/
def MIter.mk' (iters : List Iter) : MIter :=
  let reverse := match iters with
    | a :: _ :: _ => a.reverse
    | _ => true
  { iters := iters, reverse := reverse, keys := iters.map (fun _ => none),
    prevKey := List.replicate 128 0, index := 0, dir := .soi }

/-- `compare(a, b) < 0` for non-nil keys. -/
def mless (rev : Bool) (a b : Bytes) : Bool := if rev then blt b a else blt a b

/-- the scan of `selectKey`: first strictly smallest (in iteration order) non-nil key. -/
def selectFrom (rev : Bool) : List (Option Bytes) → Nat → Option (Bytes × Nat) → Option (Bytes × Nat)
  | [], _, best => best
  | none :: ks, i, best => selectFrom rev ks (i + 1) best
  | some k :: ks, i, best =>
    match best with
    | none => selectFrom rev ks (i + 1) (some (k, i))
    | some (bk, bi) =>
      if mless rev k bk then selectFrom rev ks (i + 1) (some (k, i))
      else selectFrom rev ks (i + 1) (some (bk, bi))

def MIter.selectKey (it : MIter) : MIter × Bool :=
  match selectFrom it.reverse it.keys 0 none with
  | none => ({ it with dir := .eoi }, false)
  | some (k, x) =>
    ({ it with index := x, prevKey := if it.dir = .soi then k else it.prevKey, dir := .forward }, true)

def MIter.valid (it : MIter) : Bool := it.dir = .forward || it.dir = .seek

def MIter.key (it : MIter) : Bytes :=
  if it.valid then
    match it.keys[it.index]? with
    | some (some k) => k
    | _ => []
  else []

def MIter.value (it : MIter) : Bytes :=
  if it.valid then
    match it.iters[it.index]? with
    | some sub => sub.value
    | none => []
  else []

def keyOf (r : Iter × Bool) : Option Bytes := if r.2 then some r.1.key else none

def MIter.rewind (it : MIter) : MIter × Bool :=
  if it.dir = .fault then (it, false) else
  let rs := it.iters.map Iter.rewind
  MIter.selectKey { it with iters := rs.map (·.1), keys := rs.map keyOf, dir := .soi }

def MIter.seek (it : MIter) (k : Bytes) : MIter × Bool :=
  if it.dir = .fault then (it, false) else
  let rs := it.iters.map (fun sub => sub.seek k)
  let (it', ok) := MIter.selectKey { it with iters := rs.map (·.1), keys := rs.map keyOf, dir := .soi }
  if ok then ({ it' with dir := .seek }, true) else ({ it' with dir := .soi }, false)

/-- `mergedIterator.next` (lower case): advance the selected layer only, reselect. -/
def MIter.next1 (it : MIter) : MIter × Bool :=
  if it.dir = .eoi || it.dir = .fault then (it, false) else
  match it.iters[it.index]? with
  | none => ({ it with dir := .fault }, false)
  | some sub =>
    let r := sub.next
    MIter.selectKey { it with iters := it.iters.set it.index r.1, keys := it.keys.set it.index (keyOf r) }

/-- `mergedIterator.Next`: from SOI it is `Rewind`; otherwise step until the key differs from
`prevKey` (skips the same key in lower-priority layers). -/
def MIter.nextLoop : Nat → MIter → MIter × Bool
  | 0, it => ({ it with dir := .fault }, false)
  | fuel + 1, it =>
    if it.dir = .soi then it.rewind
    else
      let (it', ok) := it.next1
      if !ok then (it', false)
      else if it'.key != it'.prevKey then ({ it' with prevKey := it'.key }, true)
      else MIter.nextLoop fuel it'

def MIter.size (it : MIter) : Nat := (it.iters.map (fun s => s.ents.length)).sum

def MIter.next (it : MIter) : MIter × Bool := MIter.nextLoop (it.size + 2) it

def mergedOps : ItOps MIter :=
  { rewind := MIter.rewind, seek := MIter.seek, next := MIter.next,
    valid := MIter.valid, key := MIter.key, value := MIter.value }

/-- `NewMergedIteratorDB(layers).Iterator(start, end, reverse)`; `layers[0]` has priority. -/
def mergedIter (layers : List Map) (start : Bytes) (end_ : Option Bytes) (rev : Bool) : MIter :=
  MIter.mk' (layers.map (fun m => Iter.mk' m start end_ rev))

def layersSize (layers : List Map) : Nat := (layers.map List.length).sum

/-- `NewListHelper(NewMergedIteratorDB(layers)).List(…)`. -/
def listMerged (layers : List Map) (pfx key : Bytes) (count dir : Nat) : Option (List Bytes) :=
  list mergedOps (fun rev => mergedIter layers pfx none rev) (layersSize layers + 2) key count dir

def listEntriesMerged (layers : List Map) (pfx key : Bytes) (count dir : Nat) : Option (List Entry) :=
  listEntries mergedOps (fun rev => mergedIter layers pfx none rev) (layersSize layers + 2) key count dir

def countMerged (layers : List Map) (pfx : Bytes) : Option Nat :=
  prefixCount mergedOps (layersSize layers + 2) (mergedIter layers pfx none true)

/-! ### the paging protocol -/

/-- a client listing a prefix page by page: the first request has an empty key, every further
request continues after the key of the last entry returned; stops at the first empty page.
`none`: ran out of `fuel` requests. -/
def pagedAll (page : Bytes → Option (List Entry)) : Nat → Bytes → Option (List Entry)
  | 0, _ => none
  | fuel + 1, key =>
    match page key with
    | none => none
    | some p =>
      match p.getLast? with
      | none => some []
      | some x => (pagedAll page fuel x.1).map (p ++ ·)

end C07
