import Chain33Model.Model.C07
/-
C08 — layered local database (common/db/localdb.go; blockchain/localdb.go only forwards queue
messages to it).  Executable model, core Lean only.

`LocalDB{txcache, cache, maindb, intx}`: `txcache`/`cache` are GoMemDBs (ordered maps),
`maindb` is the base database (never written through a LocalDB).  An empty value is the
tombstone ("deleted").  `List`/`PrefixCount` go through the merged iterator of C07 over
`[txcache (if non-nil), cache, maindb]`.
-/
namespace C08
open C06 C07

structure LocalDB where
  /-- `nil` after `Begin`/`Commit`/`Rollback` until the first `Set` inside a transaction;
  a fresh (empty) memdb right after `NewLocalDB`. -/
  txcache : Option Map
  cache : Map
  main : Map
  intx : Bool
  deriving Repr

/-- `NewLocalDB(maindb, false)`. -/
def LocalDB.new (main : Map) : LocalDB :=
  { txcache := some [], cache := [], main := main, intx := false }

/-- `(*LocalDB).get`: txcache (only inside a transaction), then cache, then maindb with
read-through fill of `cache`. -/
def LocalDB.rawGet (l : LocalDB) (k : Bytes) : LocalDB × Option Bytes :=
  let fromTx : Option Bytes :=
    if l.intx then
      match l.txcache with
      | some t => get t k
      | none => none
    else none
  match fromTx with
  | some v => (l, some v)
  | none =>
    match get l.cache k with
    | some v => (l, some v)
    | none =>
      match get l.main k with
      | none => (l, none)
      | some v => ({ l with cache := insert l.cache k v }, some v)

/-- `(*LocalDB).Get`: an empty value means deleted (`ErrNotFound`). -/
def LocalDB.get (l : LocalDB) (k : Bytes) : LocalDB × Option Bytes :=
  let (l', r) := l.rawGet k
  match r with
  | some v => if isDeleted v then (l', none) else (l', some v)
  | none => (l', none)

/-- `(*LocalDB).Set`. -/
def LocalDB.set (l : LocalDB) (k v : Bytes) : LocalDB :=
  if l.intx then
    let t := match l.txcache with
      | some t => t
      | none => []
    { l with txcache := some (insert t k v) }
  else { l with cache := insert l.cache k v }

/-- `Begin`: an already open transaction is dropped. -/
def LocalDB.begin (l : LocalDB) : LocalDB := { l with intx := true, txcache := none }

/-- `resetTx`. -/
def LocalDB.resetTx (l : LocalDB) : LocalDB := { l with intx := false, txcache := none }

def LocalDB.rollback (l : LocalDB) : LocalDB := l.resetTx

/-- `Commit`: copy every txcache entry (tombstones included), ascending, into `cache`. -/
def LocalDB.commit (l : LocalDB) : LocalDB :=
  match l.txcache with
  | none => l.resetTx
  | some t => { l with cache := t.foldl (fun (c : Map) (e : Entry) => insert c e.1 e.2) l.cache }.resetTx

/-- the layers `List`/`PrefixCount` merge, highest priority first. -/
def LocalDB.layers (l : LocalDB) : List Map :=
  (match l.txcache with
   | some t => [t]
   | none => []) ++ [l.cache, l.main]

def LocalDB.list (l : LocalDB) (pfx key : Bytes) (count dir : Nat) : Option (List Bytes) :=
  listMerged l.layers pfx key count dir

def LocalDB.prefixCount (l : LocalDB) (pfx : Bytes) : Option Nat :=
  countMerged l.layers pfx

end C08
