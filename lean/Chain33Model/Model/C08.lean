import Chain33Model.Model.C07
/-
C08 — layered local database (common/db/localdb.go; blockchain/localdb.go only forwards queue
messages to it).  Executable model, core Lean only.

`LocalDB{txcache, cache, maindb, intx}`: `txcache`/`cache` are GoMemDBs (ordered maps),
`maindb` is the base database (never written through a LocalDB).  An empty value is the
tombstone ("deleted").  `List`/`PrefixCount` go through the merged iterator of C07 over
`[txcache (if non-nil), cache, maindb]`.
-/
namespace C08
open C06 C07

structure LocalDB where
  /-- `nil` after `Begin`/`Commit`/`Rollback` until the first `Set` inside a transaction;
  a fresh (empty) memdb right after `NewLocalDB`. -/
  txcache : Option Map
  cache : Map
  main : Map
  intx : Bool
  deriving Repr

/-- `NewLocalDB(maindb, false)`. -/
def LocalDB.new (main : Map) : LocalDB :=
  { txcache := some [], cache := [], main := main, intx := false }

/-- the `txcache` part of `(*LocalDB).get`: consulted only inside a transaction. -/
def LocalDB.txGet (l : LocalDB) (k : Bytes) : Option Bytes :=
  if l.intx then
    match l.txcache with
    | some t => get t k
    | none => none
  else none

/-- `(*LocalDB).get`: txcache (only inside a transaction), then cache, then maindb with
read-through fill of `cache`. -/
def LocalDB.rawGet (l : LocalDB) (k : Bytes) : LocalDB × Option Bytes :=
  match l.txGet k with
  | some v => (l, some v)
  | none =>
    match get l.cache k with
    | some v => (l, some v)
    | none =>
      match get l.main k with
      | none => (l, none)
      | some v => ({ l with cache := insert l.cache k v }, some v)

/-- `(*LocalDB).Get`: an empty value means deleted (`ErrNotFound`). -/
def LocalDB.get (l : LocalDB) (k : Bytes) : LocalDB × Option Bytes :=
  let (l', r) := l.rawGet k
  match r with
  | some v => if isDeleted v then (l', none) else (l', some v)
  | none => (l', none)

/-- `(*LocalDB).Set`. -/
def LocalDB.set (l : LocalDB) (k v : Bytes) : LocalDB :=
  if l.intx then
    let t := match l.txcache with
      | some t => t
      | none => []
    { l with txcache := some (insert t k v) }
  else { l with cache := insert l.cache k v }

/-- `Begin`: an already open transaction is dropped. -/
def LocalDB.begin (l : LocalDB) : LocalDB := { l with intx := true, txcache := none }

/-- `resetTx`. -/
def LocalDB.resetTx (l : LocalDB) : LocalDB := { l with intx := false, txcache := none }

def LocalDB.rollback (l : LocalDB) : LocalDB := l.resetTx

/-- `Commit`: copy every txcache entry (tombstones included), ascending, into `cache`. -/
def LocalDB.commit (l : LocalDB) : LocalDB :=
  match l.txcache with
  | none => l.resetTx
  | some t => { l with cache := t.foldl (fun (c : Map) (e : Entry) => insert c e.1 e.2) l.cache }.resetTx

/-- the layers `List`/`PrefixCount` merge, highest priority first. -/
def LocalDB.layers (l : LocalDB) : List Map :=
  (match l.txcache with
   | some t => [t]
   | none => []) ++ [l.cache, l.main]

def LocalDB.list (l : LocalDB) (pfx key : Bytes) (count dir : Nat) : Option (List Bytes) :=
  listMerged l.layers pfx key count dir

def LocalDB.prefixCount (l : LocalDB) (pfx : Bytes) : Option Nat :=
  countMerged l.layers pfx

/-! ### operations -/

inductive Op where
  | begin | commit | rollback
  | set (k v : Bytes)
  | get (k : Bytes)
  | list (pfx key : Bytes) (count dir : Nat)
  | count (pfx : Bytes)
  deriving Repr

inductive Out where
  | ok
  | val (v : Option Bytes)
  | items (xs : Option (List Bytes))
  | num (n : Option Nat)
  /-- the Go code panics (`Set` on a read-only LocalDB). -/
  | panic
  deriving Repr, DecidableEq

def LocalDB.step (l : LocalDB) : Op → LocalDB × Out
  | .begin => (l.begin, .ok)
  | .commit => (l.commit, .ok)
  | .rollback => (l.rollback, .ok)
  | .set k v => (l.set k v, .ok)
  | .get k => ((l.get k).1, .val (l.get k).2)
  | .list p k c d => (l, .items (l.list p k c d))
  | .count p => (l, .num (l.prefixCount p))

def LocalDB.run (l : LocalDB) : List Op → LocalDB × List Out
  | [] => (l, [])
  | op :: ops =>
    let r := l.step op
    let rs := LocalDB.run r.1 ops
    (rs.1, r.2 :: rs.2)

/-! ### read-only mode (`NewLocalDB(maindb, true)`: `cache == nil`, `txcache == nil`)

Used for transaction checks: no memdb layers; `get` goes straight to `maindb` (no read-through
fill), `List`/`PrefixCount` merge the single layer `[maindb]`, `Set` panics
("set local db in read only mode"); `Begin`/`Commit`/`Rollback` only toggle `intx`. -/

structure RoLocalDB where
  main : Map
  intx : Bool
  deriving Repr

def RoLocalDB.new (main : Map) : RoLocalDB := { main := main, intx := false }

def RoLocalDB.get (l : RoLocalDB) (k : Bytes) : Option Bytes :=
  match C06.get l.main k with
  | some v => if isDeleted v then none else some v
  | none => none

def RoLocalDB.step (l : RoLocalDB) : Op → RoLocalDB × Out
  | .begin => ({ l with intx := true }, .ok)
  | .commit => ({ l with intx := false }, .ok)
  | .rollback => ({ l with intx := false }, .ok)
  | .set _ _ => (l, .panic)
  | .get k => (l, .val (l.get k))
  | .list p k c d => (l, .items (listMerged [l.main] p k c d))
  | .count p => (l, .num (countMerged [l.main] p))

/-! ### specification: a key/value map with an optional open transaction -/

structure Spec where
  /-- the base database (never written). -/
  base : Map
  /-- committed writes (an empty value hides the key). -/
  overlay : Map
  /-- writes of the open transaction, if any. -/
  tx : Option Map
  deriving Repr

def Spec.new (base : Map) : Spec := { base := base, overlay := [], tx := none }

/-- layers visible to a read, newest first. -/
def Spec.view (s : Spec) : List Map :=
  (match s.tx with
   | some t => [t]
   | none => []) ++ [s.overlay, s.base]

/-- newest write visible from the open transaction, then the overlay, then the base. -/
def Spec.rawGet (s : Spec) (k : Bytes) : Option Bytes := s.view.findSome? (fun m => C06.get m k)

/-- a read: an empty value means "deleted". -/
def Spec.get (s : Spec) (k : Bytes) : Option Bytes :=
  match s.rawGet k with
  | some v => if isDeleted v then none else some v
  | none => none

def Spec.set (s : Spec) (k v : Bytes) : Spec :=
  match s.tx with
  | some t => { s with tx := some (insert t k v) }
  | none => { s with overlay := insert s.overlay k v }

/-- `Begin` (inside an open transaction: its writes are discarded — the code's behaviour). -/
def Spec.begin (s : Spec) : Spec := { s with tx := some [] }

def Spec.rollback (s : Spec) : Spec := { s with tx := none }

def Spec.commit (s : Spec) : Spec :=
  match s.tx with
  | none => s
  | some t => { s with overlay := t.foldl (fun (c : Map) (e : Entry) => insert c e.1 e.2) s.overlay, tx := none }

def Spec.step (s : Spec) : Op → Spec
  | .begin => s.begin
  | .commit => s.commit
  | .rollback => s.rollback
  | .set k v => s.set k v
  | .get _ => s
  | .list _ _ _ _ => s
  | .count _ => s

def Spec.run (s : Spec) (ops : List Op) : Spec := ops.foldl Spec.step s

/-- operations that neither open nor close a transaction. -/
def Op.isData : Op → Bool
  | .begin | .commit | .rollback => false
  | _ => true

end C08
