/-
C09 — versioned (MVCC) reads: common/db/mvcc.go (GetKey / GetKeyPerfix / GetV / AddMVCC / DelMVCC /
Trash / cutVersion / getVersion / pad), common/db/list_helper.go (List with ListSeek =
nextKeyValue), the goleveldb / memdb iterator wrapper (range [start, bytesPrefix start), reverse
Seek), executor/statedb.go (Get with MVCC enabled).

Executable model, core Lean only.  A byte is a `Nat` (< 256 on the wire); a byte string is a
`List Nat` ordered lexicographically (= Go `bytes.Compare`).  The key/value store is a strictly
ascending association list.  The meta records of mvcc.go (".-mvcc-.m.<hash>",
".-mvcc-.m.version.<pad v>", ".-mvcc-.m.versionkl.<pad v>") are kept as three small maps: their
key prefixes are disjoint from the data prefix ".-mvcc-.d." and from each other for the 32-byte
hashes the harness uses (recorded assumption), and no read of the property goes through them.
The data region is modelled byte for byte, because that is where the property can fail.
-/
namespace C09

abbrev Bytes := List Nat

/-! ### lexicographic order on byte strings -/

/-- `bytes.Compare a b <= 0`. -/
def ble : Bytes → Bytes → Bool
  | [], _ => true
  | _ :: _, [] => false
  | a :: as, b :: bs => if a < b then true else if b < a then false else ble as bs

/-- `bytes.Compare a b < 0`. -/
def blt (a b : Bytes) : Bool := !ble b a

/-! ### ordered key/value store (values of any type; C10 reuses it) -/

abbrev Store (β : Type) := List (Bytes × β)

abbrev DB := Store Bytes

/-- keys strictly ascending. -/
def Sorted {β : Type} (db : Store β) : Prop := db.Pairwise (fun a b => blt a.1 b.1 = true)

def put {β : Type} : Store β → Bytes → β → Store β
  | [], k, v => [(k, v)]
  | (k', v') :: r, k, v =>
    if blt k k' then (k, v) :: (k', v') :: r
    else if k = k' then (k, v) :: r
    else (k', v') :: put r k v

def erase {β : Type} (db : Store β) (k : Bytes) : Store β := db.filter (fun e => e.1 != k)

def get {β : Type} (db : Store β) (k : Bytes) : Option β := (db.find? (fun e => e.1 == k)).map (·.2)

/-! ### key encoding (mvcc.go) -/

def dot : Nat := 46

/-- ".-mvcc-.d." -/
def dataPrefix : Bytes := [46, 45, 109, 118, 99, 99, 45, 46, 100, 46]

/-- `n` decimal digits of `v`, most significant first (digits beyond `n` are dropped; Go's `pad`
would panic there, which cannot happen for an int64 and `n = 20`). -/
def padN : Nat → Nat → Bytes
  | 0, _ => []
  | n + 1, v => (48 + v / 10 ^ n % 10) :: padN n (v % 10 ^ n)

/-- `pad(version)` for `0 ≤ version`. -/
def pad20 (v : Nat) : Bytes := padN 20 v

/-- `GetKeyPerfix`. -/
def keyPrefix (k : Bytes) : Bytes := dataPrefix ++ k ++ [dot]

/-- `GetKey`. -/
def getKey (k : Bytes) (v : Nat) : Bytes := dataPrefix ++ k ++ [dot] ++ pad20 v

/-- `bytesPrefix`: the exclusive upper bound of the keys having prefix `p`
(`none` = no bound, when `p` is empty or all 0xff). -/
def prefixUpper (p : Bytes) : Option Bytes :=
  match p.reverse.dropWhile (fun c => decide (255 ≤ c)) with
  | [] => none
  | c :: rest => some (((c + 1) :: rest).reverse)

/-- keys an iterator `Iterator(start, nil, _)` can see: `[start, bytesPrefix start)`
(goleveldb `util.Range`; `itBase.checkKey` — start ≤ key ≤ limit — is implied). -/
def inRange (start : Bytes) (key : Bytes) : Bool :=
  ble start key && (match prefixUpper start with | none => true | some hi => blt key hi)

/-! ### getVersion / cutVersion -/

/-- split at the last '.': (text before the dot, text after the dot). -/
def splitLastDot (key : Bytes) : Option (Bytes × Bytes) :=
  let r := key.reverse
  let suf := r.takeWhile (fun c => c != dot)
  if suf.length = r.length then none
  else some ((r.drop (suf.length + 1)).reverse, suf.reverse)

def digitsVal : Bytes → Nat → Option Nat
  | [], acc => some acc
  | c :: cs, acc => if 48 ≤ c ∧ c ≤ 57 then digitsVal cs (acc * 10 + (c - 48)) else none

/-- `strconv.ParseInt(s, 10, 64)`: optional sign, at least one digit, int64 range. -/
def parseInt64 (s : Bytes) : Option Int :=
  match s with
  | [] => none
  | c :: cs =>
    if c = 45 then
      (if cs.isEmpty then none else
        match digitsVal cs 0 with
        | some n => if n ≤ 2 ^ 63 then some (-(Int.ofNat n)) else none
        | none => none)
    else
      let ds := if c = 43 then cs else c :: cs
      if ds.isEmpty then none else
        match digitsVal ds 0 with
        | some n => if n < 2 ^ 63 then some (Int.ofNat n) else none
        | none => none

/-- `getVersion`: number after the last '.'. -/
def getVersion (key : Bytes) : Option Int :=
  match splitLastDot key with
  | none => none
  | some (_, s) => parseInt64 s

/-- `cutVersion`: `make([]byte, i); copy(d, key[0:i+1])` — the text before the last '.',
*without* the dot. -/
def cutVersion (key : Bytes) : Option Bytes := (splitLastDot key).map (·.1)

/-! ### reads -/

inductive Res where
  | val (b : Bytes)
  | notfound
  | version
  | prevversion
  | onlytop
  | parseErr
  | ok
  deriving DecidableEq, Repr

/-- `kvdb.List(prefix, search, 1, ListSeek)` = `ListHelper.nextKeyValue`: reverse iterator over
`[prefix, bytesPrefix prefix)`, `Seek(search)` = greatest key ≤ search, then step down over
entries with an empty value (`isdeleted`). -/
def seekRev (db : DB) (pfx search : Bytes) : Option (Bytes × Bytes) :=
  (db.filter (fun e => inRange pfx e.1 && ble e.1 search && !e.2.isEmpty)).getLast?

/-- `SimpleMVCC.GetV`. -/
def getV (db : DB) (k : Bytes) (v : Nat) : Res :=
  match seekRev db (keyPrefix k) (getKey k v) with
  | none => .notfound
  | some (key, val) =>
    match getVersion key with
    | none => .parseErr
    | some ver => if ver > Int.ofNat v then .version else .val val

/-! ### writes: AddMVCC / DelMVCC data part -/

/-- data records of `AddMVCC(kvs, _, _, ver)` written in order (a repeated key: last wins). -/
def applyAdd (db : DB) (ver : Nat) (kvs : List (Bytes × Bytes)) : DB :=
  kvs.foldl (fun d kv => put d (getKey kv.1 ver) kv.2) db

/-- data records deleted by `DelMVCC(_, ver, _)` for the stored key list. -/
def applyDel (db : DB) (ver : Nat) (keys : List Bytes) : DB :=
  keys.foldl (fun d k => erase d (getKey k ver)) db

/-- "last" records written by `MVCCIter.AddMVCC`. -/
def lastAdd (last : DB) (kvs : List (Bytes × Bytes)) : DB := kvs.foldl (fun d kv => put d kv.1 kv.2) last

/-! ### Trash -/

/-- "--.xxx.--" -/
def sentinel : Bytes := [45, 45, 46, 120, 120, 120, 46, 45, 45]

/-- `cutVersion(key)` as `bytes.Equal` sees it (nil compares like the empty string). -/
def cutOf (key : Bytes) : Bytes := match cutVersion key with | some c => c | none => []

/-- one step of the loop of `MVCCHelper.Trash` over the reverse iterator: state = (current
prefix, keys to delete).  A record continues the current key iff `cutVersion(key)` EQUALS the
remembered prefix (repo commit 3f54487; before it the test was `bytes.HasPrefix(key, prefix)`). -/
def trashStep (cut : Nat) (st : Bytes × List Bytes) (e : Bytes × Bytes) : Bytes × List Bytes :=
  let (pfx, dels) := st
  if cutOf e.1 != pfx then
    (match cutVersion e.1 with | some p => p | none => sentinel, dels)
  else
    match getVersion e.1 with
    | none => (pfx, dels)
    | some v => if v ≤ Int.ofNat cut then (pfx, e.1 :: dels) else (pfx, dels)

/-- keys `Trash(cut)` deletes (iteration over a snapshot of the data region, newest key first). -/
def trashDels (db : DB) (cut : Nat) : List Bytes :=
  (db.reverse.foldl (trashStep cut) (sentinel, [])).2

def trash (db : DB) (cut : Nat) : DB :=
  db.filter (fun e => !(trashDels db cut).contains e.1)

/-- the loop as it was before commit 3f54487 (`HasPrefix`), kept as a regression witness. -/
def trashStepOld (cut : Nat) (st : Bytes × List Bytes) (e : Bytes × Bytes) : Bytes × List Bytes :=
  let (pfx, dels) := st
  if !(pfx.isPrefixOf e.1) then
    (match cutVersion e.1 with | some p => p | none => sentinel, dels)
  else
    match getVersion e.1 with
    | none => (pfx, dels)
    | some v => if v ≤ Int.ofNat cut then (pfx, e.1 :: dels) else (pfx, dels)

def trashOld (db : DB) (cut : Nat) : DB :=
  db.filter (fun e => !((db.reverse.foldl (trashStepOld cut) (sentinel, [])).2).contains e.1)

/-! ### whole helper: meta records + data -/

structure State where
  data : DB := []
  verOf : List (Bytes × Nat) := []          -- m.<hash>            -> version
  hashAt : List (Nat × Bytes) := []         -- m.version.<pad v>   -> hash
  keyList : List (Nat × List Bytes) := []   -- m.versionkl.<pad v> -> keys of that version
  last : DB := []                            -- ".-mvcc-.l.<key>" -> latest value (MVCCIter only)

def assocSet {α β} [BEq α] (l : List (α × β)) (a : α) (b : β) : List (α × β) :=
  (a, b) :: l.filter (fun e => !(e.1 == a))

def assocDel {α β} [BEq α] (l : List (α × β)) (a : α) : List (α × β) :=
  l.filter (fun e => !(e.1 == a))

def assocGet {α β} [BEq α] (l : List (α × β)) (a : α) : Option β :=
  (l.find? (fun e => e.1 == a)).map (·.2)

/-- `GetMaxVersion`: last "m.version." record (pad order = numeric order), then `GetVersion`
of the hash stored there. -/
def maxVersion (s : State) : Option Nat :=
  match s.hashAt.foldl (fun (best : Option (Nat × Bytes)) e =>
      match best with
      | none => some e
      | some b => if b.1 < e.1 then some e else some b) none with
  | none => none
  | some (_, h) => assocGet s.verOf h

/-- `MVCCHelper.SetVersion(hash, ver)`: the two hash<->version records of `SetVersionKV`. -/
def setVersion (s : State) (ver : Nat) (hash : Bytes) : State :=
  { s with verOf := assocSet s.verOf hash ver, hashAt := assocSet s.hashAt ver hash }

/-- `AddMVCC` followed by writing the returned list. -/
def add (s : State) (ver : Nat) (hash : Bytes) (prev : Option Bytes) (kvs : List (Bytes × Bytes)) :
    State × Res :=
  let doAdd : State × Res :=
    ({ s with
       data := applyAdd s.data ver kvs
       verOf := assocSet s.verOf hash ver
       hashAt := assocSet s.hashAt ver hash
       keyList := assocSet s.keyList ver (kvs.map (·.1)) }, .ok)
  if ver > 0 then
    match prev with
    | none => (s, .prevversion)
    | some p =>
      match assocGet s.hashAt (ver - 1) with
      | none => (s, .notfound)
      | some h => if h = p then doAdd else (s, .prevversion)
  else doAdd

/-- `DelMVCC(hash, ver, strict = true)` followed by deleting the returned keys
(the key-list record itself is not in the returned list and stays). -/
def del (s : State) (ver : Nat) (hash : Bytes) : State × Res :=
  match assocGet s.keyList ver with
  | none => (s, .notfound)
  | some keys =>
    match maxVersion s with
    | none => (s, .notfound)
    | some maxv =>
      if maxv ≠ ver then (s, .onlytop) else
      match assocGet s.verOf hash with
      | none => (s, .notfound)
      | some vdb =>
        if vdb ≠ ver then (s, .version) else
        ({ s with data := applyDel s.data ver keys
                  verOf := assocDel s.verOf hash
                  hashAt := assocDel s.hashAt ver }, .ok)

/-- `MVCCIter.AddMVCC` followed by writing the returned list: the helper's list, then one "last"
record per kv. -/
def iterAdd (s : State) (ver : Nat) (hash : Bytes) (prev : Option Bytes) (kvs : List (Bytes × Bytes)) :
    State × Res :=
  match add s ver hash prev kvs with
  | (s', .ok) => ({ s' with last := lastAdd s'.last kvs }, .ok)
  | (s', r) => (s', r)

deriving instance DecidableEq for Except

/-- the "last" updates of `MVCCIter.DelMVCC`: for every key of the removed version (only when
`version > 0`) `GetV(key, version-1)` — not found ⇒ delete the last record, a value ⇒ restore it,
any other error ⇒ the whole call fails.  `none` = failure with that result. -/
def iterDelLast (data : DB) (ver : Nat) : List Bytes → DB → Except Res DB
  | [], last => .ok last
  | k :: rest, last =>
    if ver = 0 then iterDelLast data ver rest last else
    match getV data k (ver - 1) with
    | .notfound => iterDelLast data ver rest (erase last k)
    | .val v => iterDelLast data ver rest (put last k v)
    | r => .error r

/-- `MVCCIter.DelMVCC(hash, ver, strict = true)` followed by writing the returned list. -/
def iterDel (s : State) (ver : Nat) (hash : Bytes) : State × Res :=
  match assocGet s.keyList ver with
  | none => (s, .notfound)
  | some keys =>
    match del s ver hash with
    | (s', .ok) =>
      (match iterDelLast s.data ver keys s.last with
       | .ok last' => ({ s' with last := last' }, .ok)
       | .error r => (s, r))
    | (_, r) => (s, r)

/-- `StateDB.Get` with MVCC enabled for state hash `hash` (client = nil, height 0): the version
is looked up by `GetVersion(hash)`; unknown hash ⇒ version stays −1 ⇒ not found. -/
def stateGet (s : State) (hash k : Bytes) : Res :=
  match assocGet s.verOf hash with
  | none => .notfound
  | some v => getV s.data k v

/-! ### specification side (statements of Props/C09.lean are written with these) -/

/-- the record of `k` with the greatest version `≤ v`: "the most recent write to k at a version
not above v" read off the records `getKey k i` of the store. -/
def specRead (db : DB) (k : Bytes) : Nat → Option Bytes
  | 0 => get db (getKey k 0)
  | v + 1 =>
    match get db (getKey k (v + 1)) with
    | some x => some x
    | none => specRead db k v

/-- what a read must answer: that value, or not-found (also when that write stored the empty value). -/
def specResult (db : DB) (k : Bytes) (v : Nat) : Res :=
  match specRead db k v with
  | some val => if val.isEmpty then .notfound else .val val
  | none => .notfound

/-- the data region holds only version records of keys in `K` (versions are int64). -/
def WF (K : List Bytes) (db : DB) : Prop :=
  Sorted db ∧ ∀ e ∈ db, ∃ k ∈ K, ∃ i, i < 2 ^ 63 ∧ e.1 = getKey k i

def NoEmpty (db : DB) : Prop := ∀ e ∈ db, e.2 ≠ []

/-- no key followed by '.' is a prefix of another key. -/
def SepFree (K : List Bytes) : Prop := ∀ k ∈ K, ∀ k' ∈ K, ¬ (k ++ [dot]) <+: k'

/-- no key is a proper prefix of another key. -/
def PrefixFree (K : List Bytes) : Prop := ∀ k ∈ K, ∀ k' ∈ K, k' <+: k → k' = k

/-- the data region after versions `n, n+1, …` (the lists of kvs) were added in order on top of `db`. -/
def dataFrom (db : DB) (n : Nat) : List (List (Bytes × Bytes)) → DB
  | [] => db
  | kvs :: rest => dataFrom (applyAdd db n kvs) (n + 1) rest

/-- the data region of the version chain `vs` (version `i` wrote `vs[i]`). -/
def dataOf (vs : List (List (Bytes × Bytes))) : DB := dataFrom [] 0 vs

/-- no record of version `n` yet. -/
def Fresh (n : Nat) (db : DB) : Prop := ∀ e ∈ db, ∀ k, e.1 ≠ getKey k n

/-- every record has a version below `n` (versions are added in order: `n` = top + 1). -/
def Below (n : Nat) (db : DB) : Prop := ∀ e ∈ db, ∃ k i, i < n ∧ e.1 = getKey k i

/-- the "last" records agree with the data region whose versions are all below `n`: for every key,
the last record is the value of the key's newest version (none if it has no version). -/
def LastOK (last db : DB) (n : Nat) : Prop := ∀ k, get last k = specRead db k n

instance {β : Type} (db : Store β) : Decidable (Sorted db) := by unfold Sorted; infer_instance
instance (db : DB) : Decidable (NoEmpty db) := by unfold NoEmpty; infer_instance
instance (K : List Bytes) : Decidable (SepFree K) := by unfold SepFree; infer_instance
instance (K : List Bytes) : Decidable (PrefixFree K) := by unfold PrefixFree; infer_instance

end C09
