import Chain33Model.Model.C09
/-
C10 — indexed tables: common/db/table/table.go (Add / Replace / Update / Del / findRow /
addRowCache / delRowCache / Save / saveRow / addRow / delRow / updateRow / getModify /
GetData), util.DelDupKey, common/db/table/query.go (ListIndex / listPrimary) over
common/db/list_helper.go (List / IteratorScan / iteratorScan).

Executable model, core Lean only.  Byte strings, their order and the ordered store come from
Model/C09.lean.  A row is (primary key, two indexed fields f1 f2, payload); the table is
`Option{Prefix "LODB", Name "t", Primary "pk", Index ["f1","f2"]}` as in the harness.
`table.rows` holds pointers and `table.rowmap` maps a primary key to one of those pointers; the
model keeps `rows` as a list and `rowmap` as primary key ↦ position in `rows`, so that the in-place
mutations of the Go code (`row.Data = data`, `row.Ty = None`) become updates of that position.
A stored value is either an encoded row (`Row.Encode` / `DecodeRow` / proto round trip assumed to
be the identity, which the tie checks by reading rows back) or a primary key (index record).
-/
namespace C10
open C09 (Bytes ble blt Store put erase get inRange)

structure Row where
  pk : Bytes
  f1 : Bytes
  f2 : Bytes
  pay : Bytes
  deriving DecidableEq, Repr

/-- `Row.Ty`. -/
inductive Ty where
  | none | add | update | del
  deriving DecidableEq, Repr

/-- a `*table.Row` in the cache. -/
structure CRow where
  ty : Ty
  primary : Bytes
  data : Row
  old : Option Row
  deriving DecidableEq, Repr

/-- what a db value decodes to. -/
inductive Val where
  | row (primary : Bytes) (data : Row)   -- data record: `Row.Encode()`
  | pk (p : Bytes)                       -- index record: the primary key
  deriving DecidableEq, Repr

abbrev TDB := Store Val

structure Table where
  rows : List CRow := []
  rowmap : List (Bytes × Nat) := []
  db : TDB := []

inductive Res where
  | ok | dup | notfound | invalid | decode | saveErr | panic
  deriving DecidableEq, Repr

/-! ### keys -/

def sep : Nat := 45
/-- "LODB-t-d-" -/
def dataPrefix : Bytes := [76, 79, 68, 66, 45, 116, 45, 100, 45]
/-- "LODB-t-m-" -/
def metaPrefix : Bytes := [76, 79, 68, 66, 45, 116, 45, 109, 45]
/-- "LODB-t-" -/
def tablePrefix : Bytes := [76, 79, 68, 66, 45, 116, 45]

/-- index names "f1", "f2". -/
def nameF1 : Bytes := [102, 49]
def nameF2 : Bytes := [102, 50]

/-- the indexes of the table with their accessor, in `opt.Index` order. -/
def indexes : List (Bytes × (Row → Bytes)) := [(nameF1, Row.f1), (nameF2, Row.f2)]

def dataKey (pk : Bytes) : Bytes := dataPrefix ++ pk
def indexPrefix (name : Bytes) : Bytes := metaPrefix ++ name ++ [sep]
def indexKey (name val pk : Bytes) : Bytes := indexPrefix name ++ val ++ [sep] ++ pk

/-! ### cache -/

def assocSet (l : List (Bytes × Nat)) (a : Bytes) (b : Nat) : List (Bytes × Nat) :=
  (a, b) :: l.filter (fun e => e.1 != a)

def assocDel (l : List (Bytes × Nat)) (a : Bytes) : List (Bytes × Nat) :=
  l.filter (fun e => e.1 != a)

def assocGet (l : List (Bytes × Nat)) (a : Bytes) : Option Nat :=
  (l.find? (fun e => e.1 == a)).map (·.2)

/-- `GetData` / `getRow`. -/
inductive Stored where
  | row (primary : Bytes) (data : Row)
  | missing
  | undecodable

def getData (db : TDB) (pk : Bytes) : Stored :=
  match get db (dataKey pk) with
  | none => .missing
  | some (.row p d) => .row p d
  | some (.pk _) => .undecodable

/-- `findRow`: cache first, then the db. -/
inductive Found where
  | cached (i : Nat) (r : CRow)
  | stored (primary : Bytes) (data : Row)
  | missing
  | undecodable
  | dangling           -- rowmap points outside rows: cannot happen, kept explicit

def findRow (t : Table) (pk : Bytes) : Found :=
  match assocGet t.rowmap pk with
  | some i =>
    match t.rows[i]? with
    | some r => .cached i r
    | none => .dangling
  | none =>
    match getData t.db pk with
    | .row p d => .stored p d
    | .missing => .missing
    | .undecodable => .undecodable

/-- `addRowCache`. -/
def addRowCache (t : Table) (r : CRow) : Table :=
  let rowmap :=
    match r.ty with
    | .del => assocDel t.rowmap r.primary
    | .add | .update => assocSet t.rowmap r.primary t.rows.length
    | .none => t.rowmap
  { t with rows := t.rows ++ [r], rowmap := rowmap }

/-- in-place `row.Data = data` of the cached row at position `i`. -/
def setData (t : Table) (i : Nat) (r : CRow) (d : Row) : Table :=
  { t with rows := t.rows.set i { r with data := d } }

/-! ### operations -/

/-- `Table.Add`. -/
def add (t : Table) (d : Row) : Table × Res :=
  match findRow t d.pk with
  | .missing => (addRowCache t ⟨.add, d.pk, d, none⟩, .ok)
  | .dangling => (t, .panic)
  | _ => (t, .dup)

/-- `Table.Replace`. -/
def replace (t : Table) (d : Row) : Table × Res :=
  match findRow t d.pk with
  | .missing => (addRowCache t ⟨.add, d.pk, d, none⟩, .ok)
  | .cached i r => (setData t i r d, .ok)
  | .stored _ old => (addRowCache t ⟨.update, d.pk, d, some old⟩, .ok)
  | .undecodable => (t, .panic)     -- row is nil and `row.Data` is dereferenced
  | .dangling => (t, .panic)

/-- `Table.Update(primaryKey, newdata)`. -/
def update (t : Table) (pk : Bytes) (d : Row) : Table × Res :=
  if d.pk ≠ pk then (t, .invalid) else
  match findRow t pk with
  | .missing => (t, .notfound)
  | .undecodable => (t, .decode)
  | .dangling => (t, .panic)
  | .cached i r => (setData t i r d, .ok)
  | .stored _ old => (addRowCache t ⟨.update, pk, d, some old⟩, .ok)

/-- `Table.Del`. -/
def del (t : Table) (pk : Bytes) : Table × Res :=
  match findRow t pk with
  | .missing => (t, .notfound)
  | .undecodable => (t, .decode)
  | .dangling => (t, .panic)
  | .cached i r =>
    -- delRowCache: row.Ty = None, delete(rowmap, primary)
    let t1 : Table := { t with rows := t.rows.set i { r with ty := .none }, rowmap := assocDel t.rowmap pk }
    if r.ty = .add then (t1, .ok)
    else
      -- the Del record carries the row as the db holds it (repo commit 24b2bb6)
      (addRowCache t1 { r with ty := .del, data := match r.old with | some o => o | none => r.data }, .ok)
  | .stored p d => (addRowCache t ⟨.del, p, d, none⟩, .ok)

/-- `Table.Del` as it was before commit 24b2bb6 (the Del record of a cached Update row carried the
NEW data), kept as a regression witness. -/
def delOld (t : Table) (pk : Bytes) : Table × Res :=
  match findRow t pk with
  | .missing => (t, .notfound)
  | .undecodable => (t, .decode)
  | .dangling => (t, .panic)
  | .cached i r =>
    let t1 : Table := { t with rows := t.rows.set i { r with ty := .none }, rowmap := assocDel t.rowmap pk }
    if r.ty = .add then (t1, .ok)
    else (addRowCache t1 { r with ty := .del }, .ok)
  | .stored p d => (addRowCache t ⟨.del, p, d, none⟩, .ok)

/-! ### Save -/

abbrev KV := Bytes × Option Val     -- `none` = nil value = delete

def delRow (r : CRow) : List KV :=
  (dataKey r.primary, none) :: indexes.map (fun ix => (indexKey ix.1 (ix.2 r.data) r.primary, none))

def addRow (r : CRow) : List KV :=
  (dataKey r.primary, some (.row r.primary r.data)) ::
    indexes.map (fun ix => (indexKey ix.1 (ix.2 r.data) r.primary, some (.pk r.primary)))

/-- `updateRow` / `getModify`; `none` = error (`ErrNilValue`: update row without old data). -/
def updateRow (r : CRow) : Option (List KV) :=
  match r.old with
  | none => none
  | some old =>
    if r.data = old then some [] else
    some ((dataKey r.primary, some (.row r.primary r.data)) ::
      (indexes.filter (fun ix => ix.2 r.data != ix.2 old)).flatMap (fun ix =>
        [(indexKey ix.1 (ix.2 old) r.primary, none),
         (indexKey ix.1 (ix.2 r.data) r.primary, some (.pk r.primary))]))

def saveRow (r : CRow) : Option (List KV) :=
  match r.ty with
  | .del => some (delRow r)
  | .add => some (addRow r)
  | .update => updateRow r
  | .none => some []

/-- `util.DelDupKey`: one entry per key, at the position of its first occurrence, with the value
of its last occurrence. -/
def delDupKey (kvs : List KV) : List KV :=
  kvs.foldl (fun acc kv =>
    if acc.any (fun e => e.1 == kv.1) then acc.map (fun e => if e.1 == kv.1 then kv else e)
    else acc ++ [kv]) []

/-- kv list returned by `Table.Save` (`none` = Save returned an error). -/
def saveKVs (t : Table) : Option (List KV) :=
  (t.rows.mapM saveRow).map (fun l => delDupKey l.flatten)

/-- `util.SaveKVList`: nil value = delete. -/
def applyKVs (db : TDB) (kvs : List KV) : TDB :=
  kvs.foldl (fun d kv => match kv.2 with | none => erase d kv.1 | some v => put d kv.1 v) db

/-- `Table.Save` followed by writing the list. -/
def save (t : Table) : Table × Option (List KV) :=
  match saveKVs t with
  | none => (t, none)
  | some kvs => ({ rows := [], rowmap := [], db := applyKVs t.db kvs }, some kvs)

/-! ### listing -/

def valEmpty : Val → Bool
  | .pk p => p.isEmpty
  | .row _ _ => false

/-- `ListHelper.List(prefix, key, count, direction)` for direction ASC/DESC (values only).
`none` = nil result. -/
def listKV (db : TDB) (pfx key : Bytes) (count : Nat) (asc : Bool) : Option (List Val) :=
  let ents := db.filter (fun e => inRange pfx e.1)
  let seq := if asc then ents else ents.reverse
  let start : Option (List (Bytes × Val)) :=
    if key.isEmpty then some seq
    else
      -- Seek(key): first entry >= key (ascending) / greatest entry <= key (descending)
      match seq.dropWhile (fun e => if asc then blt e.1 key else blt key e.1) with
      | [] => none
      | e :: rest => if e.1 = key then some rest else some (e :: rest)
  match start with
  | none => none
  | some s =>
    let live := (s.filter (fun e => !valEmpty e.2)).map (·.2)
    let res := if count = 0 then live else live.take count
    if res.isEmpty then none else some res

inductive ListRes where
  | rows (rs : List Row)
  | notfound
  | decode
  deriving DecidableEq, Repr

def commonPrefixLen : Bytes → Bytes → Nat
  | a :: as, b :: bs => if a = b then commonPrefixLen as bs + 1 else 0
  | _, _ => 0

def collectRows (db : TDB) : List Val → List Row → ListRes
  | [], acc => if acc.isEmpty then .notfound else .rows acc.reverse
  | .pk p :: rest, acc =>
    (match getData db p with
     | .row _ d => collectRows db rest (d :: acc)
     | .missing => .notfound
     | .undecodable => .decode)
  | .row _ _ :: _, _ => .decode

/-- `Query.ListIndex` for a secondary index (reads the db only). `pfx = none` is a nil prefix. -/
def listIndex (db : TDB) (name : Bytes) (field : Row → Bytes) (pfx : Option Bytes) (pk : Bytes)
    (count : Nat) (asc : Bool) : ListRes :=
  let p := match pfx with | none => [] | some p => p
  let keyPrefix := indexPrefix name ++ p
  let go (key : Bytes) : ListRes :=
    match listKV db keyPrefix key count asc with
    | none => .notfound
    | some vals => collectRows db vals []
  if pk.isEmpty then go []
  else
    match getData db pk with
    | .missing => .notfound
    | .undecodable => .decode
    | .row primary d =>
      let iv := field d
      if pfx.isSome ∧ commonPrefixLen p iv ≠ p.length then .notfound
      else go (indexKey name iv primary)

def collectPrimary : List Val → List Row → ListRes
  | [], acc => if acc.isEmpty then .notfound else .rows acc.reverse
  | .row _ d :: rest, acc => collectPrimary rest (d :: acc)
  | .pk _ :: _, _ => .decode

/-- `Query.listPrimary`. `pk = none` is a nil primary key. -/
def listPrimary (db : TDB) (pfx : Option Bytes) (pk : Option Bytes) (count : Nat) (asc : Bool) :
    ListRes :=
  let p := match pfx with | none => [] | some p => p
  let go (key : Bytes) : ListRes :=
    match listKV db (dataPrefix ++ p) key count asc with
    | none => .notfound
    | some vals => collectPrimary vals []
  match pk with
  | none => go []
  | some k =>
    if pfx.isSome ∧ commonPrefixLen p k ≠ p.length then .notfound
    else go (dataPrefix ++ k)

/-! ### operations as data, runs -/

inductive Op where
  | add (r : Row)
  | replace (r : Row)
  | update (r : Row)        -- `Update(r.pk, r)`
  | del (pk : Bytes)
  deriving DecidableEq, Repr

def Op.pk : Op → Bytes
  | .add r => r.pk
  | .replace r => r.pk
  | .update r => r.pk
  | .del pk => pk

def exec (t : Table) : Op → Table × Res
  | .add r => add t r
  | .replace r => replace t r
  | .update r => update t r.pk r
  | .del pk => del t pk

/-- buffered operations, results in order. -/
def run (t : Table) : List Op → Table × List Res
  | [] => (t, [])
  | op :: rest =>
    let (t1, r) := exec t op
    let (t2, rs) := run t1 rest
    (t2, r :: rs)

/-! ### specification side (statements of Props/C10.lean are written with these) -/

/-- the table as a map from primary key to row. -/
abbrev Spec := Bytes → Option Row

def Spec.set (m : Spec) (pk : Bytes) (v : Option Row) : Spec := fun p => if p = pk then v else m p

/-- map semantics of one operation: Add fails exactly when the key is present, Update / Del fail
exactly when it is absent, Replace always succeeds. -/
def specStep (m : Spec) : Op → Spec × Res
  | .add r => match m r.pk with
    | some _ => (m, .dup)
    | none => (m.set r.pk (some r), .ok)
  | .replace r => (m.set r.pk (some r), .ok)
  | .update r => match m r.pk with
    | some _ => (m.set r.pk (some r), .ok)
    | none => (m, .notfound)
  | .del pk => match m pk with
    | some _ => (m.set pk none, .ok)
    | none => (m, .notfound)

def specRun (m : Spec) : List Op → Spec × List Res
  | [] => (m, [])
  | op :: rest =>
    let (m1, r) := specStep m op
    let (m2, rs) := specRun m1 rest
    (m2, r :: rs)

def NoSep (b : Bytes) : Prop := sep ∉ b

instance (b : Bytes) : Decidable (NoSep b) := by unfold NoSep; infer_instance

/-- the records of primary key `p` seen through a lookup function `g` are exactly the encoding
of `m p`: the data record, and for every index one entry — under the value of the row's field and
under no other value. -/
def RepAtG (g : Bytes → Option Val) (m : Spec) (p : Bytes) : Prop :=
  g (dataKey p) = (m p).map (fun r => Val.row p r) ∧
  ∀ ix ∈ indexes, ∀ val, g (indexKey ix.1 val p) =
    (match m p with
     | some r => if ix.2 r = val then some (Val.pk p) else none
     | none => none)

/-- the db encodes the map `m` (for primary keys that do not contain the '-' separator). -/
def Rep (db : TDB) (m : Spec) : Prop := ∀ p, NoSep p → RepAtG (get db) m p

/-- what has been buffered for a key that was stored at the last save. -/
inductive Flag where
  | fresh | written | deleted
  deriving DecidableEq, Repr

/-- the operation sequences the row cache merges correctly, described on the map side only
(`m0` = the map at the last save, `fl` = what has been buffered per key since then): for a key that
was NOT stored at the last save anything goes; for a stored key there is no operation after a
buffered Del (Update/Replace … then Del is fine since repo commit 24b2bb6).  `none` = the sequence
leaves the class. -/
def goodStep (m0 : Spec) (fl : Bytes → Flag) (op : Op) : Option (Bytes → Flag) :=
  match m0 op.pk with
  | none => some fl
  | some _ =>
    match fl op.pk with
    | .deleted => none
    | .written =>
      (match op with
       | .del _ => some (fun p => if p = op.pk then .deleted else fl p)
       | _ => some fl)
    | .fresh =>
      (match op with
       | .add _ => some fl
       | .replace _ => some (fun p => if p = op.pk then .written else fl p)
       | .update _ => some (fun p => if p = op.pk then .written else fl p)
       | .del _ => some (fun p => if p = op.pk then .deleted else fl p))

def GoodRun (m0 : Spec) : (Bytes → Flag) → List Op → Prop
  | _, [] => True
  | fl, op :: rest =>
    match goodStep m0 fl op with
    | none => False
    | some fl' => GoodRun m0 fl' rest

instance decGoodRun (m0 : Spec) : (fl : Bytes → Flag) → (ops : List Op) → Decidable (GoodRun m0 fl ops)
  | _, [] => isTrue trivial
  | fl, op :: rest =>
    match h : goodStep m0 fl op with
    | none => isFalse (by simp [GoodRun, h])
    | some fl' =>
      have := decGoodRun m0 fl' rest
      decidable_of_iff (GoodRun m0 fl' rest) (by simp [GoodRun, h])

/-- a history: batches of buffered operations, each followed by `Save` and the write of its list
(every batch starts with an empty cache, as `Save` leaves it). `none` = a Save returned an error. -/
def runSaves (db : TDB) : List (List Op) → Option (TDB × List (List Res))
  | [] => some (db, [])
  | b :: rest =>
    match saveKVs (run { db := db } b).1 with
    | none => none
    | some kvs => (runSaves (applyKVs db kvs) rest).map (fun p => (p.1, (run { db := db } b).2 :: p.2))

def specSaves (m : Spec) : List (List Op) → Spec × List (List Res)
  | [] => (m, [])
  | b :: rest =>
    let p := specSaves (specRun m b).1 rest
    (p.1, (specRun m b).2 :: p.2)

/-- every batch is a good run with respect to the map at its own last save. -/
def GoodBatches (m : Spec) : List (List Op) → Prop
  | [] => True
  | b :: rest => GoodRun m (fun _ => .fresh) b ∧ GoodBatches (specRun m b).1 rest

/-- every record of the db is a data record or an index record (holding the primary key) of a
non-empty primary key without the separator — what `Save` writes. -/
def Shape (db : TDB) : Prop :=
  ∀ e ∈ db, (∃ p, e.1 = dataKey p) ∨
    (∃ ix ∈ indexes, ∃ v p, NoSep p ∧ p ≠ [] ∧ e = (indexKey ix.1 v p, Val.pk p))

end C10
