import Chain33Model.Model.C10
/-
C10 (join tables) — common/db/table/join.go on top of a configuration-generic copy of the table
model of Model/C10.lean: JoinTable{left, right, join.Table}, `Save` = saveLeft for every buffered
left row, saveRight for every buffered right row (ListIndex over the left table's foreign-key
index + mergeCache), then `join.Table.Save`, `left.Save`, `right.Save`, `DelDupKey`;
`JoinTable.ListIndex` / `JoinTable.GetData`; `JoinMeta.Get` / `JoinKey`.

Executable model, core Lean only.  A row of a plain table is its primary key plus named field
values; the data of a join row is the pair (left row, right row) (`JoinData`).  A table is
described by a `Cfg` (name, primary-key name, index names, join flag, field accessor = the
`RowMeta`).  The three tables share one db.  Go iterates `left.rowmap` (a map) in mergeCache; the
model iterates its association list — the driver prints kv lists sorted by key so that this order
is not compared.
-/
namespace C10J
open C09 (Bytes ble blt Store put erase get inRange)

structure GRow where
  pk : Bytes
  fields : List (Bytes × Bytes)
  deriving DecidableEq, Repr

/-- `Row.Data`: a message of a plain table, or `JoinData{Left, Right}`. -/
inductive Data where
  | one (r : GRow)
  | pair (l r : GRow)
  deriving DecidableEq, Repr

structure Cfg where
  name : Bytes
  primary : Bytes
  index : List Bytes
  join : Bool
  /-- `RowMeta.SetPayload(data); RowMeta.Get(name)` (`none` = error). -/
  getF : Data → Bytes → Option Bytes

inductive Ty where
  | none | add | update | del
  deriving DecidableEq, Repr

structure CRow where
  ty : Ty
  primary : Bytes
  data : Data
  old : Option Data
  deriving DecidableEq, Repr

inductive Val where
  | row (primary : Bytes) (data : Data)
  | pk (p : Bytes)
  deriving DecidableEq, Repr

abbrev TDB := Store Val

structure GT where
  cfg : Cfg
  rows : List CRow := []
  rowmap : List (Bytes × Nat) := []

inductive Res where
  | ok | dup | notfound | invalid | decode | metaErr | panic
  deriving DecidableEq, Repr

/-! ### keys -/

def sep : Nat := 45
def hash : Nat := 35
/-- "LODB" -/
def dbPrefix : Bytes := [76, 79, 68, 66]

def dataPrefix (c : Cfg) : Bytes := dbPrefix ++ [sep] ++ c.name ++ [sep, 100, sep]
def metaPrefix (c : Cfg) : Bytes := dbPrefix ++ [sep] ++ c.name ++ [sep, 109, sep]
def dataKey (c : Cfg) (pk : Bytes) : Bytes := dataPrefix c ++ pk
def indexPrefix (c : Cfg) (name : Bytes) : Bytes := metaPrefix c ++ name ++ [sep]
def indexKey (c : Cfg) (name val pk : Bytes) : Bytes := indexPrefix c name ++ val ++ [sep] ++ pk

/-! ### plain table operations (as Model/C10.lean, for any configuration) -/

def assocSet (l : List (Bytes × Nat)) (a : Bytes) (b : Nat) : List (Bytes × Nat) :=
  (a, b) :: l.filter (fun e => e.1 != a)
def assocDel (l : List (Bytes × Nat)) (a : Bytes) : List (Bytes × Nat) := l.filter (fun e => e.1 != a)
def assocGet (l : List (Bytes × Nat)) (a : Bytes) : Option Nat := (l.find? (fun e => e.1 == a)).map (·.2)

inductive Stored where
  | row (primary : Bytes) (data : Data)
  | missing
  | undecodable

/-- `Table.GetData`. -/
def getData (db : TDB) (c : Cfg) (pk : Bytes) : Stored :=
  match get db (dataKey c pk) with
  | none => .missing
  | some (.row p d) => .row p d
  | some (.pk _) => .undecodable

inductive Found where
  | cached (i : Nat) (r : CRow)
  | stored (primary : Bytes) (data : Data)
  | missing
  | undecodable
  | dangling

def findRow (db : TDB) (t : GT) (pk : Bytes) : Found :=
  match assocGet t.rowmap pk with
  | some i =>
    (match t.rows[i]? with
     | some r => .cached i r
     | none => .dangling)
  | none =>
    (match getData db t.cfg pk with
     | .row p d => .stored p d
     | .missing => .missing
     | .undecodable => .undecodable)

def addRowCache (t : GT) (r : CRow) : GT :=
  let rowmap :=
    match r.ty with
    | .del => assocDel t.rowmap r.primary
    | .add | .update => assocSet t.rowmap r.primary t.rows.length
    | .none => t.rowmap
  { t with rows := t.rows ++ [r], rowmap := rowmap }

def setData (t : GT) (i : Nat) (r : CRow) (d : Data) : GT :=
  { t with rows := t.rows.set i { r with data := d } }

/-- `checkIndex`: the primary key and every index must be readable from the data. -/
def checkIndex (c : Cfg) (d : Data) : Bool :=
  (c.getF d c.primary).isSome && c.index.all (fun n => (c.getF d n).isSome)

def add (db : TDB) (t : GT) (d : Data) : GT × Res :=
  if !checkIndex t.cfg d then (t, .metaErr) else
  match t.cfg.getF d t.cfg.primary with
  | none => (t, .metaErr)
  | some pk =>
    match findRow db t pk with
    | .missing => (addRowCache t ⟨.add, pk, d, none⟩, .ok)
    | .dangling => (t, .panic)
    | _ => (t, .dup)

def replace (db : TDB) (t : GT) (d : Data) : GT × Res :=
  if !checkIndex t.cfg d then (t, .metaErr) else
  match t.cfg.getF d t.cfg.primary with
  | none => (t, .metaErr)
  | some pk =>
    match findRow db t pk with
    | .missing => (addRowCache t ⟨.add, pk, d, none⟩, .ok)
    | .cached i r => (setData t i r d, .ok)
    | .stored _ old => (addRowCache t ⟨.update, pk, d, some old⟩, .ok)
    | .undecodable => (t, .panic)
    | .dangling => (t, .panic)

def update (db : TDB) (t : GT) (pk : Bytes) (d : Data) : GT × Res :=
  if !checkIndex t.cfg d then (t, .metaErr) else
  match t.cfg.getF d t.cfg.primary with
  | none => (t, .metaErr)
  | some p1 =>
    if p1 ≠ pk then (t, .invalid) else
    match findRow db t pk with
    | .missing => (t, .notfound)
    | .undecodable => (t, .decode)
    | .dangling => (t, .panic)
    | .cached i r => (setData t i r d, .ok)
    | .stored _ old => (addRowCache t ⟨.update, pk, d, some old⟩, .ok)

def del (db : TDB) (t : GT) (pk : Bytes) : GT × Res :=
  match findRow db t pk with
  | .missing => (t, .notfound)
  | .undecodable => (t, .decode)
  | .dangling => (t, .panic)
  | .cached i r =>
    let t1 : GT := { t with rows := t.rows.set i { r with ty := .none }, rowmap := assocDel t.rowmap pk }
    if r.ty = .add then (t1, .ok)
    else (addRowCache t1 { r with ty := .del, data := match r.old with | some o => o | none => r.data }, .ok)
  | .stored p d => (addRowCache t ⟨.del, p, d, none⟩, .ok)

/-! ### Save of one table -/

abbrev KV := Bytes × Option Val

/-- index records of a row: `(index name, value)`, `none` if some index cannot be read. -/
def indexVals (c : Cfg) (d : Data) : Option (List (Bytes × Bytes)) :=
  c.index.mapM (fun n => (c.getF d n).map (fun v => (n, v)))

def delRow (c : Cfg) (r : CRow) : Option (List KV) :=
  (indexVals c r.data).map (fun ivs =>
    (if c.join then [] else [(dataKey c r.primary, none)]) ++
      ivs.map (fun iv => (indexKey c iv.1 iv.2 r.primary, none)))

def addRow (c : Cfg) (r : CRow) : Option (List KV) :=
  (indexVals c r.data).map (fun ivs =>
    (if c.join then [] else [(dataKey c r.primary, some (.row r.primary r.data))]) ++
      ivs.map (fun iv => (indexKey c iv.1 iv.2 r.primary, some (.pk r.primary))))

def updateRow (c : Cfg) (r : CRow) : Option (List KV) :=
  match r.old with
  | none =>
    -- proto.Equal(data, nil) is false; getModify then fails with ErrNilValue (if there is an index)
    if c.index.isEmpty then
      some (if c.join then [] else [(dataKey c r.primary, some (.row r.primary r.data))])
    else none
  | some old =>
    if r.data = old then some [] else
    match indexVals c r.data, indexVals c old with
    | some nivs, some oivs =>
      some ((if c.join then [] else [(dataKey c r.primary, some (.row r.primary r.data))]) ++
        ((nivs.zip oivs).filter (fun p => p.1.2 != p.2.2)).flatMap (fun p =>
          [(indexKey c p.2.1 p.2.2 r.primary, none),
           (indexKey c p.1.1 p.1.2 r.primary, some (.pk r.primary))]))
    | _, _ => none

def saveRow (c : Cfg) (r : CRow) : Option (List KV) :=
  match r.ty with
  | .del => delRow c r
  | .add => addRow c r
  | .update => updateRow c r
  | .none => some []

def delDupKey (kvs : List KV) : List KV :=
  kvs.foldl (fun acc kv =>
    if acc.any (fun e => e.1 == kv.1) then acc.map (fun e => if e.1 == kv.1 then kv else e)
    else acc ++ [kv]) []

/-- `Table.Save`: kv list and the table with an empty cache (`none`: error, cache kept). -/
def saveT (t : GT) : Option (List KV × GT) :=
  (t.rows.mapM (saveRow t.cfg)).map (fun l => (delDupKey l.flatten, { t with rows := [], rowmap := [] }))

def applyKVs (db : TDB) (kvs : List KV) : TDB :=
  kvs.foldl (fun d kv => match kv.2 with | none => erase d kv.1 | some v => put d kv.1 v) db

/-! ### listing (secondary index, nil start key) -/

def valEmpty : Val → Bool
  | .pk p => p.isEmpty
  | .row _ _ => false

/-- `kvdb.List(prefix, nil, count, direction)`: values in range, `none` = nil. -/
def listKV0 (db : TDB) (pfx : Bytes) (count : Nat) (asc : Bool) : Option (List Val) :=
  let ents := db.filter (fun e => inRange pfx e.1)
  let seq := if asc then ents else ents.reverse
  let live := (seq.filter (fun e => !valEmpty e.2)).map (·.2)
  let res := if count = 0 then live else live.take count
  if res.isEmpty then none else some res

/-! ### join table -/

structure JT where
  left : GT
  right : GT
  joinT : GT

def splitHash (b : Bytes) : List Bytes :=
  b.foldr (fun c acc =>
    if c = hash then [] :: acc
    else match acc with
      | [] => [[c]]
      | x :: xs => (c :: x) :: xs) [[]]

/-- protobuf varint (structural on a fuel of 10 groups = 70 bits, enough for any length). -/
def varintAux : Nat → Nat → Bytes
  | 0, n => [n % 128]
  | fuel + 1, n => if n < 128 then [n] else (n % 128 + 128) :: varintAux fuel (n / 128)

def varint (n : Nat) : Bytes := varintAux 10 n

/-- `JoinKey` = `types.Encode(&KeyValue{Key: left, Value: right})` (proto3: empty fields omitted). -/
def joinKey (l r : Bytes) : Bytes :=
  (if l.isEmpty then [] else [10] ++ varint l.length ++ l) ++
  (if r.isEmpty then [] else [18] ++ varint r.length ++ r)

/-- `JoinMeta.Get`. -/
def joinGet (lc rc : Cfg) : Data → Bytes → Option Bytes
  | .pair l r, key =>
    (match splitHash key with
     | [] => none
     | [k] => lc.getF (.one l) k
     | a :: b :: _ =>
       let lv : Option Bytes := if a.isEmpty then some [] else lc.getF (.one l) a
       match lv, rc.getF (.one r) b with
       | some x, some y => some (joinKey x y)
       | _, _ => none)
  | .one _, _ => none      -- SetPayload: ErrTypeAsset

/-- left / right halves of the join index names. -/
def leftIndex (jt : JT) : List Bytes :=
  jt.joinT.cfg.index.filterMap (fun n => match splitHash n with | a :: _ :: _ => if a.isEmpty then none else some a | _ => none)
def rightIndex (jt : JT) : List Bytes :=
  jt.joinT.cfg.index.filterMap (fun n => match splitHash n with | _ :: b :: _ => some b | _ => none)

/-- `getModify` over a list of index names: is some index value different between the row data and
its old data (`old = nil` ⇒ ErrNilValue ⇒ not modified). -/
def isModified (c : Cfg) (names : List Bytes) (r : CRow) : Bool :=
  match r.old with
  | none => false
  | some old => names.any (fun n =>
      match c.getF r.data n, c.getF old n with
      | some a, some b => a != b
      | _, _ => false)

def oneOf : Data → Option GRow
  | .one r => some r
  | .pair _ _ => none

inductive SaveErr where
  | notfound | decode | metaE | panic
  deriving DecidableEq, Repr

/-- `saveLeft`. -/
def saveLeft (db : TDB) (jt : JT) (row : CRow) : Except SaveErr JT :=
  if row.ty = .update && !isModified jt.left.cfg (leftIndex jt) row then .ok jt else
  match jt.left.cfg.getF row.data jt.right.cfg.primary with
  | none => .error .metaE
  | some rightPrimary =>
    -- (rightrow.Data, rightrow.old if cached Update else rightrow.Data)
    let found : Except SaveErr (Data × Data) :=
      match findRow db jt.right rightPrimary with
      | .cached _ r => .ok (r.data, if r.ty = .update then (match r.old with | some o => o | none => r.data) else r.data)
      | .stored _ d => .ok (d, d)
      | .missing => .error .notfound
      | .undecodable => .error .decode
      | .dangling => .error .panic
    match found with
    | .error e => .error e
    | .ok (rdata, rold) =>
      match oneOf row.data, oneOf rdata, oneOf rold with
      | some l, some r, some ro =>
        let oldPair : Option Data :=
          if row.ty = .update then
            (match row.old with
             | some (.one lo) => some (.pair lo ro)
             | _ => none)
          else none
        -- an Update row whose old left data is missing would build JoinData{Left: nil}: not reachable
        if row.ty = .update && oldPair.isNone then .error .panic else
        .ok { jt with joinT := addRowCache jt.joinT ⟨row.ty, row.primary, .pair l r, oldPair⟩ }
      | _, _, _ => .error .metaE

/-- rows of the left table whose foreign key is `gid`: db rows (index scan, newest key first),
replaced by their cached versions, plus cache-only rows (`mergeCache`). -/
def leftRowsOf (db : TDB) (jt : JT) (gid : Bytes) : Except SaveErr (List CRow) :=
  let fk := jt.right.cfg.primary
  let fromDb : Except SaveErr (List CRow) :=
    match listKV0 db (indexPrefix jt.left.cfg fk ++ gid) 0 false with
    | none => .ok []
    | some vals =>
      vals.foldr (fun v acc =>
        match acc with
        | .error e => .error e
        | .ok rs =>
          match v with
          | .pk p =>
            (match getData db jt.left.cfg p with
             | .row q d => .ok (⟨.none, q, d, none⟩ :: rs)
             | .missing => .error .notfound
             | .undecodable => .error .decode)
          | .row _ _ => .error .decode) (.ok [])
  -- ListIndex error other than ErrNotFound aborts; ErrNotFound means "no rows"
  let dbRows : Except SaveErr (List CRow) :=
    match fromDb with
    | .error .notfound => .ok []
    | x => x
  match dbRows with
  | .error e => .error e
  | .ok rows =>
    let cachedOf (p : Bytes) : Option CRow :=
      match assocGet jt.left.rowmap p with
      | some i => jt.left.rows[i]?
      | none => none
    let merged := rows.map (fun r => match cachedOf r.primary with | some c => c | none => r)
    let replaced := (rows.filter (fun r => (cachedOf r.primary).isSome)).map (·.primary)
    let extra := jt.left.rowmap.filterMap (fun e =>
      match jt.left.rows[e.2]? with
      | some c =>
        if replaced.contains c.primary then none
        else if jt.left.cfg.getF c.data fk == some gid then some c else none
      | none => none)
    .ok (merged ++ extra)

/-- `saveRight`. -/
def saveRight (db : TDB) (jt : JT) (row : CRow) : Except SaveErr JT :=
  if row.ty = .update && !isModified jt.right.cfg (rightIndex jt) row then .ok jt else
  match leftRowsOf db jt row.primary with
  | .error e => .error e
  | .ok lrows =>
    lrows.foldl (fun acc onerow =>
      match acc with
      | .error e => .error e
      | .ok jt' =>
        match oneOf row.data, oneOf onerow.data with
        | some r, some l =>
          let oldLeft : Data := if onerow.ty = .update then (match onerow.old with | some o => o | none => onerow.data) else onerow.data
          let oldPair : Option Data :=
            if row.ty = .update then
              (match row.old, oneOf oldLeft with
               | some (.one ro), some lo => some (.pair lo ro)
               | _, _ => none)
            else none
          if row.ty = .update && oldPair.isNone then .error .panic else
          .ok { jt' with joinT := addRowCache jt'.joinT ⟨row.ty, onerow.primary, .pair l r, oldPair⟩ }
        | _, _ => .error .metaE) (.ok jt)

/-- `JoinTable.Save` (`Except`: the error and the join table as the failed call leaves it). -/
def saveJoin (db : TDB) (jt : JT) : Except (SaveErr × JT) (List KV × JT) :=
  let step (f : TDB → JT → CRow → Except SaveErr JT) (acc : Except (SaveErr × JT) JT) (row : CRow) :
      Except (SaveErr × JT) JT :=
    match acc with
    | .error e => .error e
    | .ok j =>
      if row.ty = .none then .ok j else
      match f db j row with
      | .ok j' => .ok j'
      | .error e => .error (e, j)
  match jt.right.rows.foldl (step saveRight) (jt.left.rows.foldl (step saveLeft) (.ok jt)) with
  | .error e => .error e
  | .ok j =>
    match saveT j.joinT with
    | none => .error (.metaE, j)
    | some (jk, joinT') =>
      let j1 := { j with joinT := joinT' }
      match saveT j1.left with
      | none => .error (.metaE, j1)
      | some (lk, left') =>
        let j2 := { j1 with left := left' }
        match saveT j2.right with
        | none => .error (.metaE, j2)
        | some (rk, right') => .ok (delDupKey (jk ++ lk ++ rk), { j2 with right := right' })

/-- `JoinTable.GetData`. -/
def joinGetData (db : TDB) (jt : JT) (pk : Bytes) : Except SaveErr (GRow × GRow) :=
  match getData db jt.left.cfg pk with
  | .missing => .error .notfound
  | .undecodable => .error .decode
  | .row _ ld =>
    match jt.left.cfg.getF ld jt.right.cfg.primary with
    | none => .error .metaE
    | some rp =>
      match getData db jt.right.cfg rp with
      | .missing => .error .notfound
      | .undecodable => .error .decode
      | .row _ rd =>
        match oneOf ld, oneOf rd with
        | some l, some r => .ok (l, r)
        | _, _ => .error .metaE

/-- `JoinTable.ListIndex(index, prefix, nil, 0, direction)`. -/
def joinList (db : TDB) (jt : JT) (name pfx : Bytes) (asc : Bool) : Except SaveErr (List (GRow × GRow)) :=
  match listKV0 db (indexPrefix jt.joinT.cfg name ++ pfx) 0 asc with
  | none => .error .notfound
  | some vals =>
    vals.foldr (fun v acc =>
      match acc with
      | .error e => .error e
      | .ok rs =>
        match v with
        | .pk p =>
          (match joinGetData db jt p with
           | .ok lr => .ok (lr :: rs)
           | .error e => .error e)
        | .row _ _ => .error .decode) (.ok [])

/-! ### the configuration of the harness (join_test.go) -/

def fieldOf (r : GRow) (n : Bytes) : Option Bytes := (r.fields.find? (fun f => f.1 == n)).map (·.2)

def plainGet (primary : Bytes) : Data → Bytes → Option Bytes
  | .one r, n => if n = primary then some r.pk else fieldOf r n
  | .pair _ _, _ => none

/-- "gameaddr", "txhash", "gameID", "addr", "game", "status" -/
def nGameaddr : Bytes := [103, 97, 109, 101, 97, 100, 100, 114]
def nTxhash : Bytes := [116, 120, 104, 97, 115, 104]
def nGameID : Bytes := [103, 97, 109, 101, 73, 68]
def nAddr : Bytes := [97, 100, 100, 114]
def nGame : Bytes := [103, 97, 109, 101]
def nStatus : Bytes := [115, 116, 97, 116, 117, 115]

def leftCfg : Cfg := ⟨nGameaddr, nTxhash, [nGameID, nAddr], false, plainGet nTxhash⟩
def rightCfg : Cfg := ⟨nGame, nGameID, [nStatus], false, plainGet nGameID⟩
/-- "gameaddr#game", indexes "addr#status", "#status" -/
def joinCfg : Cfg :=
  ⟨nGameaddr ++ [hash] ++ nGame, nTxhash, [nAddr ++ [hash] ++ nStatus, [hash] ++ nStatus], true,
   joinGet leftCfg rightCfg⟩

def initJT : JT := ⟨{ cfg := leftCfg }, { cfg := rightCfg }, { cfg := joinCfg }⟩

def leftG (tx gid addr : Bytes) : GRow := ⟨tx, [(nGameID, gid), (nAddr, addr)]⟩
def rightG (gid status : Bytes) : GRow := ⟨gid, [(nStatus, status)]⟩
def leftRow (tx gid addr : Bytes) : Data := .one (leftG tx gid addr)
def rightRow (gid status : Bytes) : Data := .one (rightG gid status)

/-! ### specification side (statements of Props/C10Join.lean) -/

/-- the two tables as maps: txhash ↦ (gameID, addr), gameID ↦ status. -/
structure JSpec where
  L : Bytes → Option (Bytes × Bytes)
  R : Bytes → Option Bytes

/-- the joined row of `tx`: its left row paired with the right row it names (if both exist). -/
def joined (s : JSpec) (tx : Bytes) : Option Data :=
  match s.L tx with
  | some la =>
    (match s.R la.1 with
     | some st => some (.pair (leftG tx la.1 la.2) (rightG la.1 st))
     | none => none)
  | none => none

/-- the records of primary key `p` of table `c`, seen through `g`, are exactly the encoding of the
row `v`: the data record (plain tables) and, for every index, one entry under the row's value and
under no other value. -/
def RepRow (g : Bytes → Option Val) (c : Cfg) (p : Bytes) (v : Option Data) : Prop :=
  (c.join = false → g (dataKey c p) = v.map (fun d => Val.row p d)) ∧
  ∀ n ∈ c.index, ∀ val, g (indexKey c n val p) =
    (match v with
     | some d => if c.getF d n = some val then some (Val.pk p) else none
     | none => none)

/-- the db encodes the two maps and their join (for keys without the '-' separator). -/
def JRep (db : TDB) (s : JSpec) : Prop :=
  (∀ tx, C10.NoSep tx → RepRow (get db) leftCfg tx ((s.L tx).map (fun la => leftRow tx la.1 la.2))) ∧
  (∀ g, C10.NoSep g → RepRow (get db) rightCfg g ((s.R g).map (fun st => rightRow g st))) ∧
  (∀ tx, C10.NoSep tx → RepRow (get db) joinCfg tx (joined s tx))

/-- every left row names an existing game (what the join needs, join.go header comment). -/
def Integrity (s : JSpec) : Prop := ∀ tx la, s.L tx = some la → C10.NoSep la.1 ∧ s.R la.1 ≠ none

/-- operations on the left table. -/
inductive LOp where
  | add (tx gid addr : Bytes)
  | replace (tx gid addr : Bytes)
  | update (tx gid addr : Bytes)
  | del (tx : Bytes)
  deriving DecidableEq, Repr

def LOp.tx : LOp → Bytes
  | .add tx _ _ => tx | .replace tx _ _ => tx | .update tx _ _ => tx | .del tx => tx

def execL (db : TDB) (jt : JT) : LOp → JT × Res
  | .add tx g a => let (t, r) := add db jt.left (leftRow tx g a); ({ jt with left := t }, r)
  | .replace tx g a => let (t, r) := replace db jt.left (leftRow tx g a); ({ jt with left := t }, r)
  | .update tx g a => let (t, r) := update db jt.left tx (leftRow tx g a); ({ jt with left := t }, r)
  | .del tx => let (t, r) := del db jt.left tx; ({ jt with left := t }, r)

/-- map semantics of a left operation. -/
def specL (s : JSpec) : LOp → JSpec × Res
  | .add tx g a => match s.L tx with
    | some _ => (s, .dup)
    | none => ({ s with L := fun p => if p = tx then some (g, a) else s.L p }, .ok)
  | .replace tx g a => ({ s with L := fun p => if p = tx then some (g, a) else s.L p }, .ok)
  | .update tx g a => match s.L tx with
    | some _ => ({ s with L := fun p => if p = tx then some (g, a) else s.L p }, .ok)
    | none => (s, .notfound)
  | .del tx => match s.L tx with
    | some _ => ({ s with L := fun p => if p = tx then none else s.L p }, .ok)
    | none => (s, .notfound)

/-- the hypotheses the findings force on a left operation: a written row names an existing game,
and rewriting an existing row keeps its foreign key (S-C10d). -/
def LOpOK (s : JSpec) : LOp → Prop
  | .add _ g _ => C10.NoSep g ∧ s.R g ≠ none
  | .replace tx g _ => C10.NoSep g ∧ s.R g ≠ none ∧ ∀ la, s.L tx = some la → la.1 = g
  | .update tx g _ => C10.NoSep g ∧ s.R g ≠ none ∧ ∀ la, s.L tx = some la → la.1 = g
  | .del _ => True

/-- operations on the right table. -/
inductive ROp where
  | add (g st : Bytes)
  | replace (g st : Bytes)
  | update (g st : Bytes)
  | del (g : Bytes)
  deriving DecidableEq, Repr

def ROp.g : ROp → Bytes
  | .add g _ => g | .replace g _ => g | .update g _ => g | .del g => g

def execR (db : TDB) (jt : JT) : ROp → JT × Res
  | .add g st => let (t, r) := add db jt.right (rightRow g st); ({ jt with right := t }, r)
  | .replace g st => let (t, r) := replace db jt.right (rightRow g st); ({ jt with right := t }, r)
  | .update g st => let (t, r) := update db jt.right g (rightRow g st); ({ jt with right := t }, r)
  | .del g => let (t, r) := del db jt.right g; ({ jt with right := t }, r)

def specR (s : JSpec) : ROp → JSpec × Res
  | .add g st => match s.R g with
    | some _ => (s, .dup)
    | none => ({ s with R := fun p => if p = g then some st else s.R p }, .ok)
  | .replace g st => ({ s with R := fun p => if p = g then some st else s.R p }, .ok)
  | .update g st => match s.R g with
    | some _ => ({ s with R := fun p => if p = g then some st else s.R p }, .ok)
    | none => (s, .notfound)
  | .del g => match s.R g with
    | some _ => ({ s with R := fun p => if p = g then none else s.R p }, .ok)
    | none => (s, .notfound)

/-- a batch between two saves: right operations, then left operations (the tables are separate
caches, so the interleaving does not matter). -/
def runBatch (db : TDB) (jt : JT) (rops : List ROp) (lops : List LOp) : JT :=
  lops.foldl (fun j op => (execL db j op).1) (rops.foldl (fun j op => (execR db j op).1) jt)

def specBatch (s : JSpec) (rops : List ROp) (lops : List LOp) : JSpec :=
  lops.foldl (fun x op => (specL x op).1) (rops.foldl (fun x op => (specR x op).1) s)

/-- a right operation keeps referential integrity: a referenced game is not deleted. -/
def ROpOK (s : JSpec) : ROp → Prop
  | .del g => ∀ tx la, s.L tx = some la → la.1 ≠ g
  | _ => True

end C10J
