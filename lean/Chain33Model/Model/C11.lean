import Chain33Model.Model.C12
/-
C11 — failed transactions leave only their fee behind.  Executable model (core Lean only) of

* `executor.StateDB`  (cache / txcache / keys / intx over the committed state)  executor/statedb.go
* `executor.LocalDB`  (cache / txcache / keys / intx / hasbegin / buffered `kvs`) executor/localdb.go
  over the remote layered store `common/db.LocalDB` reached through `blockchain/localdb.go`
* the control flow of `execTx / execTxGroup / execTxOne / execFee / processFee / begin / commit /
  rollback / execLocalSameTime / execLocalTx / checkKV / checkKeyAllow / checkPrefix`
  (executor/execenv.go) and the per-block loop of `procExecTxList` (executor/executor.go).

Contracts are *programs* (`Op` lists) interpreted against the model databases exactly as the
synthetic drivers of the harness interpret them against the real ones.  Go maps are association
lists with newest-first lookup; `nil`/empty values are `none` (cacheDB treats a stored nil as
"cached, not found").  A Go panic that escapes `(*executor).Exec`'s recover is the explicit
outcome `blockPanic` (procExecTxList replies ErrExecPanic for the whole block).
Fork flags are parameters (`Env`).  `LocalDB` is the repaired code (/repo c51e8d4): `Begin` remembers
`len(kvs)` in `txkvs`, `Rollback` truncates the buffered `kvs` to it (the pre-repair `Rollback` kept
them: finding S-C11, kept as `LocalDB.rollbackOld` for the regression witness).
Not modelled: `common/db.LocalDB.get` copies a main-db hit into its memdb `cache`; the main db is
immutable while the local transaction object exists, so the copy cannot change any answer.
-/
namespace C11

open C12 (Bytes)

/-- a state value: raw bytes, or a coins account (rendered `$balance` on the wire). -/
inductive Val
  | raw (b : Bytes)
  | acct (bal : Int)
  deriving DecidableEq, Repr

/-- Go `nil`/empty value ↦ `none`. -/
def Val.toOpt : Val → Option Val
  | .raw [] => none
  | v => some v

def optBytes (b : Bytes) : Option Bytes := if b.isEmpty then none else some b

/-- association-list lookup, first (= newest) entry wins. -/
def lookup {β : Type} (k : Bytes) : List (Bytes × β) → Option β
  | [] => none
  | (k', v) :: r => if k' = k then some v else lookup k r

/-- `cacheDB`: `some none` = key present with a nil value ("cached not found"). -/
abbrev Cache (α : Type) := List (Bytes × Option α)

/-! ### StateDB -/

structure StateDB where
  cache : Cache Val := []
  txcache : Cache Val := []
  keys : List Bytes := []
  intx : Bool := false
  /-- committed state at the block's parent state hash (what `EventStoreGet` answers) -/
  store : List (Bytes × Val) := []
  deriving Repr, DecidableEq

namespace StateDB

/-- `(*StateDB).get`: txcache (in a tx), cache, store (a store hit is cached). `none` = ErrNotFound. -/
def get (s : StateDB) (k : Bytes) : StateDB × Option Val :=
  match (if s.intx then lookup k s.txcache else none) with
  | some v => (s, v)
  | none =>
    match lookup k s.cache with
    | some v => (s, v)
    | none =>
      match lookup k s.store with
      | some v => ({ s with cache := (k, some v) :: s.cache }, some v)
      | none => (s, none)

/-- `(*StateDB).Set`. -/
def set (s : StateDB) (k : Bytes) (v : Val) : StateDB :=
  if s.intx then { s with keys := s.keys ++ [k], txcache := (k, v.toOpt) :: s.txcache }
  else { s with cache := (k, v.toOpt) :: s.cache }

def resetTx (s : StateDB) : StateDB := { s with intx := false, txcache := [], keys := [] }

/-- `(*StateDB).Begin` (`fr` = ForkExecRollback at the db's height). -/
def begin (fr : Bool) (s : StateDB) : StateDB :=
  let s := { s with intx := true, keys := [] }
  if fr then { s with txcache := [] } else s

/-- `(*StateDB).Commit`: `cache.Merge(txcache)`. -/
def commit (fr : Bool) (s : StateDB) : StateDB :=
  let s := { s with cache := s.txcache ++ s.cache, intx := false, keys := [] }
  if fr then s.resetTx else s

def rollback (s : StateDB) : StateDB := s.resetTx

def startTx (s : StateDB) : StateDB := { s with keys := [] }

end StateDB

/-! ### remote layered local store (`common/db.LocalDB`, one instance per `LocalNew`) -/

structure Remote where
  main : List (Bytes × Bytes) := []
  /-- memdb layers; an empty value is the deletion marker -/
  cache : List (Bytes × Bytes) := []
  txcache : Option (List (Bytes × Bytes)) := none
  intx : Bool := false
  deriving Repr, DecidableEq

def bytesLt : Bytes → Bytes → Bool
  | [], [] => false
  | [], _ :: _ => true
  | _ :: _, [] => false
  | a :: as, b :: bs => if a < b then true else if b < a then false else bytesLt as bs

/-- insert into an ascending duplicate-free key list. -/
def insertKey (k : Bytes) : List Bytes → List Bytes
  | [] => [k]
  | x :: xs => if k = x then x :: xs else if bytesLt k x then k :: x :: xs else x :: insertKey k xs

namespace Remote

def begin (r : Remote) : Remote := { r with intx := true, txcache := none }
def resetTx (r : Remote) : Remote := { r with intx := false, txcache := none }
def rollback (r : Remote) : Remote := r.resetTx

def commit (r : Remote) : Remote :=
  match r.txcache with
  | none => r.resetTx
  | some t => { r with cache := t ++ r.cache }.resetTx

/-- `Set`: nil value is stored as the (empty) deletion marker. -/
def set (r : Remote) (k : Bytes) (v : Bytes) : Remote :=
  if r.intx then
    match r.txcache with
    | none => { r with txcache := some [(k, v)] }
    | some t => { r with txcache := some ((k, v) :: t) }
  else { r with cache := (k, v) :: r.cache }

/-- `Get` (+ `isdeleted`): txcache (in a transaction), cache, main db.  (The copy of a main-db hit into
`cache` is not modelled, see the header.) -/
def get (r : Remote) (k : Bytes) : Option Bytes :=
  let inTx := if r.intx then (match r.txcache with | some t => lookup k t | none => none) else none
  match inTx with
  | some v => optBytes v
  | none =>
    match lookup k r.cache with
    | some v => optBytes v
    | none =>
      match lookup k r.main with
      | some v => optBytes v
      | none => none

/-- `List(prefix, nil, 0, ASC|WithKey)`: merged view txcache > cache > main, deleted entries skipped. -/
def list (r : Remote) (p : Bytes) : List (Bytes × Bytes) :=
  let merged := (match r.txcache with | some t => t | none => []) ++ r.cache ++ r.main
  let ks := merged.foldl (fun acc kv => if p.isPrefixOf kv.1 then insertKey kv.1 acc else acc) []
  ks.filterMap (fun k => match lookup k merged with
    | some v => if v.isEmpty then none else some (k, v)
    | none => none)

end Remote

/-! ### executor.LocalDB -/

inductive DbErr | notFound | disableRead | disableWrite
  deriving DecidableEq, Repr

structure LocalDB where
  cache : Cache Bytes := []
  txcache : Cache Bytes := []
  keys : List Bytes := []
  intx : Bool := false
  hasbegin : Bool := false
  /-- writes not yet sent to the remote store (`l.kvs`); `[]` = nil -/
  kvs : List (Bytes × Bytes) := []
  /-- `len(kvs)` when the open transaction began -/
  txkvs : Nat := 0
  disableread : Bool := false
  disablewrite : Bool := false
  remote : Remote := {}
  deriving Repr, DecidableEq

namespace LocalDB

def resetTx (l : LocalDB) : LocalDB := { l with intx := false, txcache := [], keys := [], hasbegin := false }
def startTx (l : LocalDB) : LocalDB := { l with keys := [] }
def begin (l : LocalDB) : LocalDB :=
  { l with intx := true, keys := [], txcache := [], hasbegin := false, txkvs := l.kvs.length }

/-- `save`: first use begins the remote transaction, then `LocalSet(kvs)`. -/
def save (l : LocalDB) : LocalDB :=
  if l.kvs.isEmpty then l
  else
    let r := if l.hasbegin then l.remote else l.remote.begin
    let r := l.kvs.foldl (fun r kv => r.set kv.1 kv.2) r
    { l with remote := r, hasbegin := true, kvs := [], txkvs := 0 }

def commit (l : LocalDB) : LocalDB :=
  let l := { l with cache := l.txcache ++ l.cache }
  let l := l.save
  let l := if l.hasbegin then { l with remote := l.remote.commit } else l
  l.resetTx

/-- `Rollback` (repaired): the still-buffered writes of the rolled back transaction are dropped. -/
def rollback (l : LocalDB) : LocalDB :=
  let l := if l.intx && decide (l.txkvs ≤ l.kvs.length) then { l with kvs := l.kvs.take l.txkvs } else l
  let l := if l.hasbegin then { l with remote := l.remote.rollback } else l
  l.resetTx

/-- `Rollback` before the repair: `kvs` was NOT cleared (S-C11); only used by the regression witness. -/
def rollbackOld (l : LocalDB) : LocalDB :=
  let l := if l.hasbegin then { l with remote := l.remote.rollback } else l
  l.resetTx

def get (l : LocalDB) (k : Bytes) : LocalDB × Except DbErr Bytes :=
  if l.disableread then (l, .error .disableRead)
  else
    let ret (l : LocalDB) (v : Option Bytes) : LocalDB × Except DbErr Bytes :=
      match v with
      | some b => (l, .ok b)
      | none => (l, .error .notFound)
    match (if l.intx then lookup k l.txcache else none) with
    | some v => ret l v
    | none =>
      match lookup k l.cache with
      | some v => ret l v
      | none =>
        let v := l.remote.get k
        ret { l with cache := (k, v) :: l.cache } v

def set (l : LocalDB) (k v : Bytes) : LocalDB × Except DbErr Unit :=
  if l.disablewrite then (l, .error .disableWrite)
  else
    let l := if l.intx then { l with keys := l.keys ++ [k], txcache := (k, optBytes v) :: l.txcache }
             else { l with cache := (k, optBytes v) :: l.cache }
    ({ l with kvs := l.kvs ++ [(k, v)] }, .ok ())

def list (l : LocalDB) (p : Bytes) : LocalDB × Except DbErr (List (Bytes × Bytes)) :=
  if l.disableread then (l, .error .disableRead)
  else
    let l := l.save
    let vs := l.remote.list p
    if vs.isEmpty then (l, .error .notFound) else (l, .ok vs)

end LocalDB

/-! ### programs, transactions, receipts -/

inductive Op
  | setS (k : Bytes) (v : Bytes)    -- S: StateDB.Set + receipt KV
  | hidS (k : Bytes) (v : Bytes)    -- H: StateDB.Set only
  | declS (k : Bytes) (v : Bytes)   -- D: receipt KV only
  | getS (k : Bytes)                -- G
  | setL (k : Bytes) (v : Bytes)    -- LS: LocalDB.Set + local set KV
  | hidL (k : Bytes) (v : Bytes)    -- LH: LocalDB.Set only
  | declL (k : Bytes) (v : Bytes)   -- LD: local set KV only
  | getL (k : Bytes)                -- LG
  | listL (p : Bytes)               -- LL
  | fail                            -- F
  | panic                           -- P
  deriving DecidableEq, Repr

structure Tx where
  /-- state key of the sender's coins account -/
  acctKey : Bytes
  fee : Int
  execer : Bytes
  execOps : List Op
  localOps : List Op
  deriving DecidableEq, Repr

/-- a block is a list of units: single transactions and (well-formed) groups. -/
inductive TxUnit
  | single (tx : Tx)
  | group (txs : List Tx)
  deriving Repr

inductive Err | fail | panic | memset | notAllowKey | memsetLocal | noBalance | execName
  deriving DecidableEq, Repr

inductive RLog
  | fee (prev cur : Int)
  | err (e : Err)
  | user
  deriving DecidableEq, Repr

structure Receipt where
  ty : Nat                       -- 0 ExecErr, 1 ExecPack, 2 ExecOk
  kv : List (Bytes × Val) := []
  logs : List RLog := []
  deriving DecidableEq, Repr

inductive Obs
  | val (v : Val) | nf | dr | dw | ok
  | list (kvs : List (Bytes × Bytes))
  deriving DecidableEq, Repr

/-- a registered synthetic driver. -/
structure Drv where
  name : Bytes
  sameTime : Bool
  friend : Bool
  /-- `Allow` also accepts `user.<name>.<x>` (the synthetic drivers); system drivers only their own name -/
  userDot2 : Bool := true
  deriving DecidableEq, Repr

structure Env where
  cfg : C12.Cfg
  /-- `cfg.GetMinTxFeeRate() > 0` -/
  feeOn : Bool := true
  forkExecRollback : Bool := true
  forkResetTx0 : Bool := true
  forkStateDBSet : Bool := true
  forkLocalDBAccess : Bool := true
  allowUser : List Bytes := []
  registry : List Drv := []
  /-- `drivers.ExecAddress` restricted to the names that occur (a hash; supplied by the harness) -/
  addrs : List (Bytes × Bytes) := []

/-- `drivers.ExecAddress`: unknown names get an address that no key contains. -/
def Env.execAddr (env : Env) (name : Bytes) : Bytes :=
  match lookup name env.addrs with
  | some a => a
  | none => 0 :: name

/-- the synthetic drivers the harness registers: "vfa" ordinary, "vfb" ExecLocalSameTime,
"vfc" ordinary + friend rule, "vfd" ExecLocalSameTime + friend rule. -/
def synthRegistry : List Drv :=
  [ { name := [118, 102, 97], sameTime := false, friend := false },
    { name := [118, 102, 98], sameTime := true, friend := false },
    { name := [118, 102, 99], sameTime := false, friend := true },
    { name := [118, 102, 100], sameTime := true, friend := true } ]

/-- the system drivers of the node besides `none`: "coins", "manage" (default `Allow`, no friend for
the transaction shapes used here).  Transactions of generated blocks never name them. -/
def sysRegistry : List Drv :=
  [ { name := [99, 111, 105, 110, 115], sameTime := false, friend := false, userDot2 := false },
    { name := [109, 97, 110, 97, 103, 101], sameTime := false, friend := false, userDot2 := false } ]

def fullRegistry : List Drv := synthRegistry ++ sysRegistry

/-- `types.AllowUserExec` of the harness process: "none" + system dapps + the synthetic names. -/
def synthAllowUser : List Bytes := [110, 111, 110, 101] :: fullRegistry.map (·.name)

/-- `loadDriver`: `LoadDriver(GetRealExecName(execer))` then the driver's `Allow`
(own name, or `user.<name>.<x>`); anything else runs on the `none` driver (`none` here). -/
def loadDriver (env : Env) (execer : Bytes) : Option Drv :=
  let name := C12.getRealExecName execer
  match env.registry.find? (fun d => d.name = name) with
  | some d =>
    if C12.allowIsSame env.cfg d.name execer || (d.userDot2 && C12.allowIsUserDot2 env.cfg d.name execer) then some d
    else none
  | none => none

/-- `(*executor).getRealExecName`. -/
def realExecName (env : Env) (execer : Bytes) : Bytes :=
  match loadDriver env execer with
  | some d => d.name
  | none => execer

/-- "mavl-" ++ self ++ "-fr-" -/
def friendPrefix (self : Bytes) : Bytes := C12.mavlPrefix ++ self ++ [45, 102, 114, 45]
/-- "vfa" -/
def sVfa : Bytes := [118, 102, 97]

/-- the friend oracle of the synthetic universe: `loadDriver({Execer: execdriver}).IsFriend(..)`. -/
def friendOracle (env : Env) (execdriver key txExecer : Bytes) : Bool :=
  match loadDriver env execdriver with
  | some d => d.friend && (friendPrefix execdriver).isPrefixOf key && C12.getRealExecName txExecer = sVfa
  | none => false

/-- `(*executor).isAllowExec`. -/
def isAllowExec (env : Env) (key txExecer : Bytes) : Bool :=
  C12.isAllowKeyWrite env.cfg env.execAddr (friendOracle env) key (realExecName env txExecer) txExecer

structure St where
  sdb : StateDB
  ldb : LocalDB
  deriving Repr, DecidableEq

def St.begin (env : Env) (st : St) : St :=
  if env.forkExecRollback then { sdb := st.sdb.begin true, ldb := st.ldb.begin } else st
def St.commit (env : Env) (st : St) : St :=
  if env.forkExecRollback then { sdb := st.sdb.commit true, ldb := st.ldb.commit } else st
def St.rollback (env : Env) (st : St) : St :=
  if env.forkExecRollback then { sdb := st.sdb.rollback, ldb := st.ldb.rollback } else st
def St.startTx (st : St) : St := { sdb := st.sdb.startTx, ldb := st.ldb.startTx }

def obsOfGet (r : Except DbErr Bytes) : Obs :=
  match r with
  | .ok b => .val (.raw b)
  | .error .notFound => .nf
  | .error .disableRead => .dr
  | .error .disableWrite => .dw

def obsOfSet (r : Except DbErr Unit) : Obs :=
  match r with
  | .ok _ => .ok
  | .error .notFound => .nf
  | .error .disableRead => .dr
  | .error .disableWrite => .dw

def obsOfList (r : Except DbErr (List (Bytes × Bytes))) : Obs :=
  match r with
  | .ok l => .list l
  | .error .notFound => .nf
  | .error .disableRead => .dr
  | .error .disableWrite => .dw

/-- result of a driver call: declared KVs, or an error, or a panic. -/
inductive Ret (α : Type)
  | ok (a : α)
  | err
  | panic

/-- the synthetic driver's `Exec`: returns the declared receipt KVs. -/
def runExecOps : List Op → St → List (Bytes × Val) → List Obs → St × Ret (List (Bytes × Val)) × List Obs
  | [], st, decl, obs => (st, .ok decl, obs)
  | op :: ops, st, decl, obs =>
    match op with
    | .setS k v => runExecOps ops { st with sdb := st.sdb.set k (.raw v) } (decl ++ [(k, .raw v)]) obs
    | .hidS k v => runExecOps ops { st with sdb := st.sdb.set k (.raw v) } decl obs
    | .declS k v => runExecOps ops st (decl ++ [(k, .raw v)]) obs
    | .getS k =>
      let (s, v) := st.sdb.get k
      runExecOps ops { st with sdb := s } decl (obs ++ [match v with | some v => .val v | none => .nf])
    | .setL k v | .hidL k v =>
      let (l, r) := st.ldb.set k v
      runExecOps ops { st with ldb := l } decl (obs ++ [obsOfSet r])
    | .declL _ _ => runExecOps ops st decl obs
    | .getL k =>
      let (l, r) := st.ldb.get k
      runExecOps ops { st with ldb := l } decl (obs ++ [obsOfGet r])
    | .listL p =>
      let (l, r) := st.ldb.list p
      runExecOps ops { st with ldb := l } decl (obs ++ [obsOfList r])
    | .fail => (st, .err, obs)
    | .panic => (st, .panic, obs)

/-- the synthetic driver's `ExecLocal`: returns the declared local KVs. -/
def runLocalOps : List Op → St → List (Bytes × Bytes) → List Obs → St × Ret (List (Bytes × Bytes)) × List Obs
  | [], st, decl, obs => (st, .ok decl, obs)
  | op :: ops, st, decl, obs =>
    match op with
    | .setL k v =>
      let (l, r) := st.ldb.set k v
      runLocalOps ops { st with ldb := l } (decl ++ [(k, v)]) (obs ++ [obsOfSet r])
    | .hidL k v =>
      let (l, r) := st.ldb.set k v
      runLocalOps ops { st with ldb := l } decl (obs ++ [obsOfSet r])
    | .declL k v => runLocalOps ops st (decl ++ [(k, v)]) obs
    | .getL k =>
      let (l, r) := st.ldb.get k
      runLocalOps ops { st with ldb := l } decl (obs ++ [obsOfGet r])
    | .listL p =>
      let (l, r) := st.ldb.list p
      runLocalOps ops { st with ldb := l } decl (obs ++ [obsOfList r])
    | .getS k =>
      let (s, v) := st.sdb.get k
      runLocalOps ops { st with sdb := s } decl (obs ++ [match v with | some v => .val v | none => .nf])
    | .setS _ _ | .hidS _ _ | .declS _ _ => runLocalOps ops st decl obs
    | .fail => (st, .err, obs)
    | .panic => (st, .panic, obs)

/-- outcome of `processFee`/`execFee`. -/
inductive FeeRes
  | ok (feelog : Receipt) (st : St)
  | err (e : Err) (st : St)
  | panic

def emptyPack : Receipt := { ty := 1 }

/-- `execFee` + `processFee` for a chargeable driver on the main chain. -/
def execFee (env : Env) (st : St) (tx : Tx) : FeeRes :=
  if !env.feeOn then .ok emptyPack st
  else
    let (s, v) := st.sdb.get tx.acctKey
    let st := { st with sdb := s }
    let bal? : Option Int := match v with
      | none => some 0                -- LoadAccount: not found ⇒ empty account
      | some (.acct b) => some b
      | some (.raw _) => none         -- undecodable account ⇒ LoadAccount panics
    match bal? with
    | none => .panic
    | some bal =>
      if bal - tx.fee ≥ 0 then
        let nv := Val.acct (bal - tx.fee)
        .ok { ty := 1, kv := [(tx.acctKey, nv)], logs := [.fee bal (bal - tx.fee)] }
            { st with sdb := st.sdb.set tx.acctKey nv }
      else .err .noBalance st

/-- outcome of `execTxOne`. -/
inductive OneRes
  | ok (r : Receipt) (st : St) (obs : List Obs)
  | failed (r : Receipt) (st : St) (obs : List Obs)
  | blockPanic

def addErr (r : Receipt) (e : Err) : Receipt := { r with logs := r.logs ++ [.err e] }

/-- `execLocalTx` for an ExecLocalSameTime driver. `none` = nil error. -/
inductive LocalRes
  | ok (st : St) (obs : List Obs)
  | err (e : Err) (st : St) (obs : List Obs)
  | blockPanic

/-- `for _, kv := range kv.KV { err = e.localDB.Set(kv.Key, kv.Value); if err != nil { panic(err) } }`;
`none` = the panic. -/
def setAll : List (Bytes × Bytes) → LocalDB → Option LocalDB
  | [], l => some l
  | kv :: r, l =>
    match l.set kv.1 kv.2 with
    | (l, .ok _) => setAll r l
    | (_, .error _) => none

def execLocalTx (st : St) (tx : Tx) (obs : List Obs) : LocalRes :=
  match runLocalOps tx.localOps st [] obs with
  | (_, .panic, _) => .blockPanic
  | (st, .err, obs) => .err .fail st obs
  | (st, .ok decl, obs) =>
    let memkvset := st.ldb.keys
    if !decl.isEmpty then
      if !C12.checkKV memkvset (decl.map (·.1)) then .err .memsetLocal st obs
      else if decl.any (fun kv => (C12.isAllowLocalKey tx.execer kv.1).isSome) then .blockPanic   -- checkPrefix panics
      else
        -- `for kv: localDB.Set` (write enabled here; an error would panic)
        let r := setAll decl st.ldb
        match r with
        | some l => .ok { st with ldb := l } obs
        | none => .blockPanic
    else if !memkvset.isEmpty then .err .memsetLocal st obs
    else .ok st obs

/-- `(*executor).isExecLocalSameTime`. -/
def isExecLocalSameTime (env : Env) (execer : Bytes) : Bool :=
  match loadDriver env execer with
  | some d => d.sameTime
  | none => false

/-- `(*executor).Exec`: LocalDB access flags (ForkLocalDBAccess) around the driver's `Exec`, which runs
under `recover` (a panic becomes `Ret.panic` = ErrExecPanic).  The `none` driver returns a nil receipt. -/
def execPhase (env : Env) (st : St) (tx : Tx) : St × Ret (List (Bytes × Val)) × List Obs :=
  let drv := loadDriver env tx.execer
  let same := isExecLocalSameTime env tx.execer
  let st := if env.forkLocalDBAccess then
      { st with ldb := { st.ldb with disablewrite := true, disableread := if same then st.ldb.disableread else true } }
    else st
  let (st, res, obs) := match drv with
    | some _ => runExecOps tx.execOps st [] []
    | none => (st, Ret.ok [], [])
  let st := if env.forkLocalDBAccess then
      { st with ldb := { st.ldb with disablewrite := false, disableread := if same then st.ldb.disableread else false } }
    else st
  (st, res, obs)

/-- tail of `execTxOne`: merge the driver's receipt into the fee receipt, then (ForkStateDBSet) write
every receipt KV through the StateDB. `synth = false` is the nil receipt of the `none` driver. -/
def finishOk (env : Env) (st : St) (feelog : Receipt) (kv : List (Bytes × Val)) (synth : Bool)
    (obs : List Obs) : OneRes :=
  let feelog := if synth then { ty := 2, kv := feelog.kv ++ kv, logs := feelog.logs ++ [.user] } else feelog
  let st := if env.forkStateDBSet then
      { st with sdb := feelog.kv.foldl (fun s p => s.set p.1 p.2) st.sdb }
    else st
  .ok feelog st obs

/-- `execTxOne`. -/
def execTxOne (env : Env) (st : St) (feelog : Receipt) (tx : Tx) : OneRes :=
  let drv := loadDriver env tx.execer
  let same := isExecLocalSameTime env tx.execer
  match execPhase env st.startTx tx with
  | (st, .err, obs) => .failed (addErr feelog .fail) st obs
  | (st, .panic, obs) => .failed (addErr feelog .panic) st obs
  | (st, .ok kv, obs) =>
    if !C12.checkKV st.sdb.keys (kv.map (·.1)) then .failed (addErr feelog .memset) st obs
    else if kv.any (fun p => !isAllowExec env p.1 tx.execer) then .failed (addErr feelog .notAllowKey) st obs
    else if same then
      match execLocalTx st tx obs with
      | .blockPanic => .blockPanic
      | .err e st obs => .failed (addErr feelog e) st obs
      | .ok st obs => finishOk env st feelog kv drv.isSome obs
    else finishOk env st feelog kv drv.isSome obs

/-- result of one unit: receipts and per-transaction observations, or the block-level panic. -/
inductive UnitRes
  | done (rs : List Receipt) (obs : List (List Obs)) (st : St)
  | blockPanic

def errReceipt (e : Err) : Receipt := { ty := 0, logs := [.err e] }

/-- `execTx` (height > 0, not a proxy transaction). -/
def execTx (env : Env) (st : St) (tx : Tx) : UnitRes :=
  if !C12.isAllowExecName env.allowUser (realExecName env tx.execer) tx.execer then
    .done [errReceipt .execName] [[]] st
  else
    match execFee env st tx with
    | .panic => .blockPanic
    | .err e st => .done [errReceipt e] [[]] st
    | .ok feelog st =>
      match execTxOne env (st.begin env) feelog tx with
      | .blockPanic => .blockPanic
      | .failed r st obs => .done [r] [obs] (st.rollback env)
      | .ok r st obs => .done [r] [obs] (st.commit env)

/-- members 1.. of a group: returns the receipts of the executed members so far or the failure. -/
inductive MembersRes
  | ok (rs : List Receipt) (obs : List (List Obs)) (st : St)
  | failed (nBefore : Nat) (r : Receipt) (obs : List (List Obs)) (st : St)
  | blockPanic

def execMembers (env : Env) : List Tx → St → List Receipt → List (List Obs) → MembersRes
  | [], st, rs, obs => .ok rs obs st
  | tx :: txs, st, rs, obs =>
    match execTxOne env st emptyPack tx with
    | .blockPanic => .blockPanic
    | .failed r st o => .failed rs.length r (obs ++ [o]) st
    | .ok r st o => execMembers env txs st (rs ++ [r]) (obs ++ [o])

/-- `execTxGroup` for a well-formed group (`checkTxGroup` passes). -/
def execTxGroup (env : Env) (st : St) (txs : List Tx) : UnitRes :=
  match txs with
  | [] => .done [] [] st
  | head :: members =>
    let n := txs.length
    match execFee env st head with
    | .panic => .blockPanic
    | .err e st => .done (List.replicate n (errReceipt e)) (List.replicate n []) st
    | .ok feelog st =>
      let rollbackLog := feelog
      let st := st.begin env
      match execTxOne env st feelog head with
      | .blockPanic => .blockPanic
      | .failed r0 st o0 =>
        .done (r0 :: List.replicate members.length emptyPack) (o0 :: List.replicate members.length [])
          (st.rollback env)
      | .ok r0 st o0 =>
        match execMembers env members st [] [] with
        | .blockPanic => .blockPanic
        | .failed nb r obs st =>
          let r0' := if env.forkResetTx0 then rollbackLog else r0
          .done (r0' :: (List.replicate nb emptyPack ++ [r] ++ List.replicate (members.length - nb - 1) emptyPack))
            (o0 :: (obs ++ List.replicate (members.length - nb - 1) []))
            (st.rollback env)
        | .ok rs obs st => .done (r0 :: rs) (o0 :: obs) (st.commit env)

def execUnit (env : Env) (st : St) : TxUnit → UnitRes
  | .single tx => execTx env st tx
  | .group txs => execTxGroup env st txs

/-- the per-block loop of `procExecTxList`. -/
def execBlock (env : Env) : List TxUnit → St → List Receipt → List (List Obs) → Option (List Receipt × List (List Obs) × St)
  | [], st, rs, obs => some (rs, obs, st)
  | u :: us, st, rs, obs =>
    match execUnit env st u with
    | .blockPanic => none
    | .done r o st => execBlock env us st (rs ++ r) (obs ++ o)

/-- a fresh environment for a block on top of `store` / local main db `main`. -/
def initSt (store : List (Bytes × Val)) (main : List (Bytes × Bytes)) : St :=
  { sdb := { store := store }, ldb := { remote := { main := main } } }

def runBlock (env : Env) (store : List (Bytes × Val)) (main : List (Bytes × Bytes)) (us : List TxUnit) :
    Option (List Receipt × List (List Obs)) :=
  match execBlock env us (initSt store main) [] [] with
  | some (rs, obs, _) => some (rs, obs)
  | none => none

/-- the transaction that "only pays its fee": same sender, fee and executor, fails at once. -/
def feeOnly (tx : Tx) : Tx := { tx with execOps := [.fail], localOps := [] }

end C11
