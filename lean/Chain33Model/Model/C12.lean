/-
C12 — who may write which key.  Byte-level executable model (core Lean only) of

* `types.FindExecer`, `types.GetExecKey`, `(*Chain33Config).GetParaExec`, `types.GetParaExecName`,
  `types.GetRealExecName`, `types.IsAllowExecName`                          (types/types.go)
* `isAllowKeyWrite`, `isAllowLocalKey`, `isAllowLocalKey2`                  (executor/allow.go)
* `(*executor).checkKV`                                                     (executor/execenv.go)
* `DriverBase.AllowIsSame / AllowIsUserDot2`                                (system/dapp/allow.go)

Index loops of the Go code are written as structural recursion over the byte list
(`splitAt1` = "scan to the first occurrence of a byte").  Things the code obtains from outside
are parameters: the chain configuration (`Cfg`), the address function `execAddr`
(`drivers.ExecAddress`, a hash) and the friend oracle (`loadDriver(execdriver).IsFriend(..)`).
-/
namespace C12

abbrev Bytes := List UInt8

def dash : UInt8 := 45      -- '-'
def colon : UInt8 := 58     -- ':'
def dot : UInt8 := 46       -- '.'
def sharp : UInt8 := 35     -- '#'

/-- "mavl-" -/
def mavlPrefix : Bytes := [109, 97, 118, 108, 45]
/-- "exec" (the Go code compares `key[start:end+1]` with "exec-", i.e. this segment plus the dash) -/
def execSeg : Bytes := [101, 120, 101, 99]
/-- "LODB" -/
def localPrefix : Bytes := [76, 79, 68, 66]
/-- "user." -/
def userKey : Bytes := [117, 115, 101, 114, 46]
/-- "user.p." -/
def paraKey : Bytes := [117, 115, 101, 114, 46, 112, 46]
/-- "manage", "config", "token", "mavl-create-token-" (pre-`ForkExecKey` exceptions) -/
def sManage : Bytes := [109, 97, 110, 97, 103, 101]
def sConfig : Bytes := [99, 111, 110, 102, 105, 103]
def sToken : Bytes := [116, 111, 107, 101, 110]
def sCreateToken : Bytes :=
  [109, 97, 118, 108, 45, 99, 114, 101, 97, 116, 101, 45, 116, 111, 107, 101, 110, 45]

/-- scan to the first `c`: `(bytes before it, bytes after it)`; `none` when `c` does not occur. -/
def splitAt1 (c : UInt8) : Bytes → Option (Bytes × Bytes)
  | [] => none
  | x :: xs =>
    if x = c then some ([], xs)
    else match splitAt1 c xs with
      | some (a, b) => some (x :: a, b)
      | none => none

inductive FindErr | notMavl | noExecer
  deriving DecidableEq, Repr

/-- `types.FindExecer`. -/
def findExecer (key : Bytes) : Except FindErr Bytes :=
  if mavlPrefix.isPrefixOf key then
    match splitAt1 dash (key.drop 5) with
    | some (x, _) => .ok x
    | none => .error .noExecer
  else .error .notMavl

/-- `types.GetExecKey`: the address `a` in `?????x-y-exec-a:…` (the first five bytes are skipped
without being looked at, exactly as the Go loop starts at `len("mavl-")`). -/
def getExecKey (key : Bytes) : Option Bytes :=
  match splitAt1 dash (key.drop 5) with
  | none => none
  | some (_, r1) =>
    match splitAt1 dash r1 with
    | none => none
    | some (_, r2) =>
      match splitAt1 dash r2 with
      | none => none
      | some (z, r3) =>
        if z = execSeg then
          match splitAt1 colon r3 with
          | some (a, _) => some a
          | none => none
        else none

structure Cfg where
  isPara : Bool
  title : Bytes
  /-- `cfg.IsFork(height, "ForkExecKey")` -/
  forkExecKey : Bool
  deriving Repr

/-- `(*Chain33Config).GetParaExec`. -/
def getParaExec (cfg : Cfg) (execer : Bytes) : Bytes :=
  if !cfg.isPara then execer
  else if cfg.title.isPrefixOf execer then execer.drop cfg.title.length
  else execer

/-- bytes after the `n`-th dot. -/
def afterDots : Nat → Bytes → Option Bytes
  | 0, xs => some xs
  | n + 1, xs =>
    match splitAt1 dot xs with
    | some (_, r) => afterDots n r
    | none => none

/-- `types.GetParaExecName`: strip `user.p.<title>.` when something follows the third dot. -/
def getParaExecName (execer : Bytes) : Bytes :=
  if paraKey.isPrefixOf execer then
    match afterDots 3 execer with
    | some r => if r.isEmpty then execer else r
    | none => execer
  else execer

/-- `types.GetRealExecName`. -/
def getRealExecName (execer : Bytes) : Bytes :=
  let e := getParaExecName execer
  if paraKey.isPrefixOf e then e
  else if userKey.isPrefixOf e then
    let r := e.drop 5
    let x := match splitAt1 dot r with
      | some (x, _) => x
      | none => r
    if x.isEmpty then e else x
  else e

/-- `types.IsAllowExecName` (`allowUser` = `types.AllowUserExec`, max name length 100). -/
def isAllowExecName (allowUser : List Bytes) (name execer : Bytes) : Bool :=
  if name.length > 100 || execer.length > 100 then false
  else if name.length < 3 || execer.length < 3 then false
  else if name.contains dash || name.contains sharp then false
  else if name != execer && name != getRealExecName execer then false
  else if userKey.isPrefixOf name then true
  else allowUser.contains name

/-- `isAllowKeyWrite` (executor/allow.go).  `execAddr` = `drivers.ExecAddress`;
`friend execdriver key txExecer` = `loadDriver({Execer: execdriver}).IsFriend(execdriver, key, tx)`. -/
def isAllowKeyWrite (cfg : Cfg) (execAddr : Bytes → Bytes) (friend : Bytes → Bytes → Bytes → Bool)
    (key realExecer txExecer : Bytes) : Bool :=
  match findExecer key with
  | .error _ => false
  | .ok keyExecer =>
    let exec := getParaExec cfg txExecer
    if keyExecer = exec then true
    else if !cfg.forkExecKey && exec = sManage && keyExecer = sConfig then true
    else if !cfg.forkExecKey && exec = sToken && sCreateToken.isPrefixOf key then true
    else
      let ek := getExecKey key
      if ek = some (execAddr txExecer) then true
      else
        let execdriver := if ek = some (execAddr realExecer) then realExecer else keyExecer
        friend execdriver key txExecer

inductive LocalErr | prefix | keyLen
  deriving DecidableEq, Repr

/-- `isAllowLocalKey2`: `none` = nil error. -/
def isAllowLocalKey2 (execer key : Bytes) : Option LocalErr :=
  if execer.length < 1 then some .prefix
  else
    let minkeylen := localPrefix.length + execer.length + 2
    if key.length ≤ minkeylen then some .keyLen
    else if key[minkeylen - 1]? != some dash || key[localPrefix.length]? != some dash then some .prefix
    else if !localPrefix.isPrefixOf key then some .prefix
    else if !execer.isPrefixOf (key.drop (localPrefix.length + 1)) then some .prefix
    else none

/-- `isAllowLocalKey`: second chance with the real executor name. -/
def isAllowLocalKey (execer key : Bytes) : Option LocalErr :=
  match isAllowLocalKey2 execer key with
  | none => none
  | some e =>
    let real := getRealExecName execer
    if real != execer then isAllowLocalKey2 real key else some e

/-- `(*executor).checkKV`: every key written through the db must be reported. -/
def checkKV (memset : List Bytes) (kvKeys : List Bytes) : Bool :=
  memset.all (fun k => kvKeys.contains k)

/-- `DriverBase.AllowIsSame`. -/
def allowIsSame (cfg : Cfg) (driverName execer : Bytes) : Bool :=
  getParaExec cfg execer = driverName

/-- `DriverBase.AllowIsUserDot2`: `user.<driver>.<x>` with exactly one dot after `user.`. -/
def allowIsUserDot2 (cfg : Cfg) (driverName execer : Bytes) : Bool :=
  let e := getParaExec cfg execer
  if userKey.isPrefixOf e then
    let r := e.drop 5
    match splitAt1 dot r with
    | none => false
    | some (x, rest) => !rest.contains dot && allowIsSame cfg driverName x
  else false

end C12
