/-
C13 — block execution is deterministic.

A Lean function is deterministic by construction, so the model puts the content where Go is NOT: every source of
run-to-run variation on the execution path is an explicit argument (an arrival order, a map iteration order) and
the theorems of Props/C13.lean prove the result independent of it.  Core Lean only.

  sortI            executor/plugin.go sortedPluginNames, types/tx.go TransactionSort: keys collected in map order,
                   then `sort.Strings`
  collect          common/merkle/merkle.go GetMerkleRoot / calcMultiLayerMerkleInfo: `childlist[sub.index] = sub.hash`
                   for results arriving on a channel in any order
  verifyLoop       types/block.go verifyTxsSignature: `for r := range c { if !r.isok { return false } }; return true`
  delDup           util/exec.go DelDupKey (first-seen position, last value)
  checkKV          executor/execenv.go checkKV (key set built from the receipt, every written key looked up)
  mergeInto        executor/localdb.go cacheDB.Merge (`for k, v := range db2.data { db.data[k] = v }`)
  checkFlag        executor/plugin.go pluginBase.checkFlag (cached enable flag of the GLOBAL plugin instances)
  runHelpers       the helpers above composed for one block (two_runs_equal_partial)
  findByValue      types/executor.go ExecTypeBase.ActionName (`for k, v := range tm { if v == ty { return k } }`)

`expectedSites` is the committed list of variation sites (regenerated from /repo's current source on every run
by the extractor in harness/cmd/h_c13/sites.go); each names the theorem that models it or why it is benign.
-/
namespace C13

/-! ### sorted names -/

/-- insertion into a sorted list. -/
def ins {α : Type} (le : α → α → Bool) (a : α) : List α → List α
  | [] => [a]
  | b :: rest => if le a b then a :: b :: rest else b :: ins le a rest

/-- `sort.Strings` (any sorting algorithm yields this list for a linear order). -/
def sortI {α : Type} (le : α → α → Bool) : List α → List α
  | [] => []
  | a :: rest => ins le a (sortI le rest)

/-! ### fan-in by index -/

/-- `childlist := make([][]byte, n); for range n { sub := <-ch; childlist[sub.index] = sub.hash }`. -/
def collect {α : Type} (n : Nat) (arrivals : List (Nat × α)) : List (Option α) :=
  arrivals.foldl (fun acc p => acc.set p.1 (some p.2)) (List.replicate n none)

/-! ### signature verification fan-in -/

def verifyLoop : List Bool → Bool
  | [] => true
  | r :: rest => if !r then false else verifyLoop rest

/-- the worker pool of `verifyTxsSignature`: `w` goroutines (`w = runtime.NumCPU()`) take transactions from one shared
channel; `takes[i] < w` is the worker that happened to take transaction `i` (with `w = 0` nobody can take anything:
`wg.Wait()` returns at once, the result channel is closed empty). The result lists of the workers, in worker order: -/
def workerResults (w : Nat) (takes : List Nat) (verdicts : List Bool) : List (List Bool) :=
  (List.range w).map fun k => ((takes.zip verdicts).filter (fun p => p.1 = k)).map (·.2)

/-! ### DelDupKey -/

/-- one iteration: a key seen before overwrites the entry at its first position, a new key is appended. -/
def delDupStep {K V : Type} [DecidableEq K] (out : List (K × V)) (kv : K × V) : List (K × V) :=
  if out.any (fun p => p.1 = kv.1) then out.map (fun p => if p.1 = kv.1 then kv else p) else out ++ [kv]

def delDup {K V : Type} [DecidableEq K] (kvs : List (K × V)) : List (K × V) := kvs.foldl delDupStep []

/-! ### checkKV -/

/-- `true` = nil error; `false` = ErrNotAllowMemSetKey. -/
def checkKV {K V : Type} [DecidableEq K] (memset : List K) (kvs : List (K × V)) : Bool :=
  memset.all (fun k => kvs.any (fun p => p.1 = k))

/-! ### cacheDB.Merge -/

/-- a Go map as a function. -/
def mergeInto {K V : Type} [DecidableEq K] (m : K → Option V) (entries : List (K × V)) : K → Option V :=
  entries.foldl (fun acc p => fun k => if k = p.1 then some p.2 else acc k) m

/-! ### ActionName -/

def findByValue {K V : Type} [DecidableEq V] (ty : V) : List (K × V) → Option K
  | [] => none
  | (k, v) :: rest => if v = ty then some k else findByValue ty rest

/-! ### pluginBase.checkFlag (stat / mvcc plugins): the only process-history dependent site -/

inductive FlagRes where
  | disabled
  | err                          -- types.ErrDBFlag (the callers panic)
  | ok (kv : List Nat)           -- the emitted flag KVs (values)
  deriving Repr, DecidableEq

/-- `cached` is `pluginBase.flag` of the GLOBAL plugin instance (0 = not loaded yet), `db` the flag stored in the local
database of the chain being executed (0 = absent). Returns the outcome and the new cached value. -/
def checkFlag (enable : Bool) (cached db height : Nat) : FlagRes × Nat :=
  if !enable then (.disabled, cached) else
  let c := if cached = 0 then db else cached
  if height ≠ 0 ∧ c = 0 then (.err, c)
  else if height = 0 then (.ok [1], 1)
  else (.ok [], c)

/-! ### one block through the modelled helpers -/

/-- everything the Go runtime chooses in one execution of a block, as far as the modelled helpers are concerned. -/
structure Sched (Name Hash K V : Type) where
  pluginOrder : List Name              -- iteration order of `globalPlugins`
  merkleArrivals : List (Nat × Hash)   -- arrival order of the merkle child results
  workers : Nat                        -- runtime.NumCPU()
  takes : List Nat                     -- which signature worker took which transaction
  sigArrivals : List Bool              -- arrival order of the signature verdicts
  mergeOrder : List (K × V)            -- iteration order of the per-transaction cache being merged

/-- what the modelled helpers contribute to the result of executing one block. -/
structure BlockOut (Name Hash K V : Type) where
  plugins : List Name
  children : List (Option Hash)
  sigOk : Bool
  kvs : List (K × V)
  kvAllowed : Bool
  cache : K → Option V

def runHelpers {Name Hash K V : Type} [DecidableEq K] (le : Name → Name → Bool) (n : Nat) (receiptKVs : List (K × V))
    (memset : List K) (cache0 : K → Option V) (s : Sched Name Hash K V) : BlockOut Name Hash K V :=
  { plugins := sortI le s.pluginOrder
    children := collect n s.merkleArrivals
    sigOk := verifyLoop s.sigArrivals
    kvs := delDup receiptKVs
    kvAllowed := checkKV memset receiptKVs
    cache := mergeInto cache0 s.mergeOrder }

/-! ### the committed site list -/

def expectedSites : List (String × String) := [
  ("ncpu common/merkle/merkle.go GetMerkleRoot runtime.NumCPU in `ncpu := runtime.NumCPU()`", "modelled: fanin_by_index for the collection; the dependence of the chunking on the worker count is property C18 (NumCPU >= 1; ncpu <= 1 takes the sequential path)"),
  ("ncpu types/block.go verifyTxsSignature runtime.NumCPU in `cpuNum := runtime.NumCPU()`", "modelled: verify_worker_count_irrelevant (every worker count >= 1 gives the conjunction of all verdicts; NumCPU() is always >= 1; zero_workers_accept_invalid shows why 0 must not occur)"),
  ("field-write common/db/go_ssdb.go SsdbBench.read SsdbBench.readCount", "benign: latency counters of the ssdb backend (not a configured backend of the execution path), only printed"),
  ("field-write common/db/go_ssdb.go SsdbBench.read SsdbBench.readNum", "benign: latency counters of the ssdb backend (not a configured backend of the execution path), only printed"),
  ("field-write common/db/go_ssdb.go SsdbBench.read SsdbBench.readTime", "benign: latency counters of the ssdb backend (not a configured backend of the execution path), only printed"),
  ("field-write common/db/go_ssdb.go SsdbBench.write SsdbBench.writeCount", "benign: latency counters of the ssdb backend (not a configured backend of the execution path), only printed"),
  ("field-write common/db/go_ssdb.go SsdbBench.write SsdbBench.writeNum", "benign: latency counters of the ssdb backend (not a configured backend of the execution path), only printed"),
  ("field-write common/db/go_ssdb.go SsdbBench.write SsdbBench.writeTime", "benign: latency counters of the ssdb backend (not a configured backend of the execution path), only printed"),
  ("field-write executor/plugin.go pluginBase.checkFlag pluginBase.flag", "history-dependent: process-local copy of the database enable flag kept in the GLOBAL plugin instance (globalPlugins); modelled by checkFlag: checkFlag_genesis_history_independent, checkFlag_history_independent_consistent, checkFlag_history_dependent_on_flagless_db; tied only by the repeated-execution predicate (enableStat / enableMVCC configurations, warm processes that already executed another genesis, local KV set and database of height 0)"),
  ("field-write executor/plugin.go pluginBase.checkFlag pluginBase.flag#2", "history-dependent: process-local copy of the database enable flag kept in the GLOBAL plugin instance (globalPlugins); modelled by checkFlag: checkFlag_genesis_history_independent, checkFlag_history_independent_consistent, checkFlag_history_dependent_on_flagless_db; tied only by the repeated-execution predicate (enableStat / enableMVCC configurations, warm processes that already executed another genesis, local KV set and database of height 0)"),
  ("clock common/db/go_pegasus.go PegasusDB.Get time.Now", "benign: latency logging inside a database backend that is reachable only through the KV interface (not a configured backend of the execution path)"),
  ("clock common/db/go_pegasus.go PegasusDB.Get time.Since", "benign: latency logging inside a database backend that is reachable only through the KV interface (not a configured backend of the execution path)"),
  ("clock common/db/go_pegasus.go PegasusDB.Set time.Now", "benign: latency logging inside a database backend that is reachable only through the KV interface (not a configured backend of the execution path)"),
  ("clock common/db/go_pegasus.go PegasusDB.Set time.Since", "benign: latency logging inside a database backend that is reachable only through the KV interface (not a configured backend of the execution path)"),
  ("clock common/db/go_pegasus.go PegasusIt.Valid time.Now", "benign: latency logging inside a database backend that is reachable only through the KV interface (not a configured backend of the execution path)"),
  ("clock common/db/go_pegasus.go PegasusIt.Valid time.Since", "benign: latency logging inside a database backend that is reachable only through the KV interface (not a configured backend of the execution path)"),
  ("clock common/db/go_ssdb.go GoSSDB.Get time.Now", "benign: latency logging inside a database backend that is reachable only through the KV interface (not a configured backend of the execution path)"),
  ("clock common/db/go_ssdb.go GoSSDB.Get time.Since", "benign: latency logging inside a database backend that is reachable only through the KV interface (not a configured backend of the execution path)"),
  ("clock common/db/go_ssdb.go GoSSDB.Iterator time.Now", "benign: latency logging inside a database backend that is reachable only through the KV interface (not a configured backend of the execution path)"),
  ("clock common/db/go_ssdb.go GoSSDB.Iterator time.Since", "benign: latency logging inside a database backend that is reachable only through the KV interface (not a configured backend of the execution path)"),
  ("clock common/db/go_ssdb.go GoSSDB.Set time.Now", "benign: latency logging inside a database backend that is reachable only through the KV interface (not a configured backend of the execution path)"),
  ("clock common/db/go_ssdb.go GoSSDB.Set time.Since", "benign: latency logging inside a database backend that is reachable only through the KV interface (not a configured backend of the execution path)"),
  ("clock common/db/go_ssdb.go ssDBIt.Valid time.Now", "benign: latency logging inside a database backend that is reachable only through the KV interface (not a configured backend of the execution path)"),
  ("clock common/db/go_ssdb.go ssDBIt.Valid time.Since", "benign: latency logging inside a database backend that is reachable only through the KV interface (not a configured backend of the execution path)"),
  ("clock common/db/go_ssdb_util.go SDBClient.recv time.Now", "benign: latency logging inside a database backend that is reachable only through the KV interface (not a configured backend of the execution path)"),
  ("clock common/db/go_ssdb_util.go SDBClient.send time.Now", "benign: latency logging inside a database backend that is reachable only through the KV interface (not a configured backend of the execution path)"),
  ("clock types/time.go Now time.Now", "benign: the clock wrapper itself"),
  ("clock types/time.go Since types.Now", "benign: the clock wrapper itself"),
  ("clock util/util.go ExecBlock types.Now", "benign: elapsed-time logging only (beg := types.Now(); ... types.Since(beg)); the value never reaches receipts, KVs or hashes"),
  ("clock util/util.go ExecBlock types.Now#2", "benign: elapsed-time logging only (beg := types.Now(); ... types.Since(beg)); the value never reaches receipts, KVs or hashes"),
  ("clock util/util.go ExecBlock types.Since", "benign: elapsed-time logging only (beg := types.Now(); ... types.Since(beg)); the value never reaches receipts, KVs or hashes"),
  ("clock util/util.go ExecBlock types.Since#2", "benign: elapsed-time logging only (beg := types.Now(); ... types.Since(beg)); the value never reaches receipts, KVs or hashes"),
  ("clock util/util.go PreExecBlock types.Now", "benign: elapsed-time logging only (beg := types.Now(); ... types.Since(beg)); the value never reaches receipts, KVs or hashes"),
  ("clock util/util.go PreExecBlock types.Now#10", "benign: elapsed-time logging only (beg := types.Now(); ... types.Since(beg)); the value never reaches receipts, KVs or hashes"),
  ("clock util/util.go PreExecBlock types.Now#11", "benign: elapsed-time logging only (beg := types.Now(); ... types.Since(beg)); the value never reaches receipts, KVs or hashes"),
  ("clock util/util.go PreExecBlock types.Now#12", "benign: elapsed-time logging only (beg := types.Now(); ... types.Since(beg)); the value never reaches receipts, KVs or hashes"),
  ("clock util/util.go PreExecBlock types.Now#2", "benign: elapsed-time logging only (beg := types.Now(); ... types.Since(beg)); the value never reaches receipts, KVs or hashes"),
  ("clock util/util.go PreExecBlock types.Now#3", "benign: elapsed-time logging only (beg := types.Now(); ... types.Since(beg)); the value never reaches receipts, KVs or hashes"),
  ("clock util/util.go PreExecBlock types.Now#4", "benign: elapsed-time logging only (beg := types.Now(); ... types.Since(beg)); the value never reaches receipts, KVs or hashes"),
  ("clock util/util.go PreExecBlock types.Now#5", "benign: elapsed-time logging only (beg := types.Now(); ... types.Since(beg)); the value never reaches receipts, KVs or hashes"),
  ("clock util/util.go PreExecBlock types.Now#6", "benign: elapsed-time logging only (beg := types.Now(); ... types.Since(beg)); the value never reaches receipts, KVs or hashes"),
  ("clock util/util.go PreExecBlock types.Now#7", "benign: elapsed-time logging only (beg := types.Now(); ... types.Since(beg)); the value never reaches receipts, KVs or hashes"),
  ("clock util/util.go PreExecBlock types.Now#8", "benign: elapsed-time logging only (beg := types.Now(); ... types.Since(beg)); the value never reaches receipts, KVs or hashes"),
  ("clock util/util.go PreExecBlock types.Now#9", "benign: elapsed-time logging only (beg := types.Now(); ... types.Since(beg)); the value never reaches receipts, KVs or hashes"),
  ("clock util/util.go PreExecBlock types.Since", "benign: elapsed-time logging only (beg := types.Now(); ... types.Since(beg)); the value never reaches receipts, KVs or hashes"),
  ("clock util/util.go PreExecBlock types.Since#10", "benign: elapsed-time logging only (beg := types.Now(); ... types.Since(beg)); the value never reaches receipts, KVs or hashes"),
  ("clock util/util.go PreExecBlock types.Since#11", "benign: elapsed-time logging only (beg := types.Now(); ... types.Since(beg)); the value never reaches receipts, KVs or hashes"),
  ("clock util/util.go PreExecBlock types.Since#12", "benign: elapsed-time logging only (beg := types.Now(); ... types.Since(beg)); the value never reaches receipts, KVs or hashes"),
  ("clock util/util.go PreExecBlock types.Since#2", "benign: elapsed-time logging only (beg := types.Now(); ... types.Since(beg)); the value never reaches receipts, KVs or hashes"),
  ("clock util/util.go PreExecBlock types.Since#3", "benign: elapsed-time logging only (beg := types.Now(); ... types.Since(beg)); the value never reaches receipts, KVs or hashes"),
  ("clock util/util.go PreExecBlock types.Since#4", "benign: elapsed-time logging only (beg := types.Now(); ... types.Since(beg)); the value never reaches receipts, KVs or hashes"),
  ("clock util/util.go PreExecBlock types.Since#5", "benign: elapsed-time logging only (beg := types.Now(); ... types.Since(beg)); the value never reaches receipts, KVs or hashes"),
  ("clock util/util.go PreExecBlock types.Since#6", "benign: elapsed-time logging only (beg := types.Now(); ... types.Since(beg)); the value never reaches receipts, KVs or hashes"),
  ("clock util/util.go PreExecBlock types.Since#7", "benign: elapsed-time logging only (beg := types.Now(); ... types.Since(beg)); the value never reaches receipts, KVs or hashes"),
  ("clock util/util.go PreExecBlock types.Since#8", "benign: elapsed-time logging only (beg := types.Now(); ... types.Since(beg)); the value never reaches receipts, KVs or hashes"),
  ("clock util/util.go PreExecBlock types.Since#9", "benign: elapsed-time logging only (beg := types.Now(); ... types.Since(beg)); the value never reaches receipts, KVs or hashes"),
  ("global common/address/address.go CheckAddress address.checkAddressCache", "benign: memoisation of a pure function of its key (history-independence is property C19)"),
  ("global common/address/address.go CheckAddress address.drivers", "benign: registry filled during package initialisation, read-only afterwards, looked up by key only"),
  ("global common/address/address.go ExecAddress address.execAddrCache", "benign: memoisation of a pure function of its key (history-independence is property C19)"),
  ("global common/address/address.go ExecPubKey address.execPubKeyCache", "benign: memoisation of a pure function of its key (history-independence is property C19)"),
  ("global common/address/driver.go LoadDriver address.drivers", "benign: registry filled during package initialisation, read-only afterwards, looked up by key only"),
  ("global common/address/driver.go MustLoadDriver address.drivers", "benign: registry filled during package initialisation, read-only afterwards, looked up by key only"),
  ("global common/crypto/crypto.go GetName crypto.driversType", "benign: registry filled during package initialisation, read-only afterwards, looked up by key only"),
  ("global common/crypto/crypto.go load crypto.drivers", "benign: registry filled during package initialisation, read-only afterwards, looked up by key only"),
  ("global executor/executor.go Executor.procExecAddBlock executor.globalPlugins", "modelled: plugins_order_irrelevant (read-only after init; iterated through sortedPluginNames)"),
  ("global executor/executor.go Executor.procExecDelBlock executor.globalPlugins", "modelled: plugins_order_irrelevant (read-only after init; iterated through sortedPluginNames)"),
  ("global executor/plugin.go sortedPluginNames executor.globalPlugins", "modelled: plugins_order_irrelevant (read-only after init; iterated through sortedPluginNames)"),
  ("global system/address/btc/address.go btc.PubKeyToAddr btc.normalAddrCache", "benign: memoisation of a pure function of its key (history-independence is property C19)"),
  ("global system/address/btc/address.go btcMultiSign.PubKeyToAddr btc.multiSignAddrCache", "benign: memoisation of a pure function of its key (history-independence is property C19)"),
  ("global system/address/eth/address.go eth.PubKeyToAddr eth.addrCache", "benign: memoisation of a pure function of its key (history-independence is property C19)"),
  ("global system/dapp/coins/types/types.go CoinsType.GetLogMap types.logmap", "benign: registry filled during package initialisation, read-only afterwards, looked up by key only"),
  ("global system/dapp/coins/types/types.go CoinsType.GetTypeMap types.actionName", "benign: registry filled during package initialisation, read-only afterwards, looked up by key only"),
  ("global system/dapp/manage/types/types.go ManageType.GetLogMap types.logmap", "benign: registry filled during package initialisation, read-only afterwards, looked up by key only"),
  ("global system/dapp/manage/types/types.go ManageType.GetTypeMap types.actionName", "benign: registry filled during package initialisation, read-only afterwards, looked up by key only"),
  ("global system/dapp/none/types/types.go NoneType.GetLogMap types.logmap", "benign: registry filled during package initialisation, read-only afterwards, looked up by key only"),
  ("global system/dapp/none/types/types.go NoneType.GetTypeMap types.actionName", "benign: registry filled during package initialisation, read-only afterwards, looked up by key only"),
  ("global system/dapp/register.go ExecAddress dapp.execAddressNameMap", "benign: registry filled during package initialisation, read-only afterwards, looked up by key only"),
  ("global system/dapp/register.go IsDriverAddress dapp.execDrivers", "benign: registry filled during package initialisation, read-only afterwards, looked up by key only"),
  ("global system/dapp/register.go LoadDriver dapp.registedExecDriver", "benign: registry filled during package initialisation, read-only afterwards, looked up by key only"),
  ("global types/account_blacklist.go IsBlockedAccount types.blockedAccountSet", "benign: configuration set once at start-up (property C31)"),
  ("global types/account_blacklist.go IsBlockedAccountRaw types.blockedAccountSet", "benign: configuration set once at start-up (property C31)"),
  ("global types/account_blacklist.go checkTxBlockedAccountCore types.blockedAccountSet", "benign: configuration set once at start-up (property C31)"),
  ("global types/executor.go LoadExecutorType types.executorMap", "benign: registry filled during package initialisation, read-only afterwards, looked up by key only"),
  ("global types/executor.go getLogType types.SystemLog", "benign: registry filled during package initialisation, read-only afterwards, looked up by key only"),
  ("global types/tx.go FreeTx types.txPool", "benign: sync.Pool of scratch objects that are fully overwritten before use"),
  ("global types/tx.go NewTx types.txPool", "benign: sync.Pool of scratch objects that are fully overwritten before use"),
  ("global types/tx.go Transaction.FullHash types.txProtoBufferPool", "benign: sync.Pool of scratch objects that are fully overwritten before use"),
  ("global types/tx.go Transaction.Hash types.txProtoBufferPool", "benign: sync.Pool of scratch objects that are fully overwritten before use"),
  ("go common/merkle/merkle.go GetMerkleRoot ", "modelled: fanin_by_index (results stored by index, arrival order is the permutation parameter)"),
  ("go common/merkle/merkle.go calcMultiLayerMerkleInfo ", "modelled: fanin_by_index (results stored by index, arrival order is the permutation parameter)"),
  ("go types/block.go gen ", "modelled: verify_all_order_irrelevant (conjunction of the worker results in arrival order)"),
  ("go types/block.go verifyTxsSignature ", "modelled: verify_all_order_irrelevant (conjunction of the worker results in arrival order)"),
  ("go types/block.go verifyTxsSignature #2", "modelled: verify_all_order_irrelevant (conjunction of the worker results in arrival order)"),
  ("go util/util.go PreExecBlock ", "modelled: verify_all_order_irrelevant (duplicate check runs beside execution; its single result is awaited before anything is used)"),
  ("range-map executor/localdb.go cacheDB.Merge db2.data", "modelled: merge_order_irrelevant (writes to pairwise distinct keys)"),
  ("range-map executor/localdb.go cacheDB.Reset db.data", "benign: deletes every key"),
  ("range-map executor/plugin.go sortedPluginNames globalPlugins", "modelled: plugins_order_irrelevant (keys collected in map order, then sort.Strings)"),
  ("range-map types/executor.go ExecTypeBase.ActionName tm", "modelled: findByValue_order_irrelevant (first match in map order; the action-number maps are injective)"),
  ("range-map types/tx.go TransactionSort txMap", "modelled: plugins_order_irrelevant (titles collected in map order, then sort.Strings)"),
  ("select types/block.go checksign 2-way", "modelled: verify_all_order_irrelevant (two-way select between delivering a result and the done channel; only affects which results are delivered after a failure)"),
  ("select types/block.go gen 2-way", "modelled: verify_all_order_irrelevant (two-way select between delivering a result and the done channel; only affects which results are delivered after a failure)")
]

end C13
