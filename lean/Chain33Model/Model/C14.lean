/-
C14 — local indexes are exactly undone when a block is removed.

Model of the local-index writers of /repo as KV-delta generators over a key/value store:
  executor/plugin_txindex.go, plugin_addrindex.go, plugin_addrfeeindex.go, plugin_fee.go,
  plugin_kvmvcc.go (+ common/db/mvcc.go AddMVCC/DelMVCC), system/dapp/coins/executor/exec_local.go,
  exec_del_local.go (both sides only for receipts ExecOk; removal through DriverBase.callLocal), the plugin / per-transaction
  order of executor.go procExecAddBlock / procExecDelBlock, and blockchain/blockstore.go AddTxs / DelTxs
  (nil value => delete, else set, in list order).
Core Lean only.

Keys are structured (the driver renders them to the byte strings of types/localkv.go and
common/db/mvcc.go, so the rendering is part of the differential tie). Values are structured where the
code decodes them again (counters `types.Int64`, `types.TotalFee`, the MVCC key list) and opaque blobs
otherwise.
-/
namespace C14

abbrev Bytes := List UInt8

/-- `types.MaxTxsPerBlock`. -/
def maxTxs : Nat := 100000

/-- `height*types.MaxTxsPerBlock+index`, printed with `%018d`. -/
def slot (height index : Nat) : Nat := height * maxTxs + index

inductive Key where
  | tx (quick : Bool) (h : Bytes)          -- cfg.CalcTxKey: "TX:"++hash when quickIndex, else the raw hash
  | etx (h : Bytes)                          -- "ETX:"++ethhash
  | stx (h8 : Bytes)                         -- "STX:"++hash[0:8]
  | addrHash (a : Bytes) (s : Nat)           -- "TxAddrHash:"addr":"%018d
  | addrDir (a : Bytes) (dir : Nat) (s : Nat) -- "TxAddrDirHash:"addr":"dir":"%018d
  | feeDir (a : Bytes) (s : Nat)             -- "TxFeeAddrDirHash:"addr":1:"%018d
  | count (a : Bytes)                        -- "AddrTxsCount:"addr
  | totalFee (bh : Bytes)                    -- "TotalFeeKey:"blockhash
  | recv (a : Bytes)                         -- "LODB-coins-Addr:"addr
  | mvHash (h : Bytes)                       -- ".-mvcc-.m."statehash
  | mvVer (v : Nat)                          -- ".-mvcc-.m.version."%020d
  | mvData (k : Bytes) (v : Nat)             -- ".-mvcc-.d."key"."%020d
  | mvKL (v : Nat)                           -- ".-mvcc-.m.versionkl."%020d
  deriving DecidableEq, Repr

inductive Val where
  | blob (b : Bytes)            -- opaque bytes
  | int (n : Int)               -- types.Int64{Data:n}
  | fee (f c : Int)             -- types.TotalFee{Fee:f, TxCount:c}
  | keys (ks : List Bytes)      -- types.LocalDBSet{KV:[{Key:k}]...}
  deriving DecidableEq, Repr

/-- the short-hash key `STX:hash[:8]` (shared by all transactions whose hashes agree on the first 8 bytes). -/
def Key.isStx : Key → Bool
  | .stx _ => true
  | _ => false

/-- the protobuf encoding of the value is the empty byte string. -/
def Val.isEmptyEnc : Val → Bool
  | .blob b => b.isEmpty
  | .int n => n == 0
  | .fee f c => f == 0 && c == 0
  | .keys ks => ks.isEmpty

/-- one returned `types.KeyValue`: `none` = nil value. -/
abbrev KV := Key × Option Val

/-- the local database as an association list (first match wins; `set`/`del` keep keys unique). -/
abbrev Store := List (Key × Val)

def get (m : Store) (k : Key) : Option Val :=
  match m with
  | [] => none
  | (k', v) :: rest => if k' = k then some v else get rest k

def del (m : Store) (k : Key) : Store := m.filter (fun p => p.1 ≠ k)

def set (m : Store) (k : Key) (v : Val) : Store := (k, v) :: del m k

/-- one store update: nil value => `Delete`, else `Set`. -/
def upd (m : Store) (k : Key) (v : Option Val) : Store :=
  match v with
  | some x => set m k x
  | none => del m k

/-- `AddTxs` / `DelTxs`: nil value => `Delete`, else `Set`, in order. -/
def applyKVs (m : Store) : List KV → Store
  | [] => m
  | (k, none) :: rest => applyKVs (del m k) rest
  | (k, some v) :: rest => applyKVs (set m k v) rest

/-- observational equality of two answers of the local database: absent ≡ empty value ≡ zero counter
(`getAddrTxsCount`/`getAddrReciver` return 0 when `len(value) == 0`; `cacheDB`/`LocalGet` report an empty
value as not found). -/
def obsEq (a b : Option Val) : Prop :=
  a = b ∨ ((a = none ∨ ∃ v, a = some v ∧ v.isEmptyEnc = true) ∧ (b = none ∨ ∃ v, b = some v ∧ v.isEmptyEnc = true))

/-- counter read (`getAddrTxsCount`, `getAddrReciver`): not found / empty => 0; a well-formed counter => its
value; anything else is a decode error (`none`). -/
def readInt : Option Val → Option Int
  | none => some 0
  | some (.int n) => some n
  | some v => if v.isEmptyEnc then some 0 else none

/-- `updateAddrTxsCount` / `updateAddrReciver`: read-modify-write through the block's local cache; on a
read error nothing is written and no KV is returned. -/
def bump (m : Store) (k : Key) (d : Int) : Store × List KV :=
  match readInt (get m k) with
  | none => (m, [])
  | some n => (set m k (.int (n + d)), [(k, some (.int (n + d)))])

inductive CoinsAct where
  | none                      -- not executed by the coins driver / undecodable / unsupported action
  | transfer (amt : Int)
  | toExec (amt : Int)
  | withdraw (amt : Int)
  | genesis (amt : Int)
  deriving DecidableEq, Repr

structure Tx where
  hash : Bytes
  eth : Bytes := []            -- tx.GetEthTxHash(), [] = nil
  sender : Bytes               -- address.FormatAddrKey(tx.From()), [] = empty
  to : Bytes                   -- address.FormatAddrKey(tx.GetRealToAddr()), [] = empty
  fee : Int
  rty : Nat                    -- receipt type: 0 ExecErr, 1 ExecPack, 2 ExecOk
  txres : Bytes                -- cfg.CalcTxKeyValue(TxResult)
  info : Bytes                 -- Encode(ReplyTxInfo)
  feeinfo : Bytes              -- Encode(AddrTxFeeInfo)
  coins : CoinsAct := .none
  deriving Repr

structure Block where
  height : Nat
  hash : Bytes
  parent : Bytes
  quick : Bool                 -- cfg.IsEnable("quickIndex")
  txs : List Tx
  deriving Repr

def execOk : Nat := 2

/-! ### steps: every index writer is a list of `put key value` (returned KV, written through to the block's
local cache) and `bump key delta` (read-modify-write of a counter through the cache) -/

inductive Step where
  | put (k : Key) (v : Option Val)
  | bump (k : Key) (d : Int)
  deriving Repr

def Step.key : Step → Key
  | .put k _ => k
  | .bump k _ => k

/-- the KV list an executor hook returns when its steps run against the cache `m`
(`set.KV = append(set.KV, kv)` next to `localDB.Set` / `updateAddrTxsCount` / `updateAddrReciver`). -/
def run : Store → List Step → List KV
  | _, [] => []
  | m, .put k v :: rest => (k, v) :: run (upd m k v) rest
  | m, .bump k d :: rest => (bump m k d).2 ++ run (bump m k d).1 rest

/-- the cache itself after the steps. -/
def exec : Store → List Step → Store
  | m, [] => m
  | m, .put k v :: rest => exec (upd m k v) rest
  | m, .bump k d :: rest => exec (bump m k d).1 rest

/-! ### txindex -/

def txKVs (quick : Bool) (t : Tx) : List (Key × Val) :=
  [(Key.tx quick t.hash, Val.blob t.txres)] ++ (if t.eth.isEmpty then [] else [(Key.etx t.eth, Val.blob t.hash)]) ++
    (if quick then [(Key.stx (t.hash.take 8), Val.blob [49])] else [])     -- "1"

def txSteps (adding : Bool) (quick : Bool) (t : Tx) : List Step :=
  (txKVs quick t).map fun kv => Step.put kv.1 (if adding then some kv.2 else none)

def txindexSteps (adding : Bool) (b : Block) : List Step := b.txs.flatMap (txSteps adding b.quick)

/-! ### addrfeeindex (`TxIndexFrom = 1` only) -/

def feeIdxSteps (adding : Bool) (h : Nat) : Nat → List Tx → List Step
  | _, [] => []
  | i, t :: rest =>
    (if t.sender.isEmpty then []
     else [Step.put (Key.feeDir t.sender (slot h i)) (if adding then some (Val.blob t.feeinfo) else none)]) ++
      feeIdxSteps adding h (i + 1) rest

/-! ### addrindex (`drivers.TxIndexFrom = 1`, `TxIndexTo = 2`): per transaction the sender side, then the
recipient side; each side two index entries and the per-address counter -/

def sideSteps (adding : Bool) (a : Bytes) (dir s : Nat) (info : Bytes) : List Step :=
  if a.isEmpty then [] else
    let v := if adding then some (Val.blob info) else none
    [Step.put (Key.addrDir a dir s) v, Step.put (Key.addrHash a s) v, Step.bump (Key.count a) (if adding then 1 else -1)]

def addrSteps (adding : Bool) (h : Nat) : Nat → List Tx → List Step
  | _, [] => []
  | i, t :: rest =>
    sideSteps adding t.sender 1 (slot h i) t.info ++ sideSteps adding t.to 2 (slot h i) t.info ++
      addrSteps adding h (i + 1) rest

/-! ### fee -/

/-- `saveFee`'s read of the parent total: not found / empty => zero; garbage => decode error. -/
def readFee : Option Val → Option (Int × Int)
  | none => some (0, 0)
  | some (.fee f c) => some (f, c)
  | some v => if v.isEmptyEnc then some (0, 0) else none

def sumFee : List Tx → Int
  | [] => 0
  | t :: rest => t.fee + sumFee rest

def feeSteps (adding : Bool) (pf : Int × Int) (b : Block) : List Step :=
  [Step.put (Key.totalFee b.hash)
    (if adding then some (Val.fee (pf.1 + sumFee b.txs) (pf.2 + b.txs.length)) else none)]

/-! ### coins ExecLocal / ExecDelLocal -/

/-- `Coins.ExecLocal` (after fix 303f1d2 in /repo): like `DriverBase.callLocal`, nothing unless the receipt is
ExecOk. -/
def coinsAddStep (t : Tx) : List Step :=
  if t.rty ≠ execOk then [] else
  match t.coins with
  | .none => []
  | .transfer a => [Step.bump (Key.recv t.to) a]
  | .toExec a => [Step.bump (Key.recv t.to) a]
  | .genesis a => [Step.bump (Key.recv t.to) a]
  | .withdraw a => [Step.bump (Key.recv t.sender) a]

/-- the override as it was before the fix: it did NOT look at the receipt type (kept for the regression witness). -/
def coinsAddStepPreFix (t : Tx) : List Step :=
  match t.coins with
  | .none => []
  | .transfer a => [Step.bump (Key.recv t.to) a]
  | .toExec a => [Step.bump (Key.recv t.to) a]
  | .genesis a => [Step.bump (Key.recv t.to) a]
  | .withdraw a => [Step.bump (Key.recv t.sender) a]

/-- `ExecDelLocal` goes through `DriverBase.callLocal`: nothing unless the receipt is ExecOk
(`CheckReceiptExecOk() = true`); there is no `ExecDelLocal_Genesis`. -/
def coinsDelStep (t : Tx) : List Step :=
  if t.rty ≠ execOk then [] else
  match t.coins with
  | .none => []
  | .transfer a => [Step.bump (Key.recv t.to) (-a)]
  | .toExec a => [Step.bump (Key.recv t.to) (-a)]
  | .genesis _ => []
  | .withdraw a => [Step.bump (Key.recv t.sender) (-a)]

def coinsSteps (adding : Bool) (txs : List Tx) : List Step :=
  if adding then txs.flatMap coinsAddStep
  else txs.reverse.flatMap coinsDelStep       -- `for i := len(b.Txs) - 1; i >= 0; i--`

/-! ### whole block (plugins in `sortedPluginNames` order: addrfeeindex, addrindex, fee, [mvcc], [stat], txindex;
then the per-transaction executor hooks) -/

def pluginSteps (adding : Bool) (pf : Int × Int) (b : Block) : List Step :=
  feeIdxSteps adding b.height 0 b.txs ++ addrSteps adding b.height 0 b.txs ++ feeSteps adding pf b ++
    txindexSteps adding b

def blockSteps (adding : Bool) (pf : Int × Int) (b : Block) : List Step :=
  pluginSteps adding pf b ++ coinsSteps adding b.txs

/-- `none` = the fee plugin returns a decode error and the whole EventAddBlock fails. -/
def pluginsAdd (m : Store) (b : Block) : Option (List KV) :=
  (readFee (get m (Key.totalFee b.parent))).map fun pf => run m (pluginSteps true pf b)

def pluginsDel (m : Store) (b : Block) : List KV := run m (pluginSteps false (0, 0) b)

def blockAdd (m : Store) (b : Block) : Option (List KV) :=
  (readFee (get m (Key.totalFee b.parent))).map fun pf => run m (blockSteps true pf b)

def blockDel (m : Store) (b : Block) : List KV := run m (blockSteps false (0, 0) b)

/-! ### MVCC plugin (`executor.AddMVCC` / `executor.DelMVCC` over `common/db/mvcc.go`) -/

inductive Out (α : Type) where
  | ok (a : α)
  | panic                      -- AddMVCC/DelMVCC `panic(err)` on every error
  deriving Repr

/-- `GetMaxVersion`: the hash stored under the greatest `version.` key, then its `GetVersion`. -/
def maxVerKey : Store → Option Nat
  | [] => none
  | (Key.mvVer v, _) :: rest => (match maxVerKey rest with | none => some v | some w => some (max v w))
  | _ :: rest => maxVerKey rest

/-- `GetVersion(hash)`: a missing or EMPTY value is reported as not found (so version 0, whose
`types.Int64{Data:0}` encodes to the empty string, cannot be read back). -/
def getVersion (m : Store) (h : Bytes) : Option Nat :=
  match get m (Key.mvHash h) with
  | some (.int n) => if n > 0 then some n.toNat else none
  | _ => none

def mvccAdd (m : Store) (kvs : List (Bytes × Bytes)) (hash prev : Bytes) (prevNil : Bool) (v : Nat) :
    Out (List KV) :=
  let body : List KV :=
    [(Key.mvHash hash, some (Val.int v)), (Key.mvVer v, some (Val.blob hash))] ++
      kvs.map (fun kv => (Key.mvData kv.1 v, some (Val.blob kv.2))) ++
      [(Key.mvKL v, some (Val.keys (kvs.map (·.1))))]
  if v = 0 then .ok body
  else if prevNil then .panic
  else match get m (Key.mvVer (v - 1)) with
    | some (.blob h) => if h = prev ∧ !h.isEmpty then .ok body else .panic
    | _ => .panic

def mvccDel (m : Store) (hash : Bytes) (v : Nat) : Out (List KV) :=
  match get m (Key.mvKL v) with
  | some (.keys ks) =>
    if ks.isEmpty then .panic else            -- an empty list is stored as an empty value = not found
    (match maxVerKey m with
     | none => .panic
     | some mv =>
       match get m (Key.mvVer mv) with
       | some (.blob mh) =>
         if getVersion m mh ≠ some v then .panic
         else if getVersion m hash ≠ some v then .panic
         else .ok ([(Key.mvHash hash, none), (Key.mvVer v, none)] ++ ks.map (fun k => (Key.mvData k v, none)))
       | _ => .panic)
  | _ => .panic

end C14
