/-
C15 — executable model of chain33 `account.DB` (account/account.go, execaccount.go, genesis.go)
over an abstract key-value store.  Core Lean only.

* `σ` is the type of address *spellings* (Go `string`), `κ` the type of storage keys produced by
  `address.FormatAddrKey` (`Cfg.norm`).  The driver instantiates `σ = κ = String`, `norm = normEth`.
* Balances are Go `int64`: every `+`/`-` of the Go code is followed by `wrap` (two's complement
  wrap-around made explicit), comparisons are on the wrapped value.
* A record is stored under `norm` of the spelling *stored in the record* (`GetKVSet` uses
  `acc1.Addr`), loaded under `norm` of the spelling given by the caller; an absent record loads as
  `{Addr := spelling, 0, 0}` (`LoadAccount`).
* The exec sub-ledger key is `(execaddr as spelled, norm addr)` (`execAccountKey` does not
  normalise `execaddr`).
* Every addition goes through `safeAdd` (main ledger always; exec sub-ledger since repo commit
  b0959e4), computed before anything is saved.
* Go `panic(err)` sites (`TransferToExec`, `TransferWithdraw`, `GenesisInitExec`) are the explicit
  result `Res.panic`, with the store as it is at the moment of the panic (earlier `db.Set`s stay).
-/
namespace C15

/-! ## int64 arithmetic -/

/-- two's complement wrap-around of a mathematical integer into the int64 range. -/
def wrap (x : Int) : Int :=
  (x + 9223372036854775808) % 18446744073709551616 - 9223372036854775808

/-- `types.MaxCoin * cfg.GetCoinPrecision()` = 1e9 * 1e8. -/
def amountLimit : Int := 100000000000000000
/-- `types.MaxTokenBalance` = 900 * 1e8 * 1e8. -/
def maxBal : Int := 9000000000000000000

/-- `types.CheckAmount(amount, coinPrecision)`. -/
def checkAmount (amt : Int) : Bool := decide (0 < amt) && decide (amt < amountLimit)

/-- `safeAdd` of genesis.go: `none` = `ErrAmount` (negative amounts rejected since repo commit
b0959e4). -/
def safeAdd (bal amt : Int) : Option Int :=
  let s := wrap (bal + amt)
  if amt < 0 ∨ s < amt ∨ s > maxBal then none else some s

/-! ## association lists (the KV store) -/

def aget {κ α : Type} [DecidableEq κ] : List (κ × α) → κ → Option α
  | [], _ => none
  | (k', v) :: r, k => if k' = k then some v else aget r k

/-- `db.Set`: replace the first binding of `k` or append a new one. -/
def aset {κ α : Type} [DecidableEq κ] : List (κ × α) → κ → α → List (κ × α)
  | [], k, v => [(k, v)]
  | (k', v') :: r, k, v => if k' = k then (k, v) :: r else (k', v') :: aset r k v

/-! ## state -/

/-- `types.Account` (the `Currency` field is never touched by the modelled code). -/
structure Acct (σ : Type) where
  addr : σ
  bal : Int
  frz : Int
deriving DecidableEq, Repr

structure Cfg (σ κ : Type) where
  /-- `address.FormatAddrKey` -/
  norm : σ → κ
  /-- `execaddr` is the address of one of `cfg.GetMinerExecs()` (ExecIssueCoins). -/
  allow : σ → Bool

structure State (σ κ : Type) where
  /-- records under `accountKeyPerfix ++ norm addr` -/
  main : List (κ × Acct σ)
  /-- records under `execAccountKeyPerfix ++ execaddr ++ ":" ++ norm addr` -/
  sub : List ((σ × κ) × Acct σ)

def State.init {σ κ : Type} : State σ κ := ⟨[], []⟩

inductive Res where
  | ok | errAmount | errNoBalance | errSame | errNotAllow | panic
deriving DecidableEq, Repr

def Res.isErr : Res → Bool
  | .ok => false
  | .panic => false
  | _ => true

def Res.toString : Res → String
  | .ok => "ok"
  | .errAmount => "ErrAmount"
  | .errNoBalance => "ErrNoBalance"
  | .errSame => "ErrSendSameToRecv"
  | .errNotAllow => "ErrNotAllowDeposit"
  | .panic => "panic"

/-- one operation of the account API (argument order as in the Go signatures). -/
inductive Op (σ : Type) where
  | transfer (src dst : σ) (amt : Int)
  | checkTransfer (src dst : σ) (amt : Int)
  | mint (a : σ) (amt : Int)
  | burn (a : σ) (amt : Int)
  | genesis (a : σ) (amt : Int)
  | genesisExec (a : σ) (amt : Int) (e : σ)
  | toExec (src e : σ) (amt : Int)
  | withdraw (src e : σ) (amt : Int)
  | execFrozen (a e : σ) (amt : Int)
  | execActive (a e : σ) (amt : Int)
  | execTransfer (src dst e : σ) (amt : Int)
  | execTransferFrozen (src dst e : σ) (amt : Int)
  | execDepositFrozen (a e : σ) (amt : Int)
  | execIssue (e : σ) (amt : Int)
  | execDeposit (a e : σ) (amt : Int)
  | execWithdraw (e a : σ) (amt : Int)
deriving DecidableEq, Repr

section ops
variable {σ κ : Type} [DecidableEq σ] [DecidableEq κ]

/-- `LoadAccount`. -/
def loadMain (c : Cfg σ κ) (s : State σ κ) (a : σ) : Acct σ :=
  match aget s.main (c.norm a) with
  | some r => r
  | none => ⟨a, 0, 0⟩

/-- `SaveAccount` / `SaveKVSet (GetKVSet r)`: the key comes from the spelling stored in the record. -/
def saveMain (c : Cfg σ κ) (s : State σ κ) (r : Acct σ) : State σ κ :=
  { s with main := aset s.main (c.norm r.addr) r }

/-- `LoadExecAccount`. -/
def loadSub (c : Cfg σ κ) (s : State σ κ) (a e : σ) : Acct σ :=
  match aget s.sub (e, c.norm a) with
  | some r => r
  | none => ⟨a, 0, 0⟩

/-- `SaveExecAccount`. -/
def saveSub (c : Cfg σ κ) (s : State σ κ) (e : σ) (r : Acct σ) : State σ κ :=
  { s with sub := aset s.sub (e, c.norm r.addr) r }

/-- `Transfer`. -/
def transfer (c : Cfg σ κ) (s : State σ κ) (src dst : σ) (amt : Int) : State σ κ × Res :=
  if !checkAmount amt then (s, .errAmount) else
  let F := loadMain c s src
  let T := loadMain c s dst
  if F.addr = T.addr then (s, .errSame) else
  if 0 ≤ wrap (F.bal - amt) then
    match safeAdd T.bal amt with
    | none => (s, .errAmount)
    | some nb =>
      (saveMain c (saveMain c s { F with bal := wrap (F.bal - amt) }) { T with bal := nb }, .ok)
  else (s, .errNoBalance)

/-- `CheckTransfer` (read-only). -/
def checkTransfer (c : Cfg σ κ) (s : State σ κ) (src : σ) (amt : Int) : Res :=
  if !checkAmount amt then .errAmount else
  if wrap ((loadMain c s src).bal - amt) < 0 then .errNoBalance else .ok

/-- `depositBalance`. -/
def depositBalance (c : Cfg σ κ) (s : State σ κ) (e : σ) (amt : Int) : State σ κ × Res :=
  if !checkAmount amt then (s, .errAmount) else
  let A := loadMain c s e
  match safeAdd A.bal amt with
  | none => (s, .errAmount)
  | some nb => (saveMain c s { A with bal := nb }, .ok)

/-- `Mint`. -/
def mint (c : Cfg σ κ) (s : State σ κ) (a : σ) (amt : Int) : State σ κ × Res :=
  depositBalance c s a amt

/-- `Burn`. -/
def burn (c : Cfg σ κ) (s : State σ κ) (a : σ) (amt : Int) : State σ κ × Res :=
  if !checkAmount amt then (s, .errAmount) else
  let A := loadMain c s a
  if A.bal < amt then (s, .errNoBalance) else
  (saveMain c s { A with bal := wrap (A.bal - amt) }, .ok)

/-- `GenesisInit` (no `CheckAmount`). -/
def genesis (c : Cfg σ κ) (s : State σ κ) (a : σ) (amt : Int) : State σ κ × Res :=
  let A := loadMain c s a
  match safeAdd A.bal amt with
  | none => (s, .errAmount)
  | some nb => (saveMain c s { A with bal := nb }, .ok)

/-- `ExecDeposit`. -/
def execDeposit (c : Cfg σ κ) (s : State σ κ) (a e : σ) (amt : Int) : State σ κ × Res :=
  if a = e then (s, .errSame) else
  if !checkAmount amt then (s, .errAmount) else
  let A := loadSub c s a e
  match safeAdd A.bal amt with
  | none => (s, .errAmount)
  | some nb => (saveSub c s e { A with bal := nb }, .ok)

/-- `ExecWithdraw(execaddr, addr, amount)`. -/
def execWithdraw (c : Cfg σ κ) (s : State σ κ) (e a : σ) (amt : Int) : State σ κ × Res :=
  if a = e then (s, .errSame) else
  if !checkAmount amt then (s, .errAmount) else
  let A := loadSub c s a e
  if wrap (A.bal - amt) < 0 then (s, .errNoBalance) else
  (saveSub c s e { A with bal := wrap (A.bal - amt) }, .ok)

/-- `GenesisInitExec`: credit the exec address, then `ExecDeposit`; a failing deposit panics. -/
def genesisExec (c : Cfg σ κ) (s : State σ κ) (a : σ) (amt : Int) (e : σ) : State σ κ × Res :=
  let s1 := genesis c s e amt
  if s1.2 ≠ .ok then s1 else
  let s2 := execDeposit c s1.1 a e amt
  if s2.2 ≠ .ok then (s1.1, .panic) else s2

/-- `TransferToExec`. -/
def toExec (c : Cfg σ κ) (s : State σ κ) (src e : σ) (amt : Int) : State σ κ × Res :=
  let s1 := transfer c s src e amt
  if s1.2 ≠ .ok then s1 else
  let s2 := execDeposit c s1.1 src e amt
  if s2.2 ≠ .ok then (s1.1, .panic) else s2

/-- `TransferWithdraw(from, to, amount)`: `to` is the exec address. -/
def withdraw (c : Cfg σ κ) (s : State σ κ) (src e : σ) (amt : Int) : State σ κ × Res :=
  let r0 := checkTransfer c s e amt
  if r0 ≠ .ok then (s, r0) else
  let s1 := execWithdraw c s e src amt
  if s1.2 ≠ .ok then s1 else
  let s2 := transfer c s1.1 e src amt
  if s2.2 ≠ .ok then (s1.1, .panic) else s2

/-- `ExecFrozen`. -/
def execFrozen (c : Cfg σ κ) (s : State σ κ) (a e : σ) (amt : Int) : State σ κ × Res :=
  if a = e then (s, .errSame) else
  if !checkAmount amt then (s, .errAmount) else
  let A := loadSub c s a e
  if wrap (A.bal - amt) < 0 then (s, .errNoBalance) else
  match safeAdd A.frz amt with
  | none => (s, .errAmount)
  | some nf => (saveSub c s e { A with bal := wrap (A.bal - amt), frz := nf }, .ok)

/-- `ExecActive`. -/
def execActive (c : Cfg σ κ) (s : State σ κ) (a e : σ) (amt : Int) : State σ κ × Res :=
  if a = e then (s, .errSame) else
  if !checkAmount amt then (s, .errAmount) else
  let A := loadSub c s a e
  if wrap (A.frz - amt) < 0 then (s, .errNoBalance) else
  match safeAdd A.bal amt with
  | none => (s, .errAmount)
  | some nb => (saveSub c s e { A with bal := nb, frz := wrap (A.frz - amt) }, .ok)

/-- `ExecTransfer`: rejected when the spellings or the storage keys (`FormatAddrKey`) of `from` and
`to` coincide (repo commit 3bc3d2b); both records are loaded before either is saved. -/
def execTransfer (c : Cfg σ κ) (s : State σ κ) (src dst e : σ) (amt : Int) : State σ κ × Res :=
  if src = dst ∨ c.norm src = c.norm dst then (s, .errSame) else
  if !checkAmount amt then (s, .errAmount) else
  let F := loadSub c s src e
  let T := loadSub c s dst e
  if wrap (F.bal - amt) < 0 then (s, .errNoBalance) else
  match safeAdd T.bal amt with
  | none => (s, .errAmount)
  | some nb =>
    (saveSub c (saveSub c s e { F with bal := wrap (F.bal - amt) }) e { T with bal := nb }, .ok)

/-- `ExecTransferFrozen` (same guard as `ExecTransfer`). -/
def execTransferFrozen (c : Cfg σ κ) (s : State σ κ) (src dst e : σ) (amt : Int) :
    State σ κ × Res :=
  if src = dst ∨ c.norm src = c.norm dst then (s, .errSame) else
  if !checkAmount amt then (s, .errAmount) else
  let F := loadSub c s src e
  let T := loadSub c s dst e
  if wrap (F.frz - amt) < 0 then (s, .errNoBalance) else
  match safeAdd T.bal amt with
  | none => (s, .errAmount)
  | some nb =>
    (saveSub c (saveSub c s e { F with frz := wrap (F.frz - amt) }) e { T with bal := nb }, .ok)

/-- `ExecIssueCoins`. -/
def execIssue (c : Cfg σ κ) (s : State σ κ) (e : σ) (amt : Int) : State σ κ × Res :=
  if !c.allow e then (s, .errNotAllow) else depositBalance c s e amt

/-- the private `execDepositFrozen` once `addr ≠ execaddr` and `CheckAmount` are known to hold
(they were checked by the caller / by `ExecIssueCoins`): only its `safeAdd` can fail. -/
def depositFrozen2 (c : Cfg σ κ) (s : State σ κ) (a e : σ) (amt : Int) : State σ κ × Res :=
  let A := loadSub c s a e
  match safeAdd A.frz amt with
  | none => (s, .errAmount)
  | some nf => (saveSub c s e { A with frz := nf }, .ok)

/-- `ExecDepositFrozen`: for a valid amount the frozen addition is checked first (repo commit
bc0ebed), then `ExecIssueCoins`, then the private `execDepositFrozen` (which then cannot fail; its
error would be returned after the issue was saved). -/
def execDepositFrozen (c : Cfg σ κ) (s : State σ κ) (a e : σ) (amt : Int) : State σ κ × Res :=
  if a = e then (s, .errSame) else
  if checkAmount amt && (safeAdd (loadSub c s a e).frz amt).isNone then (s, .errAmount) else
  let s1 := execIssue c s e amt
  if s1.2 ≠ .ok then s1 else
  depositFrozen2 c s1.1 a e amt

def step (c : Cfg σ κ) (s : State σ κ) : Op σ → State σ κ × Res
  | .transfer f t amt => transfer c s f t amt
  | .checkTransfer f _ amt => (s, checkTransfer c s f amt)
  | .mint a amt => mint c s a amt
  | .burn a amt => burn c s a amt
  | .genesis a amt => genesis c s a amt
  | .genesisExec a amt e => genesisExec c s a amt e
  | .toExec f e amt => toExec c s f e amt
  | .withdraw f e amt => withdraw c s f e amt
  | .execFrozen a e amt => execFrozen c s a e amt
  | .execActive a e amt => execActive c s a e amt
  | .execTransfer f t e amt => execTransfer c s f t e amt
  | .execTransferFrozen f t e amt => execTransferFrozen c s f t e amt
  | .execDepositFrozen a e amt => execDepositFrozen c s a e amt
  | .execIssue e amt => execIssue c s e amt
  | .execDeposit a e amt => execDeposit c s a e amt
  | .execWithdraw e a amt => execWithdraw c s e a amt

/-- run an op list, dropping the results. -/
def run (c : Cfg σ κ) (s : State σ κ) : List (Op σ) → State σ κ
  | [] => s
  | op :: ops => run c (step c s op).1 ops

end ops

/-! ## the concrete `FormatAddrKey` (eth driver: lower-case hex addresses) -/

def isHexChar (ch : Char) : Bool :=
  ('0' ≤ ch && ch ≤ '9') || ('a' ≤ ch && ch ≤ 'f') || ('A' ≤ ch && ch ≤ 'F')

/-- go-ethereum `has0xPrefix` + strip. -/
def stripHexPrefix : List Char → List Char
  | c1 :: c2 :: r => if c1 = '0' ∧ (c2 = 'x' ∨ c2 = 'X') then r else c1 :: c2 :: r
  | l => l

/-- go-ethereum `common.IsHexAddress` on the characters of the string. -/
def isHexAddr (l : List Char) : Bool :=
  (stripHexPrefix l).length == 40 && (stripHexPrefix l).all isHexChar

/-- `address.FormatAddrKey`: hex addresses are lower-cased (`FormatEthAddress`), everything else
is kept.  (The eth driver's `formatAddr` lower-cases when no crypto context is installed or
`ForkFormatAddressKey` is active.) -/
def normEthL (l : List Char) : List Char :=
  if isHexAddr l then l.map Char.toLower else l

def normEth (s : String) : String := String.ofList (normEthL s.toList)

end C15
