import Chain33Model.Base.Wire
import Chain33Model.Base.Proto
import Chain33Model.Base.Sha256
/-
C16 / C17 — transaction model (types/tx.go, types/transaction.pb.go, types/block.go CheckSign,
common/crypto/crypto.go Load / util.go WithLoadOptionEnableCheck).  Core Lean only.

* `Transaction` / `Signature` mirror the generated proto structs field by field (the harness
  re-reads the field list from /repo on every run and fails if it changed).
* byte slices are `List UInt8`; nil and empty are identified (proto3 does the same on the wire);
  int64/int32 fields are `Int` (range predicate `WF` for the theorems).
* hash functions are a parameter `H` in the definitions the theorems talk about; the executable
  instances use `Sha256.hash` and are compared byte for byte with Go.
* the signature scheme is a parameter (`Scheme`) — only `verify (sign …) = true` is ever assumed.
-/
namespace C16
open Proto

abbrev Bytes := List UInt8

structure Signature where
  ty : Int
  pubkey : Bytes
  signature : Bytes
  deriving DecidableEq, Repr, Inhabited

/-- proto fields 1..11 of `Transaction` in field-number order. -/
structure Transaction where
  execer : Bytes
  payload : Bytes
  signature : Option Signature
  fee : Int
  expire : Int
  nonce : Int
  to : Bytes
  groupCount : Int
  header : Bytes
  next : Bytes
  chainID : Int
  deriving DecidableEq, Repr, Inhabited

/-- proto3 deterministic encoding of `Signature`. -/
def encodeSig (s : Signature) : Bytes :=
  fInt64 1 s.ty ++ (fBytes 2 s.pubkey ++ fBytes 3 s.signature)

/-- proto3 deterministic encoding of `Transaction` = `types.Encode(tx)`. -/
def encode (t : Transaction) : Bytes :=
  fBytes 1 t.execer ++ (fBytes 2 t.payload ++ (fMsg 3 (t.signature.map encodeSig) ++
  (fInt64 4 t.fee ++ (fInt64 5 t.expire ++ (fInt64 6 t.nonce ++ (fBytes 7 t.to ++
  (fInt64 8 t.groupCount ++ (fBytes 9 t.header ++ (fBytes 10 t.next ++ fInt64 11 t.chainID)))))))))

/-- the generated struct's protobuf fields `GoName:number:wire:kind` (compared on every run with
reflection over `types.Transaction` in /repo). -/
def protoFields : List (String × Nat × String × String) :=
  [("Execer", 1, "bytes", "slice"), ("Payload", 2, "bytes", "slice"), ("Signature", 3, "bytes", "ptr"),
   ("Fee", 4, "varint", "int64"), ("Expire", 5, "varint", "int64"), ("Nonce", 6, "varint", "int64"),
   ("To", 7, "bytes", "string"), ("GroupCount", 8, "varint", "int32"), ("Header", 9, "bytes", "slice"),
   ("Next", 10, "bytes", "slice"), ("ChainID", 11, "varint", "int32")]

def sigProtoFields : List (String × Nat × String × String) :=
  [("Ty", 1, "varint", "int32"), ("Pubkey", 2, "bytes", "slice"), ("Signature", 3, "bytes", "slice")]

/-- fields assigned in `CloneTx` (sorted; compared on every run with go/ast over types/tx.go). -/
def cloneTxAssigned : List String :=
  ["ChainID", "Execer", "Expire", "Fee", "GroupCount", "Header", "Next", "Nonce", "Payload", "Signature", "To"]

/-- fields assigned in `Signature.Clone` (sorted; go/ast over types/types.go). -/
def cloneSigAssigned : List String := ["Pubkey", "Signature", "Ty"]

/-- value ranges of the Go field types (`int64`, `int32`): the "normalised records" the
injectivity theorems are stated for. -/
def I64 (i : Int) : Prop := -2^63 ≤ i ∧ i < 2^63
def I32 (i : Int) : Prop := -2^31 ≤ i ∧ i < 2^31

instance (i : Int) : Decidable (I64 i) := inferInstanceAs (Decidable (_ ∧ _))
instance (i : Int) : Decidable (I32 i) := inferInstanceAs (Decidable (_ ∧ _))

structure Signature.WF (s : Signature) : Prop where
  ty : I32 s.ty

structure Transaction.WF (t : Transaction) : Prop where
  fee : I64 t.fee
  expire : I64 t.expire
  nonce : I64 t.nonce
  groupCount : I32 t.groupCount
  chainID : I32 t.chainID
  sig : ∀ s, t.signature = some s → s.WF

/-- `types.Size(tx)`. -/
def size (t : Transaction) : Nat := (encode t).length

/-- `CloneTx`: the hand-written field-by-field copy (types/tx.go).  Written field by field on
purpose: the correspondence run + the regenerated field list check that no proto field is missing. -/
def cloneTx (t : Transaction) : Transaction :=
  { execer := t.execer, payload := t.payload, signature := t.signature, fee := t.fee,
    expire := t.expire, nonce := t.nonce, to := t.to, groupCount := t.groupCount,
    header := t.header, next := t.next, chainID := t.chainID }

/-- `Signature.Clone` (types/types.go). -/
def cloneSig (s : Signature) : Signature :=
  { ty := s.ty, pubkey := s.pubkey, signature := s.signature }

/-- `Transaction.Clone`. -/
def clone (t : Transaction) : Transaction :=
  { cloneTx t with signature := t.signature.map cloneSig }

/-- the copy `Hash()` encodes: signature and header removed. -/
def stripSigHeader (t : Transaction) : Transaction :=
  { cloneTx t with signature := none, header := [] }

/-- the copy `Sign`/`checkSign` encode: signature removed (header kept). -/
def stripSig (t : Transaction) : Transaction :=
  { cloneTx t with signature := none }

/-- `tx.Hash()` over an arbitrary hash function. -/
def hashWith {α : Type} (H : Bytes → α) (t : Transaction) : α := H (encode (stripSigHeader t))

/-- `tx.FullHash()` over an arbitrary hash function. -/
def fullHashWith {α : Type} (H : Bytes → α) (t : Transaction) : α := H (encode (clone t))

/-- the message handed to the crypto driver by `Sign` and `checkSign`. -/
def signBytes (t : Transaction) : Bytes := encode (stripSig t)

def hash (t : Transaction) : Bytes := hashWith Sha256.hash t
def fullHash (t : Transaction) : Bytes := fullHashWith Sha256.hash t

/-- explicit collision of a hash function (the disjunct every binding theorem carries). -/
def Collision {α : Type} (H : Bytes → α) : Prop := ∃ x y : Bytes, x ≠ y ∧ H x = H y

/-! ### signing -/

/-- abstract signature scheme; the only law is correctness (unforgeability is never assumed). -/
structure Scheme where
  SK : Type
  pub : SK → Bytes
  sign : SK → Bytes → Bytes
  verify : Bytes → Bytes → Bytes → Bool      -- msg pub sig
  verify_sign : ∀ sk msg, verify msg (pub sk) (sign sk msg) = true

/-- `tx.Sign(ty, priv)`. -/
def signTx (S : Scheme) (ty : Int) (sk : S.SK) (t : Transaction) : Transaction :=
  let t0 := { t with signature := none }
  { t0 with signature := some { ty := ty, pubkey := S.pub sk, signature := S.sign sk (encode t0) } }

/-! ### crypto driver registry (common/crypto) -/

structure Driver where
  name : String
  typeID : Int
  enable : Bool
  enableHeight : Int
  deriving DecidableEq, Repr, Inhabited

abbrev Registry := List Driver

/-- `types.ExtractCryptoID`: `signID & 0x3fff8fff` on an int32 (two's complement). -/
def extractCryptoID (ty : Int) : Int :=
  let u : Nat := if 0 ≤ ty then ty.toNat % 2^32 else ((2^32 : Int) + ty).toNat % 2^32
  Int.ofNat (Nat.land u 0x3fff8fff)

/-- `crypto.GetName(ty)`: registry lookup by type id (`none` = "unknown", never registered). -/
def driverByType (r : Registry) (id : Int) : Option Driver := r.find? (fun d => d.typeID == id)

def driverByName (r : Registry) (n : String) : Option Driver := r.find? (fun d => d.name == n)

/-- `WithLoadOptionEnableCheck(blockHeight)`. -/
def enabledAt (d : Driver) (h : Int) : Bool :=
  if h < 0 then true else d.enable && decide (0 ≤ d.enableHeight) && decide (d.enableHeight ≤ h)

inductive LoadResult | ok | unknown | notEnable
  deriving DecidableEq, Repr

/-- `crypto.Load(name, height)`. -/
def load (r : Registry) (name : String) (h : Int) : LoadResult :=
  match driverByName r name with
  | none => .unknown
  | some d => if enabledAt d h then .ok else .notEnable

/-- `crypto.Init(cfg, _)`: `enableTypes` non-empty disables everything not listed; `enableHeight`
entries apply only to drivers that are enabled after that step. -/
def cryptoInit (r : Registry) (enableTypes : List String) (heights : List (String × Int)) : Registry :=
  let r1 := if enableTypes.isEmpty then r
            else r.map (fun d => { d with enable := enableTypes.contains d.name })
  r1.map (fun d => match heights.find? (fun p => p.1 == d.name) with
    | some p => if d.enable then { d with enableHeight := p.2 } else d
    | none => d)

/-- outcome of a driver's `Validate` / of `CheckSign`: Go panics are an explicit outcome. -/
inductive VOut | ok | fail | panic
  deriving DecidableEq, Repr

/-- `tx.CheckSign(height)` (types/tx.go checkSign + types/block.go CheckSign) for transactions whose
executor does not override the crypto driver (`ExecTypeBase.GetCryptoDriver` = not supported).
`validate name msg pub sig` stands for `driver.Validate(msg, pub, sig)` (`ok` = nil error). -/
def checkSignO (r : Registry) (validate : String → Bytes → Bytes → Bytes → VOut)
    (h : Int) (t : Transaction) : VOut :=
  match t.signature with
  | none => .fail
  | some s =>
    match driverByType r (extractCryptoID s.ty) with
    | none => .fail
    | some d => if enabledAt d h then validate d.name (signBytes t) s.pubkey s.signature else .fail

/-- `CheckSign` as the boolean the callers see (a panic is not `true`). -/
def checkSign (r : Registry) (validate : String → Bytes → Bytes → Bytes → VOut)
    (h : Int) (t : Transaction) : Bool :=
  checkSignO r validate h t == .ok

/-! ### signature parsing layer of the built-in drivers (one step below `Scheme.verify`)

`Validate = parseSig ; verifyParsed`.  Only the *length handling* of the parsers is modelled
(what part of the byte string reaches the verifier); the verifier itself is abstract. -/

inductive SigParser | derMax72 | derPrefix | first64 | exact65
  deriving DecidableEq, Repr

/-- the part of the signature bytes the driver looks at (`none` = rejected before verification).
* `derMax72` (secp256k1, btcec `ParseDERSignature`): total length 8..72, the DER sequence
  `30 <len> …` of declared length (>= 6), trailing bytes ignored;
* `derPrefix` (secp256r1/sm2 `asn1.Unmarshal`, rest ignored; short-form length only):
  the DER sequence of declared length, trailing bytes ignored;
* `first64` (ed25519 `copy(sigBytes[:], b)`): first 64 bytes, zero padded;
* `exact65` (secp256k1eth): exactly 65 bytes. -/
def parseSig : SigParser → Bytes → Option Bytes
  | .derMax72, b =>
    match b with
    | t :: l :: rest =>
      if 8 ≤ b.length ∧ b.length ≤ 72 ∧ t = 0x30 ∧ l.toNat ≤ rest.length ∧ 6 ≤ l.toNat
      then some (t :: l :: rest.take l.toNat) else none
    | _ => none
  | .derPrefix, b =>
    match b with
    | t :: l :: rest => if t = 0x30 ∧ l.toNat ≤ rest.length then some (t :: l :: rest.take l.toNat) else none
    | _ => none
  | .first64, b => some ((b.take 64) ++ List.replicate (64 - (b.take 64).length) 0)
  | .exact65, b => if b.length = 65 then some b else none

def validateWith (p : SigParser) (verifyParsed : Bytes → Bytes → Bytes → Bool)
    (msg pub sig : Bytes) : Bool :=
  match parseSig p sig with
  | none => false
  | some s => verifyParsed msg pub s

/-! ### transaction groups (C17) -/

def MaxTxSize : Nat := 100000
def MaxTxGroupSize : Int := 20

inductive Err
  | countLessThanTwo | msgSizeTooBig | chainID | feeTooLow | feeTooHigh
  | groupParaCount | groupParaMainMixed | groupFeeNotZero | groupHeader
  | groupCountBig | groupCount | groupNext | nomalTx
  deriving DecidableEq, Repr

def Err.toString : Err → String
  | .countLessThanTwo => "ErrTxGroupCountLessThanTwo"
  | .msgSizeTooBig => "ErrTxMsgSizeTooBig"
  | .chainID => "ErrTxChainID"
  | .feeTooLow => "ErrTxFeeTooLow"
  | .feeTooHigh => "ErrTxFeeTooHigh"
  | .groupParaCount => "ErrTxGroupParaCount"
  | .groupParaMainMixed => "ErrTxGroupParaMainMixed"
  | .groupFeeNotZero => "ErrTxGroupFeeNotZero"
  | .groupHeader => "ErrTxGroupHeader"
  | .groupCountBig => "ErrTxGroupCountBigThanMaxSize"
  | .groupCount => "ErrTxGroupCount"
  | .groupNext => "ErrTxGroupNext"
  | .nomalTx => "ErrNomalTx"

/-- `GetRealFee(minFee)`; int64 arithmetic is modelled by `Int` (no wrap: see assumptions). -/
def realFee (t : Transaction) (minFee : Int) : Except Err Int :=
  let sz := size t + (if t.signature.isNone then 300 else 0)
  if sz > MaxTxSize then .error .msgSizeTooBig
  else .ok (Int.ofNat (sz / 1000 + 1) * minFee)

/-- `user.p.` -/
def paraKey : Bytes := [0x75, 0x73, 0x65, 0x72, 0x2e, 0x70, 0x2e]

/-- `IsParaExecName`. -/
def isParaExec (e : Bytes) : Bool := paraKey.isPrefixOf e

/-- `GetParaExecTitleName`: prefix up to and including the first `.` after `user.p.`. -/
def paraTitle (e : Bytes) : Option Bytes :=
  if isParaExec e then
    let rest := e.drop paraKey.length
    let nm := rest.takeWhile (fun c => c != 0x2e)
    if nm.length < rest.length then some (paraKey ++ nm ++ [0x2e]) else none
  else none

/-- chain configuration as seen by the group checks. -/
structure CheckCfg where
  chainIDStrict : Bool      -- cfg.IsFork(height, ForkTxChainIDStrict)
  cfgChainID : Int
  checkFork : Bool          -- ForkBlockCheck
  paraFork : Bool           -- ForkTxGroupPara
  deriving Repr

/-- `tx.check(cfg, height, 0, maxFee)` — the member check of a group (minfee fixed to 0). -/
def memberCheck (c : CheckCfg) (t : Transaction) : Except Err Unit :=
  if c.chainIDStrict && decide (t.chainID ≠ c.cfgChainID) then .error .chainID else .ok ()

/-- `tx.check(cfg, height, minfee, maxFee)` for a single transaction. -/
def singleCheck (c : CheckCfg) (minfee maxFee : Int) (t : Transaction) : Except Err Unit := do
  memberCheck c t
  if minfee = 0 then return ()
  let rf ← realFee t minfee
  if t.fee < rf then throw .feeTooLow
  if t.fee > maxFee ∧ maxFee > 0 ∧ c.checkFork then throw .feeTooHigh
  if t.chainID ≠ c.cfgChainID then throw .chainID
  return ()

def firstErr {α : Type} (f : α → Except Err Unit) : List α → Except Err Unit
  | [] => .ok ()
  | x :: xs => match f x with
    | .error e => .error e
    | .ok _ => firstErr f xs

def sumFees (minfee : Int) : List Transaction → Except Err Int
  | [] => .ok 0
  | t :: ts => match realFee t minfee with
    | .error e => .error e
    | .ok f => match sumFees minfee ts with
      | .error e => .error e
      | .ok s => .ok (f + s)

def dedup (xs : List Bytes) : List Bytes := xs.foldl (fun acc x => if acc.contains x then acc else acc ++ [x]) []

/-- per-index header / count / next checks of `CheckWithFork` (index `i`, head header `hh`). -/
def chainCheck (H : Bytes → Bytes) (n : Nat) (hh : Bytes) :
    Bool → List Transaction → Except Err Unit
  | _, [] => .ok ()
  | isHead, t :: rest =>
    if (if isHead then H (encode (stripSigHeader t)) ≠ t.header else hh ≠ t.header) then .error .groupHeader
    else if t.groupCount > MaxTxGroupSize then .error .groupCountBig
    else if t.groupCount ≠ Int.ofNat n then .error .groupCount
    else match rest with
      | [] => if t.next ≠ [] then .error .groupNext else .ok ()
      | u :: _ =>
        if t.next ≠ H (encode (stripSigHeader u)) then .error .groupNext
        else chainCheck H n hh false rest

/-- the para-chain rules of `CheckWithFork` (only when `ForkTxGroupPara` is active). -/
def paraCheck (paraFork : Bool) (txs : List Transaction) : Except Err Unit :=
  let titles := dedup (txs.filterMap (fun t => paraTitle t.execer))
  if paraFork then
    if titles.length > 1 then .error .groupParaCount
    else if titles.length > 0 ∧ txs.any (fun t => !isParaExec t.execer) then .error .groupParaMainMixed
    else .ok ()
  else .ok ()

/-- the fee rules of `CheckWithFork`. -/
def feeCheck (c : CheckCfg) (minfee maxFee : Int) (head : Transaction) (tail : List Transaction) :
    Except Err Unit :=
  if tail.any (fun t => t.fee ≠ 0) then .error .groupFeeNotZero
  else match sumFees minfee (head :: tail) with
    | .error e => .error e
    | .ok total =>
      if head.fee < total then .error .feeTooLow
      else if head.fee > maxFee ∧ maxFee > 0 ∧ c.checkFork then .error .feeTooHigh
      else .ok ()

/-- `Transactions.CheckWithFork(cfg, checkFork, paraFork, height, minfee, maxFee)`.
`H` abstracts the hash function (SHA-256 in the executable instance). -/
def groupCheckWith (H : Bytes → Bytes)
    (c : CheckCfg) (minfee maxFee : Int) (txs : List Transaction) : Except Err Unit :=
  match txs with
  | [] => .error .countLessThanTwo
  | [_] => .error .countLessThanTwo
  | head :: tail =>
    match firstErr (memberCheck c) txs with
    | .error e => .error e
    | .ok _ =>
    match paraCheck c.paraFork txs with
    | .error e => .error e
    | .ok _ =>
    match feeCheck c minfee maxFee head tail with
    | .error e => .error e
    | .ok _ => chainCheck H txs.length head.header true txs

def groupCheck (c : CheckCfg) (minfee maxFee : Int) (txs : List Transaction) : Except Err Unit :=
  groupCheckWith Sha256.hash c minfee maxFee txs

/-- `Transactions.CheckSign(height)`: members in order, first non-ok outcome wins. -/
def groupCheckSignO (r : Registry) (validate : Nat → String → Bytes → Bytes → Bytes → VOut)
    (h : Int) : Nat → List Transaction → VOut
  | _, [] => .ok
  | i, t :: ts => match checkSignO r (validate i) h t with
    | .ok => groupCheckSignO r validate h (i + 1) ts
    | o => o

def groupCheckSign (r : Registry) (validate : String → Bytes → Bytes → Bytes → VOut)
    (h : Int) (txs : List Transaction) : Bool :=
  txs.all (checkSign r validate h)

/-- the final loop of `CreateTxGroup` / `RebuiltGroup`: every member gets the common header. -/
def setHeader (h : Bytes) (t : Transaction) : Transaction := { t with header := h }

/-- `RebuiltGroup`: recompute `next` links back to front and the common header (count untouched). -/
def rebuildTail (H : Bytes → Bytes) : List Transaction → List Transaction
  | [] => []
  | t :: rest =>
    let rest' := rebuildTail H rest
    match rest' with
    | [] => [t]
    | u :: _ => { t with next := H (encode (stripSigHeader u)) } :: rest'

def rebuiltGroupWith (H : Bytes → Bytes) (txs : List Transaction) : List Transaction :=
  match rebuildTail H txs with
  | [] => []
  | h0 :: tl =>
    let header := H (encode (stripSigHeader h0))
    (h0 :: tl).map (setHeader header)

def rebuiltGroup (txs : List Transaction) : List Transaction := rebuiltGroupWith Sha256.hash txs

/-- `Transaction.GetTxGroup` up to the decoding of the header (`decode` = `types.Decode` into
`Transactions`; not modelled — the harness only asks where no decoding happens or on `Tx()` outputs). -/
inductive GroupOf | single | err (e : Err) | decodeHeader
  deriving DecidableEq, Repr

def getTxGroupGate (t : Transaction) : GroupOf :=
  if t.groupCount < 0 ∨ t.groupCount = 1 ∨ t.groupCount > 20 then .err .groupCount
  else if t.groupCount > 0 then .decodeHeader
  else if t.next ≠ [] ∨ t.header ≠ [] then .err .nomalTx
  else .single

/-- `Next` of a member: hash of the (already rewritten) following member; the last member keeps
whatever it had. -/
def nextOf (H : Bytes → Bytes) (dflt : Bytes) : List Transaction → Bytes
  | [] => dflt
  | u :: _ => H (encode (stripSigHeader u))

/-- a non-head member as `CreateTxGroup` rewrites it (count, provisional header, fee 0, next). -/
def mkMember (t : Transaction) (n : Nat) (header0 : Bytes) (nxt : Bytes) : Transaction :=
  { t with groupCount := Int.ofNat n, header := header0, fee := 0, next := nxt }

/-- backwards pass of `CreateTxGroup` over members 1..n-1 (processed last to first):
returns the rewritten tail, the accumulated original fees and required fees. -/
def createTail (H : Bytes → Bytes) (n : Nat) (header0 : Bytes) (feeRate : Int) :
    List Transaction → Except Err (List Transaction × Int × Int)
  | [] => .ok ([], 0, 0)
  | t :: rest =>
    match createTail H n header0 feeRate rest with
    | .error e => .error e
    | .ok (rest', tot, minf) =>
      let t' := mkMember t n header0 (nextOf H t.next rest')
      match realFee t' feeRate with
      | .error e => .error e
      | .ok rf => .ok (t' :: rest', tot + t.fee, minf + rf)

/-- the head as `CreateTxGroup` rewrites it (count, provisional header, fee, next). -/
def mkHead (t0 : Transaction) (n : Nat) (header0 : Bytes) (fee : Int) (nxt : Bytes) : Transaction :=
  { t0 with groupCount := Int.ofNat n, header := header0, fee := fee, next := nxt }

/-- `CreateTxGroup(txs, feeRate)`. -/
def createGroupWith (H : Bytes → Bytes) (txs : List Transaction) (feeRate : Int) :
    Except Err (List Transaction) :=
  match txs with
  | [] => .error .countLessThanTwo
  | [_] => .error .countLessThanTwo
  | t0 :: tail =>
    let n := txs.length
    let header0 := H (encode (stripSigHeader t0))
    match createTail H n header0 feeRate tail with
    | .error e => .error e
    | .ok (tail', tot, minf) =>
      let nxt := nextOf H t0.next tail'
      match realFee (mkHead t0 n header0 (2^62) nxt) feeRate with
      | .error e => .error e
      | .ok rf =>
        let total := tot + t0.fee
        let minfee := minf + rf
        let fee := if total < minfee then minfee else total
        let h0 := mkHead t0 n header0 fee nxt
        let header := H (encode (stripSigHeader h0))
        .ok ((h0 :: tail').map (setHeader header))

def createGroup (txs : List Transaction) (feeRate : Int) : Except Err (List Transaction) :=
  createGroupWith Sha256.hash txs feeRate

/-- `Transactions` message: `repeated Transaction txs = 1`. -/
def encodeGroup (txs : List Transaction) : Bytes := fRepBytes 1 (txs.map encode)

/-- `Transactions.Tx()`: clone of the head carrying the encoded group in `header`. -/
def groupTx (txs : List Transaction) : Option Transaction :=
  match txs with
  | h :: _ :: _ => some { cloneTx h with header := encodeGroup txs }
  | _ => none

/-! ### wire codec for the drivers (shared by drv_c16 / drv_c17) -/
namespace Codec
open Wire

def parseSigTok (s : String) : Option (Option Signature) :=
  if s == "-" then some none else
  match s.splitOn ":" with
  | [ty, pk, sg] => do
    let ty ← parseInt? ty
    let pk ← fromHex pk
    let sg ← fromHex sg
    pure (some { ty := ty, pubkey := pk, signature := sg })
  | _ => none

/-- `execer,payload,sig,fee,expire,nonce,to,groupCount,header,next,chainID` -/
def parseTx (s : String) : Option Transaction :=
  match s.splitOn "," with
  | [ex, pl, sg, fee, exp, nonce, to, gc, hd, nx, cid] => do
    let ex ← fromHex ex
    let pl ← fromHex pl
    let sg ← parseSigTok sg
    let fee ← parseInt? fee
    let exp ← parseInt? exp
    let nonce ← parseInt? nonce
    let to ← fromHex to
    let gc ← parseInt? gc
    let hd ← fromHex hd
    let nx ← fromHex nx
    let cid ← parseInt? cid
    pure { execer := ex, payload := pl, signature := sg, fee := fee, expire := exp, nonce := nonce,
           to := to, groupCount := gc, header := hd, next := nx, chainID := cid }
  | _ => none

def showSig : Option Signature → String
  | none => "-"
  | some s => s!"{s.ty}:{toHexOrDash s.pubkey}:{toHexOrDash s.signature}"

def showTx (t : Transaction) : String :=
  ",".intercalate [toHexOrDash t.execer, toHexOrDash t.payload, showSig t.signature, toString t.fee,
    toString t.expire, toString t.nonce, toHexOrDash t.to, toString t.groupCount,
    toHexOrDash t.header, toHexOrDash t.next, toString t.chainID]

def parseTxs : List String → Option (List Transaction)
  | [] => some []
  | s :: rest => do
    let t ← parseTx s
    let ts ← parseTxs rest
    pure (t :: ts)

def parseBool (s : String) : Option Bool :=
  if s == "1" then some true else if s == "0" then some false else none

def parseVOut (s : String) : Option VOut :=
  if s == "1" then some .ok else if s == "0" then some .fail else if s == "p" then some .panic else none

def showVOut : VOut → String
  | .ok => "1" | .fail => "0" | .panic => "panic"

def showLoad : LoadResult → String
  | .ok => "ok" | .unknown => "unknown" | .notEnable => "notenable"

/-- registry ops shared by both drivers:
`reg <name> <typeID> <enable01> <enableHeight>` -> ok
`init <name,name|-> <name=height,…|->` -> ok
`load <name> <height>` -> ok|unknown|notenable -/
def regOp (r : Registry) (ws : List String) : Option (Registry × String) :=
  match ws with
  | ["reg", name, id, en, h] => do
    let id ← parseInt? id
    let en ← parseBool en
    let h ← parseInt? h
    pure (r ++ [{ name := name, typeID := id, enable := en, enableHeight := h }], "ok")
  | ["init", tys, hs] => do
    let tys := if tys == "-" then [] else tys.splitOn ","
    let hs ← if hs == "-" then some [] else
      (hs.splitOn ",").foldr (fun kv acc => do
        let acc ← acc
        match kv.splitOn "=" with
        | [k, v] => do
          let v ← parseInt? v
          pure ((k, v) :: acc)
        | _ => none) (some [])
    pure (cryptoInit r tys hs, "ok")
  | ["load", name, h] => do
    let h ← parseInt? h
    pure (r, showLoad (load r name h))
  | _ => none

end Codec
end C16
