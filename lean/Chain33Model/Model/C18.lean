/-
C18 — transaction merkle root (common/merkle/merkle.go).  Executable model, core Lean only.

The hash domain is an arbitrary type `β` with a distinguished `nil` (Go's nil slice: the root
of an empty list, and what `GetHashFromTwoHash` returns for a nil argument) and an arbitrary
two-to-one function `H2` (`GetHashFromTwoHash`).  The driver instantiates `β := ByteArray`,
`H2 l r := Sha2Sum (l ++ r)` (nil-aware); the theorems hold for every `β`, `nil`, `H2`.
Loops are written with explicit fuel (always sufficient: lemmas in Proofs/C18*.lean); running
out of fuel is never the modelled behaviour.
-/
namespace C18

variable {β : Type}

/-- one round of `getMerkleRoot`'s outer loop: duplicate the last element of an odd level, hash pairs. -/
def pairUp (H2 : β → β → β) : List β → List β
  | [] => []
  | [a] => [H2 a a]
  | a :: b :: rest => H2 a b :: pairUp H2 rest

/-- `getMerkleRoot` with fuel (number of rounds still allowed). -/
def rootFuel (nil : β) (H2 : β → β → β) : Nat → List β → β
  | _, [] => nil
  | _, [a] => a
  | 0, _ :: _ :: _ => nil            -- out of fuel; unreachable for fuel = length
  | f + 1, a :: b :: rest => rootFuel nil H2 f (pairUp H2 (a :: b :: rest))

/-- `getMerkleRoot`: sequential root, `nil` for the empty list. -/
def getMerkleRoot (nil : β) (H2 : β → β → β) (xs : List β) : β :=
  rootFuel nil H2 xs.length xs

def log2Loop : Nat → Nat → Nat → Nat
  | 0, _, level => level
  | f + 1, data, level =>
    let d := data / 2
    if d ≤ 1 then level else log2Loop f d (level + 1)

/-- `log2` as written in merkle.go (`log2 1 = 1`, `log2 0 = 0`). -/
def log2 (data : Nat) : Nat :=
  if data = 0 then 0 else log2Loop data data 1

/-- `pow2`. -/
def pow2 : Nat → Nat
  | 0 => 1
  | d + 1 => 2 * pow2 d

def calcLevelLoop : Nat → Nat → Nat → Nat
  | 0, _, level => level
  | f + 1, n, level =>
    if 1 < n then calcLevelLoop f ((if n % 2 = 1 then n + 1 else n) / 2) (level + 1) else level

/-- `calcLevel`. -/
def calcLevel (n : Nat) : Nat :=
  if n = 1 then 1 else calcLevelLoop n n 0

/-- `root = H(root, root)` repeated `k` times. -/
def iterSelf (H2 : β → β → β) : Nat → β → β
  | 0, r => r
  | k + 1, r => iterSelf H2 k (H2 r r)

/-- `getMerkleRootPad`. -/
def getMerkleRootPad (nil : β) (H2 : β → β → β) (hashes : List β) (step : Nat) : β :=
  let level1 := calcLevel hashes.length
  let level2 := log2 step
  let root := match hashes with
    | [a] => H2 a a
    | _ => getMerkleRoot nil H2 hashes
  iterSelf H2 (level2 - level1) root

/-- the child list of `GetMerkleRoot`: roots of consecutive chunks of `step` hashes, the last
(shorter) one through `getMerkleRootPad`. -/
def chunkRoots (nil : β) (H2 : β → β → β) (step : Nat) : Nat → List β → List β
  | 0, _ => []
  | _, [] => []
  | f + 1, x :: xs =>
    let c := (x :: xs).take step
    (if c.length ≠ step then getMerkleRootPad nil H2 c step else getMerkleRoot nil H2 c)
      :: chunkRoots nil H2 step f ((x :: xs).drop step)

/-- the chunk size chosen by `GetMerkleRoot`. -/
def stepOf (n ncpu : Nat) : Nat :=
  let s0 := log2 (n / ncpu)
  let s1 := if s0 < 1 then 1 else s0
  let s2 := pow2 s1
  if s2 > 256 then 256 else s2

/-- `GetMerkleRoot` with `runtime.NumCPU() = ncpu`. Goroutine completion order is irrelevant:
each child root is stored at its own index. -/
def GetMerkleRoot (nil : β) (H2 : β → β → β) (ncpu : Nat) (hashes : List β) : β :=
  if hashes.length ≤ 80 ∨ ncpu ≤ 1 then getMerkleRoot nil H2 hashes
  else
    let step := stepOf hashes.length ncpu
    getMerkleRoot nil H2 (chunkRoots nil H2 step hashes.length hashes)

/-! ### Computation (streaming root / branch / mutated) -/

inductive Res (α : Type) where
  | ok : α → Res α
  | panic : Res α
deriving Repr, DecidableEq

structure CState (β : Type) where
  inner : List β          -- `inner := make([][]byte, 32)`
  branch : List β
  matchlevel : Nat        -- `var matchlevel uint32 = 0xff`
  mutated : Bool

/-- the branch bookkeeping shared by the carry loop of the main loop and of the tail loop. -/
def branchStep (flag2 : Bool) (level : Nat) (x h : β) (matchh : Bool) (st : CState β) : List β × Bool :=
  if flag2 then
    if matchh then (st.branch ++ [x], matchh)
    else if st.matchlevel = level then (st.branch ++ [h], true)
    else (st.branch, matchh)
  else (st.branch, matchh)

/-- inner `for level = 0; 0 == count & (1<<level); level++` of the main loop. Returns the level
reached, the running hash, `matchh`, and the state. `inner[level]` out of range is a Go panic. -/
def carry [DecidableEq β] (H2 : β → β → β) (flag2 : Bool) (count : Nat) :
    Nat → Nat → β → Bool → CState β → Res (Nat × β × Bool × CState β)
  | 0, _, _, _, _ => .panic
  | f + 1, level, h, matchh, st =>
    if count.testBit level then .ok (level, h, matchh, st)
    else match st.inner[level]? with
      | none => .panic
      | some x =>
        let (branch, matchh') := branchStep flag2 level x h matchh st
        let mutated := st.mutated || decide (x = h)
        carry H2 flag2 count f (level + 1) (H2 x h) matchh' { st with branch := branch, mutated := mutated }

/-- one iteration of `for count, h = range leaves`. -/
def leafStep [DecidableEq β] (H2 : β → β → β) (flag2 : Bool) (branchpos : Nat)
    (acc : Res (Nat × CState β)) (h : β) : Res (Nat × CState β) :=
  match acc with
  | .panic => .panic
  | .ok (idx, st) =>
    let matchh := decide (idx % 2 ^ 32 = branchpos) && flag2
    let count := idx + 1
    match carry H2 flag2 count 33 0 h matchh st with
    | .panic => .panic
    | .ok (level, h', matchh', st') =>
      if level < st'.inner.length then
        .ok (count, { st' with inner := st'.inner.set level h',
                               matchlevel := if matchh' then level else st'.matchlevel })
      else .panic

/-- lowest set bit (`for level = 0; 0 == count & (1<<level); level++ {}`), fuel-bounded. -/
def lowBit (count : Nat) : Nat → Nat → Nat
  | 0, level => level
  | f + 1, level => if count.testBit level then level else lowBit count f (level + 1)

/-- inner carry loop of the tail (`for 0 == count & (1<<level)`): no mutation check. -/
def tailCarry (H2 : β → β → β) (flag2 : Bool) (count : Nat) :
    Nat → Nat → β → Bool → CState β → Res (Nat × β × Bool × CState β)
  | 0, _, _, _, _ => .panic
  | f + 1, level, h, matchh, st =>
    if count.testBit level then .ok (level, h, matchh, st)
    else match st.inner[level]? with
      | none => .panic
      | some x =>
        let (branch, matchh') := branchStep flag2 level x h matchh st
        tailCarry H2 flag2 count f (level + 1) (H2 x h) matchh' { st with branch := branch }

/-- outer tail loop `for count != (1 << level)`. -/
def tailLoop (H2 : β → β → β) (flag2 : Bool) :
    Nat → Nat → Nat → β → Bool → CState β → Res (β × CState β)
  | 0, _, _, _, _, _ => .panic
  | f + 1, count, level, h, matchh, st =>
    if count = 2 ^ level then .ok (h, st)
    else
      let st1 := if flag2 && matchh then { st with branch := st.branch ++ [h] } else st
      let h1 := H2 h h
      let count1 := count + 2 ^ level
      match tailCarry H2 flag2 count1 34 (level + 1) h1 matchh st1 with
      | .panic => .panic
      | .ok (level2, h2, matchh2, st2) => tailLoop H2 flag2 f count1 level2 h2 matchh2 st2

/-- `Computation(leaves, flage, branchpos)` = (roothash, mutated, branch). -/
def Computation [DecidableEq β] (nil : β) (H2 : β → β → β) (leaves : List β) (flage : Nat) (branchpos : Nat) :
    Res (β × Bool × List β) :=
  if leaves.isEmpty then .ok (nil, false, [])
  else if flage < 1 ∨ flage > 3 then .ok (nil, false, [])
  else
    let flag2 := flage / 2 % 2 = 1
    let st0 : CState β := { inner := List.replicate 32 nil, branch := [], matchlevel := 0xff, mutated := false }
    match leaves.foldl (leafStep H2 flag2 branchpos) (.ok (0, st0)) with
    | .panic => .panic
    | .ok (count, st) =>
      let level := lowBit count 64 0
      match st.inner[level]? with
      | none => .panic
      | some h =>
        match tailLoop H2 flag2 34 count level h (decide (st.matchlevel = level)) st with
        | .panic => .panic
        | .ok (root, st') => .ok (root, st'.mutated, st'.branch)

/-- `GetMerkleBranch`. -/
def GetMerkleBranch [DecidableEq β] (nil : β) (H2 : β → β → β) (leaves : List β) (position : Nat) : Res (List β) :=
  match Computation nil H2 leaves 2 position with
  | .panic => .panic
  | .ok (_, _, b) => .ok b

/-- `GetMerkleRootFromBranch` (Index is a uint32; only its low bits matter). -/
def GetMerkleRootFromBranch (H2 : β → β → β) : List β → β → Nat → β
  | [], hash, _ => hash
  | b :: rest, hash, index =>
    GetMerkleRootFromBranch H2 rest (if index % 2 = 1 then H2 b hash else H2 hash b) (index / 2)

/-! ### multi-layer (child chain) roots: `calcMultiLayerMerkleInfo` -/

abbrev Bytes := List UInt8

/-- `types.ParaKeyX` = "user.p." -/
def paraKey : Bytes := [117, 115, 101, 114, 46, 112, 46]
/-- `types.MainChainName` = "main" -/
def mainChainName : Bytes := [109, 97, 105, 110]

def findDot : Bytes → Nat → Option Nat
  | [], _ => none
  | c :: rest, i => if c = 46 then some i else findDot rest (i + 1)

/-- `types.GetParaExecTitleName`. -/
def paraTitle (exec : Bytes) : Option Bytes :=
  if paraKey.isPrefixOf exec then
    match findDot (exec.drop paraKey.length) paraKey.length with
    | some i => some (exec.take (i + 1))
    | none => none
  else none

structure Child (β : Type) where
  title : Bytes
  start : Nat
  hash : β
  count : Nat

/-- first loop of `calcMultiLayerMerkleInfo`: (title, StartIndex) of every child chain. -/
def childStarts : List Bytes → Nat → Bytes → List (Bytes × Nat)
  | [], _, _ => []
  | exec :: rest, i, first =>
    match paraTitle exec with
    | none => if i = 0 then (mainChainName, 0) :: childStarts rest (i + 1) first
              else childStarts rest (i + 1) first
    | some t => if first.isEmpty ∨ t ≠ first then (t, i) :: childStarts rest (i + 1) t
                else childStarts rest (i + 1) first

/-- `calcSingleLayerMerkleRoot` on the full hashes: zero hash for no txs, panic on a nil root. -/
def singleLayerRoot [DecidableEq β] (nil zero : β) (H2 : β → β → β) (ncpu : Nat) (hs : List β) : Res β :=
  if hs.isEmpty then .ok zero
  else
    let r := GetMerkleRoot nil H2 ncpu hs
    if r = nil then .panic else .ok r

def childRoots [DecidableEq β] (nil zero : β) (H2 : β → β → β) (ncpu : Nat) (hs : List β) (total : Nat) :
    List (Bytes × Nat) → Res (List (Child β))
  | [] => .ok []
  | (t, s) :: rest =>
    let e := match rest with
      | [] => total
      | (_, s') :: _ => s'
    match singleLayerRoot nil zero H2 ncpu ((hs.drop s).take (e - s)) with
    | .panic => .panic
    | .ok r => match childRoots nil zero H2 ncpu hs total rest with
      | .panic => .panic
      | .ok cs => .ok ({ title := t, start := s, hash := r, count := e - s } :: cs)

/-- `calcMultiLayerMerkleInfo` on (execer, full hash) pairs. -/
def calcMultiLayer [DecidableEq β] (nil zero : β) (H2 : β → β → β) (ncpu : Nat) (txs : List (Bytes × β)) :
    Res (β × List (Child β)) :=
  if txs.isEmpty then .ok (zero, [])
  else
    let hs := txs.map (·.2)
    match childStarts (txs.map (·.1)) 0 [] with
    | [] => .panic                        -- `childchains[0]` index out of range (unreachable)
    | [(t, s)] =>
      match singleLayerRoot nil zero H2 ncpu hs with
      | .panic => .panic
      | .ok r => .ok (r, [{ title := t, start := s, hash := r, count := txs.length }])
    | starts =>
      match childRoots nil zero H2 ncpu hs txs.length starts with
      | .panic => .panic
      | .ok cs =>
        let r := GetMerkleRoot nil H2 ncpu (cs.map (·.hash))
        if r = nil then .panic else .ok (r, cs)

/-! ### the duplicate-transaction check of block validation (util/exec.go `DelDupTx`, util/util.go `PreExecBlock`) -/

/-- `util.DelDupTx` on the list of transaction hashes: of several equal hashes only the last
occurrence is kept (the Go code records the last index of every hash and keeps `i == lastindex`). -/
def delDupTx [DecidableEq β] : List β → List β
  | [] => []
  | x :: xs => if x ∈ xs then delDupTx xs else x :: delDupTx xs

/-- `PreExecBlock` on a peer block (`errReturn`, `ForkCheckTxDup` active, `DisableTxDupCheck`
off): `len(block.Txs) != len(cacheTxs)` after `CheckTxDup` gives `ErrTxDup`. Only the in-block
part of the check (`DelDupTx`) is modelled; hashes already on chain are removed as well in Go. -/
def dupRejected [DecidableEq β] (txHashes : List β) : Bool :=
  (delDupTx txHashes).length != txHashes.length

end C18
