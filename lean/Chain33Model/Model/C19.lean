/-
C19 — validity checks independent of process history: common/address.CheckAddress (driver table with
enable heights, result cache), eth PubKeyToAddr (address cache + height-dependent text format).
Core Lean only.  Addresses and errors are abstract (`Nat` ids in the driver); each driver's own
verdict for an address is an input (`none` = accepts, `some e` = rejects with error e).
-/
namespace C19

/-- `isEnable(blockHeight, enableHeight)`. -/
def isEnable (h eh : Int) : Bool := h < 0 || !(eh < 0 || eh > h)

structure Drv (A E : Type) where
  id : Nat
  enable : Int
  validate : A → Option E

/-- per driver (in table order = id order): is it enabled at height h — the `mask` of the cache key. -/
def mask {A E : Type} (ds : List (Drv A E)) (h : Int) : List Bool := ds.map (fun d => isEnable h d.enable)

/-- the loop of `CheckAddress`: drivers tried in id order; the first acceptance wins (`e = nil; break`),
otherwise the FIRST error is kept (`if e == nil { e = err }`). `acc` is the error kept so far. -/
def tryDrivers {A E : Type} (a : A) : List (Drv A E × Bool) → Option E → Option E
  | [], acc => acc
  | (d, en) :: rest, acc =>
    if en then
      match d.validate a with
      | none => none
      | some e => tryDrivers a rest (match acc with | some e0 => some e0 | none => some e)
    else tryDrivers a rest acc

/-- the history-free verdict. -/
def checkPure {A E : Type} (ds : List (Drv A E)) (a : A) (h : Int) : Option E :=
  tryDrivers a (ds.zip (mask ds h)) none

abbrev Cache (A E : Type) := List ((List Bool × A) × Option E)

def lookup {A E : Type} [DecidableEq A] (c : Cache A E) (k : List Bool × A) : Option (Option E) :=
  match c with
  | [] => none
  | (k', v) :: rest => if k' = k then some v else lookup rest k

/-- `CheckAddress` with its cache (keyed by enabled-driver mask and address text). -/
def check {A E : Type} [DecidableEq A] (ds : List (Drv A E)) (c : Cache A E) (a : A) (h : Int) :
    Option E × Cache A E :=
  match lookup c (mask ds h, a) with
  | some v => (v, c)
  | none => let v := checkPure ds a h; (v, ((mask ds h, a), v) :: c)

/-- a step of a process history: a query, or the LRU dropping some entries (any sub-list survives). -/
inductive Ev (A : Type) where
  | query (a : A) (h : Int)
  | evict (keep : List Bool)     -- entry i survives iff keep[i] = true (missing positions are dropped)

def evictBy {α : Type} : List α → List Bool → List α
  | [], _ => []
  | _ :: xs, [] => evictBy xs []
  | x :: xs, k :: ks => if k then x :: evictBy xs ks else evictBy xs ks

def runHist {A E : Type} [DecidableEq A] (ds : List (Drv A E)) (c : Cache A E) : List (Ev A) → Cache A E
  | [] => c
  | .query a h :: rest => runHist ds (check ds c a h).2 rest
  | .evict k :: rest => runHist ds (evictBy c k) rest

/-! the code before the repairs, kept for the regression witnesses -/

/-- old `CheckAddress`: drivers tried in an arbitrary (map) order `order`, LAST error reported, cache keyed by
the address only. -/
def tryOld {A E : Type} (a : A) (h : Int) : List (Drv A E) → Option E → Option E
  | [], e => e
  | d :: rest, e =>
    if isEnable h d.enable then
      match d.validate a with
      | none => none
      | some e' => tryOld a h rest (some e')
    else tryOld a h rest e

/-! eth `PubKeyToAddr`: cache of the unformatted address, format applied on the way out -/

structure EthCtx (P T : Type) where
  raw : P → T            -- address text derived from the key
  fmt : Bool → T → T     -- height-dependent text format (argument: fork active)

def pub2addr {P T : Type} [DecidableEq P] (cx : EthCtx P T) (cache : List (P × T)) (forkActive : Bool) (p : P) :
    T × List (P × T) :=
  match cache.lookup p with
  | some t => (cx.fmt forkActive t, cache)
  | none => (cx.fmt forkActive (cx.raw p), (p, cx.raw p) :: cache)

end C19
