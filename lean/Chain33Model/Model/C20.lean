/-
C20 — difficulty compact encoding (common/difficulty/difficulty.go).
Executable model, core Lean only.  `uint32` values are `Nat`s below 2^32; big.Int is `Int`.
Bit operations of the Go code are written as div/mod by powers of two so that the proofs
can use `omega`/arithmetic; the correspondence check (h_c20 vs drv_c20) ties these
definitions to the Go functions on generated and edge inputs.
-/
namespace C20

/-- number of bytes of the big-endian encoding of `n` (`len(n.Bytes())`), 0 for 0. -/
def byteLen (n : Nat) : Nat :=
  if h : n = 0 then 0 else 1 + byteLen (n / 256)
decreasing_by omega

/-- `CompactToBig`. -/
def compactToBig (c : Nat) : Int :=
  let mant := c % 2^23                 -- compact & 0x007fffff
  let neg := (c / 2^23) % 2 = 1        -- compact & 0x00800000 != 0
  let e := (c / 2^24) % 256            -- uint(compact >> 24)  (c < 2^32)
  let bn : Nat := if e ≤ 3 then mant / 256^(3 - e) else mant * 256^(e - 3)
  if neg then -(Int.ofNat bn) else Int.ofNat bn

/-- `BigToCompact`, including the `uint32(exponent<<24)` truncation. -/
def bigToCompact (n : Int) : Nat :=
  if n = 0 then 0 else
  let a := n.natAbs
  let e := byteLen a
  -- mantissa is a uint32: low word of a, shifted
  -- (`big.Int.Rsh` on a negative number is an arithmetic shift: it rounds towards -inf, so the
  --  magnitude is rounded *up* for n < 0 — mirrored here as written in the Go code)
  let sh : Nat := if n < 0 then (a + 256^(e - 3) - 1) / 256^(e - 3) else a / 256^(e - 3)
  let m0 : Nat := if e ≤ 3 then (a * 256^(3 - e)) % 2^32 else sh % 2^32
  let bump := (m0 / 2^23) % 2 = 1
  let m := if bump then m0 / 256 else m0
  let e' := if bump then e + 1 else e
  -- uint32(exponent<<24) | mantissa   (mantissa may in principle overlap; model the OR)
  let c := Nat.lor ((e' * 2^24) % 2^32) m
  if n < 0 then Nat.lor c (2^23) else c

/-- `CalcWork`. -/
def calcWork (bits : Nat) : Int :=
  let d := compactToBig bits
  if d ≤ 0 then 0 else (2^256 : Int) / (d + 1)

end C20
