/-
C21 — model of the mempool bookkeeping (system/mempool/{cache,accountindex,lasttx,
shorthashtx,simplequeue,base,eventprocess}.go).  Core Lean only.

`txCache` = SimpleQueue (insertion-ordered listmap keyed by tx hash, capacity, byte counter)
          + AccountTxIndex (Go map sender ↦ listmap keyed by hash, per-sender limit)
          + LastTxCache (bounded listmap keyed by hash)
          + SHashTxCache (listmap keyed by the 5-byte short hash)
          + totalFee.
Transactions are abstract records; the harness maps real transactions to them.  A pooled
transaction group is ONE entry (the merged `Transactions.Tx()` object, keyed by the hash of the
head member); `exps` lists the `Expire` fields of all members.

Every listmap in the Go code stores values whose key is a function of the value
(hash / short hash), so a listmap is modelled as the list of its values in insertion order
(`kexist / kget / kpush / kremove` mirror common/listmap).
-/
namespace C21

structure Tx where
  id    : Nat        -- tx hash (alias)
  snd   : Nat        -- tx.From() (alias)
  size  : Nat        -- types.Size(tx)
  fee   : Int        -- tx.Fee
  exp   : Int        -- tx.Expire of the pooled object (head member for a group)
  exps  : List Int   -- Expire of every member (singleton for a plain tx)
  eth   : Bool       -- signature type is the eth type
  esort : Bool       -- eth ∧ not a para-chain executor (subject to nonce sorting)
  nonce : Int
  sh    : Nat        -- CalcTxShortHash(hash)
deriving DecidableEq, Repr

structure Item where
  tx    : Tx
  enter : Int        -- Item.EnterTime
deriving DecidableEq, Repr

/-! ### common/listmap on "values carry their key" lists -/

def kexist {α} (k : α → Nat) (l : List α) (x : Nat) : Bool := l.any (fun a => k a == x)

def kget {α} (k : α → Nat) (l : List α) (x : Nat) : Option α := l.find? (fun a => k a == x)

/-- `ListMap.Push`: an existing key keeps its position and gets the new value. -/
def kpush {α} (k : α → Nat) (l : List α) (v : α) : List α :=
  if kexist k l (k v) then l.map (fun a => if k a == k v then v else a) else l ++ [v]

/-- `ListMap.Remove` (keys are unique in a Go map, so removing the key is a filter). -/
def kremove {α} (k : α → Nat) (l : List α) (x : Nat) : List α := l.filter (fun a => k a != x)

/-! ### configuration and state -/

structure Cfg where
  cap      : Nat     -- SimpleQueue SubConfig.PoolCacheSize
  shMax    : Nat     -- types.Mempool.PoolCacheSize (SHashTxCache.max)
  perAcc   : Nat     -- MaxTxNumPerAccount
  lastMax  : Nat     -- MaxTxLast
  txHeight : Bool    -- TxHeight expiry enabled (ForkTxHeight ∧ cfg TxHeight, main chain)
deriving Repr

abbrev Acc := List (Nat × List Tx)   -- Go map sender ↦ listmap (iteration order is never observed)

structure Pool where
  q     : List Item   -- SimpleQueue.txList
  bytes : Int         -- SimpleQueue.cacheBytes
  acc   : Acc         -- AccountTxIndex.accMap
  last  : List Tx     -- LastTxCache.l
  sh    : List Tx     -- SHashTxCache.l
  fee   : Int         -- txCache.totalFee
  h     : Int         -- mem.header.Height
  bt    : Int         -- mem.header.BlockTime
deriving Repr

def Pool.empty (h bt : Int) : Pool := ⟨[], 0, [], [], [], 0, h, bt⟩

inductive Res | ok | errManyTx | errTxExist | errMemFull
deriving DecidableEq, Repr

def Res.toString : Res → String
  | .ok => "ok" | .errManyTx => "ErrManyTx" | .errTxExist => "ErrTxExist" | .errMemFull => "ErrMemFull"

/-! ### AccountTxIndex -/

def accGet (acc : Acc) (s : Nat) : Option (List Tx) := (acc.find? (fun e => e.1 == s)).map (·.2)

def accSet (acc : Acc) (s : Nat) (l : List Tx) : Acc := acc.map (fun e => if e.1 == s then (s, l) else e)

/-- `TxNumOfAccount`. -/
def accNum (acc : Acc) (s : Nat) : Nat :=
  match accGet acc s with
  | some l => l.length
  | none => 0

/-- `GetAccTxs` for one address. -/
def accTxs (acc : Acc) (s : Nat) : List Tx :=
  match accGet acc s with
  | some l => l
  | none => []

def accCanPush (cfg : Cfg) (acc : Acc) (tx : Tx) : Bool :=
  match accGet acc tx.snd with
  | some l => l.length < cfg.perAcc
  | none => true

/-- `AccountTxIndex.Push`: creates the sender's entry first, then may refuse. -/
def accPush (cfg : Cfg) (acc : Acc) (tx : Tx) : Acc × Bool :=
  match accGet acc tx.snd with
  | some l => if l.length ≥ cfg.perAcc then (acc, false) else (accSet acc tx.snd (kpush Tx.id l tx), true)
  | none => if 0 ≥ cfg.perAcc then (acc ++ [(tx.snd, [])], false) else (acc ++ [(tx.snd, [tx])], true)

def accRemove (acc : Acc) (tx : Tx) : Acc :=
  match accGet acc tx.snd with
  | some l =>
    let l' := kremove Tx.id l tx.id
    if l'.isEmpty then acc.filter (fun e => e.1 != tx.snd) else accSet acc tx.snd l'
  | none => acc

/-! ### LastTxCache / SHashTxCache -/

def lastPush (cfg : Cfg) (last : List Tx) (tx : Tx) : List Tx :=
  let last1 :=
    if last.length ≥ cfg.lastMax then
      match last.head? with
      | some v => kremove Tx.id last v.id
      | none => last
    else last
  kpush Tx.id last1 tx

def shPush (cfg : Cfg) (sh : List Tx) (tx : Tx) : List Tx :=
  if kexist Tx.sh sh tx.sh then sh
  else if sh.length ≥ cfg.shMax then sh
  else kpush Tx.sh sh tx

/-! ### txCache.Push / Remove -/

def qExist (p : Pool) (id : Nat) : Bool := kexist (fun it => it.tx.id) p.q id
def qGet (p : Pool) (id : Nat) : Option Item := kget (fun it => it.tx.id) p.q id

/-- `txCache.Push` (= `Mempool.PushTx`). -/
def push (cfg : Cfg) (p : Pool) (tx : Tx) (now : Int) : Pool × Res :=
  if !accCanPush cfg p.acc tx then (p, .errManyTx)
  else if qExist p tx.id then (p, .errTxExist)
  else if p.q.length ≥ cfg.cap then (p, .errMemFull)
  else
    let p1 := { p with q := kpush (fun it => it.tx.id) p.q ⟨tx, now⟩, bytes := p.bytes + tx.size }
    match accPush cfg p1.acc tx with
    | (acc', false) => ({ p1 with acc := acc' }, .errManyTx)
    | (acc', true) =>
      ({ p1 with acc := acc', last := lastPush cfg p1.last tx, fee := p1.fee + tx.fee,
                 sh := shPush cfg p1.sh tx }, .ok)

/-- `txCache.Remove`. -/
def remove (p : Pool) (id : Nat) : Pool :=
  match qGet p id with
  | none => p
  | some it =>
    { p with q := kremove (fun it => it.tx.id) p.q id, bytes := p.bytes - it.tx.size,
             acc := accRemove p.acc it.tx, last := kremove Tx.id p.last id,
             fee := p.fee - it.tx.fee, sh := kremove Tx.sh p.sh it.tx.sh }

/-- `Mempool.removeTxs` / `RemoveTxsOfBlock`: `if Exist(hash) { Remove(hash) }` per hash. -/
def removeTxs (p : Pool) (ids : List Nat) : Pool :=
  ids.foldl (fun p id => if qExist p id then remove p id else p) p

/-! ### expiry -/

def expireBound : Int := 1000000000
def txHeightFlag : Int := 4611686018427387904   -- 1 << 62
def lowAllowPackHeight : Int := 200
def highAllowPackHeight : Int := 600
def poolExpire : Int := 600                       -- mempoolExpiredInterval

/-- `Transaction.isExpire`. -/
def expired1 (cfg : Cfg) (valid h bt : Int) : Bool :=
  if valid == 0 then false
  else if valid ≤ expireBound then decide (valid ≤ h)
  else if cfg.txHeight && decide (valid > txHeightFlag) then
    let th := valid - txHeightFlag
    !(decide (th - lowAllowPackHeight ≤ h) && decide (h ≤ th + highAllowPackHeight))
  else decide (valid ≤ bt)

/-- `Transaction.IsExpire` (any member of a group). -/
def txExpired (cfg : Cfg) (tx : Tx) (h bt : Int) : Bool := tx.exps.any (fun v => expired1 cfg v h bt)

/-- `isExpired` of cache.go: pool age, then the transaction's own expiry. -/
def isExpired (cfg : Cfg) (it : Item) (h bt now : Int) : Bool :=
  decide (now - it.enter ≥ poolExpire) || txExpired cfg it.tx h bt

/-- `Mempool.removeExpired`: next block's height, current header's block time. -/
def removeExpired (cfg : Cfg) (p : Pool) (now : Int) : Pool :=
  removeTxs p ((p.q.filter (fun it => isExpired cfg it (p.h + 1) p.bt now)).map (fun it => it.tx.id))

/-- `Mempool.checkExpireValid`. -/
def expireValid (cfg : Cfg) (p : Pool) (tx : Tx) (now : Int) : Bool :=
  if txExpired cfg tx (p.h + 1) p.bt then false
  else if decide (tx.exp > expireBound) && decide (tx.exp < now + 60) then false
  else true

/-! ### block events -/

def setHeader (p : Pool) (h bt : Int) : Pool := { p with h := h, bt := bt }

/-- `eventAddBlock` (the delayed-tx cache is outside this model). -/
def addBlock (cfg : Cfg) (p : Pool) (bh bbt : Int) (ids : List Nat) (now : Int) : Pool :=
  let p1 := if bh > p.h || (bh == 0 && p.h == 0) then setHeader p bh bbt else p
  if p1.q.length > 0 then removeExpired cfg (removeTxs p1 ids) now else p1

/-- One position of a rolled-back block as `delBlock` sees it: the record pushed when the
position is taken alone, the record pushed when a group is re-assembled from here, the
`GroupCount` field, and the result of the types-level `tx.Check` of the chosen candidate
(an oracle input supplied by the harness). -/
structure BCand where
  single : Tx
  merged : Tx
  gcount : Nat
  chk    : Bool
deriving Repr

/-- The walk of `Mempool.delBlock` (miner transactions are not generated by the harness). -/
def delBlockWalk (cfg : Cfg) (now : Int) : Nat → List BCand → Pool → Pool
  | _, [], p => p
  | fuel, c :: rest, p =>
    let fits := decide (c.gcount > 1) && decide (c.gcount ≤ (c :: rest).length)
    let cand := if fits then c.merged else c.single
    let rest' := if fits then rest.drop (c.gcount - 1) else rest
    let p' := if c.chk && expireValid cfg p cand now then (push cfg p cand now).1 else p
    match fuel with
    | 0 => p'
    | fuel + 1 => delBlockWalk cfg now fuel rest' p'

/-- `eventDelBlock`: only for the block at the pool's height; the header becomes the chain's new
last header, then the block's transactions are pushed back. -/
def delBlock (cfg : Cfg) (p : Pool) (blkH : Int) (nh nbt : Int) (cs : List BCand) (now : Int) : Pool :=
  if blkH != p.h then p
  else delBlockWalk cfg now cs.length cs (setHeader p nh nbt)

/-! ### events as one labelled step -/

inductive Op
  | push (tx : Tx) (now : Int)
  | removeTxs (ids : List Nat)
  | setHeader (h bt : Int)
  | removeExpired (now : Int)
  | addBlock (bh bbt : Int) (ids : List Nat) (now : Int)
  | delBlock (blkH nh nbt : Int) (cs : List BCand) (now : Int)
  | query
deriving Repr

def step (cfg : Cfg) (p : Pool) : Op → Pool × Res
  | .push tx now => push cfg p tx now
  | .removeTxs ids => (removeTxs p ids, .ok)
  | .setHeader h bt => (setHeader p h bt, .ok)
  | .removeExpired now => (removeExpired cfg p now, .ok)
  | .addBlock bh bbt ids now => (addBlock cfg p bh bbt ids now, .ok)
  | .delBlock blkH nh nbt cs now => (delBlock cfg p blkH nh nbt cs now, .ok)
  | .query => (p, .ok)

def run (cfg : Cfg) (p : Pool) (ops : List Op) : Pool := ops.foldl (fun p op => (step cfg p op).1) p

/-! ### observers -/

def contents (p : Pool) : List Tx := p.q.map (·.tx)
def ids (p : Pool) : List Nat := p.q.map (·.tx.id)

/-- `getTxListByHash` with short hashes. -/
def byShort (p : Pool) (s : Nat) : Option Tx := kget Tx.sh p.sh s
/-- `getTxListByHash` with full hashes. -/
def byHash (p : Pool) (id : Nat) : Option Tx := (qGet p id).map (·.tx)

end C21
