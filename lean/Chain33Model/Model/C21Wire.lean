/-
Line-protocol interpreter shared by the C21 / C22 / C23 drivers: parses the op lines printed by
harness/cmd/h_c21 (see mp/ops.go for the grammar), runs the models' executable definitions and
prints the same canonical observation the harness prints for the implementation.  Core Lean only.
-/
import Chain33Model.Base.Wire
import Chain33Model.Model.C21
import Chain33Model.Model.C22
import Chain33Model.Model.C23

namespace C21Wire
open C21

structure Def where
  tx  : Tx
  ms  : List C22.Member
  fwd : Bool

structure St where
  started : Bool
  cfg   : Cfg
  acfg  : C22.ACfg
  fsort : Bool
  pool  : Pool
  now   : Int
  defs  : List (Nat × Def)              -- pooled-entry records by head id
  mems  : List (Nat × C22.Member × Nat) -- member id ↦ (attributes, GroupCount)
  view  : C22.View

def St.init : St :=
  { started := false, cfg := ⟨0, 0, 0, 0, false⟩, acfg := ⟨0, 0, 0, false, false, false, 0⟩, fsort := false,
    pool := Pool.empty 0 0, now := 0, defs := [], mems := [], view := ⟨[], [], []⟩ }

/-! parsing helpers -/

def field (ws : List String) (k : String) : Option String :=
  (ws.find? (fun w => w.startsWith (k ++ "="))).map (fun w => (w.drop (k.length + 1)).toString)

def fieldInt (ws : List String) (k : String) : Option Int := (field ws k).bind Wire.parseInt?
def fieldNat (ws : List String) (k : String) : Option Nat := (field ws k).bind (·.toNat?)
def fieldBool (ws : List String) (k : String) : Option Bool := (field ws k).map (· == "1")

def hexToNat (s : String) : Option Nat :=
  s.toList.foldlM (fun acc c => (Wire.hexVal c).map (fun d => acc * 16 + d)) 0

def natToHex (width : Nat) (n : Nat) : String :=
  let rec go : Nat → Nat → List Char → List Char
    | 0, _, acc => acc
    | w + 1, n, acc => go w (n / 16) (Wire.hexDigit (n % 16) :: acc)
  String.ofList (go width n [])

def tId (w : String) : Option Nat := if w.startsWith "t" then (w.drop 1).toString.toNat? else none

def tIds (ws : List String) : List Nat := ws.filterMap tId

def splitSemi (line : String) : String × String :=
  match line.splitOn " ; " with
  | [a] => (a, "")
  | a :: rest => (a, " ; ".intercalate rest)
  | [] => ("", "")

/-- `id:snd:size:fee:exp:sigok:took:bl:signed:eth:nonce` -/
def parseMember (s : String) : Option C22.Member :=
  match s.splitOn ":" with
  | [i, sn, sz, fe, ex, sg, to, bl, sd, et, no] => do
    let i ← i.toNat?
    let sn ← sn.toNat?
    let sz ← sz.toNat?
    let fe ← Wire.parseInt? fe
    let ex ← Wire.parseInt? ex
    let no ← Wire.parseInt? no
    pure { id := i, snd := sn, size := sz, fee := fe, exp := ex, sigOk := sg == "1", toOk := to == "1",
           bl := bl == "1", signed := sd == "1", eth := et == "1", nonce := no }
  | _ => none

def parseDef (post : List String) : Option Def := do
  let id ← fieldNat post "id"
  let snd ← fieldNat post "snd"
  let size ← fieldNat post "size"
  let fee ← fieldInt post "fee"
  let exp ← fieldInt post "exp"
  let eth ← fieldBool post "eth"
  let es ← fieldBool post "es"
  let nonce ← fieldInt post "nonce"
  let sh ← (field post "sh").bind hexToNat
  let m ← field post "m"
  let ms ← (m.splitOn ",").mapM parseMember
  let fwd := (fieldBool post "fwd") == some true
  pure { tx := { id, snd, size, fee, exp, exps := ms.map (·.exp), eth, esort := es, nonce, sh }, ms, fwd }

/-! printing -/

def tName (t : Tx) : String := "t" ++ toString t.id

def dash (l : List String) : String := if l.isEmpty then "-" else ",".intercalate l

def insertBy {α} (k : α → Nat) (a : α) : List α → List α
  | [] => [a]
  | b :: r => if k a ≤ k b then a :: b :: r else b :: insertBy k a r

def sortBy {α} (k : α → Nat) (l : List α) : List α := l.foldr (insertBy k) []

def dump (p : Pool) : String :=
  let q := p.q.map (fun it => tName it.tx ++ "@" ++ toString it.enter)
  let acc := (sortBy (·.1) p.acc).map (fun e => toString e.1 ++ ":" ++ dash (e.2.map tName))
  let accs := if acc.isEmpty then "-" else ";".intercalate acc
  let sh := p.sh.map (fun t => natToHex 10 t.sh ++ ":" ++ tName t)
  "q=" ++ dash q ++ " b=" ++ toString p.bytes ++ " f=" ++ toString p.fee ++ " acc=" ++ accs ++
    " last=" ++ dash (p.last.map tName) ++ " sh=" ++ dash sh ++ " hdr=" ++ toString p.h ++ "/" ++ toString p.bt

def withDump (res : String) (p : Pool) : String := res ++ " | " ++ dump p

/-- canonical form of a returned list: entries outside the nonce-sorted class in order, then the
nonce-sorted entries grouped by sender (ascending), each group in its own order. -/
def canonList (txs : List Tx) : String :=
  let hasEth := txs.any (·.esort)
  let plain := if hasEth then txs.filter (fun t => !t.esort) else txs
  let snds := sortBy id (C23.ethSenders txs)
  let groups := snds.map (fun s => " | " ++ toString s ++ ":" ++
      ",".intercalate ((txs.filter (fun t => t.esort && t.snd == s)).map tName))
  dash (plain.map tName) ++ String.join groups

/-! lookups -/

def findDef (st : St) (id : Nat) : Option Def := (st.defs.find? (fun e => e.1 == id)).map (·.2)
def findMem (st : St) (id : Nat) : Option (C22.Member × Nat) := (st.mems.find? (fun e => e.1 == id)).map (·.2)

def knownIds (st : St) (is : List Nat) : List Nat := is.filter (fun i => (findMem st i).isSome)

/-- The record a lone member would be pushed as (only ever used with `chk = false`). -/
def loneTx (m : C22.Member) : Tx :=
  { id := m.id, snd := m.snd, size := m.size, fee := m.fee, exp := m.exp, exps := [m.exp], eth := false,
    esort := false, nonce := 0, sh := 0 }

def mkCand (st : St) (id : Nat) (chk : Bool) : Option BCand :=
  match findMem st id with
  | none => none
  | some (m, gc) =>
    match findDef st id with
    | some d =>
      if d.ms.length > 1 then some { single := loneTx m, merged := d.tx, gcount := gc, chk }
      else some { single := d.tx, merged := d.tx, gcount := gc, chk }
    | none => some { single := loneTx m, merged := loneTx m, gcount := gc, chk }

def curOf (v : C22.View) (s : Nat) : Int := C22.curNonce v s

def setAssoc (l : List (Nat × Int)) (k : Nat) (v : Int) : List (Nat × Int) :=
  (l.filter (fun e => e.1 != k)) ++ [(k, v)]

/-! trace validation of concurrent bursts (DESIGN.md 1.6a) -/

/-- One invocation observed by the harness: global stamps of call and return, the sub-op, the response. -/
structure Ev where
  start : Nat
  fin   : Nat
  op    : List String
  resp  : String

def parseEv (s : String) : Option Ev :=
  match s.splitOn " => " with
  | [l, r] =>
    match Wire.words l with
    | a :: b :: op => do
      let a ← a.toNat?
      let b ← b.toNat?
      pure ⟨a, b, op, String.intercalate " " (Wire.words r)⟩
    | _ => none
  | _ => none

/-- The model's atomic step for one burst sub-op: new pool and response. -/
def applyEv (st : St) (p : Pool) (e : Ev) : Option (Pool × String) :=
  match e.op with
  | ["push", t] =>
    ((tId t).bind (findDef st)).map (fun d =>
      let (p', r) := push st.cfg p d.tx st.now
      (p', r.toString))
  | "rm" :: ts => some (removeTxs p (knownIds st (tIds ts)), "ok")
  | "rmblock" :: ts => some (removeTxs p (knownIds st (tIds ts)), "ok")
  | ["sweep"] => some (removeExpired st.cfg p st.now, "ok")
  | ["size"] => some (p, toString p.q.length)
  | ["txnum", s] => s.toNat?.map (fun s => (p, toString (accNum p.acc s)))
  | _ => none

/-- `accepts`: is there a linearisation compatible with the real-time order (an invocation that
returned before another was called comes first) in which every response is the model's and the
final state prints as `final`?  Returns the final pool of the first such linearisation. -/
def searchLin (st : St) (final : String) : Nat → Pool → List Ev → Option Pool
  | 0, p, evs => if evs.isEmpty && dump p == final then some p else none
  | fuel + 1, p, evs =>
    if evs.isEmpty then (if dump p == final then some p else none)
    else
      (evs.filter (fun e => evs.all (fun f => f.start == e.start || !(f.fin < e.start)))).findSome? (fun e =>
        match applyEv st p e with
        | some (p', r) =>
          if r == e.resp then searchLin st final fuel p' (evs.filter (fun f => f.start != e.start)) else none
        | none => none)

/-! the interpreter -/

def handle (st : St) (line : String) : St × String :=
  let (pre, post) := splitSemi line
  let ws := Wire.words pre
  let pw := Wire.words post
  match ws with
  | "env" :: args =>
    match fieldNat args "cap", fieldNat args "shmax", fieldNat args "per", fieldNat args "last",
          fieldInt args "minfee", fieldInt args "maxrate", fieldBool args "level", fieldBool args "noexec",
          fieldInt args "h", fieldInt args "bt", fieldInt args "now",
          fieldInt pw "maxfee", fieldInt pw "maxtxnum", fieldBool pw "txh", fieldBool pw "fbc", fieldBool pw "fsort" with
    | some cap, some shmax, some per, some last, some minfee, some maxrate, some level, some noexec,
      some h, some bt, some now, some maxfee, some maxtxnum, some txh, some fbc, some fsort =>
      let cfg' : Cfg := ⟨cap, shmax, per, last, txh⟩
      let acfg' : C22.ACfg := ⟨minfee, maxfee, maxrate, level, noexec, fbc, maxtxnum⟩
      let st0 := St.init
      ({ st0 with started := true, cfg := cfg', acfg := acfg', fsort := fsort,
                  pool := Pool.empty h bt, now := now }, "ok")
    | _, _, _, _, _, _, _, _, _, _, _, _, _, _, _, _ => (st, "bad-op")
  | op :: args =>
    if !st.started then (st, "bad-op") else
    match op with
    | "def" | "defg" =>
      match parseDef pw with
      | some d =>
        let gc := if d.ms.length > 1 then d.ms.length else 0
        let st' := { st with defs := (st.defs.filter (fun e => e.1 != d.tx.id)) ++ [(d.tx.id, d)],
                             mems := (st.mems.filter (fun e => !(d.ms.any (fun m => m.id == e.1)))) ++
                                     d.ms.map (fun m => (m.id, m, gc)) }
        (st', "ok")
      | none => (st, "bad-op")
    | "clock" =>
      match args with
      | [t] => match Wire.parseInt? t with
        | some t => ({ st with now := t }, "ok")
        | none => (st, "bad-op")
      | _ => (st, "bad-op")
    | "nonce" =>
      match args with
      | [s, n] => match s.toNat?, Wire.parseInt? n with
        | some s, some n => ({ st with view := { st.view with nonce := setAssoc st.view.nonce s n } }, "ok")
        | _, _ => (st, "bad-op")
      | _ => (st, "bad-op")
    | "chain+" =>
      let is := knownIds st (tIds args)
      ({ st with view := { st.view with chain := st.view.chain ++ is } }, "ok")
    | "chain-" =>
      let is := knownIds st (tIds args)
      ({ st with view := { st.view with chain := st.view.chain.filter (fun i => !is.contains i) } }, "ok")
    | "execbad" =>
      match args with
      | [t, b] => match tId t with
        | some i =>
          if (findDef st i).isNone then (st, "ok") else
          let l := st.view.execBad.filter (· != i)
          ({ st with view := { st.view with execBad := if b == "1" then l ++ [i] else l } }, "ok")
        | none => (st, "bad-op")
      | _ => (st, "ok")
    | "push" =>
      match args.head?.bind tId |>.bind (findDef st) with
      | some d =>
        let (p', r) := push st.cfg st.pool d.tx st.now
        ({ st with pool := p' }, withDump r.toString p')
      | none => (st, "bad-op")
    | "submit" =>
      match args.head?.bind tId |>.bind (findDef st) with
      | some d =>
        let (p', r) := C22.admitTx st.cfg st.acfg st.pool st.view ⟨d.tx, d.ms, d.fwd⟩ st.now
        let rs := match r with | .ok _ => "ok" | .error e => e.toString
        ({ st with pool := p' }, withDump rs p')
      | none => (st, "bad-op")
    | "rm" | "rmev" =>
      let is := knownIds st (tIds args)
      if op == "rmev" && is.isEmpty then (st, withDump "ErrSize" st.pool) else
      let p' := removeTxs st.pool is
      ({ st with pool := p' }, withDump "ok" p')
    | "addblock" =>
      match args with
      | h :: bt :: rest => match Wire.parseInt? h, Wire.parseInt? bt with
        | some h, some bt =>
          let p' := addBlock st.cfg st.pool h bt (knownIds st (tIds rest)) st.now
          ({ st with pool := p' }, withDump "ok" p')
        | _, _ => (st, "bad-op")
      | _ => (st, "bad-op")
    | "delblock" =>
      match args with
      | h :: bt :: rest => match Wire.parseInt? h, Wire.parseInt? bt with
        | some h, some bt =>
          let is := knownIds st (tIds rest)
          let chks := match field pw "chk" with
            | some c => if c == "-" then [] else (c.splitOn ",").map (· == "1")
            | none => []
          if chks.length != is.length then (st, "bad-op") else
          match (is.zip chks).mapM (fun (i, c) => mkCand st i c) with
          | some cs =>
            let p' := delBlock st.cfg st.pool st.pool.h h bt cs st.now
            ({ st with pool := p' }, withDump "ok" p')
          | none => (st, "bad-op")
        | _, _ => (st, "bad-op")
      | _ => (st, "bad-op")
    | "sweep" =>
      let p' := removeExpired st.cfg st.pool st.now
      ({ st with pool := p' }, withDump "ok" p')
    | "q" => (st, dump st.pool)
    | "burst" =>
      let parts := post.splitOn " ;; "
      match parts.getLast? with
      | some fin =>
        if !fin.startsWith "final " then (st, "bad-op") else
        let final := (fin.drop 6).toString
        match (parts.dropLast).mapM parseEv with
        | some evs =>
          if evs.length > 6 then (st, "bad-op") else
          match searchLin st final evs.length st.pool evs with
          | some p' => ({ st with pool := p' }, withDump "accepted" p')
          | none => (st, "no-linearisation")
        | none => (st, "bad-op")
      | none => (st, "bad-op")
    | "txlist" =>
      match args with
      | c :: rest => match Wire.parseInt? c with
        | some c =>
          if c ≤ 0 then (st, "ErrSize") else
          let excl := knownIds st (tIds rest)
          let pre := C23.collect (C23.keeps st.cfg st.pool excl false st.now) c.toNat st.pool.q 0
          let order := sortBy id (C23.ethSenders pre)
          let r := C23.getTxList st.cfg st.pool c.toNat excl false st.now st.fsort order (curOf st.view)
          (st, canonList r)
        | none => (st, "bad-op")
      | _ => (st, "bad-op")
    | "getall" =>
      let isAll := args.head? == some "1"
      let pre := C23.collect (C23.keeps st.cfg st.pool [] isAll st.now) 0 st.pool.q 0
      let order := sortBy id (C23.ethSenders pre)
      let r := C23.getTxList st.cfg st.pool 0 [] isAll st.now st.fsort order (curOf st.view)
      (st, canonList r)
    | _ => (st, "bad-op")
  | [] => (st, "bad-op")

end C21Wire
