/-
C22 — model of mempool admission: eventTx → checkTxs (types-level Check, tiered fee, per-member
checkTx) → checkSign → checkTxRemote (CheckDupTx, executor check, evmTxNonceCheck, PushTx).
Signature validity, recipient validity, blacklist membership, the chain's duplicate set, the
executor verdict and the senders' current evm nonces are oracle inputs.  Core Lean only.
-/
import Chain33Model.Model.C21

namespace C22
open C21

/-- Member-level attributes of a submission (one per group member; one for a plain tx). -/
structure Member where
  id     : Nat
  snd    : Nat
  size   : Nat      -- types.Size(member)
  fee    : Int
  exp    : Int
  sigOk  : Bool     -- oracle: signature verifies
  toOk   : Bool     -- oracle: address.CheckAddress(tx.To) succeeds
  bl     : Bool     -- oracle: some involved account is blacklisted
  signed : Bool     -- Signature != nil (unsigned transactions are charged 300 extra bytes)
deriving Repr

/-- A submitted transaction or group: the record that would be pooled plus its members. -/
structure Sub where
  tx : Tx
  ms : List Member
deriving Repr

/-- What the mempool learns from its neighbours. -/
structure View where
  chain   : List Nat          -- hashes the blockchain reports as duplicates
  execBad : List Nat          -- hashes the executor check rejects
  nonce   : List (Nat × Int)  -- sender ↦ current evm nonce (absent = 0)
deriving Repr

structure ACfg where
  minFee     : Int     -- MinTxFeeRate
  maxFee     : Int     -- GetMaxTxFee(height+1)
  maxRate    : Int     -- MaxTxFeeRate
  level      : Bool    -- IsLevelFee
  noExec     : Bool    -- DisableExecCheck
  blockCheck : Bool    -- ForkBlockCheck active
  maxTxNum   : Int     -- GetP(height).MaxTxNumber
deriving Repr

inductive Err
  | txFeeTooLow | txFeeTooHigh | txMsgSizeTooBig | groupFeeNotZero
  | invalidAddress | blockedAccount | manyTx | txExpire | sign | dupTx | execCheck
  | nonceTooLow | acceleration | txExist | memFull
deriving DecidableEq, Repr

def Err.toString : Err → String
  | .txFeeTooLow => "ErrTxFeeTooLow" | .txFeeTooHigh => "ErrTxFeeTooHigh"
  | .txMsgSizeTooBig => "ErrTxMsgSizeTooBig" | .groupFeeNotZero => "ErrTxGroupFeeNotZero"
  | .invalidAddress => "ErrInvalidAddress" | .blockedAccount => "ErrBlockedAccount"
  | .manyTx => "ErrManyTx" | .txExpire => "ErrTxExpire" | .sign => "ErrSign" | .dupTx => "ErrDupTx"
  | .execCheck => "ErrExecCheck" | .nonceTooLow => "ErrNonceTooLow"
  | .acceleration => "disable_transaction_acceleration" | .txExist => "ErrTxExist" | .memFull => "ErrMemFull"

def maxTxSize : Nat := 100000
def maxBlockSize : Int := 20000000

/-- `Transaction.GetRealFee`: size (+300 when unsigned) in kB steps. -/
def realFee (m : Member) (rate : Int) : Except Err Int :=
  let sz := if m.signed then m.size else m.size + 300
  if sz > maxTxSize then .error .txMsgSizeTooBig else .ok ((Int.ofNat (sz / 1000) + 1) * rate)

def totalFee (ms : List Member) (rate : Int) : Except Err Int :=
  ms.foldlM (fun acc m => do let f ← realFee m rate; pure (acc + f)) 0

/-- `getLevelFeeRate(base, 0, 0)`. -/
def levelRate (a : ACfg) (p : Pool) : Int :=
  let n : Int := p.q.length
  let r :=
    if p.bytes ≥ maxBlockSize / 20 || n ≥ a.maxTxNum / 2 then 100 * a.minFee
    else if p.bytes ≥ maxBlockSize / 100 || n ≥ a.maxTxNum / 10 then 10 * a.minFee
    else a.minFee
  if r > a.maxRate then a.maxRate else r

/-- types-level `Check` of a well-formed plain tx or group (structure checks are not modelled:
the harness only builds well-linked groups). -/
def checkFee (a : ACfg) (s : Sub) : Except Err Unit :=
  match s.ms with
  | [m] =>
    if a.minFee == 0 then .ok ()
    else do
      let f ← realFee m a.minFee
      if s.tx.fee < f then .error .txFeeTooLow
      else if s.tx.fee > a.maxFee && a.maxFee > 0 && a.blockCheck then .error .txFeeTooHigh
      else .ok ()
  | ms =>
    if (ms.drop 1).any (fun m => m.fee != 0) then .error .groupFeeNotZero
    else do
      let t ← totalFee ms a.minFee
      if s.tx.fee < t then .error .txFeeTooLow
      else if s.tx.fee > a.maxFee && a.maxFee > 0 && a.blockCheck then .error .txFeeTooHigh
      else .ok ()

def checkLevelFee (a : ACfg) (p : Pool) (s : Sub) : Except Err Unit := do
  let t ← totalFee s.ms (levelRate a p)
  if s.tx.fee < t then .error .txFeeTooLow else .ok ()

/-- `Mempool.checkTx` for one member. -/
def checkMember (cfg : Cfg) (p : Pool) (now : Int) (m : Member) : Except Err Unit :=
  if !m.toOk then .error .invalidAddress
  else if m.bl then .error .blockedAccount
  else if accNum p.acc m.snd ≥ cfg.perAcc then .error .manyTx
  else if expired1 cfg m.exp (p.h + 1) p.bt then .error .txExpire
  else if decide (m.exp > expireBound) && decide (m.exp < now + 60) then .error .txExpire
  else .ok ()

def curNonce (v : View) (s : Nat) : Int :=
  match v.nonce.find? (fun e => e.1 == s) with
  | some e => e.2
  | none => 0

/-- `evmTxNonceCheck`. -/
def nonceCheck (p : Pool) (v : View) (tx : Tx) : Except Err Unit :=
  if !tx.eth then .ok ()
  else if tx.nonce < curNonce v tx.snd then .error .nonceTooLow
  else if (accTxs p.acc tx.snd).any (fun t => t.id != tx.id && t.nonce == tx.nonce) then .error .acceleration
  else .ok ()

/-- Everything before `PushTx`. -/
def precheck (cfg : Cfg) (a : ACfg) (p : Pool) (v : View) (s : Sub) (now : Int) : Except Err Unit := do
  checkFee a s
  if a.level then checkLevelFee a p s
  s.ms.forM (checkMember cfg p now)
  if !s.ms.all (·.sigOk) then throw .sign
  if s.ms.any (fun m => v.chain.contains m.id) then throw .dupTx
  if !a.noExec && v.execBad.contains s.tx.id then throw .execCheck
  nonceCheck p v s.tx

/-- The whole admission path: the new pool and the reply. -/
def admitTx (cfg : Cfg) (a : ACfg) (p : Pool) (v : View) (s : Sub) (now : Int) : Pool × Except Err Unit :=
  match precheck cfg a p v s now with
  | .error e => (p, .error e)
  | .ok () =>
    match push cfg p s.tx now with
    | (p', .ok) => (p', .ok ())
    | (p', .errManyTx) => (p', .error .manyTx)
    | (p', .errTxExist) => (p', .error .txExist)
    | (p', .errMemFull) => (p', .error .memFull)

end C22
