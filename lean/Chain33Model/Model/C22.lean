/-
C22 — model of mempool admission: eventTx → checkTxs (types-level Check, tiered fee, per-member
checkTx) → checkSign → checkTxRemote (CheckDupTx, executor check, evmTxNonceCheck, PushTx).
Signature validity, recipient validity, blacklist membership, the chain's duplicate set, the
executor verdict and the senders' current evm nonces are oracle inputs.  Core Lean only.
-/
import Chain33Model.Model.C21

namespace C22
open C21

/-- Member-level attributes of a submission (one per group member; one for a plain tx). -/
structure Member where
  id     : Nat
  snd    : Nat
  size   : Nat      -- types.Size(member)
  fee    : Int
  exp    : Int
  sigOk  : Bool     -- oracle: signature verifies
  toOk   : Bool     -- oracle: address.CheckAddress(tx.To) succeeds
  bl     : Bool     -- oracle: some involved account is blacklisted
  signed : Bool     -- Signature != nil (unsigned transactions are charged 300 extra bytes)
  eth    : Bool     -- this member's signature type is the eth type
  nonce  : Int      -- this member's Nonce field
deriving Repr

/-- A submitted transaction or group: the record that would be pooled plus its members. -/
structure Sub where
  tx  : Tx
  ms  : List Member
  fwd : Bool   -- oracle: `types.IsForward2MainChainTx` (para-chain node, executor not of this para chain)
deriving Repr

/-- What the mempool learns from its neighbours. -/
structure View where
  chain   : List Nat          -- hashes the blockchain reports as duplicates
  execBad : List Nat          -- hashes the executor check rejects
  nonce   : List (Nat × Int)  -- sender ↦ current evm nonce (absent = 0)
deriving Repr

structure ACfg where
  minFee     : Int     -- MinTxFeeRate
  maxFee     : Int     -- GetMaxTxFee(height+1)
  maxRate    : Int     -- MaxTxFeeRate
  level      : Bool    -- IsLevelFee
  noExec     : Bool    -- DisableExecCheck
  blockCheck : Bool    -- ForkBlockCheck active
  maxTxNum   : Int     -- GetP(height).MaxTxNumber
deriving Repr

inductive Err
  | txFeeTooLow | txFeeTooHigh | txMsgSizeTooBig | groupFeeNotZero
  | invalidAddress | blockedAccount | manyTx | txExpire | sign | dupTx | execCheck
  | nonceTooLow | acceleration | txExist | memFull
deriving DecidableEq, Repr

def Err.toString : Err → String
  | .txFeeTooLow => "ErrTxFeeTooLow" | .txFeeTooHigh => "ErrTxFeeTooHigh"
  | .txMsgSizeTooBig => "ErrTxMsgSizeTooBig" | .groupFeeNotZero => "ErrTxGroupFeeNotZero"
  | .invalidAddress => "ErrInvalidAddress" | .blockedAccount => "ErrBlockedAccount"
  | .manyTx => "ErrManyTx" | .txExpire => "ErrTxExpire" | .sign => "ErrSign" | .dupTx => "ErrDupTx"
  | .execCheck => "ErrExecCheck" | .nonceTooLow => "ErrNonceTooLow"
  | .acceleration => "disable_transaction_acceleration" | .txExist => "ErrTxExist" | .memFull => "ErrMemFull"

def maxTxSize : Nat := 100000
def maxBlockSize : Int := 20000000

/-- `Transaction.GetRealFee`: size (+300 when unsigned) in kB steps. -/
def realFee (m : Member) (rate : Int) : Except Err Int :=
  let sz := if m.signed then m.size else m.size + 300
  if sz > maxTxSize then .error .txMsgSizeTooBig else .ok ((Int.ofNat (sz / 1000) + 1) * rate)

/-- Sum of the members' real fees; the first member whose size is over the limit decides the error. -/
def totalFee : List Member → Int → Except Err Int
  | [], _ => .ok 0
  | m :: ms, rate =>
    match realFee m rate with
    | .error e => .error e
    | .ok f =>
      match totalFee ms rate with
      | .error e => .error e
      | .ok t => .ok (f + t)

/-- run the checks in order, the first error wins -/
def seq (a b : Except Err Unit) : Except Err Unit :=
  match a with
  | .ok () => b
  | .error e => .error e

/-- `for each member: checkTx`, the first error wins -/
def firstErr (f : Member → Except Err Unit) : List Member → Except Err Unit
  | [] => .ok ()
  | m :: ms => seq (f m) (firstErr f ms)

/-- `getLevelFeeRate(base, 0, 0)`. -/
def levelRate (a : ACfg) (p : Pool) : Int :=
  let n : Int := p.q.length
  let r :=
    if p.bytes ≥ maxBlockSize / 20 || n ≥ a.maxTxNum / 2 then 100 * a.minFee
    else if p.bytes ≥ maxBlockSize / 100 || n ≥ a.maxTxNum / 10 then 10 * a.minFee
    else a.minFee
  if r > a.maxRate then a.maxRate else r

/-- types-level `Check` of a well-formed plain tx or group (structure checks are not modelled:
the harness only builds well-linked groups). -/
def checkFee (a : ACfg) (s : Sub) : Except Err Unit :=
  match s.ms with
  | [m] =>
    if a.minFee == 0 then .ok ()
    else
      match totalFee [m] a.minFee with
      | .error e => .error e
      | .ok f =>
        if s.tx.fee < f then .error .txFeeTooLow
        else if s.tx.fee > a.maxFee && a.maxFee > 0 && a.blockCheck then .error .txFeeTooHigh
        else .ok ()
  | ms =>
    if (ms.drop 1).any (fun m => m.fee != 0) then .error .groupFeeNotZero
    else
      match totalFee ms a.minFee with
      | .error e => .error e
      | .ok t =>
        if s.tx.fee < t then .error .txFeeTooLow
        else if s.tx.fee > a.maxFee && a.maxFee > 0 && a.blockCheck then .error .txFeeTooHigh
        else .ok ()

def checkLevelFee (a : ACfg) (p : Pool) (s : Sub) : Except Err Unit :=
  match totalFee s.ms (levelRate a p) with
  | .error e => .error e
  | .ok t => if s.tx.fee < t then .error .txFeeTooLow else .ok ()

/-- `Mempool.checkTx` for one member. -/
def checkMember (cfg : Cfg) (p : Pool) (now : Int) (m : Member) : Except Err Unit :=
  if !m.toOk then .error .invalidAddress
  else if m.bl then .error .blockedAccount
  else if accNum p.acc m.snd ≥ cfg.perAcc then .error .manyTx
  else if expired1 cfg m.exp (p.h + 1) p.bt then .error .txExpire
  else if decide (m.exp > expireBound) && decide (m.exp < now + 60) then .error .txExpire
  else .ok ()

def curNonce (v : View) (s : Nat) : Int :=
  match v.nonce.find? (fun e => e.1 == s) with
  | some e => e.2
  | none => 0

/-- `evmTxNonceCheck`. -/
def nonceCheck (p : Pool) (v : View) (tx : Tx) : Except Err Unit :=
  if !tx.eth then .ok ()
  else if tx.nonce < curNonce v tx.snd then .error .nonceTooLow
  else if (accTxs p.acc tx.snd).any (fun t => t.id != tx.id && t.nonce == tx.nonce) then .error .acceleration
  else .ok ()

/-- `checkTxs`: a transaction that a para-chain node forwards to the main chain skips the types-level
check, the tiered fee and every per-member `checkTx` ("转发的交易由主链验证, 平行链忽略基础检查"). -/
def checkTxs (cfg : Cfg) (a : ACfg) (p : Pool) (s : Sub) (now : Int) : Except Err Unit :=
  if s.fwd then .ok ()
  else
    seq (checkFee a s) <|
    seq (if a.level then checkLevelFee a p s else .ok ()) <|
    firstErr (checkMember cfg p now) s.ms

/-- Everything before `PushTx`, in the order of the Go code. -/
def precheck (cfg : Cfg) (a : ACfg) (p : Pool) (v : View) (s : Sub) (now : Int) : Except Err Unit :=
  seq (checkTxs cfg a p s now) <|
  seq (if s.ms.all (·.sigOk) then .ok () else .error .sign) <|
  seq (if s.ms.any (fun m => v.chain.contains m.id) then .error .dupTx else .ok ()) <|
  seq (if !a.noExec && v.execBad.contains s.tx.id then .error .execCheck else .ok ()) <|
  nonceCheck p v s.tx

/-- The whole admission path: the new pool and the reply. -/
def admitTx (cfg : Cfg) (a : ACfg) (p : Pool) (v : View) (s : Sub) (now : Int) : Pool × Except Err Unit :=
  match precheck cfg a p v s now with
  | .error e => (p, .error e)
  | .ok () =>
    match push cfg p s.tx now with
    | (p', .ok) => (p', .ok ())
    | (p', .errManyTx) => (p', .error .manyTx)
    | (p', .errTxExist) => (p', .error .txExist)
    | (p', .errMemFull) => (p', .error .memFull)

/-- The reply as a comparable value: `none` = accepted. -/
def replyCode (r : Except Err Unit) : Option Err :=
  match r with
  | .ok _ => none
  | .error e => some e

end C22
