/-
C23 — model of what the mempool hands to block producers: `getTxList` / `filterTxList`
(walk in arrival order, exclusion map, `isExpired` for the next block, count cut) followed by
`sortEthSignTyTx` (per-sender nonce chains starting at the sender's current nonce).  The Go code
iterates a map of senders; that order is the explicit parameter `order`.  Core Lean only.
-/
import Chain33Model.Model.C21

namespace C23
open C21

/-- The walk of `filterTxList`: skip excluded and expired entries, stop once `count` entries
are collected (`count = 0`: no limit). `n` is the number collected so far. -/
def collect (keep : Item → Bool) (count : Nat) : List Item → Nat → List Tx
  | [], _ => []
  | it :: rest, n =>
    if keep it then
      if count > 0 && n + 1 == count then [it.tx] else it.tx :: collect keep count rest (n + 1)
    else collect keep count rest n

/-- Which entries `filterTxList` keeps. -/
def keeps (cfg : Cfg) (p : Pool) (excl : List Nat) (isAll : Bool) (now : Int) (it : Item) : Bool :=
  !(excl.contains it.tx.id) && !(isExpired cfg it (p.h + 1) p.bt now && !isAll)

/-- `ethsignTxs[from][nonce] = tx`: the last transaction with that nonce wins. -/
def lastWithNonce (l : List Tx) (n : Int) : Option Tx := l.reverse.find? (fun t => t.nonce == n)

/-- `for nonce := cur; ; nonce++ { if tx, ok := txs[nonce]; ok { append } else { break } }`.
The fuel is the number of candidate transactions: a chain cannot be longer. -/
def chain (l : List Tx) : Nat → Int → List Tx
  | 0, _ => []
  | fuel + 1, n =>
    match lastWithNonce l n with
    | some t => t :: chain l fuel (n + 1)
    | none => []

/-- `sortEthSignTyTx` with the map iteration order made explicit. -/
def sortEth (order : List Nat) (cur : Nat → Int) (txs : List Tx) : List Tx :=
  let plain := txs.filter (fun t => !t.esort)
  if plain.length == txs.length then txs
  else
    plain ++ order.flatMap (fun s =>
      let mine := txs.filter (fun t => t.esort && t.snd == s)
      chain mine mine.length (cur s))

/-- Distinct senders of the nonce-sorted class, in first-appearance order. -/
def ethSenders (txs : List Tx) : List Nat := ((txs.filter (·.esort)).map (·.snd)).eraseDups

/-- `Mempool.getTxList` / `filterTxList`. -/
def getTxList (cfg : Cfg) (p : Pool) (count : Nat) (excl : List Nat) (isAll : Bool) (now : Int)
    (forkSort : Bool) (order : List Nat) (cur : Nat → Int) : List Tx :=
  let txs := collect (keeps cfg p excl isAll now) count p.q 0
  if forkSort then sortEth order cur txs else txs

end C23
