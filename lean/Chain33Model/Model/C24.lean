/-
C24 — score-ordered queue (common/skiplist/skiplist.go, common/skiplist/queue.go).
Executable model, core Lean only.

Skip list as *lanes over one node list*: the state is the bottom lane `nodes` (in pointer order
`header.next[0]`, `.next[0]`, …), every node carrying its level (`len(node.next)`);
lane `i` is `nodes.filter (level > i)`.  The searches of `find` / `Insert` / `Delete` are written as
in the Go code: from the top lane down, on each lane advance while the next node *of that lane*
satisfies the comparison.  The level of an inserted node is an explicit argument (the Go code draws
it from `math/rand`; the correspondence run feeds the observed level).  `prev`/`tail` are not state
of the model: they are determined by the bottom lane (`tail` = last node, `prev` chain = reverse
order) and tied by the lane dump of the hook `VerifLanes`.

Go panics are the explicit outcome `Res.panic`.
-/
namespace C24

/-! ## Skip list -/

structure Node (β : Type) where
  score : Int
  level : Nat
  val : β
  deriving Repr

structure SkipList (β : Type) where
  nodes : List (Node β)
  /-- `sl.level` -/
  level : Nat
  deriving Repr

/-- `NewSkipList`: `sl.level = 1`, no nodes. -/
def SkipList.new {β : Type} : SkipList β := { nodes := [], level := 1 }

/-- One lane walk `for x.next[i] != nil && adv(x.next[i]) { x = x.next[i] }` started on the node
just before `rest` (the header or a node): number of bottom-lane nodes moved over.
A node that is not on lane `i` is jumped over exactly when a later lane-`i` node is reached. -/
def walkLane {β : Type} (adv : Int → Bool) (i : Nat) : List (Node β) → Nat
  | [] => 0
  | n :: rest =>
    if i < n.level then (if adv n.score then 1 + walkLane adv i rest else 0)
    else
      match walkLane adv i rest with
      | 0 => 0
      | k + 1 => k + 2

/-- The descending search `for i := lvl-1; i >= 0; i-- { walk lane i }` from bottom-lane position
`pos` (0 = header, k = k-th node): final position (= `update[0]`). -/
def search {β : Type} (adv : Int → Bool) (nodes : List (Node β)) : Nat → Nat → Nat
  | 0, pos => pos
  | i + 1, pos => search adv nodes i (pos + walkLane adv i (nodes.drop pos))

/-- The `update[]` array of `Insert`/`Delete`: `update[i]` for `i = lvl-1 … 0`, listed from the top
lane down. -/
def updates {β : Type} (adv : Int → Bool) (nodes : List (Node β)) : Nat → Nat → List Nat
  | 0, _ => []
  | i + 1, pos =>
    let p := pos + walkLane adv i (nodes.drop pos)
    p :: updates adv nodes i p

/-- `find(value)`: position of the last node whose score is strictly greater (Compare < 0). -/
def SkipList.findPos {β : Type} (sl : SkipList β) (score : Int) : Nat :=
  search (fun s => decide (s > score)) sl.nodes sl.level 0

/-- `Find`. -/
def SkipList.find {β : Type} (sl : SkipList β) (score : Int) : Option (Node β) :=
  match sl.nodes.drop (sl.findPos score) with
  | n :: _ => if n.score = score then some n else none
  | [] => none

/-- `FindGreaterOrEqual` (the first node at or after the score in list order). -/
def SkipList.findGE {β : Type} (sl : SkipList β) (score : Int) : Option (Node β) :=
  (sl.nodes.drop (sl.findPos score)).head?

/-- `Insert` with the level drawn by `randomLevel` made explicit: search with `Compare <= 0`
(after every node with score ≥ the new one), splice, raise `sl.level`. -/
def SkipList.insert {β : Type} (sl : SkipList β) (score : Int) (v : β) (lvl : Nat) : SkipList β :=
  let p := search (fun s => decide (s ≥ score)) sl.nodes sl.level 0
  { nodes := sl.nodes.take p ++ ⟨score, lvl, v⟩ :: sl.nodes.drop p
    level := if lvl > sl.level then lvl else sl.level }

/-- `for sl.level > 1 && sl.header.next[sl.level-1] == nil { sl.level-- }`. -/
def shrink {β : Type} (nodes : List (Node β)) : Nat → Nat
  | 0 => 0
  | l + 1 => if 1 ≤ l ∧ nodes.all (fun n => decide (n.level ≤ l)) then shrink nodes l else l + 1

/-- `Delete`: removes the first node with that score; `false` when there is none. -/
def SkipList.delete {β : Type} (sl : SkipList β) (score : Int) : SkipList β × Bool :=
  let p := sl.findPos score
  match sl.nodes.drop p with
  | n :: rest =>
    if n.score = score then
      let nodes' := sl.nodes.take p ++ rest
      ({ nodes := nodes', level := shrink nodes' sl.level }, true)
    else (sl, false)
  | [] => (sl, false)

/-- replace the value of the node at bottom-lane position `p` (in-place mutation of `*list.List`). -/
def setValAt {β : Type} (nodes : List (Node β)) (p : Nat) (v : β) : List (Node β) :=
  match nodes.drop p with
  | n :: rest => nodes.take p ++ { n with val := v } :: rest
  | [] => nodes

/-- lane `i` as indices into the bottom lane. -/
def laneIdx {β : Type} (nodes : List (Node β)) (i : Nat) : List Nat :=
  (List.range nodes.length).zip nodes |>.filter (fun p => decide (i < p.2.level)) |>.map (·.1)

/-! ## Queue -/

structure Item where
  id : Nat        -- Hash()
  score : Int     -- GetScore()
  pri : Int       -- tie-break used by Scorer.Compare: Big iff pri greater
  size : Int      -- ByteSize()
  deriving Repr, DecidableEq

inductive Res where
  | ok | exist | full | notfound | panic
  deriving Repr, DecidableEq

def Res.toString : Res → String
  | .ok => "ok" | .exist => "exist" | .full => "full" | .notfound => "notfound" | .panic => "panic"

structure Queue where
  sl : SkipList (List Item)
  /-- `txMap` (key ↦ the element's item), insertion order irrelevant -/
  map : List (Nat × Item)
  maxsize : Int
  bytes : Int
  deriving Repr

def Queue.new (maxsize : Int) : Queue :=
  { sl := SkipList.new, map := [], maxsize := maxsize, bytes := 0 }

def mapGet (m : List (Nat × Item)) (k : Nat) : Option Item :=
  (m.find? (fun p => p.1 == k)).map (·.2)

def mapErase (m : List (Nat × Item)) (k : Nat) : List (Nat × Item) :=
  m.filter (fun p => p.1 != k)

def mapSet (m : List (Nat × Item)) (k : Nat) (v : Item) : List (Nat × Item) :=
  mapErase m k ++ [(k, v)]

def Queue.exist (q : Queue) (k : Nat) : Bool := (mapGet q.map k).isSome
def Queue.getItem (q : Queue) (k : Nat) : Option Item := mapGet q.map k
def Queue.size (q : Queue) : Nat := q.map.length

/-- `insertSkipValue`: append to the bucket of that score, creating the skip-list node (with the
given level) when the score is new. -/
def Queue.insertSkipValue (q : Queue) (it : Item) (lvl : Nat) : SkipList (List Item) :=
  match q.sl.find it.score with
  | none => q.sl.insert it.score [it] lvl
  | some n => { q.sl with nodes := setValAt q.sl.nodes (q.sl.findPos it.score) (n.val ++ [it]) }

/-- remove the first element with that identity from a bucket (`list.Remove(elem)`). -/
def bucketErase : List Item → Nat → List Item
  | [], _ => []
  | x :: xs, k => if x.id = k then xs else x :: bucketErase xs k

/-- `deleteSkipValue`: `none` is `ErrNotFound`. -/
def Queue.deleteSkipValue (q : Queue) (it : Item) : Option (SkipList (List Item)) :=
  match q.sl.find it.score with
  | none => none
  | some n =>
    let b := bucketErase n.val it.id
    if b.isEmpty then some (q.sl.delete it.score).1
    else some { q.sl with nodes := setValAt q.sl.nodes (q.sl.findPos it.score) b }

/-- `Queue.Insert` (no capacity check). -/
def Queue.insert (q : Queue) (it : Item) (lvl : Nat) : Queue :=
  { q with bytes := q.bytes + it.size, sl := q.insertSkipValue it lvl, map := mapSet q.map it.id it }

/-- `Remove`. On `ErrNotFound` from `deleteSkipValue` the map entry is already gone and the byte
counter is left untouched (as in the Go code). -/
def Queue.remove (q : Queue) (k : Nat) : Queue × Res :=
  match mapGet q.map k with
  | none => (q, .notfound)
  | some it =>
    let q1 := { q with map := mapErase q.map k }
    match q1.deleteSkipValue it with
    | none => (q1, .notfound)
    | some sl' => ({ q1 with sl := sl', bytes := q1.bytes - it.size }, .ok)

/-- `Last`: `none` = Go `nil` (empty queue); `Except.error ()` = nil dereference panic. -/
def Queue.last (q : Queue) : Except Unit (Option Item) :=
  if q.size = 0 then .ok none else
  match q.sl.nodes.getLast? with
  | none => .error ()
  | some n => match n.val.getLast? with
    | none => .error ()
    | some it => .ok (some it)

def Queue.first (q : Queue) : Except Unit (Option Item) :=
  if q.size = 0 then .ok none else
  match q.sl.nodes.head? with
  | none => .error ()
  | some n => match n.val.head? with
    | none => .error ()
    | some it => .ok (some it)

/-- `Scorer.Compare` of the harness items: `Big` iff the priority is greater. -/
def Item.cmpBig (a b : Item) : Bool := decide (a.pri > b.pri)

/-- `Push`. -/
def Queue.push (q : Queue) (it : Item) (lvl : Nat) : Queue × Res :=
  if q.exist it.id then (q, .exist) else
  if (q.size : Int) ≥ q.maxsize then
    match q.last with
    | .error () => (q, .panic)
    | .ok none => (q, .panic)            -- tail.Hash() on a nil interface
    | .ok (some tail) =>
      if it.score > tail.score ∨ (it.score = tail.score ∧ it.cmpBig tail) then
        match q.remove tail.id with
        | (q1, .ok) => (q1.insert it lvl, .ok)
        | (q1, r) => (q1, r)
      else (q, .full)
  else (q.insert it lvl, .ok)

/-- all items in `Walk` order. -/
def Queue.items (q : Queue) : List Item := q.sl.nodes.flatMap (·.val)

/-- `Walk(count, cb)` with a callback that always returns true: the items handed to `cb`. -/
def Queue.walk (q : Queue) (count : Int) : List Item :=
  if count ≥ 1 then q.items.take count.toNat else q.items

end C24
