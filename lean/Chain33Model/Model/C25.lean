/-
C25 — chain model (blockchain/process.go, orphanpool.go, chainview.go, blockindex.go,
blockstore.go, blockfinalize.go).  Executable, core Lean only.  Shared by C26–C29, C32.

Blocks are `(id, parent, height, diff)`: `id` stands for the block hash, `parent` for the
parent hash, `diff` for `difficulty.CalcWork(header.Difficulty)` (a non-negative integer).
The functions mirror the Go code one to one (process.go as of fix a2015e1: FindFork before the
side-chain test, a missing fork point refuses the block):

  processBlock        ProcessBlock + maybeAddBestChain
  maybeAcceptBlock    maybeAcceptBlock (+ dbMaybeStoreBlock, index.AddNode)
  processOrphans      OrphanPool.ProcessOrphans (breadth first, arrival order)
  connectBestChain    connectBestChain (extend tip / total-difficulty rule / margin / reorganize)
  findFork            chainView.findFork (Ancestor(chainHeight), then parents until contained)
  getReorganizeNodes  getReorganizeNodes
  reorganize          reorganizeChain (load all, disconnect*, connect*; stops at the first error)
  connectBlock        connectBlock  (SaveBlock, saveBlockSequence, SaveTdByBlockHash, SetTip)
  disconnectBlock     disconnectBlock (DelBlock, saveBlockSequence, DelTip)

Persisted state is a set of finite maps written as functions (`Nat → Option _`):
`h2h` height→hash, `tds` hash→total difficulty, `stored` hash→block (header/body tables),
`last` = blockLastHeight, and the sequence log `seqTab` seq→(isAdd, hash), `hashSeq`
hash→seq, `lastSeq` (−1: none), the transaction index `txIdx` (tx hash→height).  Go errors are `Res.err`; nil dereferences are `Err.panic`.

Not modelled (assumptions of every theorem and of the tie): block execution/validity (all
delivered blocks are valid, execution succeeds), the index cache limit (102400 nodes), the
best-chain cache limit (10240), orphan expiry (10 min) and the orphan limit (10240), restart
(the in-memory index is never rebuilt), `EnableBestBlockCmp` (off), parachain mode, and the
pre-genesis node (deliveries have height ≥ 1; the genesis block is installed by `init`).
-/
namespace C25

structure Block where
  id : Nat
  parent : Nat
  height : Nat
  diff : Nat
  txs : List Nat := []   -- transaction hashes carried by the block
deriving DecidableEq, Repr, Inhabited

inductive Err
  | exist | parentNoExist | heightNoMatch | hashNoMatch | parentTdNoExist | hashNotExist
  | panic   -- nil dereference / explicit panic in the Go code
  | stuck   -- model fuel exhausted (proved unreachable: `Proofs`)
deriving DecidableEq, Repr

inductive Res
  | main | side | orphan
  | err (e : Err)
deriving DecidableEq, Repr

abbrev Map (α : Type) := Nat → Option α

def upd {α : Type} (f : Map α) (k : Nat) (v : Option α) : Map α :=
  fun x => if x = k then v else f x

structure State where
  fin : Nat                  -- finalizer.choice.Height
  margin : Nat               -- the literal 12 of connectBestChain
  recSeq : Bool              -- isRecordBlockSequence
  index : List Block         -- blockIndex (newest first)
  orphans : List Block       -- orphan pool in arrival order
  best : List Block          -- chainView, tip first
  stored : Map Block         -- header/body tables by hash
  tds : Map Nat              -- hash -> total difficulty
  h2h : Map Nat              -- height -> hash (main chain)
  last : Int                 -- blockLastHeight
  seqTab : Map (Bool × Nat)  -- sequence -> (isAdd, hash)
  hashSeq : Map Nat          -- hash -> sequence (add records only)
  lastSeq : Int              -- last sequence, -1 when none
  txIdx : Map Nat            -- tx hash -> height of its main-chain block (AddTxs / DelTxs)

def lookup (idx : List Block) (id : Nat) : Option Block := idx.find? (fun b => b.id == id)

/-- `blockExists` (index part; the DB fallback only matters after a restart/eviction). -/
def haveBlock (s : State) (id : Nat) : Bool := (lookup s.index id).isSome

def isKnownOrphan (s : State) (id : Nat) : Bool := s.orphans.any (fun b => b.id == id)

/-- `saveBlockSequence`: next number = last + 1, written inside the block batch. -/
def saveSeq (s : State) (isAdd : Bool) (b : Block) : Except Err State :=
  if !s.recSeq then .ok s else
  let n := s.lastSeq + 1
  if n = 0 ∧ b.height ≠ 0 then .error .panic else
  .ok { s with seqTab := upd s.seqTab n.toNat (some (isAdd, b.id)),
               hashSeq := if isAdd then upd s.hashSeq b.id (some n.toNat) else s.hashSeq,
               lastSeq := n }

/-- `AddTxs`: the transaction index entries of a connected block. -/
def addTxs (m : Map Nat) (b : Block) : Map Nat := b.txs.foldl (fun m t => upd m t (some b.height)) m

/-- `DelTxs`: the entries are deleted when the block is disconnected. -/
def delTxs (m : Map Nat) (b : Block) : Map Nat := b.txs.foldl (fun m t => upd m t none) m

/-- `connectBlock` for a valid block (execution succeeds). -/
def connectBlock (s : State) (b : Block) : Except Err State :=
  match s.best with
  | [] => .error .panic
  | tip :: _ =>
    if b.parent ≠ tip.id then .error .hashNoMatch else
    match saveSeq s true b with
    | .error e => .error e
    | .ok s1 =>
      match s1.tds b.parent with
      | none => .error .hashNotExist
      | some ptd =>
        .ok { s1 with stored := upd s1.stored b.id (some b),
                      h2h := upd s1.h2h b.height (some b.id),
                      last := b.height,
                      tds := upd s1.tds b.id (some (b.diff + ptd)),
                      best := b :: s1.best,
                      txIdx := addTxs s1.txIdx b }

/-- `disconnectBlock`. -/
def disconnectBlock (s : State) (b : Block) : Except Err State :=
  match s.best with
  | [] => .error .panic
  | tip :: rest =>
    if b.id ≠ tip.id then .error .hashNoMatch else
    match saveSeq s false b with
    | .error e => .error e
    | .ok s1 =>
      .ok { s1 with h2h := upd s1.h2h b.height none,
                    last := (b.height : Int) - 1,
                    best := rest,
                    txIdx := delTxs s1.txIdx b }

/-- run `f` over the list; stop at the first error keeping the state reached so far. -/
def runSteps (f : State → Block → Except Err State) : State → List Block → State × Option Err
  | s, [] => (s, none)
  | s, b :: bs =>
    match f s b with
    | .ok s' => runSteps f s' bs
    | .error e => (s, some e)

/-- the node, its parent, … following parent pointers (`fuel` = height of the node). -/
def chainTo (idx : List Block) : Nat → Block → List Block
  | 0, b => [b]
  | n + 1, b => b :: (match lookup idx b.parent with
                      | some p => chainTo idx n p
                      | none => [])

/-- `chainView.contains`: nodeByHeight(node.height) == node. -/
def contains (best : List Block) (n : Block) : Bool :=
  match best.find? (fun b => b.height == n.height) with
  | some b => b.id == n.id
  | none => false

/-- `chainView.findFork`. -/
def findFork (s : State) (node : Block) : Option Block :=
  match s.best with
  | [] => none
  | tip :: _ =>
    let c := chainTo s.index node.height node
    let c := c.dropWhile (fun n => n.height > tip.height)
    c.find? (fun n => contains s.best n)

def notFork (fork : Option Block) (n : Block) : Bool :=
  match fork with
  | some f => n.id != f.id
  | none => true

/-- `getReorganizeNodes`: (detach from the tip down, attach from the fork up). -/
def getReorganizeNodes (s : State) (node : Block) (fork : Option Block) : List Block × List Block :=
  let attach := ((chainTo s.index node.height node).takeWhile (notFork fork)).reverse
  let detach := match s.best with
    | [] => []
    | tip :: _ => (chainTo s.index tip.height tip).takeWhile (notFork fork)
  (detach, attach)

/-- `reorganizeChain`. -/
def reorganize (s : State) (detach attach : List Block) : State × Option Err :=
  if !(detach ++ attach).all (fun n => (s.stored n.id).isSome) then (s, some .hashNotExist) else
  match runSteps disconnectBlock s detach with
  | (s1, some e) => (s1, some e)
  | (s1, none) => runSteps connectBlock s1 attach

/-- `finalizer.reset(fork.height, fork.hash)` when the fork point lies below the finalised height. -/
def resetFin (s : State) (fork : Option Block) : State :=
  match fork with
  | some f => if f.height < s.fin then { s with fin := f.height } else s
  | none => s

/-- the reorganize branch of `connectBestChain`. -/
def reorgTo (s : State) (b : Block) (fork : Option Block) : State × Res :=
  let s1 := resetFin s fork
  let dn := getReorganizeNodes s1 b fork
  match reorganize s1 dn.1 dn.2 with
  | (s2, none) => (s2, .main)
  | (s2, some e) => (s2, .err e)

/-- `connectBestChain`; `b` is already in the index. -/
def connectBestChain (s : State) (b : Block) : State × Res :=
  match s.best with
  | [] => (s, .err .panic)
  | tip :: _ =>
    if b.parent = tip.id then
      match connectBlock s b with
      | .ok s' => (s', .main)
      | .error e => (s, .err e)
    else
      match s.tds tip.id with
      | none => (s, .err .hashNotExist)
      | some tiptd =>
        match s.tds b.parent with
        | none => (s, .err .parentTdNoExist)
        | some ptd =>
          -- `FindFork` first: a fork point that is no longer indexed refuses the block
          -- (ErrParentBlockNoExist) in the side-chain and in the reorganize case alike
          match findFork s b with
          | none => (s, .err .parentNoExist)
          | some f =>
            if b.diff + ptd ≤ tiptd ∨ b.height < s.fin + s.margin then (s, .side)
            else reorgTo s b (some f)

/-- `dbMaybeStoreBlock`: skipped when the header is already stored; otherwise header/body and
the total difficulty (parent's + own work) are written. -/
def storeBlock (s : State) (b : Block) : Option State :=
  if (s.stored b.id).isSome then some s else
  match s.tds b.parent with
  | none => none
  | some ptd => some { s with stored := upd s.stored b.id (some b),
                              tds := upd s.tds b.id (some (b.diff + ptd)) }

/-- `index.AddNode`. -/
def addIndex (s : State) (b : Block) : State := { s with index := b :: s.index }

/-- `maybeAcceptBlock` (with `dbMaybeStoreBlock` and `index.AddNode`). -/
def maybeAcceptBlock (s : State) (b : Block) : State × Res :=
  match lookup s.index b.parent with
  | none => (s, .err .parentNoExist)
  | some p =>
    if b.height ≠ p.height + 1 then (s, .err .heightNoMatch) else
    match storeBlock s b with
    | none => (s, .err .hashNotExist)
    | some s1 => connectBestChain (addIndex s1 b) b

/-- `removeOrphanBlock`. -/
def dropOrphan (s : State) (id : Nat) : State :=
  { s with orphans := s.orphans.filter (fun x => x.id != id) }

/-- `AddOrphanBlock`. -/
def addOrphan (s : State) (b : Block) : State := { s with orphans := s.orphans ++ [b] }

/-- `ProcessOrphans`: work list of accepted hashes; for the head, its orphan children are taken
in arrival order (removed from the pool, accepted, appended to the work list). -/
def processOrphans : Nat → List Nat → State → State × Option Err
  | 0, _, s => (s, some .stuck)
  | _ + 1, [], s => (s, none)
  | fuel + 1, h :: rest, s =>
    match s.orphans.find? (fun o => o.parent == h) with
    | none => processOrphans fuel rest s
    | some o =>
      match maybeAcceptBlock (dropOrphan s o.id) o with
      | (s2, .err e) => (s2, some e)
      | (s2, _) => processOrphans fuel (h :: rest ++ [o.id]) s2

def orphanFuel (s : State) : Nat := 2 * s.orphans.length + 2

/-- a known orphan whose parent is now known is taken out of the pool before it is accepted. -/
def unorphan (s : State) (b : Block) : State :=
  if isKnownOrphan s b.id then dropOrphan s b.id else s

/-- `maybeAddBestChain`: accept, then process the orphans waiting for this block. -/
def acceptAndDrain (s : State) (b : Block) : State × Res :=
  match maybeAcceptBlock s b with
  | (s1, .err e) => (s1, .err e)
  | (s1, r) =>
    match processOrphans (orphanFuel s1) [b.id] s1 with
    | (s2, none) => (s2, r)
    | (s2, some e) => (s2, .err e)

/-- `ProcessBlock` (addBlock = true, pid ≠ "self") followed by `maybeAddBestChain`. -/
def processBlock (s : State) (b : Block) : State × Res :=
  if haveBlock s b.id then (s, .err .exist) else
  if isKnownOrphan s b.id ∧ !haveBlock s b.parent then (s, .err .exist) else
  if !haveBlock (unorphan s b) b.parent then (addOrphan (unorphan s b) b, .orphan)
  else acceptAndDrain (unorphan s b) b

/-- a node that holds only the genesis block `g`. -/
def init (fin margin : Nat) (recSeq : Bool) (g : Block) : State :=
  { fin := fin, margin := margin, recSeq := recSeq,
    index := [g], orphans := [], best := [g],
    stored := upd (fun _ => none) g.id (some g),
    tds := upd (fun _ => none) g.id (some g.diff),
    h2h := upd (fun _ => none) g.height (some g.id),
    last := g.height,
    seqTab := if recSeq then upd (fun _ => none) 0 (some (true, g.id)) else fun _ => none,
    hashSeq := if recSeq then upd (fun _ => none) g.id (some 0) else fun _ => none,
    lastSeq := if recSeq then 0 else -1,
    txIdx := addTxs (fun _ => none) g }

def deliverAll (s : State) (bs : List Block) : State := bs.foldl (fun s b => (processBlock s b).1) s

/-! observations (what the harness reads through the store / chain API) -/

def tip? (s : State) : Option Block := s.best.head?

/-- height→hash for 0..last. -/
def mainChain (s : State) : List (Option Nat) :=
  (List.range (s.last + 1).toNat).map s.h2h

def cleanAbove (s : State) : Bool :=
  (s.h2h (s.last + 1).toNat).isNone && (s.h2h (s.last + 2).toNat).isNone

def seqLog (s : State) : List (Option (Bool × Nat)) :=
  (List.range (s.lastSeq + 1).toNat).map s.seqTab

end C25
