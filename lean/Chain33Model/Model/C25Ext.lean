import Chain33Model.Model.C25
import Std.Data.HashMap
/-!
C25/C26 — extension layer over the chain model of `Model/C25.lean` (which stays unchanged: other
properties build on it).  Adds what that model idealises away:

* the **orphan pool limits** of orphanpool.go `AddOrphanBlock`: on every add, expired orphans
  (`types.Now().After(expiration)`, expiration = arrival + `orphanExpirationTime`) are removed,
  the `oldestOrphan` pointer is updated (it is NOT cleared when its orphan leaves the pool by
  `ProcessOrphans`, so it can be stale), and when `len(orphans)+1 > maxOrphanBlocks` the block
  `oldestOrphan` points at is removed by hash and the pointer reset;
* a **clock** (`tick`) standing for the wall clock read by `types.Now()`;
* the **finaliser** as far as fork choice sees it (blockfinalize.go `snowmanAcceptBlock` →
  `setFinalizedBlock(height, hash, mustInorder = true)`): the finalised height moves up to a block
  that is on the best chain (`bestChain.HaveBlock`) and strictly above the current one; the
  downward `reset` of `connectBestChain` is already in `C25.resetFin`;
* a **restart** (chain.go `InitIndexAndBestView`): index and best-chain view are rebuilt from the
  headers `0..blockLastHeight` read by height, the orphan pool is empty, every persisted table and
  the finalised height (written through on every change) are as before.  A missing header is the
  start-up panic (`none`).  Chains longer than `InitBlockNum` (10240) are outside the model.

Orphans arrive at strictly increasing real times, so "earliest expiration" = "smallest arrival
stamp" (`stamp`); the expiration itself is kept in seconds of the model clock.
-/
namespace C25X
open C25

/-- the orphan metadata table (hash -> (expiration time, arrival stamp)); the driver runs it as a
hash map, proofs and `decide`d witnesses as a function. -/
class OMap (M : Type) where
  emp : M
  get : M → Nat → Option (Nat × Nat)
  ins : M → Nat → Nat × Nat → M

instance : OMap (Map (Nat × Nat)) where
  emp := fun _ => none
  get := fun m k => m k
  ins := fun m k v => upd m k (some v)

instance : OMap (Std.HashMap Nat (Nat × Nat)) where
  emp := {}
  get := fun m k => m[k]?
  ins := fun m k v => m.insert k v

structure XState (M : Type) where
  base : State
  now : Nat                    -- types.Now() in seconds since the node started
  stamp : Nat                  -- arrival counter (real arrival times are strictly increasing)
  omap : M                     -- orphan hash -> (expiration time, arrival stamp)
  oldest : Option (Nat × Nat)  -- `oldestOrphan`: (hash, arrival stamp); may point at a removed orphan
  lim : Nat                    -- maxOrphanBlocks
  ttl : Nat                    -- orphanExpirationTime (seconds)

variable {M : Type} [OMap M]

def initX (M : Type) [OMap M] (fin margin : Nat) (recSeq : Bool) (g : Block) (lim ttl : Nat) : XState M :=
  { base := init fin margin recSeq g, now := 0, stamp := 0, omap := OMap.emp, oldest := none,
    lim := lim, ttl := ttl }

def isExpired (x : XState M) (id : Nat) : Bool :=
  match OMap.get x.omap id with
  | some (e, _) => decide (x.now > e)
  | none => false

/-- the live orphan with the smallest arrival stamp. -/
def minStamp (x : XState M) : List Block → Option (Nat × Nat)
  | [] => none
  | o :: r =>
    match OMap.get x.omap o.id, minStamp x r with
    | some (_, st), some (i, m) => if st < m then some (o.id, st) else some (i, m)
    | some (_, st), none => some (o.id, st)
    | none, m => m

def pickOldest (old : Option (Nat × Nat)) (cand : Option (Nat × Nat)) : Option (Nat × Nat) :=
  match old, cand with
  | none, c => c
  | some o, none => some o
  | some o, some c => if c.2 < o.2 then some c else some o

def putOrphan (x : XState M) (pool : List Block) (old : Option (Nat × Nat)) (b : Block) : XState M :=
  { x with base := { x.base with orphans := pool ++ [b] },
           omap := OMap.ins x.omap b.id (x.now + x.ttl, x.stamp),
           stamp := x.stamp + 1,
           oldest := old }

/-- `AddOrphanBlock`. -/
def addOrphanX (x : XState M) (b : Block) : XState M × Res :=
  let live := x.base.orphans.filter (fun o => !isExpired x o.id)
  let old1 := pickOldest x.oldest (minStamp x live)
  if live.length + 1 > x.lim then
    match old1 with
    | none => (x, .err .panic)            -- removeOrphanBlock(nil)
    | some (oid, _) => (putOrphan x (live.filter (fun o => o.id != oid)) none b, .orphan)
  else (putOrphan x live old1 b, .orphan)

/-- `ProcessBlock` with the real `AddOrphanBlock` (same control flow as `C25.processBlock`). -/
def processBlockX (x : XState M) (b : Block) : XState M × Res :=
  let s := x.base
  if haveBlock s b.id then (x, .err .exist) else
  if isKnownOrphan s b.id ∧ !haveBlock s b.parent then (x, .err .exist) else
  if !haveBlock (unorphan s b) b.parent then addOrphanX { x with base := unorphan s b } b
  else
    let r := acceptAndDrain (unorphan s b) b
    ({ x with base := r.1 }, r.2)

def tick (x : XState M) (dt : Nat) : XState M := { x with now := x.now + dt }

/-- `snowmanAcceptBlock`: finalise the block `(h, id)` when it is on the best chain and above the
current finalised height; otherwise nothing changes. -/
def finalize (s : State) (h id : Nat) : State :=
  match s.best.find? (fun b => b.height == h) with
  | some b => if b.id == id ∧ s.fin < h then { s with fin := h } else s
  | none => s

/-- headers by height `h, …, 0` (tip first); `none` when a record is missing. -/
def loadChain (s : State) : Nat → Option (List Block)
  | 0 => match s.h2h 0 with
         | none => none
         | some i => (s.stored i).map (fun b => [b])
  | h + 1 => match s.h2h (h + 1) with
             | none => none
             | some i =>
               match s.stored i, loadChain s h with
               | some b, some c => some (b :: c)
               | _, _ => none

/-- start-up on the persisted tables of `s`. -/
def restart? (s : State) : Option State :=
  if s.last < 0 then none else
  match loadChain s s.last.toNat with
  | none => none
  | some c => some { s with index := c, best := c, orphans := [] }

def restartX (x : XState M) : Option (XState M) :=
  match restart? x.base with
  | some s => some { x with base := s, omap := OMap.emp, oldest := none }
  | none => none

inductive Event
  | deliver (b : Block)
  | tick (dt : Nat)
  | finalize (h id : Nat)
  | restart
deriving Repr, DecidableEq

/-- one event; `none` = the node panicked at start-up (a header of the main chain is missing). -/
def stepX (x : XState M) : Event → Option (XState M)
  | .deliver b => some (processBlockX x b).1
  | .tick dt => some (tick x dt)
  | .finalize h id => some { x with base := finalize x.base h id }
  | .restart => restartX x

def runX : XState M → List Event → Option (XState M)
  | x, [] => some x
  | x, e :: es =>
    match stepX x e with
    | some x' => runX x' es
    | none => none

/-- the answers `ProcessBlock` gave to the deliveries of a run, in order. -/
def resultsX : XState M → List Event → List Res
  | _, [] => []
  | x, e :: es =>
    (match e with
     | .deliver b => [(processBlockX x b).2]
     | _ => []) ++
    (match stepX x e with
     | some x' => resultsX x' es
     | none => [])

/-- an answer that is not an error of the node: main / side / orphan / "already have it". -/
def Res.fine : Res → Bool
  | .main | .side | .orphan | .err .exist => true
  | _ => false

/-- the same events on the idealised model (unbounded pool, no clock). -/
def stepB (s : State) : Event → Option State
  | .deliver b => some (processBlock s b).1
  | .tick _ => some s
  | .finalize h id => some (finalize s h id)
  | .restart => restart? s

def runB : State → List Event → Option State
  | s, [] => some s
  | s, e :: es =>
    match stepB s e with
    | some s' => runB s' es
    | none => none

/-! ### ProcessBlock is not atomic: the two halves as separate steps

blockchain/proc.go dispatches every `EventBroadcastAddBlock` / `EventSyncBlock` /
`EventAddBlockDetail` with its own `go chain.processMsg(...)`, and `ProcessBlock` takes `chainLock`
only in `maybeAddBestChain`.  The first half — `blockExists`, `IsKnownOrphan`,
`RemoveOrphanBlockByHash`, `blockExists(parent)` — reads the index and the pool without it, the
second half is either `AddOrphanBlock` (own lock only) or `maybeAddBestChain` (re-checks
`blockExists` under `chainLock`).  `probe` / `finish` are these halves; a concurrent schedule
interleaves the halves of different deliveries. -/

inductive Plan
  | reject | pool | accept
deriving DecidableEq, Repr

/-- first half of `ProcessBlock`: decide what to do with `b` (and un-orphan it when its parent is
known by now). -/
def probe (s : State) (b : Block) : State × Plan :=
  if haveBlock s b.id then (s, .reject) else
  if isKnownOrphan s b.id ∧ !haveBlock s b.parent then (s, .reject) else
  if !haveBlock (unorphan s b) b.parent then (unorphan s b, .pool) else (unorphan s b, .accept)

/-- second half: carry out the plan on the state as it is NOW. -/
def finish (s : State) (b : Block) : Plan → State × Res
  | .reject => (s, .err .exist)
  | .pool => (addOrphan s b, .orphan)
  | .accept => if haveBlock s b.id then (s, .err .exist) else acceptAndDrain s b

inductive Step
  | probe (b : Block)
  | finish (b : Block)
deriving DecidableEq, Repr

/-- node state plus the deliveries that have decided but not yet acted. -/
structure CState where
  s : State
  pending : List (Block × Plan)

def cstep (c : CState) : Step → CState
  | .probe b => { s := (probe c.s b).1, pending := c.pending ++ [(b, (probe c.s b).2)] }
  | .finish b =>
    match c.pending.find? (fun e => e.1 == b) with
    | some e => { s := (finish c.s b e.2).1, pending := c.pending.erase e }
    | none => c

def crun (c : CState) (sched : List Step) : CState := sched.foldl cstep c

/-- the schedule in which every delivery runs both halves back to back. -/
def sequential : List Block → List Step
  | [] => []
  | b :: bs => .probe b :: .finish b :: sequential bs

end C25X
