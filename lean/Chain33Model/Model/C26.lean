import Chain33Model.Model.C25
/-!
C26 — block sequence log (blockstore.go saveBlockSequence / SaveBlock / DelBlock,
sequences.go GetBlockSequences).  The log itself is part of the C25 chain model
(`seqTab`, `hashSeq`, `lastSeq`, written by `C25.saveSeq`); this file adds the *replay* of a
log: add records push, delete records pop and must match the top.
-/
namespace C26
open C25

/-- one replay step on a stack of block hashes (top first); `none` = the log does not replay. -/
def replayStep (st : Option (List Nat)) (r : Option (Bool × Nat)) : Option (List Nat) :=
  match st, r with
  | some st, some (true, id) => some (id :: st)
  | some (top :: st), some (false, id) => if top = id then some st else none
  | _, _ => none

/-- replay of the records `0..last` (a missing record makes the replay fail). -/
def replay (log : List (Option (Bool × Nat))) : Option (List Nat) :=
  log.foldl replayStep (some [])

/-- the chain a subscriber reconstructs from the node's log: hash at height `h` is the
`h`-th entry from the bottom of the replayed stack. -/
def replayedChain (s : State) : Option (List Nat) := (replay (seqLog s)).map List.reverse

end C26
