import Chain33Model.Base.Wire
import Chain33Model.Model.C20
import Chain33Model.Model.C25
/-
C27/C28 — chain model WITH block validity (blockchain/process.go, blockstore.go, blocksyn.go,
chain.go/cache.go, query_tx.go; util/util.go PreExecBlock, util/exec.go CheckTxDup/DelDupTx;
executor/execenv.go checkTx; types/tx.go isExpire/check; types/block.go Hash/VerifySignature).
Executable, core Lean only.  It extends the C25 model (same control flow: ProcessBlock, orphan
pool, connectBestChain, reorganizeChain, persisted maps, sequence log) by

* a block = header + body + block signature.  `id` stands for `Block.Hash` = H(header) ONLY, so two
  blocks with the same `id` may carry different bodies (`txs`) or block signatures;
* `exec` — the verdict of `execBlock`/`PreExecBlock` for connecting a block on the current tip: a
  parameter (`Params.exec`), because it depends on the executor and the state tree.  `ofTable` is
  the instance used by the drivers: it models PreExecBlock's ORDER of checks over per-transaction
  and per-block oracle inputs (signature valid?, fee/chain id ok?, tx root / state root equal?);
* `dbMaybeStoreBlock` keyed by hash and skipped when a header is already stored; `node.errLog`;
  `blockExists` (index, else stored header whose height slot holds this hash); `handleErrBlk` by
  source (`self` / `download` / any peer); `LoadBlockByHash` (the STORED body) on reorganisation;
* the transaction index keyed by `Transaction.Hash()` (`Params.key`: hash class of a transaction
  instance — the hash covers neither signature nor public key), the TxHeight window cache
  (`txHashCache.Add/Del`), and the mempool as far as `PreExecBlock` consults it: the signed
  transaction instances it holds, at most one per hash (`EventCheckTxsExist` + `EventTxListByHash`;
  removal by hash on EventAddBlock, re-insertion of a disconnected block's transactions on EventDelBlock).

Not modelled (assumptions of every theorem and of the tie): see C25, plus — blocks produced by the
node itself (`pid = "self"`: errReturn=false drops failing transactions and re-hashes the block;
only the `handleErrBlk` branch and the tip check are modelled), transaction groups, para-chain
transactions, the asynchrony of the mempool's block events (they are applied at once),
fault-peer bookkeeping (`RecordFaultPeer`), block re-broadcast.  `index.DelNode` is modelled with
its dangling pointer (`ghosts`: the deleted node stays reachable from its children, its own parent
pointer is nil) as long as the deleted hash is not delivered again afterwards.
-/
namespace C27
open C25 (Map upd)

/-- where a block came from (`node.pid`): the node's own consensus module, the fast-download
path, or any peer (broadcast or sync — `ProcessBlock` treats both alike apart from re-broadcast). -/
inductive Src
  | self | download | peer
deriving DecidableEq, Repr, Inhabited

inductive Err
  | exist | parentNoExist | heightNoMatch | hashNoMatch | parentTdNoExist | hashNotExist
  -- PreExecBlock / consensus CheckBlock verdicts
  | sign | txDup | blockExec | checkTxHash | checkStateHash | emptyTx | blockTime
  | transient   -- ErrFutureBlock, queue and gRPC errors: `IsRecordFaultErr` is false
  | panic       -- nil dereference / explicit panic in the Go code
  | stuck       -- model fuel exhausted
deriving DecidableEq, Repr, Inhabited

/-- `IsRecordFaultErr`. -/
def recordFault : Err → Bool
  | .transient => false
  | _ => true

inductive Res
  | main | side | orphan
  | err (e : Err)
deriving DecidableEq, Repr

/-- header + body + block signature.  `wid` is a label (the wire id of this variant), it takes no
part in any decision. -/
structure Blk where
  id : Nat            -- Block.Hash(cfg) = H(header)
  parent : Nat        -- header.ParentHash
  height : Nat
  diff : Nat          -- CalcWork(header.Difficulty)
  time : Nat          -- header.BlockTime (seconds after genesis)
  txs : List Nat      -- body: transaction instances
  sigOk : Bool := true    -- oracle: block signature absent or valid
  rootOk : Bool := true   -- oracle: txRoot(body) = header.TxHash (bytes.Equal: an EMPTY, short, long or
                          -- all-zero declared root differs from every computed 32-byte root)
  stateOk : Bool := true  -- oracle: state root after executing the body on the parent state = header.StateHash
                          -- (likewise bytes.Equal; `Block.Hash` covers both fields, so such a block has its own hash)
  chkOk : Option Err := none  -- oracle: consensus CheckBlock (solo: body not empty; block time ≥ parent's)
  wid : Nat := 0
deriving DecidableEq, Repr, Inhabited

structure State where
  fin : Nat
  margin : Nat
  recSeq : Bool
  hi : Nat                   -- types.HighAllowPackHeight
  lo : Nat                   -- types.LowAllowPackHeight
  index : List Blk           -- blockIndex nodes (newest first); only header fields are used
  srcOf : Map Src            -- node.pid class, by hash
  errLog : Map Err           -- node.errLog, by hash
  orphans : List (Blk × Src) -- orphan pool in arrival order
  best : List Blk            -- chainView, tip first, with the body that was connected
  stored : Map Blk           -- header/body tables by hash (dbMaybeStoreBlock, SaveBlock)
  tds : Map Nat
  h2h : Map Nat
  last : Int
  seqTab : Map (Bool × Nat)
  hashSeq : Map Nat
  lastSeq : Int
  txIdx : Map Nat            -- Transaction.Hash() -> height (AddTxs / DelTxs)
  cache : List (Nat × Nat)   -- txHashCache: (txHeight, tx hash) pairs
  ghosts : List Blk := []    -- nodes removed by index.DelNode: still the `parent` of their children, own parent nil
  pregen : Bool := true      -- the chain view is rooted in the pre-genesis node (until the first restart)
  pool : List Nat            -- mempool: transaction INSTANCES (signed transactions), at most one per hash

/-- what the model needs to know about transactions and execution. -/
structure Params where
  key : Nat → Nat            -- `Transaction.Hash()` class of a transaction instance
  txh : Nat → Option Nat     -- `GetTxHeight`: the txHeight of a TxHeight-type transaction
  exec : State → Blk → Option Err   -- verdict of execBlock for connecting the block on the tip

def lookup (idx : List Blk) (id : Nat) : Option Blk := idx.find? (fun b => b.id == id)

def inIndex (s : State) (id : Nat) : Bool := (lookup s.index id).isSome

/-- `blockExists`: the index; else a stored header whose height slot on the main chain holds this hash. -/
def blockExists (s : State) (id : Nat) : Bool :=
  inIndex s id ||
  match s.stored id with
  | some b => s.h2h b.height == some id
  | none => false

def isKnownOrphan (s : State) (id : Nat) : Bool := s.orphans.any (fun o => o.1.id == id)

def saveSeq (s : State) (isAdd : Bool) (b : Blk) : Except Err State :=
  if !s.recSeq then .ok s else
  let n := s.lastSeq + 1
  if n = 0 ∧ b.height ≠ 0 then .error .panic else
  .ok { s with seqTab := upd s.seqTab n.toNat (some (isAdd, b.id)),
               hashSeq := if isAdd then upd s.hashSeq b.id (some n.toNat) else s.hashSeq,
               lastSeq := n }

def keys (P : Params) (b : Blk) : List Nat := b.txs.map P.key

def addTxs (P : Params) (m : Map Nat) (b : Blk) : Map Nat :=
  (keys P b).foldl (fun m t => upd m t (some b.height)) m

def delTxs (P : Params) (m : Map Nat) (b : Blk) : Map Nat :=
  (keys P b).foldl (fun m t => upd m t none) m

/-! the TxHeight window cache (blockchain/cache.go txHashCache) -/

/-- `addTxList`: only TxHeight-type transactions are cached, under their txHeight. -/
def cacheAddList (P : Params) (c : List (Nat × Nat)) (txs : List Nat) : List (Nat × Nat) :=
  txs.foldl (fun c t => match P.txh t with
    | some h => if c.contains (h, P.key t) then c else (h, P.key t) :: c
    | none => c) c

/-- `delTxList`. -/
def cacheDelList (P : Params) (c : List (Nat × Nat)) (txs : List Nat) : List (Nat × Nat) :=
  txs.foldl (fun c t => match P.txh t with
    | some h => c.filter (fun e => e != (h, P.key t))
    | none => c) c

/-- `chain.GetBlock(height)`: the main-chain block at a height. -/
def blockAt (s : State) (h : Nat) : Option Blk :=
  match s.h2h h with
  | some id => s.stored id
  | none => none

/-- `txHashCache.Add(block)` on a cache `c0`: the block's TxHeight transactions enter, those of
the main-chain block `hi + lo` below leave. -/
def cacheAddTo (P : Params) (s : State) (c0 : List (Nat × Nat)) (b : Blk) : List (Nat × Nat) :=
  let c := cacheAddList P c0 b.txs
  if b.height < s.hi + s.lo then c else
  match blockAt s (b.height - (s.hi + s.lo)) with
  | some d => cacheDelList P c d.txs
  | none => c

/-- `txHashCache.Add(block)` (called from connectBlock before the batch is written). -/
def cacheAdd (P : Params) (s : State) (b : Blk) : List (Nat × Nat) := cacheAddTo P s s.cache b

/-- `InitCache(currHeight)` at start-up: a fresh txHeight cache is fed the main-chain blocks of
the last `hi + lo` heights (`currHeight - hi - lo + 1 .. currHeight`, not below 0), oldest first. -/
def cacheRebuild (P : Params) (s : State) : List (Nat × Nat) :=
  let cur := s.last.toNat
  let w := s.hi + s.lo
  let from_ := (cur + 1) - w
  ((List.range (cur + 1 - from_)).map (· + from_)).foldl
    (fun c h => match blockAt s h with
      | some b => cacheAddTo P s c b
      | none => c) []

/-- `txHashCache.Del(height)` (called from disconnectBlock before the block is deleted). -/
def cacheDel (P : Params) (s : State) (height : Nat) : List (Nat × Nat) :=
  let back : Option (List (Nat × Nat)) :=
    if height < s.hi + s.lo then some s.cache else
    match blockAt s (height - (s.hi + s.lo)) with
    | some a => some (cacheAddList P s.cache a.txs)
    | none => none     -- "Get del Block err": returns before deleting anything
  match back with
  | none => s.cache
  | some c =>
    match blockAt s height with
    | some d => cacheDelList P c d.txs
    | none => c

/-- `index.DelNode`. -/
def delNode (s : State) (id : Nat) : State :=
  { s with index := s.index.filter (fun b => b.id != id),
           ghosts := (match lookup s.index id with | some n => [n] | none => []) ++ s.ghosts,
           srcOf := upd s.srcOf id none, errLog := upd s.errLog id none }

/-- `handleErrBlk` of connectBlock. -/
def handleErrBlk (s : State) (id : Nat) (e : Err) : State :=
  match s.srcOf id with
  | some .download => delNode s id
  | some .self => if recordFault e then { s with errLog := upd s.errLog id (some e) } else delNode s id
  | _ => { s with errLog := upd s.errLog id (some e) }

/-- `connectBlock(node, blockdetail)`.  On an execution error the index/errLog change
(`handleErrBlk`), nothing else does. -/
def connectBlock (P : Params) (s : State) (b : Blk) : State × Option Err :=
  match s.best with
  | [] => (s, some .panic)
  | tip :: _ =>
    if b.parent ≠ tip.id then (s, some .hashNoMatch) else
    match P.exec s b with
    | some e => (handleErrBlk s b.id e, some e)
    | none =>
      match saveSeq s true b with
      | .error e => (s, some e)
      | .ok s1 =>
        match s1.tds b.parent with
        | none => (s, some .hashNotExist)
        | some ptd =>
          ({ s1 with stored := upd s1.stored b.id (some b),
                     h2h := upd s1.h2h b.height (some b.id),
                     last := b.height,
                     tds := upd s1.tds b.id (some (b.diff + ptd)),
                     best := b :: s1.best,
                     txIdx := addTxs P s1.txIdx b,
                     cache := cacheAdd P s1 b,
                     pool := s1.pool.filter (fun p => !(keys P b).contains (P.key p)) }, none)

/-- mempool `PushTx`: refused when a transaction of the same hash is already held. -/
def poolPush (P : Params) (pool : List Nat) (t : Nat) : List Nat :=
  if pool.any (fun p => P.key p == P.key t) then pool else pool ++ [t]

/-- mempool `delBlock` (EventDelBlock): the transactions of the disconnected block are pushed
back WITHOUT signature verification. -/
def poolReadd (P : Params) (pool : List Nat) (txs : List Nat) : List Nat := txs.foldl (poolPush P) pool

/-- `disconnectBlock(node, blockdetail)`; `b` is the block loaded from the store. -/
def disconnectBlock (P : Params) (s : State) (b : Blk) : State × Option Err :=
  match s.best with
  | [] => (s, some .panic)
  | tip :: rest =>
    if b.id ≠ tip.id then (s, some .hashNoMatch) else
    match saveSeq s false b with
    | .error e => (s, some e)
    | .ok s1 =>
      -- (with no parent node left — the first node of a view rebuilt at restart — the Go code has
      --  written the batch and popped the tip when `node.parent.statehash` panics)
      ({ s1 with h2h := upd s1.h2h b.height none,
                 last := (b.height : Int) - 1,
                 best := rest,
                 txIdx := delTxs P s1.txIdx b,
                 cache := cacheDel P s1 b.height,
                 pool := poolReadd P s1.pool b.txs }, if rest.isEmpty then some .panic else none)

def runSteps (f : State → Blk → State × Option Err) : State → List Blk → State × Option Err
  | s, [] => (s, none)
  | s, b :: bs =>
    match f s b with
    | (s', none) => runSteps f s' bs
    | (s', some e) => (s', some e)

/-- the node, its parent, … following parent POINTERS: a node removed by DelNode is still reached
from its children, and the walk ends there (its own parent pointer was set to nil). -/
def chainTo (idx gh : List Blk) : Nat → Blk → List Blk
  | 0, b => [b]
  | n + 1, b => b :: (match lookup idx b.parent with
                      | some p => chainTo idx gh n p
                      | none => match lookup gh b.parent with
                                | some g => [g]
                                | none => [])

def contains (best : List Blk) (n : Blk) : Bool :=
  match best.find? (fun b => b.height == n.height) with
  | some b => b.id == n.id
  | none => false

def findFork (s : State) (node : Blk) : Option Blk :=
  match s.best with
  | [] => none
  | tip :: _ =>
    let c := chainTo s.index s.ghosts node.height node
    let c := c.dropWhile (fun n => n.height > tip.height)
    c.find? (fun n => contains s.best n)

def notFork (fork : Option Blk) (n : Blk) : Bool :=
  match fork with
  | some f => n.id != f.id
  | none => true

/-- `getReorganizeNodes`: index nodes (headers) to detach (tip first) and to attach (fork side first). -/
def getReorganizeNodes (s : State) (node : Blk) (fork : Option Blk) : List Blk × List Blk :=
  let attach := ((chainTo s.index s.ghosts node.height node).takeWhile (notFork fork)).reverse
  let detach := match s.best with
    | [] => []
    | tip :: _ => (chainTo s.index s.ghosts tip.height tip).takeWhile (notFork fork)
  (detach, attach)

/-- `LoadBlockByHash` for a list of nodes: the STORED bodies. -/
def loadAll (s : State) (ns : List Blk) : Option (List Blk) := ns.mapM (fun n => s.stored n.id)

/-- `reorganizeChain`: load everything, disconnect*, connect*; stops at the first error and
leaves the chain where it is. -/
def reorganize (P : Params) (s : State) (detach attach : List Blk) : State × Option Err :=
  match loadAll s detach, loadAll s attach with
  | some ds, some as =>
    match runSteps (disconnectBlock P) s ds with
    | (s1, some e) => (s1, some e)
    | (s1, none) => runSteps (connectBlock P) s1 as
  | _, _ => (s, some .hashNotExist)

def resetFin (s : State) (fork : Option Blk) : State :=
  match fork with
  | some f => if f.height < s.fin then { s with fin := f.height } else s
  | none => s

def reorgTo (P : Params) (s : State) (b : Blk) (fork : Option Blk) : State × Res :=
  -- no fork point (possible only through a DelNode'd ancestor): the detach walk does not stop at
  -- genesis; on a node that never restarted it reaches the pre-genesis node, whose block cannot be
  -- loaded: reorganizeChain gives up before touching anything
  if fork.isNone ∧ s.pregen then (s, .err .hashNotExist) else
  let s1 := resetFin s fork
  let dn := getReorganizeNodes s1 b fork
  match reorganize P s1 dn.1 dn.2 with
  | (s2, none) => (s2, .main)
  | (s2, some e) => (s2, .err e)

/-- `connectBestChain`; the node of `b` is already in the index.  Since repo commit a2015e1 a
block whose fork point is not found (an ancestor's node lost its parent pointer: `index.DelNode`)
is refused with ErrParentBlockNoExist before the side-chain branch and before getReorganizeNodes. -/
def connectBestChain (P : Params) (s : State) (b : Blk) : State × Res :=
  match s.best with
  | [] => (s, .err .panic)
  | tip :: _ =>
    if b.parent = tip.id then
      match connectBlock P s b with
      | (s', none) => (s', .main)
      | (s', some e) => (s', .err e)
    else
      match s.tds tip.id with
      | none => (s, .err .hashNotExist)
      | some tiptd =>
        match s.tds b.parent with
        | none => (s, .err .parentTdNoExist)
        | some ptd =>
          match findFork s b with
          | none => (s, .err .parentNoExist)
          | some f =>
            if b.diff + ptd ≤ tiptd ∨ b.height < s.fin + s.margin then (s, .side)
            else reorgTo P s b (some f)

/-- `connectBestChain` BEFORE repo commit a2015e1 (kept for the regression witness
`C27.no_fork_regression_old_connectBestChain`): without a fork point the side-chain branch
dereferences nil (panic) and the reorganize branch detaches the whole chain. -/
def connectBestChainOld (P : Params) (s : State) (b : Blk) : State × Res :=
  match s.best with
  | [] => (s, .err .panic)
  | tip :: _ =>
    if b.parent = tip.id then
      match connectBlock P s b with
      | (s', none) => (s', .main)
      | (s', some e) => (s', .err e)
    else
      match s.tds tip.id with
      | none => (s, .err .hashNotExist)
      | some tiptd =>
        match s.tds b.parent with
        | none => (s, .err .parentTdNoExist)
        | some ptd =>
          if b.diff + ptd ≤ tiptd ∨ b.height < s.fin + s.margin then
            match findFork s b with
            | none => (s, .err .panic)
            | some _ => (s, .side)
          else reorgTo P s b (findFork s b)

/-- `dbMaybeStoreBlock`: SKIPPED when a header is already stored under this hash. -/
def storeBlock (s : State) (b : Blk) : Option State :=
  if (s.stored b.id).isSome then some s else
  match s.tds b.parent with
  | none => none
  | some ptd => some { s with stored := upd s.stored b.id (some b),
                              tds := upd s.tds b.id (some (b.diff + ptd)) }

/-- `newBlockNode` + `index.AddNode`. -/
def addIndex (s : State) (b : Blk) (src : Src) : State :=
  { s with index := b :: s.index, srcOf := upd s.srcOf b.id (some src), errLog := upd s.errLog b.id none }

def maybeAcceptBlock (P : Params) (s : State) (b : Blk) (src : Src) : State × Res :=
  match lookup s.index b.parent with
  | none => (s, .err .parentNoExist)
  | some p =>
    if b.height ≠ p.height + 1 then (s, .err .heightNoMatch) else
    match storeBlock s b with
    | none => (s, .err .hashNotExist)
    | some s1 => connectBestChain P (addIndex s1 b src) b

def dropOrphan (s : State) (id : Nat) : State :=
  { s with orphans := s.orphans.filter (fun x => x.1.id != id) }

def addOrphan (s : State) (b : Blk) (src : Src) : State := { s with orphans := s.orphans ++ [(b, src)] }

def processOrphans (P : Params) : Nat → List Nat → State → State × Option Err
  | 0, _, s => (s, some .stuck)
  | _ + 1, [], s => (s, none)
  | fuel + 1, h :: rest, s =>
    match s.orphans.find? (fun o => o.1.parent == h) with
    | none => processOrphans P fuel rest s
    | some o =>
      match maybeAcceptBlock P (dropOrphan s o.1.id) o.1 o.2 with
      | (s2, .err e) => (s2, some e)
      | (s2, _) => processOrphans P fuel (h :: rest ++ [o.1.id]) s2

def orphanFuel (s : State) : Nat := 2 * s.orphans.length + 2

def unorphan (s : State) (b : Blk) : State :=
  if isKnownOrphan s b.id then dropOrphan s b.id else s

/-- `maybeAddBestChain`. -/
def acceptAndDrain (P : Params) (s : State) (b : Blk) (src : Src) : State × Res :=
  if blockExists s b.id then (s, .err .exist) else
  match maybeAcceptBlock P s b src with
  | (s1, .err e) => (s1, .err e)
  | (s1, r) =>
    match processOrphans P (orphanFuel s1) [b.id] s1 with
    | (s2, none) => (s2, r)
    | (s2, some e) => (s2, .err e)

/-- `ProcessBlock` (addBlock = true). -/
def notOnTip (s : State) (b : Blk) : Bool :=
  match s.best with
  | tip :: _ => b.parent != tip.id
  | [] => true

def processBlock (P : Params) (s : State) (b : Blk) (src : Src) : State × Res :=
  if src = .self ∧ notOnTip s b then (s, .err .hashNoMatch) else
  if blockExists s b.id then (s, .err .exist) else
  if isKnownOrphan s b.id ∧ !blockExists s b.parent then (s, .err .exist) else
  if !blockExists (unorphan s b) b.parent then (addOrphan (unorphan s b) b src, .orphan)
  else acceptAndDrain P (unorphan s b) b src

def init (fin margin hi lo : Nat) (recSeq : Bool) (g : Blk) : State :=
  { fin := fin, margin := margin, recSeq := recSeq, hi := hi, lo := lo,
    index := [g], srcOf := upd (fun _ => none) g.id (some .self), errLog := fun _ => none,
    orphans := [], best := [g],
    stored := upd (fun _ => none) g.id (some g),
    tds := upd (fun _ => none) g.id (some g.diff),
    h2h := upd (fun _ => none) g.height (some g.id),
    last := g.height,
    seqTab := if recSeq then upd (fun _ => none) 0 (some (true, g.id)) else fun _ => none,
    hashSeq := if recSeq then upd (fun _ => none) g.id (some 0) else fun _ => none,
    lastSeq := if recSeq then 0 else -1,
    txIdx := fun _ => none, cache := [], pool := [] }

/-- node restart on the same data directory: the databases survive (`stored`, `tds`, `h2h`, `last`,
sequence log, transaction index); `InitIndexAndBestView` rebuilds index and best-chain view from the
main chain (all of it: the chains considered are shorter than InitBlockNum = 10240; every node gets
pid "self", no error log; side-branch nodes are gone), the orphan pool and the mempool start empty,
`InitCache` rebuilds the txHeight cache. -/
def restart (P : Params) (s : State) : State :=
  { s with index := s.best,
           srcOf := fun id => if s.best.any (fun b => b.id == id) then some .self else none,
           errLog := fun _ => none,
           orphans := [], pool := [], ghosts := [], pregen := false,
           cache := cacheRebuild P s }

/-- the mempool asks the chain before admitting (`checkTxRemote` → EventTxHashList → `HasTx`): a
transaction already on the best chain (transaction index; window cache for TxHeight) is refused. -/
def dupOnChain (P : Params) (s : State) (t : Nat) : Bool :=
  match P.txh t with
  | some h => s.cache.contains (h, P.key t)
  | none => (s.txIdx (P.key t)).isSome

/-- external events: a block handed to `ProcessBlock`, a transaction entering / leaving the mempool. -/
inductive Ev
  | deliver (b : Blk) (src : Src)
  | poolAdd (t : Nat)   -- a transaction instance is admitted by the mempool
  | poolDel (h : Nat)   -- the transaction of hash `h` leaves the mempool
  | restart             -- the node is stopped and started again on the same data directory

def step (P : Params) (s : State) : Ev → State
  | .deliver b src => (processBlock P s b src).1
  | .poolAdd t => if dupOnChain P s t then s else { s with pool := poolPush P s.pool t }
  | .poolDel h => { s with pool := s.pool.filter (fun p => P.key p != h) }
  | .restart => restart P s

def run (P : Params) (s : State) (evs : List Ev) : State := evs.foldl (step P) s

/-! observations -/

def tip? (s : State) : Option Blk := s.best.head?

def mainChain (s : State) : List (Option Nat) := (List.range (s.last + 1).toNat).map s.h2h

def cleanAbove (s : State) : Bool :=
  (s.h2h (s.last + 1).toNat).isNone && (s.h2h (s.last + 2).toNat).isNone

/-! ## PreExecBlock over oracle inputs (the instance used by the drivers and by C28) -/

inductive Expire
  | none                 -- Expire = 0
  | height (h : Nat)     -- 0 < Expire ≤ ExpireBound: expired when Expire ≤ block height
  | time (t : Nat)       -- Expire > ExpireBound (not TxHeight): expired when Expire ≤ block time
  | txHeight (h : Nat)   -- Expire > TxHeightFlag: packable at heights h - low .. h + high
deriving DecidableEq, Repr, Inhabited

structure Tx where
  hash : Nat             -- Transaction.Hash(): every field except signature, public key and header
  sigOk : Bool           -- oracle: CheckSign
  exp : Expire
  feeOk : Bool           -- oracle: Fee ≥ GetRealFee(minfee) (and ≤ max fee); for the members of a transaction
                         -- group: txs[0].Fee ≥ Σ over the members of THEIR OWN GetRealFee (per-member rounding)
  chainOk : Bool         -- ChainID = cfg.GetChainID()
  runOk : Bool := true   -- oracle: the executor does not answer ExecErr once checkTx passed (fee payable, …)
deriving DecidableEq, Repr, Inhabited

abbrev Table := Nat → Tx

/-- `Transaction.isExpire(cfg, height, blocktime)`. -/
def isExpire (hi lo : Nat) (t : Tx) (height time : Nat) : Bool :=
  match t.exp with
  | .none => false
  | .height h => h ≤ height
  | .time x => x ≤ time
  | .txHeight h => !(h ≤ height + lo && height ≤ h + hi)   -- h - lo ≤ height ≤ h + hi

/-- executor `checkTx` (+ fee deduction / execution oracle): false ⇒ receipt ExecErr. -/
def checkTx (hi lo : Nat) (t : Tx) (height time : Nat) : Bool :=
  !isExpire hi lo t height time && t.chainOk && t.feeOk && t.runOk

def txhOf (t : Tx) : Option Nat :=
  match t.exp with
  | .txHeight h => some h
  | _ => none

/-- `DelDupTx`: of several occurrences of a hash the LAST is kept. -/
def delDup (T : Table) : List Nat → List Nat
  | [] => []
  | t :: rest => if rest.any (fun u => (T u).hash == (T t).hash) then delDup T rest else t :: delDup T rest

/-- `HasTx`: TxHeight-type transactions are looked up in the window cache ONLY, the others in
the transaction index. -/
def hasTx (T : Table) (s : State) (t : Nat) : Bool :=
  match txhOf (T t) with
  | some h => s.cache.contains (h, (T t).hash)
  | none => (s.txIdx (T t).hash).isSome

/-- the pool reports the hash (`EventCheckTxsExist`) AND the pooled transaction of that hash is
this very signed transaction (`pooledTxs` + FullHash comparison). -/
def poolVouches (T : Table) (s : State) (t : Nat) : Bool :=
  match s.pool.find? (fun p => (T p).hash == (T t).hash) with
  | some p => p == t
  | none => false

/-- `PreExecBlock(errReturn = true)` + `CheckBlock`, in the order of the code. -/
def preExec (T : Table) (s : State) (b : Blk) : Option Err :=
  -- 1. block signature, then the signatures of all transactions except those the mempool holds as
  --    the SAME signed transaction (repo 28243c8: EventCheckTxsExist by hash, then EventTxListByHash and
  --    comparison of FullHash — a transaction instance stands for one full hash)
  if !b.sigOk then some .sign else
  let unverified := b.txs.filter (fun t => !poolVouches T s t)
  if !unverified.all (fun t => (T t).sigOk) then some .sign else
  -- 2. CheckTxDup: in-block duplicates, then chain lookup
  let kept := (delDup T b.txs).filter (fun t => !hasTx T s t)
  if kept.length ≠ b.txs.length then some .txDup else
  -- 3. executor: a receipt of type ExecErr makes the block invalid
  if !b.txs.all (fun t => checkTx s.hi s.lo (T t) b.height b.time) then some .blockExec else
  -- 4. tx root, 5. state root, 6. consensus
  if !b.rootOk then some .checkTxHash else
  if !b.stateOk then some .checkStateHash else
  b.chkOk

/-- `PreExecBlock(errReturn = false)`: what the node keeps of a body when it executes it as its
OWN block on the tip — duplicates and transactions answering ExecErr are dropped (signatures are
not looked at on this path: the mempool verified them). -/
def produce (T : Table) (s : State) (b : Blk) : List Nat :=
  ((delDup T b.txs).filter (fun t => !hasTx T s t)).filter
    (fun t => checkTx s.hi s.lo (T t) b.height b.time)

/-- `PreExecBlock` BEFORE repo commit 28243c8: a transaction was exempt from signature verification
as soon as the pool reported its HASH (which covers neither signature nor public key).  Kept for
the regression witness `C28.chain_tx_signed_regression_old_preExec`. -/
def preExecOld (T : Table) (s : State) (b : Blk) : Option Err :=
  if !b.sigOk then some .sign else
  let unverified := b.txs.filter (fun t => !s.pool.any (fun p => (T p).hash == (T t).hash))
  if !unverified.all (fun t => (T t).sigOk) then some .sign else
  let kept := (delDup T b.txs).filter (fun t => !hasTx T s t)
  if kept.length ≠ b.txs.length then some .txDup else
  if !b.txs.all (fun t => checkTx s.hi s.lo (T t) b.height b.time) then some .blockExec else
  if !b.rootOk then some .checkTxHash else
  if !b.stateOk then some .checkStateHash else
  b.chkOk

def ofTableOld (T : Table) : Params :=
  { key := fun t => (T t).hash, txh := fun t => txhOf (T t), exec := preExecOld T }

def ofTable (T : Table) : Params :=
  { key := fun t => (T t).hash, txh := fun t => txhOf (T t), exec := preExec T }


/-! ## wire driver (shared by drv_c27 and drv_c28; op language of harness/internal/chainkit/c27_run) -/
namespace Drv
open Wire

structure DState where
  st : Option State
  txs : List (Nat × Tx)     -- declared instances
  blocks : List Blk         -- declared block variants (by wid)
  started : Bool

def table (txs : List (Nat × Tx)) : Table := fun i =>
  match txs.find? (fun e => e.1 == i) with
  | some e => e.2
  | none => { hash := 1000000 + i, sigOk := false, exp := .none, feeOk := false, chainOk := false, runOk := false }

def work (bits : Nat) : Nat := (C20.calcWork bits).toNat

def errStr : Err → String
  | .exist => "exist" | .parentNoExist => "parentnoexist" | .heightNoMatch => "heightnomatch"
  | .hashNoMatch => "hashnomatch" | .parentTdNoExist => "parenttdnoexist" | .hashNotExist => "hashnotexist"
  | .sign => "sign" | .txDup => "txdup" | .blockExec => "blockexec" | .checkTxHash => "checktxhash"
  | .checkStateHash => "checkstatehash" | .emptyTx => "emptytx" | .blockTime => "blocktime"
  | .transient => "transient" | .panic => "panic" | .stuck => "model-stuck"

def resStr : Res → String
  | .main => "main" | .side => "side" | .orphan => "orphan" | .err e => errStr e

def optNat : Option Nat → String
  | some n => toString n | none => "none"

def idStr : Option Nat → String
  | some n => toString n | none => "-"

def tipStr (s : State) : String :=
  match tip? s with
  | some t => s!"tip={t.id} h={t.height} td={optNat (s.tds t.id)}"
  | none => "tip=- h=-1 td=none"

def parseExp (w : String) : Option Expire :=
  if w == "n" then some .none else
  match w.toList with
  | c :: rest =>
    match (String.ofList rest).toNat? with
    | some n =>
      if n == 0 then none
      else if c == 'h' then some (.height n) else if c == 't' then some (.time n)
      else if c == 'x' then some (.txHeight n) else none
    | none => none
  | [] => none

def parseBit (w : String) : Option Bool :=
  if w == "1" then some true else if w == "0" then some false else none

def parseTxs (w : String) : Option (List Nat) :=
  if w == "-" then some [] else (w.splitOn ",").mapM (·.toNat?)

/-- root flags: `1` equal; `0` another 32-byte value, `e` empty, `s` one byte short, `l` one byte
long, `z` 32 zero bytes — all unequal under bytes.Equal. -/
def parseRoot (c : Char) : Option Bool :=
  if c == '1' then some true
  else if c == '0' || c == 'e' || c == 's' || c == 'l' || c == 'z' then some false else none

def parseFlags (w : String) : Option (Bool × Bool × Bool × Option Err) :=
  match w.toList with
  | [a, b, c, d] =>
    match parseBit (String.singleton a), parseRoot b, parseRoot c with
    | some x, some y, some z =>
      if d == 'k' then some (x, y, z, none) else if d == 'e' then some (x, y, z, some .emptyTx)
      else if d == 't' then some (x, y, z, some .blockTime) else none
    | _, _, _ => none
  | _ => none

def findBlk (d : DState) (wid : Nat) : Option Blk := d.blocks.find? (fun b => b.wid == wid)

def handle (d : DState) (line : String) : DState × String :=
  match words line with
  | ["case", _, fin, margin, rec, gbits, hi, lo] =>
    match fin.toNat?, margin.toNat?, gbits.toNat?, hi.toNat?, lo.toNat? with
    | some f, some m, some gb, some hi, some lo =>
      if (rec == "0" || rec == "1") && gb < 2^32 && hi > 0 && lo > 0 then
        let g : Blk := { id := 0, parent := 0, height := 0, diff := work gb, time := 0, txs := [] }
        let s := init f m hi lo (rec == "1") g
        ({ st := some s, txs := [], blocks := [g], started := false }, tipStr s)
      else ({ d with st := none }, "bad-op")
    | _, _, _, _, _ => ({ d with st := none }, "bad-op")
  | ["tx", inst, tag, key, sig, exp, fee, chain, run, _to, amt] =>
    match d.st, inst.toNat?, tag.toNat?, key.toNat?, parseBit sig, parseExp exp, parseBit fee, parseBit chain,
          parseBit run, amt.toNat? with
    | some _, some i, some t, some _, some sg, some ex, some fe, some ch, some ru, some _ =>
      if d.started || (d.txs.any (fun e => e.1 == i)) then (d, "bad-op") else
      ({ d with txs := d.txs ++ [(i, { hash := t, sigOk := sg, exp := ex, feeOk := fe, chainOk := ch, runOk := ru })] }, "ok")
    | _, _, _, _, _, _, _, _, _, _ => (d, "bad-op")
  | ["grp", first, n, spec, tagbase] =>
    -- a well-formed transaction group of n members (instances first.., hashes tagbase..); fee of the
    -- header transaction: S = the per-member sum of real fees (S+ above it), anything else below it
    match d.st, first.toNat?, n.toNat?, tagbase.toNat? with
    | some _, some f, some n, some tb =>
      if d.started || n < 2 || n > 20 || (List.range n).any (fun i => d.txs.any (fun e => e.1 == f + i)) ||
         !(spec == "S" || spec == "S+" || spec == "S-1" || spec == "W" || spec == "M" || spec == "W-1")
      then (d, "bad-op") else
      let ok := spec == "S" || spec == "S+"
      ({ d with txs := d.txs ++ (List.range n).map (fun i =>
          (f + i, { hash := tb + i, sigOk := true, exp := .none, feeOk := ok, chainOk := true, runOk := true })) }, "ok")
    | _, _, _, _ => (d, "bad-op")
  | ["blk", wid, hdr, par, h, bits, tm, txs, flags] =>
    match d.st, wid.toNat?, hdr.toNat?, par.toNat?, h.toNat?, bits.toNat?, tm.toNat?, parseTxs txs, parseFlags flags with
    | some _, some wid, some hdr, some par, some h, some bits, some tm, some txs, some (sg, ro, sa, ck) =>
      if d.started || wid == 0 || (findBlk d wid).isSome || bits ≥ 2^32 ||
         !(txs.all (fun t => d.txs.any (fun e => e.1 == t))) then (d, "bad-op") else
      let b : Blk := { id := hdr, parent := par, height := h, diff := work bits, time := tm, txs := txs,
                       sigOk := sg, rootOk := ro, stateOk := sa, chkOk := ck, wid := wid }
      if hdr == wid then ({ d with blocks := d.blocks ++ [b] }, "ok") else
      match findBlk d hdr with
      | some base =>
        if base.id == hdr && base.wid == hdr && base.parent == par && base.height == h && base.diff == b.diff &&
           base.time == tm && base.txs.length == txs.length
        then ({ d with blocks := d.blocks ++ [b] }, "ok") else (d, "bad-op")
      | none => (d, "bad-op")
    | _, _, _, _, _, _, _, _, _ => (d, "bad-op")
  | ["deliver", wid, src, bc] =>
    match d.st, wid.toNat?, parseBit bc with
    | some s, some wid, some _ =>
      match findBlk d wid with
      | some b =>
        if wid == 0 || !(src == "p" || src == "d") then (d, "bad-op") else
        let (s', r) := processBlock (ofTable (table d.txs)) s b (if src == "d" then .download else .peer)
        ({ d with st := some s', started := true }, resStr r ++ " " ++ tipStr s')
      | none => (d, "bad-op")
    | _, _, _ => (d, "bad-op")
  | ["produce", wid] =>
    match d.st, wid.toNat? with
    | some s, some wid =>
      match findBlk d wid with
      | some b =>
        if wid == 0 then (d, "bad-op") else
        let d := { d with started := true }
        match tip? s with
        | some t =>
          if b.parent != t.id then (d, "n/a") else
          let kept := produce (table d.txs) s b
          (d, if kept.isEmpty then "kept=-" else "kept=" ++ ",".intercalate (kept.map toString))
        | none => (d, "n/a")
      | none => (d, "bad-op")
    | _, _ => (d, "bad-op")
  | ["pool+", inst] =>
    match d.st, inst.toNat? with
    | some s, some i =>
      if d.txs.any (fun e => e.1 == i) then
        -- (mempool admission is C22's subject; of its checks the driver mirrors the fee check and the chain lookup)
        if !(table d.txs i).feeOk then ({ d with started := true }, "ErrTxFeeTooLow") else
        ({ d with st := some (step (ofTable (table d.txs)) s (.poolAdd i)), started := true },
          if dupOnChain (ofTable (table d.txs)) s i then "ErrDupTx" else "ok")
      else (d, "bad-op")
    | _, _ => (d, "bad-op")
  | ["pool?", tag] =>
    match d.st, tag.toNat? with
    | some s, some t =>
      ({ d with started := true }, if s.pool.any (fun p => (table d.txs p).hash == t) then "yes" else "no")
    | _, _ => (d, "bad-op")
  | ["chain"] =>
    match d.st with
    | some s =>
      ({ d with started := true },
        ",".intercalate ((mainChain s).map idStr) ++ (if cleanAbove s then " clean" else " dirty"))
    | none => (d, "bad-op")
  | ["body", h] =>
    match d.st, h.toNat? with
    | some s, some h =>
      ({ d with started := true }, match blockAt s h with | some b => toString b.wid | none => "none")
    | _, _ => (d, "bad-op")
  | [op, arg] =>
    match d.st, arg.toNat? with
    | some s, some hdr =>
      let d := { d with started := true }
      if op == "txidx" then (d, optNat (s.txIdx hdr)) else
      match findBlk d hdr with
      | none => (d, "bad-op")
      | some b =>
        if b.id != hdr then (d, "bad-op")
        else if op == "stored" then (d, match s.stored hdr with | some x => toString x.wid | none => "none")
        else if op == "td" then (d, optNat (s.tds hdr))
        else if op == "isorphan" then (d, if isKnownOrphan s hdr then "yes" else "no")
        else (d, "bad-op")
    | _, _ => (d, "bad-op")
  | ["restart"] =>
    match d.st with
    | some s =>
      let s' := restart (ofTable (table d.txs)) s
      ({ d with st := some s', started := true }, tipStr s')
    | none => (d, "bad-op")
  | ["scan"] =>
    match d.st with
    | some _ => ({ d with started := true }, "ok")
    | none => (d, "bad-op")
  | ["end"] =>
    match d.st with
    | some _ => ({ st := none, txs := [], blocks := [], started := false }, "ok")
    | none => (d, "bad-op")
  | _ => (d, "bad-op")

def main : IO Unit := do
  loopState (← IO.getStdin) (← IO.getStdout) handle { st := none, txs := [], blocks := [], started := false }

end Drv

end C27
