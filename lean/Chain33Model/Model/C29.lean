import Chain33Model.Model.C25
/-!
C29 — Block connection is crash-consistent.  Executable model, core Lean only; built on the
chain model of C25 (`Model/C25.lean`).

The node's durable state is a pair of ordered maps — the blockchain database and the state
store — modelled as `Disk` (the persisted tables of `C25.State` plus `roots`: which blocks'
state trees are completely present in the store).  An execution is the SEQUENCE OF DURABLE
WRITES the node emits; each batch is atomic (goleveldb `Batch.Write`, assumed):

  Write.store b td          blockchain db   BlockStore.dbMaybeStoreBlock      header/body tables by hash + TD
  Write.state b             store db        util.ExecBlock -> ExecKVSetCommit the new nodes of b's state tree
  Write.connect b td seq    blockchain db   BlockChain.connectBlock           tx index (AddTxs), header/body, blockLastHeight,
                                                                              Height:h -> hash, sequence record, TD — ONE batch
  Write.disconnect b seq    blockchain db   BlockChain.disconnectBlock        DelTxs, blockLastHeight := h-1, delete Height:h,
                                                                              sequence record — ONE batch

The write order is extracted from the control flow of process.go (and compared with the real
node's write log in the correspondence run):
  maybeAcceptBlock:  store b   (skipped when the header is already stored)
  connectBlock:      [parent ≠ tip ⇒ nothing]  state b ; connect b      (ExecBlock precedes the chain batch)
  disconnectBlock:   disconnect b                                      (the store is never written: only ever extended)
  reorganizeChain:   disconnect* (tip downwards) then (state ; connect)* (fork upwards)

`…T` functions return the *trace* of a C25 function: the writes it emits, each paired with the
in-memory node state (`C25.State`) right after the step that emitted it.  They follow the same
control flow as the C25 functions and use those for the state itself, so the C25 theorems apply
unchanged to every state in a trace.

Not modelled: the finaliser's own point writes (`finalizer.setFinalizedBlock` / `finalizer.reset`
store `snowChoiceKey` with a plain `db.Set`) — no finaliser is configured in the node under test,
none of these writes occurs in the logged runs, and `recover` restarts with the INITIAL finalised
height `F` rather than a persisted one (with `F = 0` `resetFin` never fires); the sync/push/chunk
point writes of other goroutines; concurrent `ProcessBlock` calls (deliveries are serialised).

`crash n` is the disk after the first `n` writes; `recover` is the start-up logic
(`LoadBlockStoreHeight`, `NewBlockStore`: last block by height; `InitIndexAndBestView`: headers
by height for 0..last into index and best chain; orphan pool empty); a missing record is the
start-up panic of the Go code (`none`).
-/
namespace C29
open C25

inductive Write
  | store (b : Block) (td : Nat)
  | state (b : Block)
  | connect (b : Block) (td : Nat) (seq : Option Int)
  | disconnect (b : Block) (seq : Option Int)
deriving Repr

/-- the durable state: the persisted tables of the blockchain database and, for the store, which
blocks' state trees are completely present. -/
structure Disk where
  stored : Map Block
  tds : Map Nat
  h2h : Map Nat
  last : Int
  seqTab : Map (Bool × Nat)
  hashSeq : Map Nat
  lastSeq : Int
  txIdx : Map Nat
  roots : Nat → Bool
  /-- configuration the node runs with (`isRecordBlockSequence`); no write changes it -/
  recSeq : Bool := false

def setRoot (r : Nat → Bool) (k : Nat) (v : Bool) : Nat → Bool := fun x => if x = k then v else r x

/-- the sequence part of a chain batch (`saveBlockSequence`): record, hash→seq for adds, last. -/
def applySeq (d : Disk) (isAdd : Bool) (b : Block) : Option Int → Disk
  | none => d
  | some n => { d with seqTab := upd d.seqTab n.toNat (some (isAdd, b.id)),
                       hashSeq := if isAdd then upd d.hashSeq b.id (some n.toNat) else d.hashSeq,
                       lastSeq := n }

/-- one atomic durable write.  A state batch writes the nodes that are new relative to the
parent's state tree, so the block's tree is complete exactly when the parent's was. -/
def apply (d : Disk) : Write → Disk
  | .store b td => { d with stored := upd d.stored b.id (some b), tds := upd d.tds b.id (some td) }
  | .state b => { d with roots := setRoot d.roots b.id (d.roots b.parent) }
  | .connect b td seq =>
    let d1 := applySeq d true b seq
    { d1 with stored := upd d1.stored b.id (some b), h2h := upd d1.h2h b.height (some b.id),
              last := b.height, tds := upd d1.tds b.id (some td), txIdx := addTxs d1.txIdx b }
  | .disconnect b seq =>
    let d1 := applySeq d false b seq
    { d1 with h2h := upd d1.h2h b.height none, last := (b.height : Int) - 1, txIdx := delTxs d1.txIdx b }

def applyAll (d : Disk) (ws : List Write) : Disk := ws.foldl apply d

/-- the durable part of an in-memory node state, with the given store content. -/
def disk (s : State) (roots : Nat → Bool) : Disk :=
  { stored := s.stored, tds := s.tds, h2h := s.h2h, last := s.last, seqTab := s.seqTab,
    hashSeq := s.hashSeq, lastSeq := s.lastSeq, txIdx := s.txIdx, roots := roots, recSeq := s.recSeq }

abbrev Trace := List (Write × State)

/-- the sequence number the next chain batch records (none: recording off). -/
def nextSeq (s : State) : Option Int := if s.recSeq then some (s.lastSeq + 1) else none

/-- `connectBlock`: nothing when the parent is not the tip; otherwise the state batch of
`ExecBlock`, then — if sequence and total-difficulty lookups succeed — the chain batch. -/
def connectBlockT (s : State) (b : Block) : Trace :=
  match s.best with
  | [] => []
  | tip :: _ =>
    if b.parent ≠ tip.id then [] else
    (Write.state b, s) ::
      (match connectBlock s b, s.tds b.parent with
       | .ok s1, some ptd => [(Write.connect b (b.diff + ptd) (nextSeq s), s1)]
       | _, _ => [])

/-- `disconnectBlock`: one chain batch. -/
def disconnectBlockT (s : State) (b : Block) : Trace :=
  match disconnectBlock s b with
  | .ok s1 => [(Write.disconnect b (nextSeq s), s1)]
  | .error _ => []

/-- trace of `runSteps f`. -/
def runStepsT (f : State → Block → Except Err State) (fT : State → Block → Trace) :
    State → List Block → Trace
  | _, [] => []
  | s, b :: bs =>
    fT s b ++ (match f s b with
               | .ok s' => runStepsT f fT s' bs
               | .error _ => [])

/-- `reorganizeChain`. -/
def reorganizeT (s : State) (detach attach : List Block) : Trace :=
  if !(detach ++ attach).all (fun n => (s.stored n.id).isSome) then [] else
  runStepsT disconnectBlock disconnectBlockT s detach ++
    (match runSteps disconnectBlock s detach with
     | (_, some _) => []
     | (s1, none) => runStepsT connectBlock connectBlockT s1 attach)

def reorgToT (s : State) (b : Block) (fork : Option Block) : Trace :=
  let s1 := resetFin s fork
  let dn := getReorganizeNodes s1 b fork
  reorganizeT s1 dn.1 dn.2

/-- `connectBestChain`. -/
def connectBestChainT (s : State) (b : Block) : Trace :=
  match s.best with
  | [] => []
  | tip :: _ =>
    if b.parent = tip.id then connectBlockT s b
    else
      match s.tds tip.id with
      | none => []
      | some tiptd =>
        match s.tds b.parent with
        | none => []
        | some ptd =>
          match findFork s b with
          | none => []
          | some f =>
            if b.diff + ptd ≤ tiptd ∨ b.height < s.fin + s.margin then []
            else reorgToT s b (some f)

/-- `dbMaybeStoreBlock`: one chain batch unless the header is already stored. -/
def storeBlockT (s : State) (b : Block) : Trace :=
  if (s.stored b.id).isSome then [] else
  match s.tds b.parent, storeBlock s b with
  | some ptd, some s1 => [(Write.store b (b.diff + ptd), s1)]
  | _, _ => []

/-- `maybeAcceptBlock`. -/
def maybeAcceptBlockT (s : State) (b : Block) : Trace :=
  match lookup s.index b.parent with
  | none => []
  | some p =>
    if b.height ≠ p.height + 1 then [] else
    match storeBlock s b with
    | none => []
    | some s1 => storeBlockT s b ++ connectBestChainT (addIndex s1 b) b

/-- `ProcessOrphans`. -/
def processOrphansT : Nat → List Nat → State → Trace
  | 0, _, _ => []
  | _ + 1, [], _ => []
  | fuel + 1, h :: rest, s =>
    match s.orphans.find? (fun o => o.parent == h) with
    | none => processOrphansT fuel rest s
    | some o =>
      maybeAcceptBlockT (dropOrphan s o.id) o ++
        (match maybeAcceptBlock (dropOrphan s o.id) o with
         | (_, .err _) => []
         | (s2, _) => processOrphansT fuel (h :: rest ++ [o.id]) s2)

def acceptAndDrainT (s : State) (b : Block) : Trace :=
  maybeAcceptBlockT s b ++
    (match maybeAcceptBlock s b with
     | (_, .err _) => []
     | (s1, _) => processOrphansT (orphanFuel s1) [b.id] s1)

/-- `ProcessBlock`. -/
def processBlockT (s : State) (b : Block) : Trace :=
  if haveBlock s b.id then [] else
  if isKnownOrphan s b.id ∧ !haveBlock s b.parent then [] else
  if !haveBlock (unorphan s b) b.parent then []
  else acceptAndDrainT (unorphan s b) b

/-- trace of a whole delivery history. -/
def deliverAllT : State → List Block → Trace
  | _, [] => []
  | s, b :: bs => processBlockT s b ++ deliverAllT (processBlock s b).1 bs

/-- the write sequence of a history. -/
def writesOf (s : State) (ds : List Block) : List Write := (deliverAllT s ds).map (·.1)

/-- the store of a node that holds only the genesis block `g`. -/
def roots0 (g : Block) : Nat → Bool := fun x => x == g.id

/-- `crash n`: the durable state after the first `n` writes of the history `ds` on a node that
started with only the genesis block. -/
def crash (F m : Nat) (r : Bool) (g : Block) (ds : List Block) (n : Nat) : Disk :=
  applyAll (disk (init F m r g) (roots0 g)) ((writesOf (init F m r g) ds).take n)

/-- the in-memory best chain the uninterrupted run had right after its `n`-th write. -/
def bestAt (F m : Nat) (r : Bool) (g : Block) (ds : List Block) (n : Nat) : List Block :=
  match ((deliverAllT (init F m r g) ds).take n).getLast? with
  | none => [g]
  | some e => e.2.best

/-- headers by height `h, h-1, …, 0` (tip first); `none` when a record is missing. -/
def loadChain (d : Disk) : Nat → Option (List Block)
  | 0 => match d.h2h 0 with
         | none => none
         | some i => (d.stored i).map (fun b => [b])
  | h + 1 => match d.h2h (h + 1) with
             | none => none
             | some i =>
               match d.stored i, loadChain d h with
               | some b, some c => some (b :: c)
               | _, _ => none

/-- start-up on a surviving disk: height from `blockLastHeight`, the chain `0..height` loaded by
height into index and best-chain view, orphan pool empty, persisted tables as found.  `none`
stands for the start-up panic (no height / missing record). -/
def recover (F m : Nat) (r : Bool) (d : Disk) : Option State :=
  if d.last < 0 then none else
  match loadChain d d.last.toNat with
  | none => none
  | some c =>
    some { fin := F, margin := m, recSeq := r, index := c, orphans := [], best := c,
           stored := d.stored, tds := d.tds, h2h := d.h2h, last := d.last, seqTab := d.seqTab,
           hashSeq := d.hashSeq, lastSeq := d.lastSeq, txIdx := d.txIdx }

end C29
