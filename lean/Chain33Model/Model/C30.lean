/-
C30 — block assembly limits (system/consensus/base.go `AddTxsToBlock`, `CheckTxExpire`/`isExpire`;
types/tx.go `IsExpire`/`isExpire`/`GetTxGroup`; types/config.go `GetP` + types/config_mver.go
`GetForkName`; types/fork.go `IsFork`; types/account_blacklist.go fork gate).
Executable model, core Lean only.

A pool entry is what `txs[i].GetTxGroup()` makes of it: an error (entry skipped), a single
transaction, or the decoded group.  A transaction is its identity, its `Size()` and whether the
blacklist core check hits it (`blocked`; the fork gate is modelled here, the address matching is
C31's subject).  Go panics are the explicit outcome `none` of `checkTxExpire`.
-/
namespace C30

/-! ## configuration: per-height limit and fork gate -/

/-- `MaxBlockSize` and the accumulated-size bound `MaxBlockSize - 100000` of `AddTxsToBlock`. -/
def maxBlockSize : Nat := 20000000
def sizeBound : Nat := maxBlockSize - 100000

/-- `mver` lookup (`versionList.GetForkName`): among the fork sections that define the key, the one
with the greatest fork height `≤ height` wins, otherwise the base value.  `forks` = (fork height,
value). -/
def pickFork (height : Int) : Option (Int × Int) → List (Int × Int) → Option (Int × Int)
  | best, [] => best
  | best, f :: rest =>
    if f.1 ≤ height then
      match best with
      | none => pickFork height (some f) rest
      | some b => if b.1 < f.1 then pickFork height (some f) rest else pickFork height best rest
    else pickFork height best rest

/-- `cfg.GetP(height).MaxTxNumber`. -/
def limitAt (base : Int) (forks : List (Int × Int)) (height : Int) : Int :=
  match pickFork height none forks with
  | some f => f.2
  | none => base

/-- `cfg.IsFork(height, ForkAccountBlacklist)`: `height == -1 || height >= forkHeight`. -/
def isFork (forkHeight height : Int) : Bool := decide (height = -1 ∨ height ≥ forkHeight)

/-! ## AddTxsToBlock -/

structure Tx where
  id : Nat
  size : Nat
  blocked : Bool
  deriving Repr, DecidableEq

inductive Entry where
  | bad                      -- GetTxGroup returned an error: `continue`
  | single (t : Tx)
  | group (ts : List Tx)     -- the decoded `Transactions` (length not checked against GroupCount)
  deriving Repr

def sizeSum (ts : List Tx) : Nat := (ts.map (·.size)).sum

/-- the transactions an entry stands for -/
def Entry.expand : Entry → List Tx
  | .bad => []
  | .single t => [t]
  | .group ts => ts

/-- The loop of `AddTxsToBlock`: `active` = blacklist fork gate, `maxTx` = per-height limit,
`bound` = size bound, `count`/`size` = running `currentCount`/`size`.  Returns `addedTx`
(`block.Txs` is the old list followed by it).  `return addedTx` on a limit = stop, not skip. -/
def addTxs (active : Bool) (maxTx : Int) (bound : Nat) : Int → Nat → List Entry → List Tx
  | _, _, [] => []
  | count, size, .bad :: rest => addTxs active maxTx bound count size rest
  | count, size, .single t :: rest =>
    if active && t.blocked then addTxs active maxTx bound count size rest
    else if count + 1 > maxTx then []
    else if size + t.size > bound then []
    else t :: addTxs active maxTx bound (count + 1) (size + t.size) rest
  | count, size, .group ts :: rest =>
    if active && ts.any (·.blocked) then addTxs active maxTx bound count size rest
    else if count + ts.length > maxTx then []
    else if size + sizeSum ts > bound then []
    else ts ++ addTxs active maxTx bound (count + ts.length) (size + sizeSum ts) rest

/-- `AddTxsToBlock` at a height, with the configuration made explicit. -/
def addTxsToBlock (base : Int) (forks : List (Int × Int)) (blFork : Int) (height : Int)
    (count0 : Nat) (size0 : Nat) (pool : List Entry) : List Tx :=
  addTxs (isFork blFork height) (limitAt base forks height) sizeBound count0 size0 pool

/-- protobuf varint length -/
def varintLen (n : Nat) : Nat :=
  if n < 128 then 1 else 1 + varintLen (n / 128)
decreasing_by omega

/-- bytes one transaction of `Size()` s adds to the encoded block (`repeated Transaction txs = 7`:
one tag byte, the length varint, the message). -/
def framed (s : Nat) : Nat := 1 + varintLen s + s

def encodedGrowth (ts : List Tx) : Nat := (ts.map (fun t => framed t.size)).sum

/-! ## CheckTxExpire -/

def expireBound : Int := 1000000000
def txHeightFlag : Int := 2 ^ 62
def lowAllowPackHeight : Int := 200
def highAllowPackHeight : Int := 600

/-- `Transaction.isExpire` (types/tx.go). `txHeightOn` = not a para chain ∧ `TxHeight` enabled ∧
`ForkTxHeight` active at `height`. -/
def isExpireField (txHeightOn : Bool) (height blocktime expire : Int) : Bool :=
  if expire = 0 then false
  else if expire ≤ expireBound then decide (expire ≤ height)
  else
    let txHeight : Int := if txHeightOn ∧ expire > txHeightFlag then expire - txHeightFlag else -1
    if txHeight > 0 then
      !(decide (txHeight - lowAllowPackHeight ≤ height ∧ height ≤ txHeight + highAllowPackHeight))
    else decide (expire ≤ blocktime)

/-- an expanded transaction as `CheckTxExpire` sees it -/
structure ETx where
  id : Nat
  gc : Int                     -- GroupCount (int32)
  expire : Int
  /-- `some ms` when `tx.GetTxGroup()` returns a group (2 ≤ gc ≤ 20 and `Header` decodes as a
  `Transactions` message): `(GroupCount, Expire)` of every decoded transaction. For a member of an
  expanded group `Header` is the 32-byte group hash, which decodes by accident for about 1 in 500
  hashes with no transactions, and for about 1 in 6.5 million hashes (`0a <len> …`) with one
  garbage transaction. -/
  hdr : Option (List (Int × Int))
  deriving Repr, DecidableEq

/-- `isPackedGroupOf(group, tx)` (repair 879d416): the decoded group is non-empty, has exactly
`tx.GroupCount` members and every member carries that count. -/
def isPackedGroupOf (ms : List (Int × Int)) (gc : Int) : Bool :=
  !ms.isEmpty && decide ((ms.length : Int) = gc) && ms.all (fun m => decide (m.1 = gc))

/-- `Transaction.IsExpire` (after the repairs c2f0f61, 879d416): the group path is taken only when
`GetTxGroup` yields the transaction's own packed group; otherwise the transaction is judged by its
own `Expire`. -/
def ETx.isExpire (txHeightOn : Bool) (height blocktime : Int) (t : ETx) : Bool :=
  match t.hdr with
  | some ms =>
    if isPackedGroupOf ms t.gc then ms.any (fun m => isExpireField txHeightOn height blocktime m.2)
    else isExpireField txHeightOn height blocktime t.expire
  | none => isExpireField txHeightOn height blocktime t.expire

/-- `Transaction.IsExpire` as it was before the repairs (kept for the regression statements only):
any decoded group, even an empty or a garbage one, took the group path. -/
def ETx.isExpireOld (txHeightOn : Bool) (height blocktime : Int) (t : ETx) : Bool :=
  match t.hdr with
  | some ms => ms.any (fun m => isExpireField txHeightOn height blocktime m.2)
  | none => isExpireField txHeightOn height blocktime t.expire

/-- base.go `isExpire` for one tx: gated by `height > 0 && blocktime > 0`. -/
def ETx.expired (txHeightOn : Bool) (height blocktime : Int) (t : ETx) : Bool :=
  decide (height > 0) && decide (blocktime > 0) && t.isExpire txHeightOn height blocktime

/-- The marking loop of `CheckTxExpire`: `some none` = `txs[i] = nil`. Outer `none` = Go panic
(slice bounds with a negative GroupCount). -/
def markExpired (exp : ETx → Bool) : List ETx → Option (List (Option ETx))
  | [] => some []
  | t :: rest =>
    if _h0 : t.gc = 0 then
      (markExpired exp rest).map (fun r => (if exp t then none else some t) :: r)
    else if t.gc > (rest.length + 1 : Nat) then
      (markExpired exp rest).map (fun r => some t :: r)        -- `continue`: kept unchecked
    else if _hneg : t.gc < 0 then none                          -- txs[i : i+gc] panics
    else
      let n := t.gc.toNat
      let grp := (t :: rest).take n
      let tail := (t :: rest).drop n
      (markExpired exp tail).map (fun r =>
        (if grp.any exp then grp.map (fun _ => none) else grp.map some) ++ r)
termination_by l => l.length
decreasing_by
  all_goals simp_wf
  all_goals omega

/-- `CheckTxExpire`: the surviving transactions in order; `none` = panic. -/
def checkTxExpire (exp : ETx → Bool) (txs : List ETx) : Option (List ETx) :=
  (markExpired exp txs).map (fun r => r.filterMap id)

end C30
