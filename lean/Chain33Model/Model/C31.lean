import Chain33Model.Base.Sha256
/-
C31 — blacklisted accounts cannot transact.

Model of types/account_blacklist.go (parseBlockedAccount = go-ethereum IsHexAddress + common.FromHex, else
address.NewBtcAddress: base58, 25 bytes, double-SHA256 checksum, hash160 taken regardless of the version
byte; IsBlockedAccount / IsBlockedAccountRaw; checkTxBlockedAccountCore with its five reported positions;
checkEVMTxBlockedTarget) and of the enforcement points: executor.execTx (proxy path: the inner transaction
is the one that is checked) / checkTxGroup / procExecTxList's error receipts, consensus AddTxsToBlock,
mempool checkTx / checkTxs (incl. proxyExecInnerTx), eventAddDelayTx / addDelayTx.  Core Lean only.

Address texts are `List Char`; the 20-byte identity of an account is `Raw`.
-/
namespace C31

abbrev Raw := List UInt8

/-! ### spelling parse -/

def isHexChar (c : Char) : Bool :=
  (decide ('0' ≤ c) && decide (c ≤ '9')) || (decide ('a' ≤ c) && decide (c ≤ 'f')) || (decide ('A' ≤ c) && decide (c ≤ 'F'))

/-- `has0xPrefix` / `s[0:2] == "0x" || s[0:2] == "0X"`. -/
def has0x : List Char → Bool
  | '0' :: 'x' :: _ => true
  | '0' :: 'X' :: _ => true
  | _ => false

/-- go-ethereum `common.IsHexAddress`. -/
def isHexAddress (s : List Char) : Bool :=
  let t := if has0x s then s.drop 2 else s
  t.length == 40 && t.all isHexChar

def hexVal (c : Char) : Option Nat :=
  if '0' ≤ c ∧ c ≤ '9' then some (c.toNat - 48)
  else if 'a' ≤ c ∧ c ≤ 'f' then some (c.toNat - 87)
  else if 'A' ≤ c ∧ c ≤ 'F' then some (c.toNat - 55)
  else none

/-- `encoding/hex.DecodeString` on an even-length text. -/
def decodeHex : List Char → Option Raw
  | [] => some []
  | [_] => none
  | a :: b :: rest =>
    match hexVal a, hexVal b, decodeHex rest with
    | some x, some y, some r => some (UInt8.ofNat (x * 16 + y) :: r)
    | _, _, _ => none

/-- chain33 `common.FromHex`. -/
def fromHex (s : List Char) : Option Raw :=
  if s.length > 1 then
    let t := if has0x s then s.drop 2 else s
    let t := if t.length % 2 == 1 then '0' :: t else t
    decodeHex t
  else some []

def b58Alphabet : List Char := "123456789ABCDEFGHJKLMNPQRSTUVWXYZabcdefghijkmnopqrstuvwxyz".toList

def b58Digit (c : Char) : Option Nat :=
  let i := b58Alphabet.findIdx (· == c)
  if i < 58 then some i else none

/-- the number a base58 text denotes (`none`: a character outside the alphabet). -/
def b58Num : List Char → Nat → Option Nat
  | [], acc => some acc
  | c :: rest, acc => match b58Digit c with
    | none => none
    | some d => b58Num rest (acc * 58 + d)

/-- minimal big-endian bytes (`big.Int.Bytes`), most significant first (`fuel` bounds the number of bytes). -/
def natBytesAux : Nat → Nat → Raw
  | 0, _ => []
  | fuel + 1, n => if n = 0 then [] else natBytesAux fuel (n / 256) ++ [UInt8.ofNat (n % 256)]

def natBytes (n : Nat) : Raw := natBytesAux n n

/-- decred `base58.Decode`: invalid character => empty result; every leading '1' is a zero byte. -/
def b58Decode (s : List Char) : Raw :=
  match b58Num s 0 with
  | none => []
  | some n => List.replicate (s.takeWhile (· == '1')).length 0 ++ natBytes n

/-- `address.NewBtcAddress` then `Hash160` (the version byte `dec[0]` is NOT looked at). -/
def btcParse (s : List Char) : Option Raw :=
  let dec := b58Decode s
  if dec.length != 25 then none
  else if (Sha256.sha2sum (dec.take 21)).take 4 != dec.drop 21 then none
  else some ((dec.drop 1).take 20)

/-- `parseBlockedAccount`. -/
def parse (s : List Char) : Option Raw :=
  if isHexAddress s then fromHex s else btcParse s

/-- `parseBlockedAccounts`: `none` = panic (an entry does not parse or is not 20 bytes). -/
def mkSet : List (List Char) → Option (List Raw)
  | [] => some []
  | s :: rest =>
    match parse s, mkSet rest with
    | some r, some rs => if r.length == 20 then some (r :: rs) else none
    | _, _ => none

/-- `IsBlockedAccountRaw`. -/
def isBlockedRaw (set : List Raw) (r : Raw) : Bool := r.length == 20 && !set.isEmpty && set.contains r

/-- `IsBlockedAccount`: an unparsable text is not blocked. -/
def isBlocked (set : List Raw) (s : List Char) : Bool :=
  !set.isEmpty && (match parse s with | some r => isBlockedRaw set r | none => false)

/-! ### the four-position check -/

structure Evm where
  contract : List Char        -- EVMContractAction4Chain33.ContractAddr
  para : Raw                  -- EVMContractAction4Chain33.Para
  deriving Repr, DecidableEq

/-- the text after the `n`-th '.', `none` when there are fewer dots. -/
def afterNthDot : Nat → List Char → Option (List Char)
  | 0, l => some l
  | _ + 1, [] => none
  | n + 1, c :: rest => if c = '.' then afterNthDot n rest else afterNthDot (n + 1) rest

/-- `types.GetParaExecName`: under the prefix `user.p.` everything after the third dot, unless that dot is the last
byte (or there is no third dot). -/
def paraExecName (e : List Char) : List Char :=
  if "user.p.".toList.isPrefixOf e then
    match afterNthDot 3 e with
    | some rest => if rest.isEmpty then e else rest
    | none => e
  else e

/-- `types.GetRealExecName`: strip the para-chain title; a name still starting with `user.p.` is returned as is; under
`user.` the segment up to the second dot (the whole rest when there is none) — unless it is empty. -/
def realExecName (e : List Char) : List Char :=
  let e' := paraExecName e
  if "user.p.".toList.isPrefixOf e' then e'
  else if "user.".toList.isPrefixOf e' then
    let seg := (e'.drop 5).takeWhile (· != '.')
    if seg.isEmpty then e' else seg
  else e'

/-- what `checkTxBlockedAccountCore` reads of a transaction. -/
structure TxV where
  sender : List Char          -- tx.From()
  to : List Char              -- tx.GetTo()
  realTo : List Char          -- tx.GetRealToAddr()
  execer : List Char          -- tx.GetExecer()
  payload : Option Evm        -- the payload decoded as EVMContractAction4Chain33 (`none`: it does not decode)
  deriving Repr, DecidableEq

/-- `checkEVMTxBlockedTarget` looks into the payload iff `GetRealExecName(execer) == "evm"` (so `evm`,
`user.evm.<name>`, `user.p.<title>.evm`, `user.p.<title>.user.evm.<name>` — not `xevm`, `user.evmx`, `user.write.evm`). -/
def TxV.evm (t : TxV) : Option Evm :=
  if realExecName t.execer == "evm".toList then t.payload else none

inductive Pos where
  | sender | to | realTo | evmContract | evmPara
  deriving Repr, DecidableEq

/-- `checkTxBlockedAccountCore` (+ `checkEVMTxBlockedTarget`): the first position that hits. -/
def core (set : List Raw) (t : TxV) : Option Pos :=
  if set.isEmpty then none
  else if isBlocked set t.sender then some .sender
  else if isBlocked set t.to then some .to
  else if t.realTo != t.to && isBlocked set t.realTo then some .realTo
  else match t.evm with
    | none => none
    | some e =>
      if !e.contract.isEmpty && isBlocked set e.contract then some .evmContract
      else if isBlockedRaw set e.para then some .evmPara
      else none

/-- `CheckTxBlockedAccount` (fork gated) / `CheckTxBlockedAccountImmediate` (`active = true`). -/
def check (active : Bool) (set : List Raw) (t : TxV) : Option Pos := if active then core set t else none

/-- `cfg.IsFork(height, ForkAccountBlacklist)`: the rule is active from the configured height on. -/
def activeAt (forkHeight height : Nat) : Bool := decide (forkHeight ≤ height)

/-! ### enforcement points -/

inductive Ty where
  | err | pack | ok
  deriving Repr, DecidableEq

/-- one entry of an EventExecTxList; `base` is the receipt type the same execution yields with an empty
blacklist (fee, balance, driver logic ... are not modelled). -/
inductive Item where
  | single (t : TxV) (base : Ty)
  | group (ts : List (TxV × Ty))
  | proxied (outer : TxV) (inner : Option TxV) (base : Ty)   -- inner = none: the payload is not a transaction
  | forwarded (t : TxV) (base : Ty)   -- para chain only: `IsForward2MainChainTx(cfg, tx)` (a transaction of another chain, or
                                      -- of this para chain with an executor listed in rpc.parachain.forwardExecs)
  deriving Repr

/-- the transactions whose four positions the executor looks at for this item. -/
def Item.effective : Item → List TxV
  | .single t _ => [t]
  | .group ts => ts.map (·.1)
  | .proxied _ inner _ => inner.toList
  | .forwarded t _ => [t]

/-- for such an item (para chain + IsForward2MainChainTx) `executor.checkTx` skips expiry, fee and executor-name checks;
after fix d931b79 in /repo it still applies the blacklist rule. -/
def Item.isForwarded : Item → Bool
  | .forwarded _ _ => true
  | _ => false

/-- receipts of `procExecTxList` for the item at a height where the rule is `active`. -/
def execItem (active : Bool) (set : List Raw) : Item → List Ty
  | .single t base => [if (check active set t).isSome then .err else base]
  | .group ts => if ts.any (fun p => (check active set p.1).isSome) then ts.map (fun _ => Ty.err) else ts.map (·.2)
  | .proxied _ inner base =>
    match inner with
    | none => [base]
    | some t => [if (check active set t).isSome then .err else base]
  | .forwarded t base => [if (check active set t).isSome then .err else base]

/-- the executor as it was before fix d931b79: a forwarded transaction skipped the blacklist rule as well (kept for the
regression witness). -/
def execForwardedPreFix (_active : Bool) (_set : List Raw) (_t : TxV) (base : Ty) : List Ty := [base]

/-- `AddTxsToBlock`: is the (single or group) entry put into the block by the producer. -/
def producerTakes (active : Bool) (set : List Raw) (ts : List TxV) : Bool :=
  !ts.any (fun t => (check active set t).isSome)

inductive PoolRes where
  | accepted | blocked | other
  deriving Repr, DecidableEq

/-- one submitted transaction as the pool sees it: `addrOk` = `address.CheckAddress(tx.To)` passes; `inner` is
`proxyExecInnerTx(cfg, tx)`: `some` exactly when the transaction is a proxy-exec transaction — the signature type is
the Ethereum sign id, `tx.To` is `exec.proxyExecAddress`, the real executor name is `evm`, the payload decodes as an
`EVMContractAction4Chain33` with non-empty `Para` and `Para` decodes as a transaction — and then is that inner
transaction carrying the outer signature (the transaction the executor will really execute). -/
structure PoolTx where
  outer : TxV
  addrOk : Bool
  inner : Option TxV
  deriving Repr

/-- the inner transaction of a proxy-exec member hits the blacklist. -/
def innerHit (set : List Raw) (m : PoolTx) : Bool :=
  match m.inner with
  | some t => (core set t).isSome
  | none => false

/-- mempool `checkTxs` (after fix 1445781 in /repo): the members are checked one after the other, each first for its
recipient address, then the member itself against the blacklist, then — for a proxy-exec member — its inner
transaction; `none` = every member passed. -/
def poolMembers (set : List Raw) : List PoolTx → Option PoolRes
  | [] => none
  | m :: rest =>
    if !m.addrOk then some .other
    else if (core set m.outer).isSome then some .blocked
    else if innerHit set m then some .blocked
    else poolMembers set rest

/-- the pool as it was before the fix: the inner transaction of a proxy-exec member was not looked at (kept for the
regression witness). -/
def poolMembersPreFix (set : List Raw) : List PoolTx → Option PoolRes
  | [] => none
  | m :: rest =>
    if !m.addrOk then some .other
    else if (core set m.outer).isSome then some .blocked
    else poolMembersPreFix set rest

/-- mempool answer for a transaction or group; `reach`: the checks on the whole submission (signature, fee, size)
passed; `base` = the answer with an empty blacklist. -/
def poolSubmit (set : List Raw) (ts : List PoolTx) (reach : Bool) (base : PoolRes) : PoolRes :=
  if !reach then .other
  else match poolMembers set ts with
    | some r => r
    | none => base

/-- `checkTxs` on a para-chain node: a submission with `IsForward2MainChainTx` is passed on before any check. -/
def poolSubmitPara (set : List Raw) (ts : List PoolTx) (reach forwarded : Bool) (base : PoolRes) : PoolRes :=
  if !reach then .other else if forwarded then base else poolSubmit set ts reach base

def poolSubmitPreFix (set : List Raw) (ts : List PoolTx) (reach : Bool) (base : PoolRes) : PoolRes :=
  if !reach then .other
  else match poolMembersPreFix set ts with
    | some r => r
    | none => base

/-- `eventAddDelayTx` / `addDelayTx`: is the delayed transaction cached. -/
def delayTakes (set : List Raw) (t : TxV) : Bool := !(core set t).isSome

/-- what happens to a cached delayed transaction when its delay expires: it is pushed through the pool's `checkTxs`
(which does unwrap a proxy-exec transaction). -/
def delayExpires (set : List Raw) (m : PoolTx) (base : PoolRes) : PoolRes := poolSubmit set [m] true base

end C31
