/-
C32 — push subscribers (blockchain/push.go): the per-subscriber task loop of `runTask`, re-registration
(`addSubscriber` → `check2ResumePush`), node restart (`Push.init`), as a deterministic transition
function over inputs, emitting the externally visible events.  Core Lean only.

The data source is abstract: a post covers the sequence numbers `last+1 .. last+n`, where
`1 ≤ n ≤ min(maxSeq, latest-last)` (`n` is cut by the payload size limit; the cut is an input).
Subscriptions whose payload may be empty for a range (tx-receipt / EVM filters) are not modelled.
-/
namespace C32

structure Cfg where
  maxSeq : Nat := 10        -- pushBlockMaxSeq (100 for tx receipts)
  failSleep : Nat := 60     -- postFail2Sleep

structure Task where
  last : Int := -1          -- lastProcessedseq of the running goroutine
  fails : Nat := 0          -- continueFailCount
  sleep : Nat := 0          -- postFail2Sleep countdown
  running : Bool := false   -- a task goroutine exists
  persisted : Int := -1     -- last push seq in the store (-1: none)
  active : Bool := false    -- persisted subscription status
  registered : Bool := false  -- a subscription record for this name exists in the store
  deriving Repr, DecidableEq

inductive In where
  | seqUpdate (latest : Int) (cut : Nat) (postOk : Bool)
      -- the task consumes one notification; `latest` = LoadBlockLastSequence now; if it posts, the
      -- payload is cut to `cut` entries (at least one) and the subscriber answers `postOk`
  | tick                    -- runChan wake-up
  | subscribe (resume : Int)  -- addSubscriber for this name (resume ≥ 1: start after that sequence; else none)
  | restart                 -- node restart: a new Push over the same store
  deriving Repr

inductive Ev where
  | post (a b : Int) (ok : Bool)   -- payload for sequences a..b was posted; acknowledged iff ok
  | persisted (v : Int)            -- setLastPushSeq(v)
  | deactivated                    -- three consecutive failures: task removed, status not-active persisted
  | started                        -- a task goroutine was (re)started for the subscriber
  deriving Repr, DecidableEq

/-- a new task goroutine: `getLastPushSeq`, counters zero. -/
def spawn (t : Task) : Task :=
  { t with last := t.persisted, fails := 0, sleep := 0, running := true }

def step (c : Cfg) (t : Task) : In → Task × List Ev
  | .seqUpdate latest cut ok =>
    if !t.running then (t, []) else
    -- "if postFail2Sleep > 0 { if AddInt32(-1) > 0 { wait; continue } }"
    if t.sleep > 1 then ({ t with sleep := t.sleep - 1 }, []) else
    let t := { t with sleep := 0 }
    if t.last ≥ latest then (t, [])
    else if t.last ≤ 0 then ({ t with last := latest }, [])       -- no resume point: start from the newest
    else
      let count := min (c.maxSeq : Int) (latest - t.last)
      let n : Int := max 1 (min count (cut : Int))
      let a := t.last + 1
      let b := t.last + n
      if ok then
        ({ t with last := b, fails := 0, persisted := b }, [.post a b true, .persisted b])
      else if t.fails + 1 ≥ 3 then
        ({ t with fails := t.fails + 1, running := false, active := false }, [.post a b false, .deactivated])
      else
        ({ t with fails := t.fails + 1, sleep := c.failSleep }, [.post a b false])
  | .tick =>
    if t.running && t.sleep > 0 then ({ t with sleep := t.sleep - 1 }, []) else (t, [])
  | .subscribe resume =>
    if t.registered then
      -- the name exists in the store: check2ResumePush + setActive (the stored subscription is used)
      if t.running then ({ t with sleep := 0, active := true }, [])
      else (spawn { t with active := true }, [.started])
    else
      -- first registration; a resume point is written before the task starts
      let t := if resume ≥ 1 then { t with persisted := resume } else t
      (spawn { t with active := true, registered := true },
        if resume ≥ 1 then [.persisted resume, .started] else [.started])
  | .restart =>
    if t.active then (spawn t, [.started]) else ({ t with running := false }, [])

def run (c : Cfg) (t : Task) : List In → Task × List Ev
  | [] => (t, [])
  | i :: is =>
    let (t', e) := step c t i
    let (t'', es) := run c t' is
    (t'', e ++ es)

/-! ### the specification: an acceptor over event traces, written from the property text -/

structure Spec where
  p : Int := -1                 -- last sequence recorded as delivered (resume point); < 1: none yet
  fails : Nat := 0              -- consecutive failed posts
  dead : Bool := true           -- no task is delivering (before registration / after deactivation)
  pending : Option Int := none  -- an acknowledged post whose record must come next
  mustDeact : Bool := false     -- the third consecutive failure must be followed by deactivation
  anyPost : Bool := false       -- some post was seen
  deriving Repr, DecidableEq

def accept (c : Cfg) (s : Spec) : Ev → Option Spec
  | .post a b ok =>
    if s.dead || s.pending.isSome || s.mustDeact then none
    else if !(1 ≤ a ∧ a ≤ b ∧ b - a + 1 ≤ (c.maxSeq : Int)) then none
    else if s.p ≥ 1 ∧ a ≠ s.p + 1 then none          -- without gaps and without repeats from the resume point
    else if ok then some { s with fails := 0, pending := some b, anyPost := true }
    else if s.fails + 1 ≥ 3 then some { s with fails := s.fails + 1, mustDeact := true, anyPost := true }
    else some { s with fails := s.fails + 1, anyPost := true }
  | .persisted v =>
    match s.pending with
    | some b => if v = b then some { s with p := b, pending := none } else none   -- recorded only after the ack
    | none => if s.dead && !s.anyPost && s.p < 1 && v ≥ 1 then some { s with p := v } else none  -- registration with a resume point
  | .deactivated => if s.mustDeact then some { s with mustDeact := false, dead := true, fails := 0 } else none
  | .started => if s.pending.isSome || s.mustDeact then none else some { s with dead := false, fails := 0 }

def acceptAll (c : Cfg) (s : Spec) : List Ev → Option Spec
  | [] => some s
  | e :: es => match accept c s e with
    | none => none
    | some s' => acceptAll c s' es

/-- the sequence the specification currently regards as the last delivered one. -/
def eff (s : Spec) : Int := match s.pending with | some b => b | none => s.p

/-- the acknowledged ranges of a trace, in order. -/
def acks : List Ev → List (Int × Int)
  | [] => []
  | .post a b true :: es => (a, b) :: acks es
  | _ :: es => acks es

end C32
