/-
C32 — push subscribers (blockchain/push.go): the per-subscriber task loop of `runTask`, re-registration
(`addSubscriber` → `check2ResumePush`), node restart (`Push.init`), as a deterministic transition
function over inputs, emitting the externally visible events.  Core Lean only.

The data source is abstract: one pass of the loop covers the sequence numbers `last+1 .. last+n`, where
`n ≤ min(maxSeq, latest-last)` (`n` is cut by the payload size limit; the cut is an input).
* block / header / tx-result subscriptions: the payload is never empty and `n ≥ 1`;
* tx-receipt / EVM-event subscriptions (a contract filter): the range may hold NO matching data
  (`empty`); then nothing is posted and `lastProcessedseq` moves on IN MEMORY ONLY (no
  `setLastPushSeq`) — the `.skip a b` event.  `runTask` itself does not advance when `getPushData` answers
  `(nil, startSeq-1)` (`n = 0`, the `.stalled` event); which `(data, updateSeq)` the receipt / EVM-event
  batch loop can answer is modelled by `batchNew` (after fix 87f57a6: never `n = 0`, never a matching block
  left out) and `batchOld` (the loop before the fix, kept as a regression witness).
Between the acknowledgement (`PostData` returned nil) and the record (`_ = setLastPushSeq`, error ignored)
three things can happen (`After`): the record is written, the store write fails, the node crashes.
-/
namespace C32

structure Cfg where
  maxSeq : Nat := 10        -- pushBlockMaxSeq (100 for tx receipts)
  failSleep : Nat := 60     -- postFail2Sleep

structure Task where
  last : Int := -1          -- lastProcessedseq of the running goroutine
  fails : Nat := 0          -- continueFailCount
  sleep : Nat := 0          -- postFail2Sleep countdown
  running : Bool := false   -- a task goroutine exists
  persisted : Int := -1     -- last push seq in the store (-1: none)
  active : Bool := false    -- persisted subscription status
  registered : Bool := false  -- a subscription record for this name exists in the store
  deriving Repr, DecidableEq

/-- what follows an acknowledged post. -/
inductive After where
  | record      -- setLastPushSeq succeeded
  | storeFail   -- setLastPushSeq returned an error (ignored by the code): the loop goes on in memory
  | crash       -- the node died between PostData and setLastPushSeq and is started again
  deriving Repr, DecidableEq

inductive In where
  | seqUpdate (latest : Int) (cut : Nat) (empty : Bool) (postOk : Bool) (after : After)
      -- the task consumes one notification; `latest` = LoadBlockLastSequence now; the range is cut to
      -- `cut` entries; `empty`: it holds no matching data (filter subscriptions); else the payload is
      -- posted, the subscriber answers `postOk`, and `after` says what happens to the record
  | tick                    -- runChan wake-up
  | subscribe (resume : Int)  -- addSubscriber for this name (resume ≥ 1: start after that sequence; else none)
  | restart                 -- node restart (graceful or crash): a new Push over the same store
  deriving Repr

inductive Ev where
  | post (a b : Int) (ok : Bool)   -- payload covering sequences a..b was posted; acknowledged iff ok
  | persisted (v : Int)            -- setLastPushSeq(v) written
  | deactivated                    -- three consecutive failures: task removed, status not-active persisted
  | started                        -- a task goroutine was (re)started for the subscriber
  | skip (a b : Int)               -- sequences a..b scanned, no matching data: cursor moved in memory only
  | stalled                        -- the first block of the range exceeds the size limit: nothing posted, cursor unchanged
  deriving Repr, DecidableEq

/-- a new task goroutine: `getLastPushSeq`, counters zero. -/
def spawn (t : Task) : Task :=
  { t with last := t.persisted, fails := 0, sleep := 0, running := true }

/-- `Push.init` over the store: only subscriptions persisted as active get a task. -/
def reboot (t : Task) : Task × List Ev :=
  if t.active then (spawn t, [.started]) else ({ t with running := false }, [])

def step (c : Cfg) (t : Task) : In → Task × List Ev
  | .seqUpdate latest cut empty ok after =>
    if !t.running then (t, []) else
    -- "if postFail2Sleep > 0 { if AddInt32(-1) > 0 { wait; continue } }"
    if t.sleep > 1 then ({ t with sleep := t.sleep - 1 }, []) else
    let t := { t with sleep := 0 }
    if t.last ≥ latest then (t, [])
    else if t.last ≤ 0 then ({ t with last := latest }, [])       -- no resume point: start from the newest
    else
      let count := min (c.maxSeq : Int) (latest - t.last)
      let a := t.last + 1
      if empty then
        -- data == nil: "continueFailCount = 0; lastProcessedseq = updateSeq", nothing recorded
        let n : Int := min count (cut : Int)
        if n ≤ 0 then ({ t with fails := 0 }, [.stalled])
        else ({ t with last := t.last + n, fails := 0 }, [.skip a (t.last + n)])
      else
      let n : Int := max 1 (min count (cut : Int))
      let b := t.last + n
      if ok then
        match after with
        | .record => ({ t with last := b, fails := 0, persisted := b }, [.post a b true, .persisted b])
        | .storeFail => ({ t with last := b, fails := 0 }, [.post a b true])
        | .crash => ((reboot t).1, .post a b true :: (reboot t).2)
      else if t.fails + 1 ≥ 3 then
        ({ t with fails := t.fails + 1, running := false, active := false }, [.post a b false, .deactivated])
      else
        ({ t with fails := t.fails + 1, sleep := c.failSleep }, [.post a b false])
  | .tick =>
    if t.running && t.sleep > 0 then ({ t with sleep := t.sleep - 1 }, []) else (t, [])
  | .subscribe resume =>
    if t.registered then
      -- the name exists in the store: check2ResumePush + setActive (the stored subscription is used)
      if t.running then ({ t with sleep := 0, active := true }, [])
      else (spawn { t with active := true }, [.started])
    else
      -- first registration; a resume point is written before the task starts
      let t := if resume ≥ 1 then { t with persisted := resume } else t
      (spawn { t with active := true, registered := true },
        if resume ≥ 1 then [.persisted resume, .started] else [.started])
  | .restart => reboot t

def run (c : Cfg) (t : Task) : List In → Task × List Ev
  | [] => (t, [])
  | i :: is =>
    let (t', e) := step c t i
    let (t'', es) := run c t' is
    (t'', e ++ es)

/-- histories in which every acknowledged post gets its record (no store failure, no crash in the
window between acknowledgement and record). -/
def In.noLoss : In → Bool
  | .seqUpdate _ _ _ _ .record => true
  | .seqUpdate _ _ _ _ _ => false
  | _ => true

/-! ### the batch loop of getTxReceipts (`batchNew`; getEVMEvent still has the old rule `batchOld`, pinned by Test_PostEVMEvent_bigsize) — which blocks of a range go into one payload -/

/-- one block of a range as the loop sees it: `none` — no matching transaction; `some size` — the size
of its per-block message. -/
abbrev Blk := Option Nat

structure Batch where
  total : Nat := 0          -- totalSize
  incl : List Nat := []     -- offsets from startSeq of the blocks appended to the payload, in order
  count : Nat := 0          -- actualIterCount (updateSeq = startSeq + count - 1)
  deriving Repr, DecidableEq

/-- the loop after fix 87f57a6: a matching block ends the batch iff something was appended before and it
does not fit (`totalSize != 0 && totalSize+size >= maxSize`), else it is appended; other blocks advance. -/
def batchNew (maxSize : Nat) : Batch → List Blk → Batch
  | b, [] => b
  | b, none :: rest => batchNew maxSize { b with count := b.count + 1 } rest
  | b, some sz :: rest =>
    if b.total ≠ 0 ∧ b.total + sz ≥ maxSize then b
    else batchNew maxSize { total := b.total + sz, incl := b.incl ++ [b.count], count := b.count + 1 } rest

/-- the loop before the fix: `if matching && totalSize+size < maxSize {append} else if totalSize+size >
maxSize {break}; actualIterCount++` (a block without matching transactions has message size 0). -/
def batchOld (maxSize : Nat) : Batch → List Blk → Batch
  | b, [] => b
  | b, none :: rest =>
    if b.total > maxSize then b else batchOld maxSize { b with count := b.count + 1 } rest
  | b, some sz :: rest =>
    if b.total + sz < maxSize then
      batchOld maxSize { total := b.total + sz, incl := b.incl ++ [b.count], count := b.count + 1 } rest
    else if b.total + sz > maxSize then b
    else batchOld maxSize { b with count := b.count + 1 } rest

/-- the offsets of the matching blocks of a range. -/
def matchPos (off : Nat) : List Blk → List Nat
  | [] => []
  | none :: rest => matchPos (off + 1) rest
  | some _ :: rest => off :: matchPos (off + 1) rest

/-- the notification input a batch result stands for: the range is cut to `count` entries and is empty
iff nothing was appended. -/
def In.ofBatch (latest : Int) (r : Batch) (ok : Bool) (after : After) : In :=
  .seqUpdate latest r.count r.incl.isEmpty ok after

/-! ### the specification: an acceptor over event traces, written from the property text -/

structure Spec where
  p : Int := -1                 -- last sequence recorded as delivered (resume point); < 1: none yet
  q : Int := -1                 -- cursor of the running task: end of the last acknowledged or skipped range
  fails : Nat := 0              -- consecutive failed posts
  dead : Bool := true           -- no task is delivering (before registration / after deactivation)
  pending : Option Int := none  -- an acknowledged post whose record may come next
  mustDeact : Bool := false     -- the third consecutive failure must be followed by deactivation
  anyPost : Bool := false       -- some post was seen
  deriving Repr, DecidableEq

/-- `strict = true`: every acknowledgement must be followed at once by its record (the reading of the
property in which an acknowledged range is never delivered again).  `strict = false`: the record may be
lost (store failure, crash); then the task falls back to the older record when it starts again. -/
def accept (c : Cfg) (strict : Bool) (s : Spec) : Ev → Option Spec
  | .post a b ok =>
    if s.dead || s.mustDeact || (strict && s.pending.isSome) then none
    else if !(1 ≤ a ∧ a ≤ b ∧ b - a + 1 ≤ (c.maxSeq : Int)) then none
    else if s.q ≥ 1 ∧ a ≠ s.q + 1 then none          -- right after the cursor: no gap, no repeat
    else if ok then some { s with fails := 0, pending := some b, q := b, anyPost := true }
    else if s.fails + 1 ≥ 3 then some { s with fails := s.fails + 1, pending := none, mustDeact := true, anyPost := true }
    else some { s with fails := s.fails + 1, pending := none, anyPost := true }
  | .skip a b =>
    if s.dead || s.mustDeact || (strict && s.pending.isSome) then none
    else if !(1 ≤ a ∧ a ≤ b ∧ b - a + 1 ≤ (c.maxSeq : Int)) then none
    else if s.q ≥ 1 ∧ a ≠ s.q + 1 then none
    else some { s with fails := 0, pending := none, q := b }
  | .stalled =>
    if s.dead || s.mustDeact || (strict && s.pending.isSome) then none
    else some { s with fails := 0, pending := none }
  | .persisted v =>
    if s.mustDeact then none else
    match s.pending with
    | some b => if v = b then some { s with p := b, pending := none } else none   -- recorded only after the ack
    | none => if s.dead && !s.anyPost && s.p < 1 && v ≥ 1 then some { s with p := v } else none  -- registration with a resume point
  | .deactivated =>   -- follows the third refused post at once (no acknowledgement is outstanding)
    if s.mustDeact && s.pending.isNone then some { s with mustDeact := false, dead := true, fails := 0 } else none
  | .started =>
    if s.mustDeact || (strict && s.pending.isSome) then none
    else some { s with dead := false, fails := 0, pending := none, q := s.p }   -- a new task starts from the record

def acceptAll (c : Cfg) (strict : Bool) (s : Spec) : List Ev → Option Spec
  | [] => some s
  | e :: es => match accept c strict s e with
    | none => none
    | some s' => acceptAll c strict s' es

/-- the sequence the specification currently regards as the last delivered one. -/
def eff (s : Spec) : Int := match s.pending with | some b => b | none => s.p

/-- the acknowledged ranges of a trace, in order. -/
def acks : List Ev → List (Int × Int)
  | [] => []
  | .post a b true :: es => (a, b) :: acks es
  | _ :: es => acks es

/-- no `.skip` in the trace (block / header / tx-result subscriptions). -/
def noSkip : List Ev → Bool
  | [] => true
  | .skip _ _ :: _ => false
  | _ :: es => noSkip es

end C32
