/-
C33 / C34 — receive paths of the dht p2p protocols: the *index and nil logic* of every function that
touches peer-supplied data, as total functions with an explicit `Res.panic`.  Core Lean only.

Mirrors (file:function)
  broadcast/broadcast.go       handleBroadcastReceive (recover, block filter), handlePeerMsg, postBlockChain
  broadcast/lightbroadcast.go  addLtBlock, buildPendBlock, buildPendList, pendBlockLoop (tick body),
                               addBlockRequest, handleBlockReq, handleBlockReqList (tick body)
  broadcast/validate.go        validateBlock/Tx/BatchTx/Peer, manageDeniedPeer (tick body)
  download/handler.go          handleStreamDownloadBlock(Old);  download/download.go downloadBlockFromPeerOld
  peer/handler.go              handleStreamVersion(Old), handleStreamPeerInfo(Old)
  p2p/event.go                 PubBroadCast (duplicate suppression when two p2p types are configured)
  queue/client.go              Wait(nil message)

A Go slice index / nil dereference / negative make is `Res.panic`; nothing is totalised with a default.
-/
namespace C33

inductive Res (α : Type) where
  | panic
  | ok (v : α)
  deriving Repr, DecidableEq

namespace Res
def bind {α β : Type} : Res α → (α → Res β) → Res β
  | .panic, _ => .panic
  | .ok v, f => f v
def map {α β : Type} (f : α → β) : Res α → Res β
  | .panic => .panic
  | .ok v => .ok (f v)
def isPanic {α : Type} : Res α → Bool
  | .panic => true
  | .ok _ => false
instance : Monad Res where
  pure := .ok
  bind := bind
end Res

abbrev SH := String       -- 5-byte short hash, as the hex text that travels in LightBlock.sTxHashes
abbrev TxId := Nat        -- identity of a transaction (its full hash)

/-- what the pool's short-hash index holds: the transaction and, when `GetTxGroup` yields a group,
every member of that group, head first (`group.GetTxs()`); `[]` for a plain transaction. -/
structure PoolTx where
  id : TxId
  group : List TxId := []
  deriving Repr, DecidableEq

/-- mempool.SHashTxCache + getTxListByHash(IsShortHash): a map short hash → tx, first push wins. -/
structure Pool where
  up : Bool := true                       -- false: QueryModule returns an error
  short : Bool := false                   -- the reply carries fewer entries than hashes were asked for
  ents : List (SH × PoolTx) := []
  deriving Repr, DecidableEq

def Pool.get (p : Pool) (h : SH) : Option PoolTx :=
  match p.ents.find? (fun e => e.1 == h) with
  | some e => some e.2
  | none => none

def Pool.push (p : Pool) (h : SH) (t : PoolTx) : Pool :=
  match p.get h with
  | some _ => p                                    -- SHashTxCache.Push: "Exist" → ignored
  | none => { p with ents := p.ents ++ [(h, t)] }

def Pool.del (p : Pool) (h : SH) : Pool := { p with ents := p.ents.filter (fun e => e.1 != h) }

abbrev Slots := List (Option TxId)

/-- `pendBlock` -/
structure Pend where
  key : String            -- hex(blockHash) as claimed by the light block's header
  sender : Nat            -- fromPeer
  height : Int
  recvT : Int             -- receiveTimeStamp (ms)
  hashes : List SH        -- sTxHashes
  txs : Slots             -- block.Txs
  deriving Repr, DecidableEq

/-- first loop of buildPendBlock: `for i, tx := range Txs { if tx == nil { … sTxHashes[i] } }` -/
def missing (hashes : List SH) : Slots → Nat → Res (List (Nat × SH))
  | [], _ => .ok []
  | some _ :: r, i => missing hashes r (i + 1)
  | none :: r, i =>
    match hashes[i]? with
    | none => .panic                                  -- sTxHashes[i], i ≥ len
    | some h => (missing hashes r (i + 1)).map (fun l => (i, h) :: l)

/-- `Txs[k] = v` -/
def setSlot : Slots → Nat → TxId → Res Slots
  | [], _, _ => .panic
  | _ :: r, 0, v => .ok (some v :: r)
  | x :: r, k + 1, v => (setSlot r k v).map (fun l => x :: l)

/-- `for j, gtx := range group.GetTxs() { Txs[index+j] = gtx }` -/
def expand (txs : Slots) (index : Nat) : List TxId → Nat → Res Slots
  | [], _ => .ok txs
  | g :: gs, j =>
    match setSlot txs (index + j) g with
    | .panic => .panic
    | .ok t => expand t index gs (j + 1)

/-- second loop of buildPendBlock over `notExistTxIndices`; the Bool is `buildSuccess`.
A pooled group that does not fit behind its slot is not used: the slot is reset to nil, `buildSuccess`
cleared (repair fdde6e4; `fillOld` below is the code before it). -/
def fill (pool : Pool) : List (Nat × SH) → Slots → Bool → Res (Slots × Bool)
  | [], txs, ok => .ok (txs, ok)
  | (index, h) :: w, txs, ok =>
    match txs[index]? with
    | none => .panic                                   -- Txs[index] (never: index < len by construction)
    | some (some _) => fill pool w txs ok              -- already set by a group
    | some none =>
      match pool.get h with
      | none => fill pool w txs false                  -- not in the pool
      | some t =>
        if index + t.group.length > txs.length then fill pool w txs false   -- Txs[index] = tx … = nil again
        else
          match setSlot txs index t.id with
          | .panic => .panic
          | .ok t1 =>
            match expand t1 index t.group 0 with
            | .panic => .panic
            | .ok t2 => fill pool w t2 ok

structure BuildOut where
  done : Bool                     -- return value of buildPendBlock
  posted : Option Slots           -- block handed to postBlockChain
  pd : Pend                       -- pd after in-place mutation
  deriving Repr, DecidableEq

def build (pool : Pool) (pd : Pend) : Res BuildOut :=
  if pd.hashes.isEmpty then .ok ⟨true, none, pd⟩             -- len(sTxHashes)==0: "true" without posting
  else
    match missing pd.hashes pd.txs 0 with
    | .panic => .panic
    | .ok w =>
      if !pool.up then .ok ⟨false, none, pd⟩
      else if pool.short && !w.isEmpty then .panic        -- `txList.GetTxs()[i]`, unguarded ("请求mempool会返回相应长度的数组")
      else
        match fill pool w pd.txs true with
        | .panic => .panic
        | .ok (txs, ok) =>
          let pd' := { pd with txs := txs }
          if ok then .ok ⟨true, some txs, pd'⟩ else .ok ⟨false, none, pd'⟩

/-- abstraction of a decoded `types.LightBlock` plus its pubsub envelope -/
structure LtIn where
  key : String             -- hex(header.hash) — the block-filter key (claimed by the sender)
  hasHeader : Bool
  height : Int
  txCount : Int
  miner : Option TxId      -- MinerTx (nil allowed)
  hashes : List SH
  sender : Nat
  deriving Repr

structure BlockReq where
  sender : Nat
  height : Int
  deriving Repr, DecidableEq

/-- the blockchain module's answer to GetBlocks(h,h): an error, or `items` block details -/
inductive ChainReply where
  | err
  | items (n : Nat)
  | otherType          -- a reply whose Data is neither an error nor *types.BlockDetails
  deriving Repr, DecidableEq

/-- the mutexes of the light-broadcast / validator state that a background loop needs in order to step -/
inductive LockId where
  | pend   -- ltBroadcast.pdBlockLock  (pendBlockLoop, addLtBlock)
  | req    -- ltBroadcast.blockReqLock (blockRequestLoop, addBlockRequest)
  | msg    -- validator.msgLock        (manageDeniedPeer, postBlockChain)
  deriving Repr, DecidableEq

/-- how a function gives a lock back (fact re-extracted with go/ast for every function that takes one) -/
inductive Release where
  | deferred              -- `defer X.Unlock()` right after the Lock: released even when the function panics
  | explicitNoCall        -- explicit Unlock, nothing in between can panic
  | explicitAcrossCalls   -- explicit Unlock with calls / index expressions in between: a panic leaves it locked
  deriving Repr, DecidableEq

def Release.leaksOnPanic : Release → Bool
  | .explicitAcrossCalls => true
  | _ => false

structure State where
  held : List LockId := []        -- locks left behind by a panic that was recovered further up
  unanswered : Nat := 0           -- broadcasts handed to blockchain/mempool whose verdict never comes back
  pool : Pool := {}
  pend : List Pend := []
  seen : List String := []        -- blockFilter keys
  reqs : List BlockReq := []      -- blockRequestList
  msgs : List Bool := []          -- validator.msgList; `true` = entry whose queue message is nil
  posted : List String := []      -- p2p.Manager.broadcastFilter (only consulted when `multi`)
  multi : Bool := false           -- len(p2p.types) > 1
  cur : Int := 0                  -- currHeight
  now : Int := 0                  -- clock, ms
  timeout : Int := 1000           -- cfg.LtBlockPendTimeout
  chain : ChainReply := .err      -- what GetBlocks answers
  maxRecv : Int := 0              -- validator.maxRecvBlkHeight
  vseen : List String := []       -- keys the validators have put into the filters
  denied : List Nat := []         -- validator.deniedPeers (publishers whose broadcast was judged bad)
  deriving Repr, DecidableEq

/-- the largest slice length `make([]*T, n)` accepts before `len out of range`
(maxAlloc = 2^48 bytes on linux/amd64, 8-byte elements). -/
def maxSlice : Int := 2 ^ 45
/-- lengths above this and up to `maxSlice` really allocate; not modelled (never generated). -/
def bigSlice : Int := 2 ^ 16

inductive LtOut where
  | dup | posted (txs : Slots) | queued | dropped | unmodelled
  deriving Repr, DecidableEq

/-- PubBroadCast + val.addBroadcastMsg: returns the state with the message-list entry appended. -/
def postChain (s : State) (key : String) : State :=
  if s.multi && s.posted.contains key then s      -- (nil, nil): nothing sent, nothing queued (repair e49ca2c)
  else { s with msgs := s.msgs ++ [false], posted := if s.multi then key :: s.posted else s.posted }

/-- handleBroadcastReceive(psLtBlockTopic) → addLtBlock → buildPendBlock -/
def recvLt (s : State) (i : LtIn) : Res (State × LtOut) :=
  if s.seen.contains i.key then .ok (s, .dup)
  else
    let s := { s with seen := i.key :: s.seen }
    if !i.hasHeader then .panic                        -- block.SetHeader(nil)
    else if i.txCount < 0 then .panic                  -- make([]*Transaction, txCount)
    else if i.txCount > maxSlice then .panic
    else if i.txCount > bigSlice then .ok (s, .unmodelled)
    else if i.txCount = 0 then .panic                  -- block.Txs[0] = MinerTx
    else
      let txs : Slots := i.miner :: List.replicate (i.txCount.toNat - 1) none
      let pd : Pend := ⟨i.key, i.sender, i.height, s.now, i.hashes, txs⟩
      match build s.pool pd with
      | .panic => .panic
      | .ok r =>
        if r.done then
          match r.posted with
          | some t => .ok (postChain s i.key, .posted t)
          | none => .ok (s, .dropped)
        else .ok ({ s with pend := s.pend ++ [r.pd] }, .queued)

structure TickOut where
  posted : List Slots := []
  reqs : List BlockReq := []
  deriving Repr, DecidableEq

/-- buildPendList: returns (remaining list, posted blocks, timed-out blocks) -/
def pendList (pool : Pool) (now timeout : Int) :
    List Pend → Res (List Pend × List (Slots × Pend) × List Pend)
  | [] => .ok ([], [], [])
  | pd :: rest =>
    match build pool pd with
    | .panic => .panic
    | .ok r =>
      match pendList pool now timeout rest with
      | .panic => .panic
      | .ok (keep, posted, tmo) =>
        if r.done then
          match r.posted with
          | some t => .ok (keep, (t, r.pd) :: posted, tmo)
          | none => .ok (keep, posted, tmo)
        else if now - pd.recvT ≥ timeout then .ok (keep, posted, r.pd :: tmo)
        else .ok (r.pd :: keep, posted, tmo)

/-- body of `case <-ticker.C` of pendBlockLoop -/
def tick (s : State) : Res (State × TickOut) :=
  match pendList s.pool s.now s.timeout s.pend with
  | .panic => .panic
  | .ok (keep, posted, tmo) =>
    let s1 := posted.foldl (fun st p => postChain st p.2.key) { s with pend := keep }
    let reqs := (tmo.filter (fun pd => pd.height > s.cur)).map (fun pd => (⟨pd.sender, pd.height⟩ : BlockReq))
    .ok (s1, ⟨posted.map (·.1), reqs⟩)

/-! ### block request / response peer messages -/

inductive ReqOut where
  | ignored | queued | sent | failed
  deriving Repr, DecidableEq

/-- handleBlockReq: `some out` = handled (true), `none` = keep waiting (false) -/
def handleReq (s : State) (r : BlockReq) : Res (Option ReqOut) :=
  if s.cur < r.height then .ok none
  else
    match s.chain with
    | .err => .ok (some .failed)
    | .otherType => .ok (some .failed)         -- API.GetBlocks: ErrTypeAsset
    | .items 0 => .panic                      -- details.GetItems()[0]
    | .items _ => .ok (some .sent)

/-- handlePeerMsg(blockReqMsgID) → addBlockRequest -/
def recvReq (s : State) (r : BlockReq) : Res (State × ReqOut) :=
  if r.height ≤ 0 then .ok (s, .ignored)
  else
    match handleReq s r with
    | .panic => .panic
    | .ok (some o) => .ok (s, o)
    | .ok none => .ok ({ s with reqs := s.reqs ++ [r] }, .queued)

def reqList (s : State) : List BlockReq → Res (List BlockReq × List ReqOut)
  | [] => .ok ([], [])
  | r :: rest =>
    match handleReq s r with
    | .panic => .panic
    | .ok o =>
      match reqList s rest with
      | .panic => .panic
      | .ok (keep, outs) =>
        match o with
        | some x => .ok (keep, x :: outs)
        | none => .ok (r :: keep, outs)

/-- body of `case <-ticker.C` of blockRequestLoop (handleBlockReqList) -/
def reqTick (s : State) : Res (State × List ReqOut) :=
  match reqList s s.reqs with
  | .panic => .panic
  | .ok (keep, outs) => .ok ({ s with reqs := keep }, outs)

inductive RespOut where
  | undecodable | posted | unsupported | duplicate
  deriving Repr, DecidableEq

/-- handlePeerMsg(blockRespMsgID): decode, then postBlockChain (no duplicate filter of its own) -/
def recvResp (s : State) (decodable : Bool) (key : String) : State × RespOut :=
  if !decodable then (s, .undecodable)
  else if s.multi && s.posted.contains key then (postChain s key, .duplicate)   -- suppressed by p2p.Manager
  else (postChain s key, .posted)

/-- handleBroadcastReceive(psBlockTopic): a full block that passed validateBlock is posted -/
def recvBlock (s : State) (key : String) : State := postChain s key

/-- the gossip p2p instance of the same node hands a block to the shared p2p.Manager -/
def gossipPost (s : State) (key : String) : State :=
  if s.multi && !s.posted.contains key then { s with posted := key :: s.posted } else s

/-- body of `case <-waitMsgReplyTicker.C` of manageDeniedPeer: copyMsgList, then
`QueueClient.Wait(bcMsg.msg)` for each entry — `msg.chReply` on a nil message is a nil dereference. -/
def deniedTick (s : State) : Res State :=
  if s.msgs.contains true then .panic else .ok { s with msgs := [] }

/-- a block from `sender` is posted, the blockchain module answers "bad block", the next
manageDeniedPeer tick collects the verdict: handleBroadcastReply → addDeniedPeer -/
def deny (s : State) (sender : Nat) (key : String) : Res State :=
  match deniedTick (recvBlock s key) with
  | .panic => .panic
  | .ok s' => .ok { s' with denied := sender :: s'.denied }

/-- the light block gets as far as buildPendBlock (the checks and allocations before it went through) -/
def reachesBuild (s : State) (i : LtIn) : Bool :=
  !s.seen.contains i.key && i.hasHeader && decide (0 < i.txCount) && decide (i.txCount ≤ bigSlice)

/-- addLtBlock's lock discipline: pdBlockLock is taken after the first buildPendBlock and released by defer -/
def addLtBlockRelease : Release := .deferred

/-- recvLt on a state in which the filter entry survives a recovered panic (the filter is written before
addLtBlock runs); `rel` says how a pdBlockLock held around buildPendBlock would be released: with anything but
an explicit unlock across calls a recovered panic leaves no lock behind. -/
def recvLtTotalWith (rel : Release) (s : State) (i : LtIn) : State × Res LtOut :=
  match recvLt s i with
  | .panic => ({ s with seen := i.key :: s.seen,
                        held := if rel.leaksOnPanic && reachesBuild s i then .pend :: s.held else s.held }, .panic)
  | .ok (s', o) => (s', .ok o)

def recvLtTotal (s : State) (i : LtIn) : State × Res LtOut := recvLtTotalWith addLtBlockRelease s i

/-- manageDeniedPeer collects the verdicts with `QueueClient.Wait` = `WaitTimeout(-1)`: no timer. It blocks for as
long as a verdict is outstanding — for ever if the blockchain module never answers. Nothing a peer sends changes
`unanswered`: blockchain.broadcastAddBlock replies on every path (processMsg replies even after a panic), and
transactions do not reach this list (handleSubMsg drops the tx topics). -/
def deniedLoopBlocked (s : State) : Bool := decide (s.unanswered > 0)

/-- a background loop can step when its lock is free -/
def loopAlive (s : State) (l : LockId) : Bool := !s.held.contains l

/-! ### topic validators (validate.go) -/

inductive Verdict where
  | accept | reject | ignore
  deriving Repr, DecidableEq

structure VBlock where
  self : Bool          -- msg.GetFrom() == Host.ID()
  sender : Nat         -- msg.GetFrom()
  decodable : Bool
  key : String         -- hex(block.Hash)
  height : Int
  deriving Repr

def blkHeaderCacheSize : Int := 128

def validateBlock (s : State) (b : VBlock) : State × Verdict :=
  if b.self then (s, .accept)
  else if s.denied.contains b.sender then (s, .reject)
  else if !b.decodable then (s, .reject)
  else if s.seen.contains b.key then (s, .ignore)
  else
    let s := { s with seen := b.key :: s.seen }
    if b.height ≤ s.maxRecv - blkHeaderCacheSize then (s, .reject)
    else ({ s with maxRecv := if b.height > s.maxRecv then b.height else s.maxRecv }, .accept)

/-- one transaction as the tx validators see it: (filter key, does the mempool accept it) -/
abbrev VTx := String × Bool

def validateTx (s : State) (self decodable : Bool) (t : VTx) : State × Verdict :=
  if self then (s, .accept)
  else if !decodable then (s, .reject)
  else if s.vseen.contains t.1 then (s, .ignore)
  else
    let s := { s with vseen := t.1 :: s.vseen }
    if t.2 then (s, .accept) else (s, .ignore)

def countValid (seen : List String) : List VTx → List String × Nat
  | [] => (seen, 0)
  | t :: r =>
    if seen.contains t.1 then countValid seen r
    else
      let (s', n) := countValid (t.1 :: seen) r
      (s', if t.2 then n + 1 else n)

def validateBatch (s : State) (self decodable : Bool) (txs : List VTx) : State × Verdict :=
  if self then (s, .accept)
  else if !decodable then (s, .reject)
  else
    let (seen', n) := countValid s.vseen txs
    ({ s with vseen := seen' }, if n > txs.length / 2 then .accept else .ignore)

def validatePeer (s : State) (sender : Nat) : Verdict := if s.denied.contains sender then .reject else .accept

/-! ### stream protocols: download (server and client side), peer version / info -/

inductive StreamOut where
  | dropped          -- handler returned without writing
  | sent (n : Nat)   -- wrote a reply carrying n blocks / one message
  deriving Repr, DecidableEq

/-- a request as `ReadStream` leaves it: header mismatch returns **nil error** with the zero message,
a read/decode error returns the error. -/
inductive ReadRes where
  | err | zero | msg
  deriving Repr, DecidableEq

/-- int64 wrap-around of a subtraction -/
def wrap64 (x : Int) : Int := (x + 2 ^ 63) % 2 ^ 64 - 2 ^ 63

/-- `req.End-req.Start > 256 || req.End < req.Start` -/
def badRange (start end_ : Int) : Bool := wrap64 (end_ - start) > 256 || end_ < start

/-- handleStreamDownloadBlockOld: `data.Message.StartHeight` with `Message == nil` is a nil dereference -/
def dlOld (chain : ChainReply) (rd : ReadRes) (hasMessage : Bool) (start end_ : Int) : Res StreamOut :=
  match rd with
  | .err => .ok .dropped
  | .zero => .panic
  | .msg =>
    if !hasMessage then .panic
    else if badRange start end_ then .ok .dropped
    else
      match chain with
      | .err => .ok .dropped
      | .otherType => .panic                  -- reply.Data.(*types.BlockDetails), unchecked (handler.go:76)
      | .items 0 => .ok .dropped
      | .items n => .ok (.sent n)

/-- handleStreamDownloadBlock once the request is read -/
def dlNewCore (chain : ChainReply) (start end_ : Int) : Res StreamOut :=
  if badRange start end_ then .ok .dropped
  else
    match chain with
    | .err => .ok .dropped
    | .otherType => .panic                    -- reply.Data.(*types.BlockDetails), unchecked (handler.go:37)
    | .items 0 => .ok .dropped
    | .items _ => .ok (.sent 1)

/-- handleStreamDownloadBlock (a header mismatch leaves the zero request: heights 0..0) -/
def dlNew (chain : ChainReply) (rd : ReadRes) (start end_ : Int) : Res StreamOut :=
  match rd with
  | .err => .ok .dropped
  | .zero => dlNewCore chain 0 0
  | .msg => dlNewCore chain start end_

/-- reply seen by downloadBlockFromPeerOld -/
structure DlReply where
  rd : ReadRes
  hasMessage : Bool
  items : Nat
  firstIsBlock : Bool      -- Items[0].Value is an InvData_Block
  blockNil : Bool          -- …whose Block is nil
  height : Int             -- height of that block
  requested : Int          -- the height that was asked for
  deriving Repr

/-- downloadBlockFromPeerOld after the request was written: `some h` = block of height h returned,
`none` = error; a block of another height than requested is an error (repair 8854790). -/
def dlReply (r : DlReply) : Res (Option Int) :=
  match r.rd with
  | .err => .ok none
  | .zero => .ok none                          -- resp.Message == nil
  | .msg =>
    if !r.hasMessage || r.items = 0 then .ok none
    else if !r.firstIsBlock || r.blockNil then .ok none
    else if r.height ≠ r.requested then .ok none
    else .ok (some r.height)

inductive VerOut where
  | dropped | wrongChain | replied
  deriving Repr, DecidableEq

/-- handleStreamVersion / handleStreamVersionOld (nil-safe getters throughout) -/
def version (rd : ReadRes) (sameChannel addrOk : Bool) : Res VerOut :=
  match rd with
  | .err => .ok .dropped
  | _ => if !sameChannel then .ok .wrongChain else if !addrOk then .ok .dropped else .ok .replied

/-- handleStreamPeerInfo (reads nothing) / handleStreamPeerInfoOld (reads a request first) -/
def peerInfo (old : Bool) (rd : ReadRes) : Res StreamOut :=
  if old && rd = .err then .ok .dropped else .ok (.sent 1)

/-- queryPeerInfo as used by refreshPeerInfo (reply → checkVersionLimit → Refresh): `true` = a peer record
was stored. A header mismatch stores the zero record. -/
def queryInfo (rd : ReadRes) : Res Bool :=
  match rd with
  | .err => .ok false
  | _ => .ok true

/-- queryVersion: `false` = returned an error. `addrBad`: AddrFrom carries a public IP but does not parse. -/
def queryVersion (rd : ReadRes) (addrBad : Bool) : Res Bool :=
  match rd with
  | .err => .ok false
  | .zero => .ok true
  | .msg => .ok (!addrBad)

/-- loop bodies that the hooks replicate; the harness compares the syntax trees on every run -/
def sameBodyFacts : List String := ["pendBlockLoop", "manageDeniedPeer", "blockRequestLoop"]

/-! ### which paths run under a `recover` (facts re-extracted from the source by the harness) -/

inductive Path where
  | recvLt | pendTick | recvReq | reqTick | recvResp | deniedTick
  | validate | subMsgDecode | dlOld | dlNew | dlReply | version | peerInfo | peerQuery
  deriving Repr, DecidableEq

/-- `true`: the function (or the wrapper every call goes through) has a deferred `recover()`.
recvLt/recvReq/recvResp: handleBroadcastReceive; dlOld/dlNew/version/peerInfo: HandlerWithClose. -/
def recovered : Path → Bool
  | .recvLt | .recvReq | .recvResp => true
  | .dlOld | .dlNew | .version | .peerInfo => true
  | .pendTick | .reqTick | .deniedTick => false
  | .validate | .subMsgDecode | .dlReply | .peerQuery => false

/-- lock discipline per function, as the harness re-reads it from the source: every Lock is followed by
`defer Unlock`, or nothing between it and its explicit Unlock can panic -/
def lockFact : String → Option String
  | "broadcast.handleIsSyncEvent" => some "explicit-nocall"
  | "broadcast.addLtBlock" | "broadcast.buildPendList" | "broadcast.addBlockRequest" | "broadcast.handleBlockReqList"
  | "broadcast.addBroadcastMsg" | "broadcast.copyMsgList" | "broadcast.validateBlock" | "broadcast.reduceDeniedCount"
  | "broadcast.addDeniedPeer" | "broadcast.isDeniedPeer" | "broadcast.recoverDeniedPeers" | "broadcast.getSyncStatus" =>
    some "deferred"
  | _ => none

/-- the facts the harness extracts with go/ast: (package, function) ↦ has a deferred recover -/
def hasRecoverFact : String → Option Bool
  | "broadcast.handleBroadcastReceive" => some true
  | "broadcast.pendBlockLoop" => some false
  | "broadcast.blockRequestLoop" => some false
  | "broadcast.manageDeniedPeer" => some false
  | "broadcast.handleSubMsg" => some false
  | "broadcast.buildPendList" => some false
  | "broadcast.buildPendBlock" => some false
  | "broadcast.validateBlock" => some false
  | "broadcast.validateTx" => some false
  | "broadcast.validateBatchTx" => some false
  | "broadcast.validatePeer" => some false
  | "protocol.HandlerWithClose" => some true
  | "protocol.EventHandlerWithRecover" => some true
  | "download.downloadBlock" => some false
  | "download.downloadBlockFromPeerOld" => some false
  | "download.handleStreamDownloadBlockOld" => some false
  | "download.handleStreamDownloadBlock" => some false
  | _ => none

/-- the node survives outcome `r` of path `p` -/
def survives {α : Type} (p : Path) (r : Res α) : Bool := !r.isPanic || recovered p

/-! ### regression: the code before the repairs fdde6e4 / e49ca2c -/

/-- buildPendBlock's second loop before fdde6e4: the group is expanded without a bounds check -/
def fillOld (pool : Pool) : List (Nat × SH) → Slots → Bool → Res (Slots × Bool)
  | [], txs, ok => .ok (txs, ok)
  | (index, h) :: w, txs, ok =>
    match txs[index]? with
    | none => .panic
    | some (some _) => fillOld pool w txs ok
    | some none =>
      match pool.get h with
      | none => fillOld pool w txs false
      | some t =>
        match setSlot txs index t.id with
        | .panic => .panic
        | .ok t1 =>
          match expand t1 index t.group 0 with
          | .panic => .panic
          | .ok t2 => fillOld pool w t2 ok

/-- did buildPendBlock panic on this queued block, before the repair -/
def buildOldPanics (pool : Pool) (pd : Pend) : Bool :=
  if pd.hashes.isEmpty then false
  else
    match missing pd.hashes pd.txs 0 with
    | .panic => true
    | .ok w => pool.up && (fillOld pool w pd.txs true).isPanic

/-- postBlockChain before e49ca2c: the (nil, nil) of a suppressed duplicate was queued as it was -/
def postChainOld (s : State) (key : String) : State :=
  if s.multi && s.posted.contains key then { s with msgs := s.msgs ++ [true] }
  else { s with msgs := s.msgs ++ [false], posted := if s.multi then key :: s.posted else s.posted }

/-! ### the two scripted crash witnesses (also run by the harness in a child process with the production loops) -/

/-- S-C33: a light block with three slots whose last short hash is that of a two-transaction group; the
middle transaction is pooled, the group reaches the pool after the block was queued; next tick. -/
def witnessPendTick : Res (State × TickOut) :=
  let s0 : State := { pool := ({} : Pool).push "h1" ⟨1, []⟩ }
  match recvLt s0 ⟨"k", true, 10, 3, some 0, ["h0", "h1", "h20"], 2⟩ with
  | .panic => .panic
  | .ok (s1, _) => tick { s1 with pool := s1.pool.push "h20" ⟨20, [20, 21]⟩ }

/-- two p2p types configured, the same block response delivered twice, next manageDeniedPeer tick. -/
def witnessDeniedTick : Res State :=
  let s0 : State := { multi := true }
  deniedTick (recvResp (recvResp s0 true "b").1 true "b").1

/-- the same two witnesses on the code before the repairs -/
def witnessPendTickOld : Bool :=
  let s0 : State := { pool := ({} : Pool).push "h1" ⟨1, []⟩ }
  match recvLt s0 ⟨"k", true, 10, 3, some 0, ["h0", "h1", "h20"], 2⟩ with
  | .panic => false
  | .ok (s1, _) => s1.pend.any (buildOldPanics (s1.pool.push "h20" ⟨20, [20, 21]⟩))

def witnessDeniedTickOld : Res State :=
  let s0 : State := { multi := true }
  deniedTick (postChainOld (postChainOld s0 "b") "b")

end C33
