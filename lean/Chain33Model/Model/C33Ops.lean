import Chain33Model.Base.Wire
import Chain33Model.Model.C33
/-! Line interpreter shared by the drivers drv_c33 and drv_c34 (core Lean only). -/
open Wire C33
namespace C33.Ops

/-
ops (see harness/cmd/h_c33): ids decimal, short hashes opaque words, `-` = empty list / nil.
-/

def b01? (s : String) : Option Bool := if s == "1" then some true else if s == "0" then some false else none

def listOf (s : String) : List String := if s == "-" then [] else s.splitOn ","

def nats? (s : String) : Option (List Nat) := (listOf s).mapM (·.toNat?)

def showSlots (t : Slots) : String :=
  if t.isEmpty then "-" else ",".intercalate (t.map fun o => match o with | some i => toString i | none => "_")

def rd? (s : String) : Option ReadRes :=
  if s == "err" then some .err else if s == "zero" then some .zero else if s == "msg" then some .msg else none

def showReq : ReqOut → String
  | .ignored => "ignored" | .queued => "queued" | .sent => "sent" | .failed => "failed"

def showVerdict : Verdict → String
  | .accept => "accept" | .reject => "reject" | .ignore => "ignore"

def showStream : Res StreamOut → String
  | .panic => "panic" | .ok .dropped => "dropped" | .ok (.sent n) => s!"sent {n}"

def vtx? (s : String) : Option VTx :=
  match s.splitOn ":" with
  | [k, b] => do pure (k, ← b01? b)
  | _ => none

def stepLine (s : State) (line : String) : State × String :=
  match words line with
  | ["reset", m, t] =>
    match b01? m, parseInt? t with
    | some m, some t => ({ multi := m, timeout := t }, "ok")
    | _, _ => (s, "bad-op")
  | ["pool", "push", h, id, g] =>
    match id.toNat?, nats? g with
    | some id, some g => ({ s with pool := s.pool.push h ⟨id, g⟩ }, "ok")
    | _, _ => (s, "bad-op")
  | ["pool", "del", h] => ({ s with pool := s.pool.del h }, "ok")
  | ["pool", "up", b] =>
    match b01? b with
    | some b => ({ s with pool := { s.pool with up := b } }, "ok")
    | none => (s, "bad-op")
  | ["cur", h] => match parseInt? h with | some h => ({ s with cur := h }, "ok") | none => (s, "bad-op")
  | ["now", t] => match parseInt? t with | some t => ({ s with now := t }, "ok") | none => (s, "bad-op")
  | ["chain", "other"] => ({ s with chain := .otherType }, "ok")
  | ["pool", "short", b] =>
    match b01? b with
    | some b => ({ s with pool := { s.pool with short := b } }, "ok")
    | none => (s, "bad-op")
  | ["chain", "err"] => ({ s with chain := .err }, "ok")
  | ["chain", "items", n] => match n.toNat? with | some n => ({ s with chain := .items n }, "ok") | none => (s, "bad-op")
  | ["lt", key, hh, height, cnt, miner, sender, hashes] =>
    match b01? hh, parseInt? height, parseInt? cnt, sender.toNat? with
    | some hh, some height, some cnt, some sender =>
      let m : Option (Option TxId) := if miner == "-" then some none else miner.toNat?.map some
      match m with
      | none => (s, "bad-op")
      | some m =>
        match recvLtTotal s ⟨key, hh, height, cnt, m, listOf hashes, sender⟩ with
        | (s', .panic) => (s', "panic")
        | (s', .ok o) =>
          (s', match o with
            | .dup => "dup" | .posted t => s!"posted {showSlots t}" | .queued => "queued"
            | .dropped => "dropped" | .unmodelled => "unmodelled")
    | _, _, _, _ => (s, "bad-op")
  | ["tick"] =>
    match tick s with
    | .panic => (s, "panic")
    | .ok (s', o) =>
      let p := if o.posted.isEmpty then "-" else ";".intercalate (o.posted.map showSlots)
      let r := if o.reqs.isEmpty then "-" else ",".intercalate (o.reqs.map fun q => s!"{q.sender}:{q.height}")
      (s', s!"posted={p} req={r} pend={s'.pend.length}")
  | ["breq", sender, h] =>
    match sender.toNat?, parseInt? h with
    | some sender, some h =>
      match recvReq s ⟨sender, h⟩ with
      | .panic => (s, "panic")
      | .ok (s', o) => (s', showReq o)
    | _, _ => (s, "bad-op")
  | ["reqtick"] =>
    match reqTick s with
    | .panic => (s, "panic")
    | .ok (s', outs) =>
      let nsent := (outs.filter (· == .sent)).length
      let nfail := (outs.filter (· == .failed)).length
      (s', s!"sent={nsent} failed={nfail} left={s'.reqs.length}")
  | ["bresp", d, key] =>
    match b01? d with
    | some d =>
      let (s', o) := recvResp s d key
      (s', match o with | .undecodable => "undecodable" | .posted => "posted" | .unsupported => "unsupported" | .duplicate => "duplicate")
    | none => (s, "bad-op")
  | ["pmsg", "other"] => (s, "unsupported")
  | ["dtick"] =>
    match deniedTick s with
    | .panic => (s, "panic")
    | .ok s' => (s', "ok")
  | ["blk", key, _sender] => (recvBlock s key, "posted")
  | ["gossip", key] => (gossipPost s key, "ok")
  | ["deny", sender, key] =>
    match sender.toNat? with
    | some sender =>
      match deny s sender key with
      | .panic => (s, "panic")
      | .ok s' => (s', "ok")
    | none => (s, "bad-op")
  | ["vblock", self, snd, dec, key, h] =>
    match b01? self, snd.toNat?, b01? dec, parseInt? h with
    | some self, some snd, some dec, some h =>
      let (s', v) := validateBlock s ⟨self, snd, dec, key, h⟩
      (s', showVerdict v)
    | _, _, _, _ => (s, "bad-op")
  | ["vtx", self, dec, key, ok] =>
    match b01? self, b01? dec, b01? ok with
    | some self, some dec, some ok =>
      let (s', v) := validateTx s self dec (key, ok)
      (s', showVerdict v)
    | _, _, _ => (s, "bad-op")
  | ["vbatch", self, dec, txs] =>
    match b01? self, b01? dec, (listOf txs).mapM vtx? with
    | some self, some dec, some txs =>
      let (s', v) := validateBatch s self dec txs
      (s', showVerdict v)
    | _, _, _ => (s, "bad-op")
  | ["vpeer", snd] => match snd.toNat? with | some d => (s, showVerdict (validatePeer s d)) | none => (s, "bad-op")
  | ["dlold", rd, hm, a, b] =>
    match rd? rd, b01? hm, parseInt? a, parseInt? b with
    | some rd, some hm, some a, some b => (s, showStream (dlOld s.chain rd hm a b))
    | _, _, _, _ => (s, "bad-op")
  | ["dlnew", rd, a, b] =>
    match rd? rd, parseInt? a, parseInt? b with
    | some rd, some a, some b => (s, showStream (dlNew s.chain rd a b))
    | _, _, _ => (s, "bad-op")
  | ["dlreply", rd, hm, items, fb, bn, h, rq] =>
    match rd? rd, b01? hm, items.toNat?, b01? fb, b01? bn, parseInt? h, parseInt? rq with
    | some rd, some hm, some items, some fb, some bn, some h, some rq =>
      (s, match dlReply ⟨rd, hm, items, fb, bn, h, rq⟩ with
          | .panic => "panic" | .ok none => "err" | .ok (some h) => s!"block {h}")
    | _, _, _, _, _, _, _ => (s, "bad-op")
  | ["ver", _old, rd, same, addr, _recv] =>
    match rd? rd, b01? same, some (addr != "0") with
    | some rd, some same, some addr =>
      (s, match version rd same addr with
          | .panic => "panic" | .ok .dropped => "dropped" | .ok .wrongChain => "wrongchain" | .ok .replied => "replied")
    | _, _, _ => (s, "bad-op")
  | ["pinfo", old, rd] =>
    match b01? old, rd? rd with
    | some old, some rd => (s, match peerInfo old rd with | .panic => "panic" | .ok .dropped => "dropped" | .ok (.sent _) => "replied")
    | _, _ => (s, "bad-op")
  | ["qinfo", rd, _v] =>
    match rd? rd with
    | some rd => (s, match queryInfo rd with | .panic => "panic" | .ok true => "ok" | .ok false => "err")
    | none => (s, "bad-op")
  | ["qver", rd, addr] =>
    match rd? rd with
    | some rd => (s, match queryVersion rd (addr == "0") with | .panic => "panic" | .ok true => "ok" | .ok false => "err")
    | none => (s, "bad-op")
  | ["child", "pendloop"] => (s, if survives .pendTick witnessPendTick then "survived" else "crashed")
  | ["child", "deniedloop"] => (s, if survives .deniedTick witnessDeniedTick then "survived" else "crashed")
  | ["fact", "same", name] => (s, if sameBodyFacts.contains name then "1" else "unknown")
  | ["fact", "lock", name] => (s, match lockFact name with | some r => r | none => "unknown")
  | ["fact", "recover", name] =>
    (s, match hasRecoverFact name with | some true => "1" | some false => "0" | none => "unknown")
  | _ => (s, "bad-op")


end C33.Ops
