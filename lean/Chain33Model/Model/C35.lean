/-
C35 — block download (system/p2p/dht/protocol/download: handler.go handleEventDownloadBlock,
download.go downloadBlock / downloadBlockFromPeerOld, task.go availbTask / drop / clone / releaseJob / checkTask)
as a labelled transition system over worker steps.  Core Lean only.

One worker (goroutine) per height. All workers receive the same slice `jobS`, but since repair eac7298
`downloadBlock` starts with `tasks = tasks.clone()`: every worker has its own list (`view`) and removes a
failed peer from it by identity (`tasks.drop`); only the `*taskInfo` objects — the `TaskNum` counters — are
still shared.  A reply carrying a block of another height than requested is an error (8854790), and the
reply stream carries a 30 s deadline (1a43c8d).

`namespace C35.Old` at the end of this file is the model of the code before these repairs (one backing
array shared by all workers, index-based `Remove`, no height check, no deadline), kept for the regression
witnesses.

Peers are numbered by their position in the initial list. All latencies are equal (initJob gives every
peer without a latency sample one second), for which `tasks.Sort()` leaves the list unchanged
(insertion sort, n ≤ 12); the harness uses at most 8 peers.
-/
namespace C35

inductive Phase where
  | ready                         -- at label ReDownload
  | fetching (p : Nat)            -- inside downloadBlockFromPeerOld(height, p)
  | delivered (p : Nat) (h : Int) -- posted the block of height h obtained from p, returned nil
  | noPeer                        -- "no peer for download"
  | tooMany                       -- "beyound max try count 50"
  deriving DecidableEq, Repr

structure Worker where
  height : Int
  view : List Nat                 -- its own task list (tasks.clone())
  retry : Nat := 0
  phase : Phase := .ready
  asked : List Nat := []          -- peers asked so far, newest first
  deriving DecidableEq, Repr

structure State where
  arr : List Nat                  -- jobS: no worker modifies it any more
  taskNum : Nat → Nat := fun _ => 0
  peerHeight : Nat → Int := fun _ => 1000000
  workers : List Worker

def upd (f : Nat → Nat) (k v : Nat) : Nat → Nat := fun x => if x = k then v else f x

def maxTry : Nat := 50

/-- `limit := 128 / len(ts)`, clamped to [20, 50] -/
def limit (n : Nat) : Nat :=
  let l := 128 / n
  if l < 20 then 20 else if l > 50 then 50 else l

/-- the loop of availbTask: first peer of the list that is high enough and below its task limit -/
def avail (taskNum : Nat → Nat) (peerHeight : Nat → Int) (h : Int) (lim : Nat) : List Nat → Option Nat
  | [] => none
  | p :: r =>
    if peerHeight p < h then avail taskNum peerHeight h lim r
    else if taskNum p < lim then some p
    else avail taskNum peerHeight h lim r

def setWorker (ws : List Worker) (w : Nat) (x : Worker) : List Worker := ws.set w x

inductive Label where
  | pick (w : Nat)                          -- ReDownload … availbTask … up to the call of the fetch
  | ret (w : Nat) (reply : Option Int)      -- the fetch returns: `some h` a block of height h, `none` an error
  deriving DecidableEq, Repr

inductive Out where
  | ask (p : Nat)       -- now fetching from p
  | wait                -- availbTask returned nil: sleeps 400 ms and comes back to ReDownload
  | delivered (h : Int)
  | noPeer
  | tooMany
  | retry               -- fetch failed, peer dropped from the caller's own list, back at ReDownload
  deriving DecidableEq, Repr

/-- `none`: the label is not enabled (wrong phase / unknown worker) -/
def step (s : State) : Label → Option (State × Out)
  | .pick w =>
    match s.workers[w]? with
    | none => none
    | some wk =>
      if wk.phase ≠ .ready then none
      else if wk.view.length = 0 then some ({ s with workers := setWorker s.workers w { wk with phase := .noPeer } }, .noPeer)
      else if wk.retry + 1 > maxTry then
        some ({ s with workers := setWorker s.workers w { wk with retry := wk.retry + 1, phase := .tooMany } }, .tooMany)
      else
        match avail s.taskNum s.peerHeight wk.height (limit wk.view.length) wk.view with
        | none => some ({ s with workers := setWorker s.workers w { wk with retry := wk.retry + 1 } }, .wait)
        | some p =>
          some ({ s with taskNum := upd s.taskNum p (s.taskNum p + 1),
                         workers := setWorker s.workers w
                           { wk with retry := wk.retry + 1, phase := .fetching p, asked := p :: wk.asked } }, .ask p)
  | .ret w reply =>
    match s.workers[w]? with
    | none => none
    | some wk =>
      match wk.phase with
      | .fetching p =>
        let tn := upd s.taskNum p (s.taskNum p - 1)                 -- releaseJob (never below 0)
        if reply = some wk.height then                                -- a block of the requested height
          some ({ s with taskNum := tn, workers := setWorker s.workers w { wk with phase := .delivered p wk.height } },
                .delivered wk.height)
        else                                                          -- error, or a block of another height: drop p
          some ({ s with taskNum := tn,
                         workers := setWorker s.workers w { wk with phase := .ready, view := wk.view.erase p } }, .retry)
      | _ => none

def run (s : State) : List Label → Option (State × List Out)
  | [] => some (s, [])
  | l :: ls =>
    match step s l with
    | none => none
    | some (s', o) =>
      match run s' ls with
      | none => none
      | some (s'', os) => some (s'', o :: os)

/-- all workers of one download event: each with its own copy of the full list -/
def init (npeers : Nat) (heights : List Int) : State :=
  { arr := List.range npeers, workers := heights.map fun h => { height := h, view := List.range npeers } }

/-- what the peers do: `beh p h = some h'` — p answers a request for height h with a block of height h' -/
abbrev Behaviour := Nat → Int → Option Int

/-- run worker 0 to completion against `beh` (fuel bounds the number of labels; 2·50+1 suffice) -/
def runAlone (beh : Behaviour) : Nat → State → State
  | 0, s => s
  | fuel + 1, s =>
    match s.workers[0]? with
    | none => s
    | some wk =>
      match wk.phase with
      | .ready =>
        match step s (.pick 0) with
        | some (s', _) => runAlone beh fuel s'
        | none => s
      | .fetching p =>
        match step s (.ret 0 (beh p wk.height)) with
        | some (s', _) => runAlone beh fuel s'
        | none => s
      | _ => s

/-- the same with the heights the peers have advertised to the PeerInfoManager -/
def initWith (npeers : Nat) (heights : List Int) (peerHeight : Nat → Int) : State :=
  { init npeers heights with peerHeight := peerHeight }

/-- one download event as handleEventDownloadBlock runs it for a single height, given how the concurrent pass
ended for it: a height that was not delivered there is downloaded once more by checkTask — a fresh list, alone,
the result of that second attempt discarded -/
def eventDelivers (beh : Behaviour) (npeers : Nat) (h : Int) (peerHeight : Nat → Int) (firstPass : Phase) : Bool :=
  match firstPass with
  | .delivered _ _ => true
  | _ =>
    match (runAlone beh 200 (initWith npeers [h] peerHeight)).workers with
    | [wk] => match wk.phase with | .delivered _ _ => true | _ => false
    | _ => false

/-- after a failed fetch the real worker goes round ReDownload by itself; when availbTask finds nobody it
sleeps and tries again: pick until something other than `wait` comes out -/
def pickUntil (s : State) (w : Nat) : Nat → Option (State × Out)
  | 0 => none
  | fuel + 1 =>
    match step s (.pick w) with
    | none => none
    | some (s', .wait) => pickUntil s' w fuel
    | some r => some r

/-- downloadBlock works on `tasks.clone()` and removes with `tasks.drop` (fact re-read from the source by the
harness on every run) -/
def workersCloneTaskList : Bool := true

/-- the reply stream carries a deadline (`stream.SetDeadline(now+30s)` right after NewStream): a fetch from a
silent peer returns an error when it expires, i.e. a `ret w none` step becomes enabled by time alone -/
def fetchHasDeadline : Bool := true

end C35

/-! ## the code before the repairs eac7298 / 8854790 / 1a43c8d -/

namespace C35.Old

inductive Phase where
  | ready                         -- at label ReDownload
  | fetching (p : Nat)            -- inside downloadBlockFromPeerOld(height, p)
  | delivered (p : Nat) (h : Int) -- posted the block of height h obtained from p, returned nil
  | noPeer                        -- "no peer for download"
  | tooMany                       -- "beyound max try count 50"
  deriving DecidableEq, Repr

structure Worker where
  height : Int
  len : Nat
  retry : Nat := 0
  phase : Phase := .ready
  asked : List Nat := []          -- peers asked so far, newest first
  deriving DecidableEq, Repr

structure State where
  arr : List Nat
  taskNum : Nat → Nat := fun _ => 0
  index : Nat → Nat := fun _ => 0
  peerHeight : Nat → Int := fun _ => 1000000
  workers : List Worker

def upd (f : Nat → Nat) (k v : Nat) : Nat → Nat := fun x => if x = k then v else f x

def maxTry : Nat := 50

/-- `limit := 128 / len(ts)`, clamped to [20, 50] -/
def limit (n : Nat) : Nat :=
  let l := 128 / n
  if l < 20 then 20 else if l > 50 then 50 else l

/-- the loop of availbTask over `view` starting at position i: first peer that is high enough and below
its task limit -/
def avail (taskNum : Nat → Nat) (peerHeight : Nat → Int) (h : Int) (lim : Nat) : List Nat → Nat → Option (Nat × Nat)
  | [], _ => none
  | p :: r, i =>
    if peerHeight p < h then avail taskNum peerHeight h lim r (i + 1)
    else if taskNum p < lim then some (p, i)
    else avail taskNum peerHeight h lim r (i + 1)

/-- `append(t[:i], t[i+1:]...)` on the shared array for a view of length n: positions i..n-2 receive their
right neighbour, position n-1 and everything behind it keep their content -/
def shiftLeft (arr : List Nat) (i n : Nat) : List Nat :=
  (arr.take i) ++ ((arr.take n).drop (i + 1)) ++ (arr.drop (n - 1))

def setWorker (ws : List Worker) (w : Nat) (x : Worker) : List Worker := ws.set w x

inductive Label where
  | pick (w : Nat)                          -- ReDownload … availbTask … up to the call of the fetch
  | ret (w : Nat) (reply : Option Int)      -- the fetch returns: `some h` a block of height h, `none` an error
  deriving DecidableEq, Repr

inductive Out where
  | ask (p : Nat)       -- now fetching from p
  | wait                -- availbTask returned nil: sleeps 400 ms and comes back to ReDownload
  | delivered (h : Int)
  | noPeer
  | tooMany
  | retry               -- fetch failed, peer removed from the caller's view, back at ReDownload
  deriving DecidableEq, Repr

/-- `none`: the label is not enabled (wrong phase / unknown worker) -/
def step (s : State) : Label → Option (State × Out)
  | .pick w =>
    match s.workers[w]? with
    | none => none
    | some wk =>
      if wk.phase ≠ .ready then none
      else if wk.len = 0 then some ({ s with workers := setWorker s.workers w { wk with phase := .noPeer } }, .noPeer)
      else if wk.retry + 1 > maxTry then
        some ({ s with workers := setWorker s.workers w { wk with retry := wk.retry + 1, phase := .tooMany } }, .tooMany)
      else
        match avail s.taskNum s.peerHeight wk.height (limit wk.len) (s.arr.take wk.len) 0 with
        | none => some ({ s with workers := setWorker s.workers w { wk with retry := wk.retry + 1 } }, .wait)
        | some (p, i) =>
          some ({ s with taskNum := upd s.taskNum p (s.taskNum p + 1), index := upd s.index p i,
                         workers := setWorker s.workers w
                           { wk with retry := wk.retry + 1, phase := .fetching p, asked := p :: wk.asked } }, .ask p)
  | .ret w reply =>
    match s.workers[w]? with
    | none => none
    | some wk =>
      match wk.phase with
      | .fetching p =>
        let tn := upd s.taskNum p (s.taskNum p - 1)                 -- releaseJob (never below 0)
        match reply with
        | some h =>                                                   -- no comparison with wk.height
          some ({ s with taskNum := tn, workers := setWorker s.workers w { wk with phase := .delivered p h } }, .delivered h)
        | none =>
          if s.index p + 1 > wk.len then                              -- Remove: `task.Index+1 > t.Size()` → unchanged
            some ({ s with taskNum := tn, workers := setWorker s.workers w { wk with phase := .ready } }, .retry)
          else
            some ({ s with taskNum := tn, arr := shiftLeft s.arr (s.index p) wk.len,
                           workers := setWorker s.workers w { wk with phase := .ready, len := wk.len - 1 } }, .retry)
      | _ => none

def run (s : State) : List Label → Option (State × List Out)
  | [] => some (s, [])
  | l :: ls =>
    match step s l with
    | none => none
    | some (s', o) =>
      match run s' ls with
      | none => none
      | some (s'', os) => some (s'', o :: os)

/-- all workers of one download event: the same array, full-length views -/
def init (npeers : Nat) (heights : List Int) : State :=
  { arr := List.range npeers, workers := heights.map fun h => { height := h, len := npeers } }

/-- the views, for display -/
def view (s : State) (w : Nat) : List Nat :=
  match s.workers[w]? with
  | some wk => s.arr.take wk.len
  | none => []

/-! ### one worker alone (the situation of checkTask's re-download, and of a one-height request) -/

/-- what the peers do: `beh p h = some h'` — p answers a request for height h with a block of height h' -/
abbrev Behaviour := Nat → Int → Option Int

/-- run worker 0 to completion against `beh` (fuel bounds the number of labels; 2·50+1 suffice) -/
def runAlone (beh : Behaviour) : Nat → State → State
  | 0, s => s
  | fuel + 1, s =>
    match s.workers[0]? with
    | none => s
    | some wk =>
      match wk.phase with
      | .ready =>
        match step s (.pick 0) with
        | some (s', _) => runAlone beh fuel s'
        | none => s
      | .fetching p =>
        match step s (.ret 0 (beh p wk.height)) with
        | some (s', _) => runAlone beh fuel s'
        | none => s
      | _ => s

end C35.Old

namespace C35.Old

/-- after a failed fetch the real worker goes round ReDownload by itself; when availbTask finds nobody it
sleeps and tries again: pick until something other than `wait` comes out -/
def pickUntil (s : State) (w : Nat) : Nat → Option (State × Out)
  | 0 => none
  | fuel + 1 =>
    match step s (.pick w) with
    | none => none
    | some (s', .wait) => pickUntil s' w fuel
    | some r => some r

/-- the code sets no deadline on the reply stream and does not tie it to the 10 s dial context: a fetch from a
peer that accepts the stream and stays silent never returns (no `ret` label becomes enabled by time alone) -/
def fetchHasDeadline : Bool := false

end C35.Old
