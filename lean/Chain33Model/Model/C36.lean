/-
C36 — message bus (queue/queue.go, queue/client.go) as a labelled transition system whose labels are
the atomic steps of the Go code.  Core Lean only.

Message *objects* are pointers recycled through a `sync.Pool`; a logical request is an object together
with the generation it was given by `NewMessage`.  Each object owns a one-place reply buffer
(`chReply`, capacity 1) which `FreeMessage`/`NewMessage` do NOT clear — that is why the pool discipline
("free only what nobody references any more", the comment on `FreeMessage`) matters, and the model keeps
both the disciplined and the undisciplined `free`.

One topic is modelled; `high` and `low` are its two bounded channels.  The *requester* is one client
(`req`); it may subscribe a private topic of its own (`subReq`), which is what makes its `Close` do
anything at all (`client.Close` returns at once while `client.topic == nil`).

Nondeterminism of Go's `select` is explicit: where two cases of a `select` can be ready together the
label carries the branch (`viaDone`), and both branches are steps of the model:
 * `wait o viaDone` — `WaitTimeout`: `case <-msg.chReply` (false) | `case <-sub.done`/`case <-client.done`
   (true).  After a close with a buffered reply both are enabled; the `done` branch leaves the reply in
   the buffer.
 * `timeout o` — the timer case of a `WaitTimeout(d > 0)`; it may fire whatever else is ready, so it is
   always enabled.  `Wait` (= `WaitTimeout(-1)`) has a nil timer channel: it has no such branch, hence
   its `panic(ErrQueueTimeout)` is dead code (the same holds for `Send` = `SendTimeout(-1)`); "Wait blocks"
   is "no `wait` branch is enabled".
 * `unblock t sync viaDone` — a sender blocked in `select { case sub.high <- msg; case <-sub.done }`:
   `viaDone` needs the topic closed; the other branch needs space in the channel the sender holds.
   `closeTopic`/`Close` replace the `chanSub` in the map but the *old* channels live on for whoever
   holds them: the model keeps `high`/`low` after a close, so a blocked sender may still get into the
   orphaned channel (if the pump drained it) and the pump may still forward from it (`recv`).
   Only *new* sends see the closed placeholder.
What is abstracted: `high`/`low` stand for the Go channel plus the subscriber client's `recv` buffer
(cap 5) plus the message in the pump goroutine's hand; the pump's exit after `done` is not modelled
(`recv` stays enabled: an over-approximation); `client.Close`'s drain loop, which answers the requests
still buffered in `client.recv` with an `ErrChannelClosed` reply, is not modelled (for the requester it is
indistinguishable from the `done` branch: `Wait` returns `closed` either way); the `&Message{}` sentinel
pushed by a close is not a request and is not modelled.

`client.Close` of the requester is split at its racy points (`closeEnter`: the `isClosed || topic == nil`
check followed by the atomic `CompareAndSwap(&isCloseing, 0, 1)` — a caller that loses it returns at once;
`closeDone`: `closeTopic(own)` + `close(client.done)`, which PANICS when `done` is closed already;
`closeFinish`: `wg.Wait(); isClosed = 1; close(recv)`), so overlapping calls are schedules of the model.
The code before /repo commit c931423 had no compare-and-swap (`isCloseing` was stored after `close(done)`):
that version is kept as the configuration `oldClose := true` (never set by a label, `false` in every
reachable state) — the regression witness `old_close_panics_on_overlap`.
Not modelled: `Sub` racing a `Close` of the same client beyond the `isCloseing` check, and `CloseQueue`
(second call blocks on `interrupt`).
-/
namespace C36

abbrev Obj := Nat

structure Tag where
  obj : Obj
  gen : Nat
  deriving DecidableEq, Repr

inductive Phase where
  | pooled      -- in the pool (or never allocated)
  | fresh       -- returned by NewMessage, not sent yet
  | sending     -- the sender is blocked inside Send on a full channel
  | failed      -- Send returned an error; the request was never delivered
  | queued      -- sitting in a topic channel
  | held        -- taken by a subscriber, not answered yet
  | replied     -- the answer for this generation is in the buffer
  | done        -- the requester consumed the answer
  deriving DecidableEq, Repr

structure ObjSt where
  gen : Nat := 0
  phase : Phase := .pooled
  buf : Option Tag := none
  deriving Repr

structure State where
  objs : Obj → ObjSt := fun _ => {}
  high : List Tag := []          -- FIFO, head = oldest
  low : List Tag := []
  held : List Tag := []
  blockedHigh : List Tag := []   -- senders blocked on the full high channel (select with `done`)
  blockedLow : List Tag := []    -- senders blocked on the full low channel (Send(msg,false), timeout -1)
  capHigh : Nat := 64
  capLow : Nat := 40960
  topicClosed : Bool := false    -- closeTopic / queue.Close replaced the sub and closed `done`
  queueClosed : Bool := false
  reqSub : Bool := false         -- the requester's client subscribed a private topic (client.topic != nil)
  closing : Bool := false        -- requester's client.isCloseing = 1 (taken by compare-and-swap at the entry of Close)
  oldClose : Bool := false       -- configuration: the pre-c931423 Close without the compare-and-swap
  closersA : Nat := 0            -- Close calls of the requester's client past the entry check, before close(done)
  closersB : Nat := 0            -- ... past close(done), before isClosed = 1
  clientDone : Bool := false     -- requester's client.done is closed
  clientClosed : Bool := false   -- requester's client.isClosed = 1

inductive Label where
  | new (o : Obj)                        -- NewMessage handed out object o
  | send (o : Obj) (sync : Bool)         -- Send(msg, waitReply = sync): high channel if sync, else low
  | unblock (t : Tag) (sync viaDone : Bool)  -- a blocked sender proceeds: `done` was closed (viaDone), or the channel has space
  | recv (fromHigh : Bool)               -- the subscriber goroutine forwards one message
  | reply (t : Tag)                      -- a responder holding t writes its answer into t.obj's buffer
  | wait (o : Obj) (viaDone : Bool)      -- requester's Wait/WaitTimeout: takes the reply (false) | sees a closed `done` (true)
  | timeout (o : Obj)                    -- the timer case of a WaitTimeout(d > 0)
  | free (o : Obj) (disciplined : Bool)  -- FreeMessage
  | closeTopic
  | closeQueue
  | subReq                               -- requester's client.Sub(private topic)
  | closeEnter                           -- requester's client.Close: entry check
  | closeDone                            -- ... closeTopic(own topic); close(client.done)
  | closeFinish                          -- ... wg.Wait(); isClosed = 1; close(recv)
  deriving Repr

inductive Out where
  | ok
  | tag (t : Tag)          -- recv / wait: what was obtained
  | err (e : String)       -- closed | full | timeout
  | blocked                -- the call does not return yet
  | panic                  -- the goroutine panics (close of closed channel)
  deriving DecidableEq, Repr

def upd (f : Obj → ObjSt) (o : Obj) (v : ObjSt) : Obj → ObjSt := fun x => if x = o then v else f x

def removeFirst (t : Tag) : List Tag → List Tag
  | [] => []
  | x :: xs => if x = t then xs else x :: removeFirst t xs

/-- `none` = the label is not enabled in this state (the Go call would block, or the step makes no sense). -/
def step (s : State) : Label → Option (State × Out)
  | .new o =>
    let st := s.objs o
    match st.phase with
    | .pooled => some ({ s with objs := upd s.objs o { st with gen := st.gen + 1, phase := .fresh } }, .ok)
    | _ => none
  | .send o sync =>
    let st := s.objs o
    if s.clientClosed then some (s, .err "closed")            -- ErrIsQueueClosed
    else if s.queueClosed || s.topicClosed then some (s, .err "closed")   -- ErrChannelClosed
    else match st.phase with
      | .fresh =>
        let t : Tag := ⟨o, st.gen⟩
        if sync then
          if s.high.length < s.capHigh then
            some ({ s with high := s.high ++ [t], objs := upd s.objs o { st with phase := .queued } }, .ok)
          else                                                  -- blocks until space or close
            some ({ s with blockedHigh := s.blockedHigh ++ [t], objs := upd s.objs o { st with phase := .sending } }, .blocked)
        else
          if s.low.length < s.capLow then
            some ({ s with low := s.low ++ [t], objs := upd s.objs o { st with phase := .queued } }, .ok)
          else
            some ({ s with blockedLow := s.blockedLow ++ [t], objs := upd s.objs o { st with phase := .sending } }, .blocked)
      | _ => none
  | .unblock t sync viaDone =>
    let st := s.objs t.obj
    if sync then
      if s.blockedHigh.contains t then
        if viaDone then
          if s.topicClosed then     -- `case <-sub.done: return ErrChannelClosed`
            some ({ s with blockedHigh := removeFirst t s.blockedHigh, objs := upd s.objs t.obj { st with phase := .failed } }, .err "closed")
          else none
        else if s.high.length < s.capHigh then   -- `case sub.high <- msg: return nil` (also into the orphaned channel)
          some ({ s with blockedHigh := removeFirst t s.blockedHigh, high := s.high ++ [t],
                         objs := upd s.objs t.obj { st with phase := .queued } }, .ok)
        else none
      else none
    else
      if s.blockedLow.contains t then
        if viaDone then
          if s.topicClosed then     -- sendLowTimeout(-1): `case <-sub.done: return ErrChannelClosed`
            some ({ s with blockedLow := removeFirst t s.blockedLow, objs := upd s.objs t.obj { st with phase := .failed } }, .err "closed")
          else none
        else if s.low.length < s.capLow then
          some ({ s with blockedLow := removeFirst t s.blockedLow, low := s.low ++ [t],
                         objs := upd s.objs t.obj { st with phase := .queued } }, .ok)
        else none
      else none
  | .recv fromHigh =>
    match (if fromHigh then s.high else s.low) with
    | [] => none
    | t :: rest =>
      let st := s.objs t.obj
      let objs' := if st.gen = t.gen ∧ st.phase = .queued then upd s.objs t.obj { st with phase := .held } else s.objs
      some ({ s with high := if fromHigh then rest else s.high, low := if fromHigh then s.low else rest,
                     held := s.held ++ [t], objs := objs' }, .tag t)
  | .reply t =>
    if s.held.contains t then
      let st := s.objs t.obj
      match st.buf with
      | some _ => none                                          -- buffer full: the responder blocks
      | none =>
        let ph := if st.gen = t.gen ∧ st.phase = .held then Phase.replied else st.phase
        some ({ s with held := removeFirst t s.held, objs := upd s.objs t.obj { st with buf := some t, phase := ph } }, .ok)
    else none
  | .wait o viaDone =>
    let st := s.objs o
    if viaDone then
      -- `case <-sub.done` (ErrChannelClosed) / `case <-client.done` (ErrIsQueueClosed); a buffered reply stays
      if s.topicClosed || s.clientDone then some (s, .err "closed") else none
    else match st.buf with
      | some t =>
        let ph := if st.phase = .replied then Phase.done else st.phase
        some ({ s with objs := upd s.objs o { st with buf := none, phase := ph } }, .tag t)
      | none => none
  | .timeout _ => some (s, .err "timeout")
  | .free o disciplined =>
    let st := s.objs o
    if st.phase = .pooled then none
    else if disciplined && !(st.phase = .fresh || st.phase = .done || st.phase = .failed) then none
    else some ({ s with objs := upd s.objs o { st with phase := .pooled } }, .ok)
  | .closeTopic => some ({ s with topicClosed := true }, .ok)
  | .closeQueue => some ({ s with topicClosed := true, queueClosed := true }, .ok)
  | .subReq =>                                                  -- Sub returns at once when closing/closed
    if s.closing || s.clientDone || s.clientClosed then some (s, .ok) else some ({ s with reqSub := true }, .ok)
  | .closeEnter =>
    if s.clientClosed || !s.reqSub then some (s, .ok)           -- `isClosed == 1 || topic == nil`: return
    else if s.closing && !s.oldClose then some (s, .ok)         -- lost the compare-and-swap: return
    else some ({ s with closing := true, closersA := s.closersA + 1 }, .blocked)
  | .closeDone =>
    match s.closersA with
    | 0 => none
    | a + 1 =>
      if s.clientDone then some ({ s with closersA := a }, .panic)          -- close of closed channel
      else some ({ s with closersA := a, closersB := s.closersB + 1, clientDone := true }, .blocked)
  | .closeFinish =>
    match s.closersB with
    | 0 => none
    | b + 1 =>
      if s.clientClosed then some ({ s with closersB := b }, .panic)        -- close(recv) a second time
      else some ({ s with closersB := b, clientClosed := true }, .ok)

/-- a label respects the pool discipline. -/
def Label.disciplined : Label → Bool
  | .free _ d => d
  | _ => true

/-- run a trace; `none` as soon as a label is not enabled. -/
def run (s : State) : List Label → Option (State × List Out)
  | [] => some (s, [])
  | l :: ls =>
    match step s l with
    | none => none
    | some (s', o) =>
      match run s' ls with
      | none => none
      | some (s'', os) => some (s'', o :: os)

end C36
