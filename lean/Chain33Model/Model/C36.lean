/-
C36 — message bus (queue/queue.go, queue/client.go) as a labelled transition system whose labels are
the atomic steps of the Go code.  Core Lean only.

Message *objects* are pointers recycled through a `sync.Pool`; a logical request is an object together
with the generation it was given by `NewMessage`.  Each object owns a one-place reply buffer
(`chReply`, capacity 1) which `FreeMessage`/`NewMessage` do NOT clear — that is why the pool discipline
("free only what nobody references any more", the comment on `FreeMessage`) matters, and the model keeps
both the disciplined and the undisciplined `free`.

One topic is modelled; `high` and `low` are its two bounded channels.
-/
namespace C36

abbrev Obj := Nat

structure Tag where
  obj : Obj
  gen : Nat
  deriving DecidableEq, Repr

inductive Phase where
  | pooled      -- in the pool (or never allocated)
  | fresh       -- returned by NewMessage, not sent yet
  | sending     -- the sender is blocked inside Send on a full channel
  | failed      -- Send returned an error; the request was never delivered
  | queued      -- sitting in a topic channel
  | held        -- taken by a subscriber, not answered yet
  | replied     -- the answer for this generation is in the buffer
  | done        -- the requester consumed the answer
  deriving DecidableEq, Repr

structure ObjSt where
  gen : Nat := 0
  phase : Phase := .pooled
  buf : Option Tag := none
  deriving Repr

structure State where
  objs : Obj → ObjSt := fun _ => {}
  high : List Tag := []          -- FIFO, head = oldest
  low : List Tag := []
  held : List Tag := []
  blockedHigh : List Tag := []   -- senders blocked on the full high channel (select with `done`)
  blockedLow : List Tag := []    -- senders blocked on the full low channel (Send(msg,false), timeout -1)
  capHigh : Nat := 64
  capLow : Nat := 40960
  topicClosed : Bool := false    -- closeTopic / queue.Close replaced the sub and closed `done`
  clientClosed : Bool := false   -- requester's client.Close finished
  queueClosed : Bool := false

inductive Label where
  | new (o : Obj)                        -- NewMessage handed out object o
  | send (o : Obj) (sync : Bool)         -- Send(msg, waitReply = sync): high channel if sync, else low
  | unblock (t : Tag) (sync : Bool)      -- a blocked sender proceeds: channel has space, or `done` was closed
  | recv (fromHigh : Bool)               -- the subscriber goroutine forwards one message
  | reply (t : Tag)                      -- a responder holding t writes its answer into t.obj's buffer
  | wait (o : Obj)                       -- requester's Wait finds the buffer non-empty
  | timeout (o : Obj)                    -- WaitTimeout expires with an empty buffer
  | free (o : Obj) (disciplined : Bool)  -- FreeMessage
  | closeTopic
  | closeQueue
  deriving Repr

inductive Out where
  | ok
  | tag (t : Tag)          -- recv / wait: what was obtained
  | err (e : String)       -- closed | full | timeout
  | blocked                -- the call does not return yet
  deriving DecidableEq, Repr

def upd (f : Obj → ObjSt) (o : Obj) (v : ObjSt) : Obj → ObjSt := fun x => if x = o then v else f x

def removeFirst (t : Tag) : List Tag → List Tag
  | [] => []
  | x :: xs => if x = t then xs else x :: removeFirst t xs

/-- `none` = the label is not enabled in this state (the Go call would block, or the step makes no sense). -/
def step (s : State) : Label → Option (State × Out)
  | .new o =>
    let st := s.objs o
    match st.phase with
    | .pooled => some ({ s with objs := upd s.objs o { st with gen := st.gen + 1, phase := .fresh } }, .ok)
    | _ => none
  | .send o sync =>
    let st := s.objs o
    if s.clientClosed then some (s, .err "closed")            -- ErrIsQueueClosed
    else if s.queueClosed || s.topicClosed then some (s, .err "closed")   -- ErrChannelClosed
    else match st.phase with
      | .fresh =>
        let t : Tag := ⟨o, st.gen⟩
        if sync then
          if s.high.length < s.capHigh then
            some ({ s with high := s.high ++ [t], objs := upd s.objs o { st with phase := .queued } }, .ok)
          else                                                  -- blocks until space or close
            some ({ s with blockedHigh := s.blockedHigh ++ [t], objs := upd s.objs o { st with phase := .sending } }, .blocked)
        else
          if s.low.length < s.capLow then
            some ({ s with low := s.low ++ [t], objs := upd s.objs o { st with phase := .queued } }, .ok)
          else
            some ({ s with blockedLow := s.blockedLow ++ [t], objs := upd s.objs o { st with phase := .sending } }, .blocked)
      | _ => none
  | .unblock t sync =>
    let st := s.objs t.obj
    if sync then
      if s.blockedHigh.contains t then
        if s.topicClosed then     -- `case <-sub.done: return ErrChannelClosed`
          some ({ s with blockedHigh := removeFirst t s.blockedHigh, objs := upd s.objs t.obj { st with phase := .failed } }, .err "closed")
        else if s.high.length < s.capHigh then
          some ({ s with blockedHigh := removeFirst t s.blockedHigh, high := s.high ++ [t],
                         objs := upd s.objs t.obj { st with phase := .queued } }, .ok)
        else none
      else none
    else
      if s.blockedLow.contains t then
        if s.topicClosed then     -- sendLowTimeout(-1): `case <-sub.done: return ErrChannelClosed`
          some ({ s with blockedLow := removeFirst t s.blockedLow, objs := upd s.objs t.obj { st with phase := .failed } }, .err "closed")
        else if s.low.length < s.capLow then
          some ({ s with blockedLow := removeFirst t s.blockedLow, low := s.low ++ [t],
                         objs := upd s.objs t.obj { st with phase := .queued } }, .ok)
        else none
      else none
  | .recv fromHigh =>
    if s.topicClosed then none else
    match (if fromHigh then s.high else s.low) with
    | [] => none
    | t :: rest =>
      let st := s.objs t.obj
      let objs' := if st.gen = t.gen ∧ st.phase = .queued then upd s.objs t.obj { st with phase := .held } else s.objs
      some ({ s with high := if fromHigh then rest else s.high, low := if fromHigh then s.low else rest,
                     held := s.held ++ [t], objs := objs' }, .tag t)
  | .reply t =>
    if s.held.contains t then
      let st := s.objs t.obj
      match st.buf with
      | some _ => none                                          -- buffer full: the responder blocks
      | none =>
        let ph := if st.gen = t.gen ∧ st.phase = .held then Phase.replied else st.phase
        some ({ s with held := removeFirst t s.held, objs := upd s.objs t.obj { st with buf := some t, phase := ph } }, .ok)
    else none
  | .wait o =>
    let st := s.objs o
    match st.buf with
    | some t =>
      let ph := if st.phase = .replied then Phase.done else st.phase
      some ({ s with objs := upd s.objs o { st with buf := none, phase := ph } }, .tag t)
    | none => if s.topicClosed || s.clientClosed then some (s, .err "closed") else none
  | .timeout o =>
    -- once `done` of the topic (or of the requester's client) is closed the select in WaitTimeout returns at
    -- once with the error: the timer can no longer win, a wait neither times out nor blocks
    if s.topicClosed || s.clientClosed then none else
    match (s.objs o).buf with
    | none => some (s, .err "timeout")
    | some _ => none
  | .free o disciplined =>
    let st := s.objs o
    if st.phase = .pooled then none
    else if disciplined && !(st.phase = .fresh || st.phase = .done || st.phase = .failed) then none
    else some ({ s with objs := upd s.objs o { st with phase := .pooled } }, .ok)
  | .closeTopic => some ({ s with topicClosed := true, high := [], low := [] }, .ok)
  | .closeQueue => some ({ s with topicClosed := true, queueClosed := true, high := [], low := [] }, .ok)

/-- a label respects the pool discipline. -/
def Label.disciplined : Label → Bool
  | .free _ d => d
  | _ => true

/-- run a trace; `none` as soon as a label is not enabled. -/
def run (s : State) : List Label → Option (State × List Out)
  | [] => some (s, [])
  | l :: ls =>
    match step s l with
    | none => none
    | some (s', o) =>
      match run s' ls with
      | none => none
      | some (s'', os) => some (s'', o :: os)

end C36
