import Chain33Model.Base.Sha256
/-
C37 — wallet secret encryption (wallet/common/crypto.go CBCEncrypterPrivkey / CBCDecrypterPrivkey,
wallet/seed.go AesgcmEncrypter / AesgcmDecrypter, wallet/wallet_proc.go ProcWalletSetPasswd over the records of
wallet/common/store.go).  Executable model, core Lean only.

AES is an abstract keyed block permutation (`BlockCipher`: `dec k (enc k b) = b` on 16-byte blocks), AES-GCM an
abstract AEAD (`open (aseal …) = some`, ciphertext 16 bytes longer than the plaintext).  Key derivation, CBC
chaining, the IV/nonce placement, the length-based format decision of the decrypter, the try-new-then-legacy
order of the seed decrypter and the all-or-nothing batch of the password change are modelled as written.
Go panics (`CryptBlocks` on input that is not a multiple of the block size) are the outcome `panic`.
-/
namespace C37

abbrev Bytes := List UInt8

inductive Outcome (α : Type) where
  | ok (a : α)
  | panic
  deriving Repr, DecidableEq

/-- `key := make([]byte, 32); if len(password) > 32 { key = password[0:32] } else { copy(key, password) }` -/
def kdf (pw : Bytes) : Bytes :=
  if pw.length > 32 then pw.take 32 else pw ++ List.replicate (32 - pw.length) 0

def xor (a b : Bytes) : Bytes := List.zipWith (· ^^^ ·) a b

structure BlockCipher where
  enc : Bytes → Bytes → Bytes
  dec : Bytes → Bytes → Bytes
  dec_enc : ∀ k b, b.length = 16 → dec k (enc k b) = b
  enc_len : ∀ k b, b.length = 16 → (enc k b).length = 16
  dec_len : ∀ k b, b.length = 16 → (dec k b).length = 16

/-- CBC over `n` blocks: `c_i = enc (p_i xor c_{i-1})`, `c_0 = iv`. -/
def cbcEncN (C : BlockCipher) (k : Bytes) : Nat → Bytes → Bytes → Bytes
  | 0, _, _ => []
  | n + 1, prev, pt =>
    let c := C.enc k (xor (pt.take 16) prev)
    c ++ cbcEncN C k n c (pt.drop 16)

/-- `p_i = dec c_i xor c_{i-1}`. -/
def cbcDecN (C : BlockCipher) (k : Bytes) : Nat → Bytes → Bytes → Bytes
  | 0, _, _ => []
  | n + 1, prev, ct =>
    xor (C.dec k (ct.take 16)) prev ++ cbcDecN C k n (ct.take 16) (ct.drop 16)

/-- CBCEncrypterPrivkey with the random IV made explicit: `append(iv, Encrypted...)`. -/
def cbcEncrypt (C : BlockCipher) (pw iv pt : Bytes) : Outcome Bytes :=
  if pt.length % 16 ≠ 0 then .panic
  else .ok (iv ++ cbcEncN C (kdf pw) (pt.length / 16) iv pt)

/-- the format decision of CBCDecrypterPrivkey: `len > 16 && len % 16 == 0 && (len-16 == 32 || len-16 == 64)`. -/
def isNewFormat (n : Nat) : Bool := n > 16 && n % 16 == 0 && (n - 16 == 32 || n - 16 == 64)

inductive Fmt where
  | new | legacy
  deriving Repr, DecidableEq

/-- CBCDecrypterPrivkey; also reports which format was assumed. -/
def cbcDecryptF (C : BlockCipher) (pw blob : Bytes) : Outcome (Bytes × Fmt) :=
  let key := kdf pw
  if isNewFormat blob.length then
    .ok (cbcDecN C key ((blob.length - 16) / 16) (blob.take 16) (blob.drop 16), .new)
  else if blob.length % 16 ≠ 0 then .panic
  else .ok (cbcDecN C key (blob.length / 16) (key.take 16) blob, .legacy)

def cbcDecrypt (C : BlockCipher) (pw blob : Bytes) : Outcome Bytes :=
  match cbcDecryptF C pw blob with
  | .ok (p, _) => .ok p
  | .panic => .panic

/-- the encrypter that wrote the legacy records: fixed IV = key[:16], no IV prefix. -/
def cbcLegacyEncrypt (C : BlockCipher) (pw pt : Bytes) : Outcome Bytes :=
  if pt.length % 16 ≠ 0 then .panic
  else .ok (cbcEncN C (kdf pw) (pt.length / 16) ((kdf pw).take 16) pt)

structure AEAD where
  aseal : Bytes → Bytes → Bytes → Bytes            -- key nonce plaintext
  aopen : Bytes → Bytes → Bytes → Option Bytes    -- key nonce ciphertext
  aopen_aseal : ∀ k n p, aopen k n (aseal k n p) = some p
  aseal_len : ∀ k n p, (aseal k n p).length = p.length + 16

/-- AesgcmEncrypter with the random 12-byte nonce made explicit: `append(nonce, ciphertext...)`. -/
def gcmEncrypt (A : AEAD) (pw nonce pt : Bytes) : Bytes := nonce ++ A.aseal (kdf pw) nonce pt

/-- AesgcmDecrypter: new format first (`len(seed) > 12`, nonce = seed[:12]), then the legacy format with the
fixed nonce key[:12] over the whole blob; reports the branch that succeeded. -/
def gcmDecryptF (A : AEAD) (pw blob : Bytes) : Option (Bytes × Fmt) :=
  let key := kdf pw
  match (if blob.length > 12 then A.aopen key (blob.take 12) (blob.drop 12) else none) with
  | some p => some (p, .new)
  | none =>
    match A.aopen key (key.take 12) blob with
    | some p => some (p, .legacy)
    | none => none

def gcmDecrypt (A : AEAD) (pw blob : Bytes) : Option Bytes := (gcmDecryptF A pw blob).map (·.1)

def gcmLegacyEncrypt (A : AEAD) (pw pt : Bytes) : Bytes := A.aseal (kdf pw) ((kdf pw).take 12) pt

/-! ### the wallet store and the password change -/

structure Acct where
  addr : Nat
  blob : Bytes
  addrOk : Bool := true   -- the record's `Addr` field is non-empty (SetWalletAccountInBatch fails exactly when it is empty)
  deriving Repr, DecidableEq

structure Store where
  pw : Bytes            -- the password whose salted hash is the PasswordHash record (= wallet.Password when cached)
  seed : Bytes          -- the `walletseed` record
  accts : List Acct     -- the `Account:` records in scan order
  deriving Repr, DecidableEq

def isLetter (c : UInt8) : Bool := (65 ≤ c && c ≤ 90) || (97 ≤ c && c ≤ 122)
def isDigit (c : UInt8) : Bool := 48 ≤ c && c ≤ 57

/-- isValidPassWord for ASCII passwords: 8..30 bytes, letters and digits only, at least one of each. -/
def isValidPassWord (pw : Bytes) : Bool :=
  8 ≤ pw.length && pw.length ≤ 30 && pw.all (fun c => isLetter c || isDigit c) && pw.any isLetter && pw.any isDigit

inductive SpOut where
  | ok | errNewPass | errVerify | errSeed | errWrite | panic
  deriving Repr, DecidableEq

/-- one account of the re-encryption loop: `continue` on an empty record, else decrypt under the old and
encrypt under the new password with a fresh IV; the result is staged with SetWalletAccountInBatch, whose error
(GetAccountByte: empty `Addr`) is only logged — the loop goes on and the record keeps its old ciphertext. -/
def reencAcct (C : BlockCipher) (old new iv : Bytes) (a : Acct) : Outcome Acct :=
  if a.blob.isEmpty then .ok a
  else
    match cbcDecrypt C old a.blob with
    | .panic => .panic
    | .ok k =>
      match cbcEncrypt C new iv k with
      | .panic => .panic
      | .ok b => if a.addrOk then .ok { a with blob := b } else .ok a

def reencAll (C : BlockCipher) (old new : Bytes) (ivs : Nat → Bytes) : Nat → List Acct → Outcome (List Acct)
  | _, [] => .ok []
  | i, a :: as =>
    match reencAcct C old new (ivs i) a with
    | .panic => .panic
    | .ok a' =>
      match reencAll C old new ivs (i + 1) as with
      | .panic => .panic
      | .ok as' => .ok (a' :: as')

/-- ProcWalletSetPasswd on the store: everything is staged in one batch; the store changes only if the batch
write succeeds (`writeOk`). `nonce`, `ivs` are the random nonce / IVs drawn by the encrypters. -/
def setPasswd (C : BlockCipher) (A : AEAD) (old new nonce : Bytes) (ivs : Nat → Bytes) (writeOk : Bool)
    (s : Store) : Store × SpOut :=
  if !isValidPassWord new then (s, .errNewPass)
  else if old ≠ s.pw then (s, .errVerify)
  else
    match gcmDecrypt A old s.seed with
    | none => (s, .errSeed)
    | some sd =>
      if sd.isEmpty then (s, .errSeed)          -- SaveSeedInBatch: len(seed) == 0 → ErrInvalidParam
      else
        match reencAll C old new ivs 0 s.accts with
        | .panic => (s, .panic)
        | .ok accts' =>
          if writeOk then ({ pw := new, seed := gcmEncrypt A new nonce sd, accts := accts' }, .ok)
          else (s, .errWrite)

/-- one request of a history of password changes. -/
structure Req where
  old : Bytes
  new : Bytes
  nonce : Bytes
  ivs : Nat → Bytes
  writeOk : Bool

/-- a history: any list of successful and failed password changes, applied one after the other. -/
def runSetPasswd (C : BlockCipher) (A : AEAD) : List Req → Store → Store
  | [], s => s
  | r :: rs, s => runSetPasswd C A rs (setPasswd C A r.old r.new r.nonce r.ivs r.writeOk s).1

/-! ### lawful toy instances (used by the driver to run these definitions, and for witnesses) -/

def keySum (k : Bytes) : UInt8 := k.foldl (· + ·) 1

/-- every byte shifted by a key-dependent constant: a keyed permutation of blocks. -/
def toyCipher : BlockCipher where
  enc k b := b.map (· + keySum k)
  dec k b := b.map (· - keySum k)
  dec_enc k b _ := by
    simp only [List.map_map]
    have : ((fun x : UInt8 => x - keySum k) ∘ fun x => x + keySum k) = id := by
      funext x; simp [Function.comp, UInt8.add_sub_cancel]
    rw [this, List.map_id]
  enc_len k b h := by simpa using h
  dec_len k b h := by simpa using h

def pad16 (x : Bytes) : Bytes := (x ++ List.replicate 16 0).take 16

theorem pad16_length (x : Bytes) : (pad16 x).length = 16 := by
  simp [pad16, List.length_take]

def toyTag (k n p : Bytes) : Bytes := pad16 (Sha256.hash (k ++ [0xff] ++ n ++ [0xff] ++ p))

/-- an authenticating toy AEAD: plaintext in the clear followed by a 16-byte tag over (key, nonce, plaintext). -/
def toyAead : AEAD where
  aseal k n p := p ++ toyTag k n p
  aopen k n c :=
    if c.length < 16 then none
    else
      let p := c.take (c.length - 16)
      if c.drop (c.length - 16) = toyTag k n p then some p else none
  aopen_aseal k n p := by
    have ht : (toyTag k n p).length = 16 := pad16_length _
    simp [List.length_append, ht]
  aseal_len k n p := by simp [List.length_append, toyTag, pad16_length]

/-- a small AEAD whose tag authenticates only the nonce (enough for kernel-evaluated examples). -/
def nonceTagAead : AEAD where
  aseal _ n p := p ++ pad16 n
  aopen _ n c :=
    if c.length < 16 then none
    else if c.drop (c.length - 16) = pad16 n then some (c.take (c.length - 16)) else none
  aopen_aseal k n p := by
    have ht : (pad16 n).length = 16 := pad16_length _
    simp [List.length_append, ht]
  aseal_len k n p := by simp [List.length_append, pad16_length]

/-- a lawful AEAD WITHOUT authentication (tag constant): shows what `gcm_legacy` needs its hypothesis for. -/
def weakAead : AEAD where
  aseal _ _ p := p ++ List.replicate 16 0
  aopen _ _ c := if c.length < 16 then none else some (c.take (c.length - 16))
  aopen_aseal k n p := by simp [List.length_append]
  aseal_len k n p := by simp [List.length_append]

end C37
