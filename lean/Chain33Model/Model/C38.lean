/-
C38 — the wallet lock flag (wallet/wallet.go `isWalletLocked`, wallet/wallet_proc.go ProcWalletUnLock /
ProcWalletLock / resetTimeout / ProcWalletSetPasswd, the handlers guarded by `checkWalletStatus`) as a
labelled transition system whose labels are the atomic steps of the Go code.  Core Lean only.

What is atomic and why
* `wallet.mtx` is held for the whole of ProcWalletUnLock, ProcWalletSetPasswd and every guarded handler
  (ProcDumpPrivkey, GetSeed, ProcSignRawTx with an address, ProcSendToAddress, ProcCreateNewAccount, …).
  Unlock touches the flag in one CAS and a guarded handler in one load, so each is ONE label; a call that
  finds the mutex taken simply starts later (label not enabled).
* ProcWalletLock, the unlock-timeout callback, `IsWalletLocked()` and `GetWalletStatus()` do NOT take the
  mutex: they interleave with the micro-steps of a running ProcWalletSetPasswd, which therefore is a
  sequence of labels (`spBegin`, then one `spStep` per micro-operation `Mop`).
* A wallet with a saved seed is modelled (without one, Lock/Unlock return ErrSaveSeedFirst and never touch
  the flag).

`auth` is a ghost variable: "a successful unlock happened since the last lock / timeout / restart".
`Variant` selects the ProcWalletSetPasswd that is modelled: the code as it is (`code`: no temporary unlock, the
seed is read with the store-level `GetSeed(db, password)`, which does not look at the flag), and two older
variants kept for regression witnesses: the code before /repo fd9f097 (`oldCode`: temporary unlock before the
old-password check) and that code with the check moved in front of the unlock (`oldVerifyFirst`).
-/
namespace C38

structure Variant where
  verifyFirst : Bool
  tempUnlock : Bool
  deriving DecidableEq, Repr

/-- wallet_proc.go as it is (since /repo fd9f097): verify the old password, read the seed straight from the store,
write the batch; the lock flag is never touched. -/
def code : Variant := ⟨true, false⟩
/-- the code before fd9f097: load flag, CAS(1→0), defer CAS(0→temp), *then* verify the old password. -/
def oldCode : Variant := ⟨false, true⟩
/-- a repair that was considered and rejected: the old code with the password check moved in front of the unlock. -/
def oldVerifyFirst : Variant := ⟨true, true⟩

/-- micro-operations of ProcWalletSetPasswd that read or write shared state. -/
inductive Mop where
  | load        -- tempislock := atomic.LoadInt32(&isWalletLocked)
  | cas         -- atomic.CompareAndSwapInt32(&isWalletLocked, 1, 0); the deferred restore is registered
  | verify      -- VerifyPasswordHash(OldPass) / OldPass != wallet.Password
  | seedCheck   -- getSeed → checkWalletStatus: reads the flag
  | write       -- newBatch.Write(); wallet.Password = NewPass
  | restore     -- deferred: atomic.CompareAndSwapInt32(&isWalletLocked, 0, tempislock)
  deriving DecidableEq, Repr

inductive Res where
  | ok | errVerify | errLocked | errWrite | errNewPass
  deriving DecidableEq, Repr

structure Call where
  nxt : Mop
  temp : Bool       -- tempislock ≠ 0
  oldOk : Bool      -- the caller presented the right old password
  writeOk : Bool    -- the batch write will succeed
  deferOn : Bool    -- the deferred restore is registered
  res : Res
  deriving DecidableEq, Repr

structure State where
  locked : Bool := true     -- isWalletLocked ≠ 0
  auth : Bool := false      -- ghost
  armed : Bool := false     -- an unlock timer is pending
  memPw : Bool := false     -- wallet.Password is cached in memory (decides which check Unlock/SetPasswd use)
  ticket : Bool := false    -- a registered mineStatusReporter (consensus plugin) reports "ticket unlocked";
                            -- false also when no reporter is registered (the case in this repository)
  sp : Option Call := none  -- the ProcWalletSetPasswd call that holds wallet.mtx, if any
  deriving DecidableEq, Repr

/-- the `Addr` field of a SignRawTx request: empty, an address of a wallet account, any other address. -/
inductive AddrKind where
  | none | wallet | foreign
  deriving DecidableEq, Repr

/-- the `Privkey` field of a SignRawTx request: empty, a well-formed private key, anything else ("0x00", bad hex). -/
inductive PrivKind where
  | none | valid | garbage
  deriving DecidableEq, Repr

inductive Label where
  | unlock (pwOk ticketOnly timeout : Bool)
  | lock
  | timer
  | read
  | guarded
  | sign (addr : AddrKind) (priv : PrivKind)   -- ProcSignRawTx with both key-selecting fields
  | guardedTicket           -- the two paths that accept "wallet locked, ticket unlocked": GetAllPrivKeys (plugin
                            -- interface, sendtx.go) and ProcSendToAddress to the consensus contract (isTransfer)
  | reporter (ticketUnlocked : Bool)  -- the plugin changes what its mineStatusReporter reports (environment step)
  | spBegin (oldOk newValid writeOk : Bool)
  | spStep
  | restart
  deriving DecidableEq, Repr

inductive Out where
  | ok
  | err (e : String)
  | flag (locked : Bool)
  | secret                  -- a stored secret was returned / a stored key signed
  | supplied                -- the request was signed with the key the caller supplied
  | mid
  | ret (r : Res)
  deriving DecidableEq, Repr

/-- ProcSignRawTx, key selection as written: `Addr` wins over `Privkey`; only the `Addr` branch needs the wallet
(checkWalletStatus, then the stored key of `Addr`); the `Privkey` branch signs with the caller's key in any state. -/
def signOut (locked : Bool) (lockedErr : String) : AddrKind → PrivKind → Out
  | .wallet, _ => if locked then .err lockedErr else .secret
  | .foreign, _ => if locked then .err lockedErr else .err "ErrAddrNotExist"
  | .none, .valid => .supplied
  | .none, .garbage => .err "ErrPrivkey"
  | .none, .none => .err "ErrNoPrivKeyOrAddr"

/-- checkWalletStatus on a locked wallet: ErrOnlyTicketUnLocked if the reporter says the ticket is unlocked. -/
def lockedErr (s : State) : String := if s.ticket then "ErrOnlyTicketUnLocked" else "ErrWalletIsLocked"

def firstOp (v : Variant) : Mop := if v.verifyFirst then .verify else .load

/-- the call fails with `r`: the deferred restore still runs if it was registered. -/
def failWith (s : State) (c : Call) (r : Res) : State × Out :=
  if c.deferOn then ({ s with sp := some { c with res := r, nxt := .restore } }, .mid)
  else ({ s with sp := none }, .ret r)

def spExec (v : Variant) (s : State) (c : Call) : State × Out :=
  match c.nxt with
  | .load => ({ s with sp := some { c with temp := s.locked, nxt := .cas } }, .mid)
  | .cas =>
    ({ s with locked := false,
              sp := some { c with deferOn := true, nxt := if v.verifyFirst then .seedCheck else .verify } }, .mid)
  | .verify =>
    if c.oldOk then
      let n : Mop := if v.verifyFirst then (if v.tempUnlock then .load else .write) else .seedCheck
      ({ s with sp := some { c with nxt := n } }, .mid)
    else failWith s c .errVerify
  | .seedCheck =>
    if s.locked then failWith s c .errLocked
    else ({ s with sp := some { c with nxt := .write } }, .mid)
  | .write =>
    if c.writeOk then
      if c.deferOn then ({ s with memPw := true, sp := some { c with res := .ok, nxt := .restore } }, .mid)
      else ({ s with memPw := true, sp := none }, .ret .ok)
    else failWith s c .errWrite
  | .restore =>
    ({ s with locked := if s.locked then true else c.temp, sp := none }, .ret c.res)

/-- `none` = the label is not enabled (the Go call would wait for `wallet.mtx`, or no timer is pending). -/
def step (v : Variant) (s : State) : Label → Option (State × Out)
  | .unlock pwOk ticketOnly timeout =>
    match s.sp with
    | some _ => none
    | none =>
      if !pwOk then some (s, .err (if s.memPw then "ErrInputPassword" else "ErrVerifyOldpasswdFail"))
      else if ticketOnly then some ({ s with memPw := true }, .ok)
      else some ({ s with memPw := true, locked := false, auth := true, armed := s.armed || timeout }, .ok)
  | .lock => some ({ s with locked := true, auth := false }, .ok)
  | .timer => if s.armed then some ({ s with locked := true, auth := false, armed := false }, .ok) else none
  | .read => some (s, .flag s.locked)
  | .guarded =>
    match s.sp with
    | some _ => none
    | none => if s.locked then some (s, .err (lockedErr s)) else some (s, .secret)
  | .sign a p =>
    match s.sp with
    | some _ => none
    | none => some (s, signOut s.locked (lockedErr s) a p)
  | .guardedTicket =>
    match s.sp with
    | some _ => none
    | none =>
      if s.locked then (if s.ticket then some (s, .secret) else some (s, .err "ErrWalletIsLocked"))
      else some (s, .secret)
  | .reporter b => some ({ s with ticket := b }, .ok)
  | .spBegin oldOk newValid writeOk =>
    match s.sp with
    | some _ => none
    | none =>
      if !newValid then some (s, .ret .errNewPass)
      else some ({ s with sp := some { nxt := firstOp v, temp := false, oldOk := oldOk, writeOk := writeOk,
                                        deferOn := false, res := .ok } }, .mid)
  | .spStep =>
    match s.sp with
    | none => none
    | some c => some (spExec v s c)
  | .restart =>
    match s.sp with
    | some _ => none
    | none => some ({ locked := true, auth := false, armed := false, memPw := false, ticket := false, sp := none }, .ok)

/-- run a trace; `none` as soon as a label is not enabled. -/
def run (v : Variant) (s : State) : List Label → Option (State × List Out)
  | [] => some (s, [])
  | l :: ls =>
    match step v s l with
    | none => none
    | some (s', o) =>
      match run v s' ls with
      | none => none
      | some (s'', os) => some (s'', o :: os)

/-- where a running ProcWalletSetPasswd can be held by the harness: `p1` = inside VerifyPasswordHash (a store
read, only when the password is not cached in memory), `p4` = just before the batch write. -/
inductive Stop where
  | p1 | p4 | ret
  deriving DecidableEq, Repr

def atStop (s : State) (c : Call) : Stop → Bool
  | .p1 => c.nxt == .verify && !s.memPw
  | .p4 => c.nxt == .write
  | .ret => false

/-- run `spStep`s until the call stands at `stop` or has returned (`fuel` bounds the ≤ 6 micro-steps). -/
def runTo (v : Variant) (stop : Stop) : Nat → State → State × Option Res
  | 0, s => (s, none)
  | fuel + 1, s =>
    match s.sp with
    | none => (s, none)
    | some c =>
      if atStop s c stop then (s, none)
      else
        match spExec v s c with
        | (s', .ret r) => (s', some r)
        | (s', _) => runTo v stop fuel s'

end C38
