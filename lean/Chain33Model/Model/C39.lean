/-
C39 — RPC access control: decision logic of rpc/server.go (InitIPWhitelist, checkIPWhitelist,
checkBasicAuth, func white/blacklists), rpc/http.go (JSON-RPC middleware, gRPC `auth`
interceptor) and rpc/ethrpc/rpc.go (httpServer.checkIPWhitelist).  Core Lean only.

Remote addresses are structured (what `net.ParseIP` + `To4` + `IsLoopback` make of the text):
the harness renders them to `RemoteAddr` strings, so the parsing itself is part of the tie.
-/
namespace C39

inductive IP where
  | v4 (a b c d : Nat)          -- dotted quad "a.b.c.d"
  | mapped (a b c d : Nat)      -- "::ffff:a.b.c.d" (To4 succeeds)
  | lo6                          -- "::1"
  | v6 (text : String)           -- any other IPv6 text (non-loopback, To4 = nil); compared as raw text
  deriving Repr, DecidableEq

def IP.isLoopback : IP → Bool
  | .v4 a _ _ _ => a == 127
  | .mapped a _ _ _ => a == 127
  | .lo6 => true
  | .v6 _ => false

def dotted (a b c d : Nat) : String := s!"{a}.{b}.{c}.{d}"

/-- the string that is looked up in the whitelist (`ipv4.String()` when To4 succeeds, else the raw text). -/
def IP.norm : IP → String
  | .v4 a b c d => dotted a b c d
  | .mapped a b c d => dotted a b c d
  | .lo6 => "::1"
  | .v6 t => t

structure Cfg where
  whitelist : List String := []
  whitlist  : List String := []
  jWL : List String := []
  jBL : List String := []
  gWL : List String := []
  gBL : List String := []
  user : String := ""
  pass : String := ""
  deriving Repr

/-- `InitIPWhitelist` starting from empty package maps. -/
def ipSet (c : Cfg) : List String :=
  if c.whitelist.isEmpty && c.whitlist.isEmpty then ["127.0.0.1"]
  else if c.whitelist == ["*"] then ["0.0.0.0"]
  else if c.whitlist == ["*"] then ["0.0.0.0"]
  else if !c.whitelist.isEmpty then c.whitelist     -- `return` after the first non-empty key:
  else c.whitlist                                    -- `whitlist` is only read when `whitelist` is empty

/-- `checkIPWhitelist` of the JSON-RPC / gRPC endpoints. -/
def mainIPAdmit (c : Cfg) (ip : IP) : Bool :=
  ip.isLoopback || (ipSet c).contains "0.0.0.0" || (ipSet c).contains ip.norm

/-- `httpServer.checkIPWhitelist` of the Ethereum-compatible endpoint: both keys empty admits
everybody; a lone `*` under either key is a wildcard; `whitelist` takes precedence over `whitlist`. -/
def ethIPAdmit (c : Cfg) (ip : IP) : Bool :=
  ip.isLoopback || (c.whitelist.isEmpty && c.whitlist.isEmpty) ||
    (c.whitelist == ["*"] || c.whitlist == ["*"]) ||
    (if c.whitelist.isEmpty then c.whitlist else c.whitelist).any (fun a => a == "0.0.0.0" || a == ip.norm)

/-- last segment after the separator (`strings.Split(m, sep)[len-1]`), structurally on characters. -/
def lastSegL (cs : List Char) (sep : Char) : List Char :=
  cs.foldl (fun acc c => if c == sep then [] else acc ++ [c]) []

def lastSeg (m : String) (sep : Char) : String := String.ofList (lastSegL m.toList sep)

def jWLset (c : Cfg) : List String := if c.jWL.isEmpty then ["*"] else if c.jWL == ["*"] then ["*"] else c.jWL
def gWLset (c : Cfg) : List String := if c.gWL.isEmpty then ["*"] else if c.gWL == ["*"] then ["*"] else c.gWL
def jBLset (c : Cfg) : List String := if c.jBL.isEmpty then ["CloseQueue"] else c.jBL
def gBLset (c : Cfg) : List String := if c.gBL.isEmpty then ["CloseQueue"] else c.gBL

def jFuncOk (c : Cfg) (fn : String) : Bool :=
  !(jBLset c).contains fn && ((jWLset c).contains "*" || (jWLset c).contains fn)

def gFuncOk (c : Cfg) (fn : String) : Bool :=
  !(gBLset c).contains fn && ((gWLset c).contains "*" || (gWLset c).contains fn)

/-- what the client presented in the `Authorization` header after base64 decoding. -/
inductive Cred where
  | none                         -- no / malformed header
  | pair (u p : String)
  deriving Repr, DecidableEq

def authOk (c : Cfg) (cr : Cred) : Bool :=
  if c.user == "" && c.pass == "" then true
  else match cr with
    | .none => false
    | .pair u p => u == c.user && p == c.pass

/-- JSON-RPC middleware: does the request reach `ServeRequest` for `method`? -/
def jrpcReaches (c : Cfg) (ip : IP) (cr : Cred) (method : String) : Bool :=
  mainIPAdmit c ip && authOk c cr && (ip.isLoopback || jFuncOk c (lastSeg method '.'))

/-- gRPC unary interceptor over TCP peers (`isLoopBackAddr` only matches *net.IPNet, never a TCP peer,
so the function lists apply to loopback clients as well). -/
def grpcUnaryReaches (c : Cfg) (ip : IP) (fullMethod : String) : Bool :=
  mainIPAdmit c ip && gFuncOk c (lastSeg fullMethod '/')

/-- gRPC server-streaming methods: the stream interceptor releases loopback peers and runs the
unary gate for everybody else. -/
def grpcStreamReaches (c : Cfg) (ip : IP) (fullMethod : String) : Bool :=
  ip.isLoopback || grpcUnaryReaches c ip fullMethod

end C39
