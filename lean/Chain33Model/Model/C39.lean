/-
C39 — RPC access control: decision logic of rpc/server.go (InitIPWhitelist, checkIPWhitelist,
checkBasicAuth, func white/blacklists), rpc/http.go (JSON-RPC middleware, gRPC `auth`
interceptor) and rpc/ethrpc/rpc.go (httpServer.checkIPWhitelist).  Core Lean only.

Remote addresses are structured (what `net.ParseIP` + `To4` + `IsLoopback` make of the text):
the harness renders them to `RemoteAddr` strings, so the parsing itself is part of the tie.
-/
namespace C39

inductive IP where
  | v4 (a b c d : Nat)          -- dotted quad "a.b.c.d"
  | mapped (a b c d : Nat)      -- "::ffff:a.b.c.d" (To4 succeeds)
  | lo6                          -- "::1"
  | v6 (pre post : String)       -- any other IPv6 text `pre:post` (non-loopback, To4 = nil or unparseable
                                 -- zone-scoped text); compared as raw text.  An IPv6 host text always
                                 -- contains a colon, which the constructor makes structural.
  deriving Repr, DecidableEq

def IP.isLoopback : IP → Bool
  | .v4 a _ _ _ => a == 127
  | .mapped a _ _ _ => a == 127
  | .lo6 => true
  | .v6 _ _ => false

def dotted (a b c d : Nat) : String := a.repr ++ "." ++ b.repr ++ "." ++ c.repr ++ "." ++ d.repr

/-- the string that is looked up in the whitelist (`ipv4.String()` when To4 succeeds, else the raw text). -/
def IP.norm : IP → String
  | .v4 a b c d => dotted a b c d
  | .mapped a b c d => dotted a b c d
  | .lo6 => "::1"
  | .v6 pre post => pre ++ ":" ++ post

structure Cfg where
  whitelist : List String := []
  whitlist  : List String := []
  jWL : List String := []
  jBL : List String := []
  gWL : List String := []
  gBL : List String := []
  user : String := ""
  pass : String := ""
  deriving Repr

/-- the keys one call of `InitIPWhitelist` adds to the package map `remoteIPWhitelist`. -/
def ipEntries (c : Cfg) : List String :=
  if c.whitelist.isEmpty && c.whitlist.isEmpty then ["127.0.0.1"]
  else if c.whitelist == ["*"] then ["0.0.0.0"]
  else if c.whitlist == ["*"] then ["0.0.0.0"]
  else if !c.whitelist.isEmpty then c.whitelist     -- `return` after the first non-empty key:
  else c.whitlist                                    -- `whitlist` is only read when `whitelist` is empty

/-- `InitIPWhitelist` on an existing package map (the map is only ever added to, never cleared). -/
def ipAdd (s : List String) (c : Cfg) : List String := s ++ ipEntries c

/-- `InitIPWhitelist` starting from empty package maps. -/
def ipSet (c : Cfg) : List String := ipAdd [] c

/-- `checkIPWhitelist` against a given content of the package map. -/
def ipAdmitS (s : List String) (ip : IP) : Bool :=
  ip.isLoopback || s.contains "0.0.0.0" || s.contains ip.norm

/-- `checkIPWhitelist` of the JSON-RPC / gRPC endpoints. -/
def mainIPAdmit (c : Cfg) (ip : IP) : Bool := ipAdmitS (ipSet c) ip

/-- `httpServer.checkIPWhitelist` of the Ethereum-compatible endpoint: both keys empty admits
everybody; a lone `*` under either key is a wildcard; `whitelist` takes precedence over `whitlist`. -/
def ethIPAdmit (c : Cfg) (ip : IP) : Bool :=
  ip.isLoopback || (c.whitelist.isEmpty && c.whitlist.isEmpty) ||
    (c.whitelist == ["*"] || c.whitlist == ["*"]) ||
    (if c.whitelist.isEmpty then c.whitlist else c.whitelist).any (fun a => a == "0.0.0.0" || a == ip.norm)

/-- last segment after the separator (`strings.Split(m, sep)[len-1]`), structurally on characters. -/
def lastSegL (cs : List Char) (sep : Char) : List Char :=
  cs.foldl (fun acc c => if c == sep then [] else acc ++ [c]) []

def lastSeg (m : String) (sep : Char) : String := String.ofList (lastSegL m.toList sep)

def jWLset (c : Cfg) : List String := if c.jWL.isEmpty then ["*"] else if c.jWL == ["*"] then ["*"] else c.jWL
def gWLset (c : Cfg) : List String := if c.gWL.isEmpty then ["*"] else if c.gWL == ["*"] then ["*"] else c.gWL
def jBLset (c : Cfg) : List String := if c.jBL.isEmpty then ["CloseQueue"] else c.jBL
def gBLset (c : Cfg) : List String := if c.gBL.isEmpty then ["CloseQueue"] else c.gBL

def jFuncOk (c : Cfg) (fn : String) : Bool :=
  !(jBLset c).contains fn && ((jWLset c).contains "*" || (jWLset c).contains fn)

def gFuncOk (c : Cfg) (fn : String) : Bool :=
  !(gBLset c).contains fn && ((gWLset c).contains "*" || (gWLset c).contains fn)

/-- what the client presented in the `Authorization` header after base64 decoding. -/
inductive Cred where
  | none                         -- no / malformed header
  | pair (u p : String)
  deriving Repr, DecidableEq

def authOk (c : Cfg) (cr : Cred) : Bool :=
  if c.user == "" && c.pass == "" then true
  else match cr with
    | .none => false
    | .pair u p => u == c.user && p == c.pass

/-- JSON-RPC middleware: does the request reach `ServeRequest` for `method`? -/
def jrpcReaches (c : Cfg) (ip : IP) (cr : Cred) (method : String) : Bool :=
  mainIPAdmit c ip && authOk c cr && (ip.isLoopback || jFuncOk c (lastSeg method '.'))

/-- gRPC unary interceptor over TCP peers (`isLoopBackAddr` only matches *net.IPNet, never a TCP peer,
so the function lists apply to loopback clients as well). -/
def grpcUnaryReaches (c : Cfg) (ip : IP) (fullMethod : String) : Bool :=
  mainIPAdmit c ip && gFuncOk c (lastSeg fullMethod '/')

/-- a gRPC client may send credentials as request metadata (`authorization`); neither interceptor of
`NewGRpcServer` reads the metadata, so the outcome does not depend on them. -/
def grpcUnaryReachesCred (c : Cfg) (ip : IP) (_cr : Cred) (fullMethod : String) : Bool :=
  grpcUnaryReaches c ip fullMethod

/-- gRPC server-streaming methods: the stream interceptor releases loopback peers and runs the
unary gate for everybody else. -/
def grpcStreamReaches (c : Cfg) (ip : IP) (fullMethod : String) : Bool :=
  ip.isLoopback || grpcUnaryReaches c ip fullMethod

/-! ## Request bodies: what the gate and the dispatcher read from the same bytes

`rpc/http.go` decodes the body twice: the middleware with `json.Unmarshal` into `clientRequest`
(`parseJSONRpcParams`), and — after the method lists accepted the method found there — the
`net/rpc/jsonrpc` server codec with `Decoder.Decode` into its own `serverRequest`.  A body is modelled
after lexing: the ordered list of members of the top-level object (keys and string values unquoted),
each value classified by what matters to `encoding/json`'s struct decoding. -/

inductive JV where
  | str (s : String)     -- JSON string
  | null
  | uint (n : Nat)       -- non-negative integer literal
  | arr                  -- array
  | other                -- object, boolean, negative / fractional / exponent number
  deriving Repr, DecidableEq

inductive Body where
  | obj (members : List (String × JV))
  | null                 -- the literal `null`: decoding it into a struct is a no-op
  | other                -- any other top-level value
  deriving Repr

/-- Go types of the struct fields involved. -/
inductive FTy where
  | string | arr1 /- `[1]interface{}` -/ | uint64 | raw /- `*json.RawMessage` -/
  deriving Repr, DecidableEq

structure Field where
  name : String          -- the `json:"…"` tag
  ty : FTy
  deriving Repr

/-- `clientRequest` of rpc/http.go. -/
def clientRequest : List Field := [⟨"method", .string⟩, ⟨"params", .arr1⟩, ⟨"id", .uint64⟩]
/-- `serverRequest` of net/rpc/jsonrpc/server.go. -/
def serverRequest : List Field := [⟨"method", .string⟩, ⟨"params", .raw⟩, ⟨"id", .raw⟩]

/-- `foldRune` of encoding/json on the runes that can matter for ASCII field names: ASCII letters fold to
upper case; U+017F (long s) and U+212A (Kelvin sign) are the only non-ASCII runes whose simple-fold orbit
contains an ASCII letter. Other runes never match an ASCII name and are left alone. -/
def foldChar (c : Char) : Char :=
  if 'a' ≤ c ∧ c ≤ 'z' then Char.ofNat (c.toNat - 32)
  else if c = Char.ofNat 0x17F then 'S'
  else if c = Char.ofNat 0x212A then 'K'
  else c

def foldKey (s : String) : String := String.ofList (s.toList.map foldChar)

/-- `fields.byExactName[key]`, else `fields.byFoldedName[foldName(key)]` (first field of a fold class). -/
def findField (fs : List Field) (key : String) : Option Field :=
  match fs.find? (fun f => f.name == key) with
  | some f => some f
  | none => fs.find? (fun f => foldKey f.name == foldKey key)

/-- effect of decoding one member value into a field. -/
inductive Store where
  | keep | set (v : JV) | clear | err
  deriving Repr, DecidableEq

/-- `d.value(subv)`: `null` leaves non-pointer fields alone and nils a pointer; a value of the wrong kind
records an `UnmarshalTypeError` (decoding continues, the call returns the error at the end). -/
def store : FTy → JV → Store
  | .raw, .null => .clear
  | .raw, v => .set v
  | _, .null => .keep
  | .string, .str s => .set (.str s)
  | .arr1, .arr => .set .arr
  | .uint64, .uint n => if n < 2 ^ 64 then .set (.uint n) else .err
  | _, _ => .err

def stepField (fs : List Field) (target : String) (cur : Option JV) (kv : String × JV) : Option JV :=
  match findField fs kv.1 with
  | some f =>
    if f.name == target then
      match store f.ty kv.2 with
      | .set x => some x
      | .clear => none
      | _ => cur
    else cur
  | none => cur

/-- content of the field tagged `target` after all members were decoded in order (later members overwrite). -/
def fieldVal (fs : List Field) (target : String) (ms : List (String × JV)) : Option JV :=
  ms.foldl (stepField fs target) none

def memberBad (fs : List Field) (kv : String × JV) : Bool :=
  match findField fs kv.1 with
  | some f => store f.ty kv.2 == .err
  | none => false

/-- some member raised a type error: `Unmarshal` / `Decode` return an error. -/
def decodeBad (fs : List Field) (ms : List (String × JV)) : Bool := ms.any (memberBad fs)

/-- the `Method` field (a Go string, zero value `""`). -/
def methodOf (fs : List Field) (ms : List (String × JV)) : String :=
  match fieldVal fs "method" ms with
  | some (.str s) => s
  | _ => ""

def decodeMethod (fs : List Field) : Body → Option String
  | .obj ms => if decodeBad fs ms then none else some (methodOf fs ms)
  | .null => some ""
  | .other => none

/-- `parseJSONRpcParams(data).Method`; `none` = "invalid json request". -/
def gateMethod (b : Body) : Option String := decodeMethod clientRequest b
/-- `req.ServiceMethod` after `serverCodec.ReadRequestHeader`; `none` = decode error, nothing is dispatched. -/
def dispatchMethod (b : Body) : Option String := decodeMethod serverRequest b

/-- `net/rpc` `readRequestHeader`: `dot := strings.LastIndex(ServiceMethod, ".")`; no dot = ill-formed request,
else the receiver method looked up is `ServiceMethod[dot+1:]`. -/
def afterLastDot : List Char → Option (List Char)
  | [] => none
  | c :: cs =>
    match afterLastDot cs with
    | some r => some r
    | none => if c == '.' then some cs else none

def rpcMethodName (m : String) : Option String := (afterLastDot m.toList).map String.ofList

/-- `c.req.Params != nil` in `ReadRequestBody` (a missing / nulled `params` aborts the call before the method runs). -/
def dispatchHasParams : Body → Bool
  | .obj ms => (fieldVal serverRequest "params" ms).isSome
  | _ => false

/-- JSON-RPC middleware on a request body: the `ServiceMethod` handed to `net/rpc` (`none`: the request was
stopped by the middleware or the codec).  The method lists judge the method the *gate* decoded; what is
dispatched is the method the *codec* decoded. -/
def jrpcServes (c : Cfg) (ip : IP) (cr : Cred) (b : Body) : Option String :=
  if !(mainIPAdmit c ip && authOk c cr) then none
  else match gateMethod b with
    | none => none
    | some g => if ip.isLoopback || jFuncOk c (lastSeg g '.') then dispatchMethod b else none

end C39
