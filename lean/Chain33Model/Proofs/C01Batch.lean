import Chain33Model.Proofs.C01Iter
/-! Batches and histories of batches: refinement to the sorted-map specification. -/
namespace C01
open Node

/-- tree-level invariant (`nil` root = empty tree). -/
def TInv : Tree → Prop
  | none => True
  | some n => ST n ∧ WF n

theorem Tree.set_spec (t : Tree) (k v : Bytes) (hi : TInv t) :
    ∃ t' u, Tree.set t k v = some (t', u) ∧ Tree.toList t' = SMap.ins k v (Tree.toList t) ∧ TInv t' := by
  cases t with
  | none => exact ⟨_, _, rfl, rfl, trivial, trivial⟩
  | some n =>
    obtain ⟨hst, hwf⟩ := hi
    obtain ⟨n', u, e, hl, hst'⟩ := C01.set_spec n k v hst
    obtain ⟨hwf', _, _⟩ := set_WF n k v hwf n' u e
    exact ⟨some n', u, by simp [Tree.set, e], hl, hst', hwf'⟩

theorem Tree.setMany_spec (t : Tree) (kvs : List (Bytes × Bytes)) (hi : TInv t) :
    ∃ t', Tree.setMany t kvs = some t' ∧ Tree.toList t' = SMap.insMany (Tree.toList t) kvs ∧ TInv t' := by
  induction kvs generalizing t with
  | nil => exact ⟨t, rfl, rfl, hi⟩
  | cons kv rest ih =>
    obtain ⟨k, v⟩ := kv
    obtain ⟨t1, u, e, hl, hi1⟩ := Tree.set_spec t k v hi
    obtain ⟨t2, e2, hl2, hi2⟩ := ih t1 hi1
    refine ⟨t2, by simp [Tree.setMany, e, e2], ?_, hi2⟩
    rw [hl2, hl]; rfl

theorem Tree.get_eq_lookup (t : Tree) (k : Bytes) (hi : TInv t) :
    (Tree.get t k).2 = SMap.lookup k (Tree.toList t) := by
  cases t with
  | none => rfl
  | some n => exact C01.get_eq_lookup n k hi.1

/-- the value of the most recent write to `k` in an ordered list of writes. -/
def lastWrite (kvs : List (Bytes × Bytes)) (k : Bytes) : Option Bytes :=
  (kvs.reverse.find? (fun kv => kv.1 = k)).map (·.2)

theorem lastWrite_cons (a : Bytes × Bytes) (rest : List (Bytes × Bytes)) (k : Bytes) :
    lastWrite (a :: rest) k = (lastWrite rest k).orElse (fun _ => if k = a.1 then some a.2 else none) := by
  unfold lastWrite
  simp only [List.reverse_cons, List.find?_append, List.find?_cons, List.find?_nil]
  cases h : rest.reverse.find? (fun kv => kv.1 = k) with
  | some x => simp
  | none =>
    by_cases hk : k = a.1
    · subst hk; simp
    · have : ¬ a.1 = k := fun e => hk e.symm
      simp [hk, this]

theorem lookup_insMany (m : SMap) (kvs : List (Bytes × Bytes)) (k : Bytes) :
    SMap.lookup k (SMap.insMany m kvs) = (lastWrite kvs k).orElse (fun _ => SMap.lookup k m) := by
  induction kvs generalizing m with
  | nil => simp [SMap.insMany, lastWrite]
  | cons a rest ih =>
    obtain ⟨k', v'⟩ := a
    have := ih (SMap.ins k' v' m)
    simp only [SMap.insMany, List.foldl_cons] at this ⊢
    rw [this, lastWrite_cons, SMap.lookup_ins]
    cases lastWrite rest k with
    | some x => simp
    | none => by_cases hk : k = k' <;> simp [hk]

/-- apply a history of batches one after the other (each batch = one `SetKVPair` on the previous tree). -/
def applyBatches : Tree → List (List (Bytes × Bytes)) → Option Tree
  | t, [] => some t
  | t, b :: bs =>
    match Tree.setMany t b with
    | none => none
    | some t' => applyBatches t' bs

theorem applyBatches_spec (t : Tree) (bs : List (List (Bytes × Bytes))) (hi : TInv t) :
    ∃ t', applyBatches t bs = some t' ∧ Tree.toList t' = SMap.insMany (Tree.toList t) bs.flatten ∧ TInv t' := by
  induction bs generalizing t with
  | nil => exact ⟨t, rfl, rfl, hi⟩
  | cons b rest ih =>
    obtain ⟨t1, e1, hl1, hi1⟩ := Tree.setMany_spec t b hi
    obtain ⟨t2, e2, hl2, hi2⟩ := ih t1 hi1
    refine ⟨t2, by simp [applyBatches, e1, e2], ?_, hi2⟩
    rw [hl2, hl1]
    simp [SMap.insMany, List.foldl_append]

end C01
