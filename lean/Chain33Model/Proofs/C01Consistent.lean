import Chain33Model.Proofs.C01KeyMin
import Chain33Model.Proofs.C01Store
import Chain33Model.Proofs.C03Member
/-! `Consistent` (no database key receives two different records) from the explicit collision disjunct, for stores
without the height prefix: there a node's key *is* the hash of its content, and the record written under it is a
function of that content (the inner key, which is not hashed, is the leftmost key of the right subtree: `KeyMin`). -/
namespace C01
open C02 C03 Node

theorem minKey_erase (n : Node) : minKey (erase n) = minKey n := by
  induction n with
  | leaf k v m => rfl
  | inner k h s l r m ihl _ => simpa [erase, minKey] using ihl

theorem eq_or_collisionIn {H : Bytes → Bytes} {x y : Bytes} (h : H x = H y) : x = y ∨ CollisionIn H [x, y] := by
  by_cases e : x = y
  · exact Or.inl e
  · exact Or.inr ⟨x, by simp, y, by simp, e, h⟩

/-- the pre-image hashed at the top of a tree. -/
def topEnc (H : Bytes → Bytes) : Node → Bytes
  | .leaf k v _ => leafEnc k v
  | .inner _ ht sz l r _ => innerEnc (pureHash H l) (pureHash H r) ht sz

theorem topEnc_mem (H : Bytes → Bytes) (n : Node) : topEnc H n ∈ treeTrace H n := by
  cases n <;> simp [topEnc, treeTrace]

theorem collisionIn_top {H : Bytes → Bytes} {n m : Node} (c : CollisionIn H [topEnc H n, topEnc H m]) :
    CollisionIn H (treeTrace H n ++ treeTrace H m) :=
  c.mono (by
    intro z hz
    simp only [List.mem_cons, List.mem_nil_iff, or_false] at hz
    rcases hz with rfl | rfl
    · exact List.mem_append_left _ (topEnc_mem H n)
    · exact List.mem_append_right _ (topEnc_mem H m))

/-- **Merkle binding**: equal hashes ⇒ equal abstract trees, or a collision between two of the strings hashed in
the two trees. -/
theorem pureHash_inj {H : Bytes → Bytes} (hlen : ∀ x, (H x).length = 32) :
    ∀ (n m : Node), Shape n → Shape m → KeyMin n → KeyMin m → pureHash H n = pureHash H m →
      erase n = erase m ∨ CollisionIn H (treeTrace H n ++ treeTrace H m) := by
  intro n
  induction n with
  | leaf k v mt =>
    intro m _ sm _ _ e
    cases m with
    | leaf k' v' mt' =>
      simp only [pureHash] at e
      rcases eq_or_collisionIn e with e' | c
      · obtain ⟨rfl, rfl⟩ := leafEnc_inj e'; exact Or.inl rfl
      · exact Or.inr (collisionIn_top (n := .leaf k v mt) (m := .leaf k' v' mt') c)
    | inner k' ht sz l r mt' =>
      simp only [pureHash] at e
      rcases eq_or_collisionIn e with e' | c
      · exfalso
        obtain ⟨_, _, b1, _⟩ := sm
        rw [leafEnc_eq_encXY, innerEnc_eq_encXY] at e'
        have := (encXY_inj (h := 0) (s := 1) (h' := (ht : Int)) (s' := (sz : Int)) (by omega) (by omega) (by omega) (by omega) e').2.2.1
        omega
      · exact Or.inr (collisionIn_top (n := .leaf k v mt) (m := .inner k' ht sz l r mt') c)
  | inner k ht sz l r mt ihl ihr =>
    intro m sn sm kn km e
    obtain ⟨sl, sr, b1, _⟩ := sn
    obtain ⟨kl, kr, ke⟩ := kn
    cases m with
    | leaf k' v' mt' =>
      simp only [pureHash] at e
      rcases eq_or_collisionIn e with e' | c
      · exfalso
        rw [leafEnc_eq_encXY, innerEnc_eq_encXY] at e'
        have := (encXY_inj (h := (ht : Int)) (s := (sz : Int)) (h' := 0) (s' := 1) (by omega) (by omega) (by omega) (by omega) e').2.2.1
        omega
      · exact Or.inr (collisionIn_top (n := .inner k ht sz l r mt) (m := .leaf k' v' mt') c)
    | inner k' ht' sz' l' r' mt' =>
      obtain ⟨sl', sr', _, _⟩ := sm
      obtain ⟨kl', kr', ke'⟩ := km
      simp only [pureHash] at e
      rcases eq_or_collisionIn e with e' | c
      · rw [innerEnc_eq_encXY, innerEnc_eq_encXY, last32_of_length (pureHash_length hlen l),
          last32_of_length (pureHash_length hlen r), last32_of_length (pureHash_length hlen l'),
          last32_of_length (pureHash_length hlen r')] at e'
        obtain ⟨e1, e2, e3, e4⟩ := encXY_inj (h := (ht : Int)) (s := (sz : Int)) (h' := (ht' : Int)) (s' := (sz' : Int))
          (by omega) (by omega) (by omega) (by omega) e'
        rcases ihl l' sl sl' kl kl' e1 with el | c
        · rcases ihr r' sr sr' kr kr' e2 with er | c
          · left
            have hk : k = k' := by rw [ke, ke', ← minKey_erase r, er, minKey_erase]
            have h3 : ht = ht' := by omega
            have h4 : sz = sz' := by omega
            simp [erase, el, er, hk, h3, h4]
          · exact Or.inr (c.mono (by
              intro z hz
              simp only [treeTrace, List.mem_append, List.mem_cons] at hz ⊢
              rcases hz with h | h <;> simp [h]))
        · exact Or.inr (c.mono (by
            intro z hz
            simp only [treeTrace, List.mem_append, List.mem_cons] at hz ⊢
            rcases hz with h | h <;> simp [h]))
      · exact Or.inr (collisionIn_top (n := .inner k ht sz l r mt) (m := .inner k' ht' sz' l' r' mt') c)

/-- every node's key is exactly the hash of its content (a store without the height prefix). -/
def PH (H : Bytes → Bytes) : Node → Prop
  | .leaf k v m => m.hk = some (H (leafEnc k v))
  | .inner k ht sz l r m => PH H l ∧ PH H r ∧ m.hk = some (pureHash H (.inner k ht sz l r m))

theorem PH.hk {H : Bytes → Bytes} {n : Node} (h : PH H n) : n.info.hk = some (pureHash H n) := by
  cases n with
  | leaf k v m => exact h
  | inner k ht sz l r m => exact h.2.2

/-- the record `SaveNode` writes for a node, as a function of its content. -/
def recOf (H : Bytes → Bytes) (cfg : Cfg) : Node → Bytes
  | .leaf k v _ => storeRec cfg k v [] [] 0 1
  | .inner k ht sz l r _ => storeRec cfg k [] (pureHash H l) (pureHash H r) ht sz

theorem recOf_erase (H : Bytes → Bytes) (cfg : Cfg) (n : Node) : recOf H cfg (erase n) = recOf H cfg n := by
  cases n with
  | leaf k v m => rfl
  | inner k ht sz l r m => simp [erase, recOf, pureHash_erase]

/-- all nodes of a tree (the node itself first). -/
def subnodes : Node → List Node
  | .leaf k v m => [.leaf k v m]
  | .inner k ht sz l r m => .inner k ht sz l r m :: (subnodes l ++ subnodes r)

theorem subnodes_props {H : Bytes → Bytes} (n : Node) (hp : PH H n) (hs : Shape n) (hk : KeyMin n) :
    ∀ s ∈ subnodes n, PH H s ∧ Shape s ∧ KeyMin s := by
  induction n with
  | leaf k v m => intro s h; simp [subnodes] at h; subst h; exact ⟨hp, hs, hk⟩
  | inner k ht sz l r m ihl ihr =>
    intro s h
    simp only [subnodes, List.mem_cons, List.mem_append] at h
    rcases h with rfl | h | h
    · exact ⟨hp, hs, hk⟩
    · exact ihl hp.1 hs.1 hk.1 s h
    · exact ihr hp.2.1 hs.2.1 hk.2.1 s h

/-- every pair `save` writes is (hash, record) of a node of the tree. -/
theorem writes_sub {H : Bytes → Bytes} (cfg : Cfg) (n : Node) (hp : PH H n) :
    ∀ ws, writes cfg n = some ws → ∀ p ∈ ws, ∃ s ∈ subnodes n, p = (pureHash H s, recOf H cfg s) := by
  induction n with
  | leaf k v m =>
    intro ws hw p hpm
    simp only [writes, show m.hk = some (H (leafEnc k v)) from hp] at hw
    split at hw
    · simp at hw; subst hw; simp at hpm
    · simp at hw; subst hw
      simp at hpm; subst hpm
      exact ⟨.leaf k v m, by simp [subnodes], rfl⟩
  | inner k ht sz l r m ihl ihr =>
    intro ws hw p hpm
    obtain ⟨pl, pr, ph⟩ := hp
    simp only [writes, ph] at hw
    split at hw
    · simp at hw; subst hw; simp at hpm
    · rw [pl.hk, pr.hk] at hw
      cases hwl : writes cfg l with
      | none => simp [hwl] at hw
      | some wl =>
        cases hwr : writes cfg r with
        | none => simp [hwl, hwr] at hw
        | some wr =>
          simp [hwl, hwr] at hw
          subst hw
          simp only [List.mem_append, List.mem_singleton] at hpm
          rcases hpm with h | h | h
          · obtain ⟨s, hs, e⟩ := ihl pl wl hwl p h
            exact ⟨s, by simp [subnodes, hs], e⟩
          · obtain ⟨s, hs, e⟩ := ihr pr wr hwr p h
            exact ⟨s, by simp [subnodes, hs], e⟩
          · subst h
            exact ⟨.inner k ht sz l r m, by simp [subnodes], rfl⟩

theorem treeTrace_sub (H : Bytes → Bytes) (n : Node) : ∀ s ∈ subnodes n, ∀ x ∈ treeTrace H s, x ∈ treeTrace H n := by
  induction n with
  | leaf k v m => intro s h; simp [subnodes] at h; subst h; exact fun x hx => hx
  | inner k ht sz l r m ihl ihr =>
    intro s h x hx
    simp only [subnodes, List.mem_cons, List.mem_append] at h
    rcases h with rfl | h | h
    · exact hx
    · simp [treeTrace, ihl s h x hx]
    · simp [treeTrace, ihr s h x hx]

/-- the strings hashed in a list of trees. -/
def tracesOf (H : Bytes → Bytes) (W : List Node) : List Bytes := W.flatMap (treeTrace H)

theorem tracesOf_mem {H : Bytes → Bytes} {W : List Node} {s : Node} (h : s ∈ W) :
    ∀ x ∈ treeTrace H s, x ∈ tracesOf H W := by
  intro x hx; exact List.mem_flatMap.mpr ⟨s, h, hx⟩

/-- every record of the database is the record of a well-formed node from the explicit list `W` (the nodes saved
so far), stored under that node's hash. -/
def DBInv (H : Bytes → Bytes) (cfg : Cfg) (db : NodeDB) (W : List Node) : Prop :=
  ∀ (k v : Bytes), db[k]? = some v → ∃ s ∈ W, Shape s ∧ KeyMin s ∧ k = pureHash H s ∧ v = recOf H cfg s

theorem DBInv.mono {H : Bytes → Bytes} {cfg : Cfg} {db : NodeDB} {W W' : List Node} (h : DBInv H cfg db W)
    (hs : ∀ s ∈ W, s ∈ W') : DBInv H cfg db W' := by
  intro k v hv
  obtain ⟨s, m, rest⟩ := h k v hv
  exact ⟨s, hs s m, rest⟩

theorem rec_eq_of_hash_eq {H : Bytes → Bytes} (hlen : ∀ x, (H x).length = 32) (cfg : Cfg)
    (a b : Node) (sa : Shape a) (sb : Shape b) (ka : KeyMin a) (kb : KeyMin b)
    (e : pureHash H a = pureHash H b) :
    recOf H cfg a = recOf H cfg b ∨ CollisionIn H (treeTrace H a ++ treeTrace H b) := by
  rcases pureHash_inj hlen a b sa sb ka kb e with h | c
  · left; rw [← recOf_erase H cfg a, h, recOf_erase]
  · exact Or.inr c

/-- **`Consistent` or a collision** among the strings hashed in the tree being saved and in the trees saved before. -/
theorem consistent_or_collision {H : Bytes → Bytes} (hlen : ∀ x, (H x).length = 32) (cfg : Cfg) (n : Node)
    (hp : PH H n) (hs : Shape n) (hk : KeyMin n) (db : NodeDB) (W : List Node) (hdb : DBInv H cfg db W)
    (ws : List (Bytes × Bytes)) (hw : writes cfg n = some ws) :
    Consistent ws db ∨ CollisionIn H (treeTrace H n ++ tracesOf H W) := by
  by_cases hnc : CollisionIn H (treeTrace H n ++ tracesOf H W)
  · exact Or.inr hnc
  · left
    have hsub := writes_sub cfg n hp ws hw
    have hprops := subnodes_props n hp hs hk
    refine ⟨?_, ?_⟩
    · intro p hpm q hqm e
      obtain ⟨s1, m1, rfl⟩ := hsub p hpm
      obtain ⟨s2, m2, rfl⟩ := hsub q hqm
      obtain ⟨_, a2, a3⟩ := hprops s1 m1
      obtain ⟨_, b2, b3⟩ := hprops s2 m2
      rcases rec_eq_of_hash_eq hlen cfg s1 s2 a2 b2 a3 b3 e with h | c
      · exact h
      · exact absurd (c.mono (by
          intro z hz
          rcases List.mem_append.mp hz with h | h
          · exact List.mem_append_left _ (treeTrace_sub H n s1 m1 z h)
          · exact List.mem_append_left _ (treeTrace_sub H n s2 m2 z h))) hnc
    · intro p hpm v hv
      obtain ⟨s1, m1, rfl⟩ := hsub p hpm
      obtain ⟨_, a2, a3⟩ := hprops s1 m1
      obtain ⟨s2, mw, b2, b3, e, rfl⟩ := hdb _ v hv
      rcases rec_eq_of_hash_eq hlen cfg s2 s1 b2 a2 b3 a3 e.symm with h | c
      · exact h
      · exact absurd (c.mono (by
          intro z hz
          rcases List.mem_append.mp hz with h | h
          · exact List.mem_append_right _ (tracesOf_mem mw z h)
          · exact List.mem_append_left _ (treeTrace_sub H n s1 m1 z h))) hnc

/-- the database invariant is kept by `save`. -/
theorem dbinv_insertAll {H : Bytes → Bytes} (cfg : Cfg) (W : List Node) (ws : List (Bytes × Bytes)) :
    ∀ db, DBInv H cfg db W → (∀ p ∈ ws, ∃ s ∈ W, Shape s ∧ KeyMin s ∧ p = (pureHash H s, recOf H cfg s)) →
      DBInv H cfg (insertAll db ws) W := by
  induction ws with
  | nil => intro db h _; exact h
  | cons w rest ih =>
    intro db h hw
    apply ih
    · intro k v hv
      rw [Std.HashMap.getElem?_insert] at hv
      by_cases e : w.1 = k
      · simp [e] at hv
        obtain ⟨s, m, a, b, c⟩ := hw w (by simp)
        exact ⟨s, m, a, b, by rw [← e, c], by rw [← hv, c]⟩
      · have : (w.1 == k) = false := by simpa using e
        simp [this] at hv
        exact h k v hv
    · intro p hp; exact hw p (by simp [hp])

/-- **load_save, full** (store without height prefix): saving a tree whose keys are the hashes of its content into a
database that only holds such records (of the nodes `W`) makes it loadable, keeps every earlier record, keeps the
database invariant (for `W ++ subnodes n`) — or two of the strings hashed in the tree and in `W` collide.
No `Consistent` hypothesis. -/
theorem load_save_full {H : Bytes → Bytes} (hlen : ∀ x, (H x).length = 32) (cfg : Cfg) (n n' : Node) (db db' : NodeDB)
    (W : List Node)
    (hsave : save cfg n db = some (n', db')) (hp : PH H n) (hs : Shape n) (hk : KeyMin n) (hdb : DBInv H cfg db W)
    (hps : PersistedStored cfg db n) (hf : FitsRec n)
    (fuel : Nat) (top : Bool) (hd : depth n < fuel) :
    (load db' fuel top (pureHash H n) = .ok (asLoaded cfg n) ∧ Sub db db' ∧ Stored cfg db' n' ∧
      DBInv H cfg db' (W ++ subnodes n)) ∨
      CollisionIn H (treeTrace H n ++ tracesOf H W) := by
  obtain ⟨ws, hw, _, hdb'⟩ := save_eq cfg n db n' db' hsave
  rcases consistent_or_collision hlen cfg n hp hs hk db W hdb ws hw with hc | c
  · left
    obtain ⟨a, b, c⟩ := load_save cfg n n' db db' hsave hps hf (fun ws' hw' => by rw [hw] at hw'; cases hw'; exact hc)
      (pureHash H n) hp.hk fuel top hd
    refine ⟨a, b, c, ?_⟩
    rw [hdb']
    apply dbinv_insertAll cfg (W ++ subnodes n) ws db (hdb.mono (fun s h => List.mem_append_left _ h))
    intro p hpm
    obtain ⟨s, ms, e⟩ := writes_sub cfg n hp ws hw p hpm
    obtain ⟨_, s2, s3⟩ := subnodes_props n hp hs hk s ms
    exact ⟨s, List.mem_append_right _ ms, s2, s3, e⟩
  · exact Or.inr c

/-! ### how `PH` is established: `Node.Hash` without the height prefix, on a tree whose untouched parts are `PH` -/

/-- "content-keyed or fresh". -/
def PHoF (H : Bytes → Bytes) : Node → Prop
  | .leaf k v m => m.hk = none ∨ PH H (.leaf k v m)
  | .inner k ht sz l r m => (m.hk = none ∧ PHoF H l ∧ PHoF H r) ∨ PH H (.inner k ht sz l r m)

theorem phoF_of_PH {H : Bytes → Bytes} {t : Node} (h : PH H t) : PHoF H t := by
  cases t <;> exact Or.inr h

theorem PHoF.children {H : Bytes → Bytes} {k : Bytes} {ht sz : Nat} {l r : Node} {m : Meta}
    (h : PHoF H (.inner k ht sz l r m)) : PHoF H l ∧ PHoF H r := by
  rcases h with ⟨_, hl, hr⟩ | hh
  · exact ⟨hl, hr⟩
  · exact ⟨phoF_of_PH hh.1, phoF_of_PH hh.2.1⟩

theorem PHoF.mk {H : Bytes → Bytes} {k : Bytes} {l r : Node} (hl : PHoF H l) (hr : PHoF H r) :
    PHoF H (Node.mk k l r) := Or.inl ⟨rfl, hl, hr⟩

/-- without the prefix `Node.Hash` keys every node by the hash of its content. -/
theorem hashNode_PH {H : Bytes → Bytes} (cfg : Cfg) (hpf : cfg.pfx = false) (bh rh : Nat) (t : Node)
    (hf : PHoF H t) :
    PH H (hashNode H cfg bh rh t).1 ∧ (hashNode H cfg bh rh t).2 = pureHash H t ∧
      pureHash H (hashNode H cfg bh rh t).1 = pureHash H t := by
  induction t with
  | leaf k v m =>
    cases hm : m.hk with
    | some h =>
      have hh : PH H (.leaf k v m) := by
        rcases hf with h0 | hh
        · rw [hm] at h0; cases h0
        · exact hh
      have : h = H (leafEnc k v) := by have := hh; simp only [PH, hm] at this; exact Option.some.inj this
      simp only [hashNode, hm]
      exact ⟨hh, this, trivial⟩
    | none =>
      simp only [hashNode, hm, hpf, Bool.false_and, Bool.false_eq_true, if_false]
      exact ⟨rfl, rfl, rfl⟩
  | inner k ht sz l r m ihl ihr =>
    cases hm : m.hk with
    | some h =>
      have hh : PH H (.inner k ht sz l r m) := by
        rcases hf with ⟨h0, _, _⟩ | hh
        · rw [hm] at h0; cases h0
        · exact hh
      have : h = pureHash H (.inner k ht sz l r m) := by
        have := hh.2.2; rw [hm] at this; exact Option.some.inj this
      simp only [hashNode, hm]
      exact ⟨hh, this, trivial⟩
    | none =>
      obtain ⟨hfl, hfr⟩ := hf.children
      obtain ⟨a1, a2, a3⟩ := ihl hfl
      obtain ⟨b1, b2, b3⟩ := ihr hfr
      simp only [hashNode, hm, hpf, Bool.false_and, Bool.false_eq_true, if_false]
      generalize hashNode H cfg bh rh l = pl at a1 a2 a3
      generalize hashNode H cfg bh rh r = pr at b1 b2 b3
      obtain ⟨l', lh⟩ := pl
      obtain ⟨r', rhh⟩ := pr
      simp only at a1 a2 a3 b1 b2 b3 ⊢
      subst a2 b2
      refine ⟨⟨a1, b1, ?_⟩, rfl, ?_⟩
      · simp [pureHash, a3, b3]
      · simp [pureHash, a3, b3]

theorem BalCase.phoF {H : Bytes → Bytes} {k h s l r m n'} (hc : BalCase k h s l r m n')
    (hl : PHoF H l) (hr : PHoF H r) (hm : m.hk = Option.none) : PHoF H n' := by
  cases hc with
  | none => exact Or.inl ⟨hm, hl, hr⟩
  | ll lk lh ls ll lr lm e _ _ =>
    subst e; obtain ⟨a, b⟩ := hl.children
    exact PHoF.mk a (PHoF.mk b hr)
  | lr lk lh ls ll lm lrk lrh lrs lrl lrr lrm e _ _ =>
    subst e; obtain ⟨a, b⟩ := hl.children; obtain ⟨c, d⟩ := b.children
    exact PHoF.mk (PHoF.mk a c) (PHoF.mk d hr)
  | rr rk rh rs rl rr rm e _ _ =>
    subst e; obtain ⟨a, b⟩ := hr.children
    exact PHoF.mk (PHoF.mk hl a) b
  | rl rk rh rs rr rm rlk rlh rls rll rlr rlm e _ _ =>
    subst e; obtain ⟨a, b⟩ := hr.children; obtain ⟨c, d⟩ := a.children
    exact PHoF.mk (PHoF.mk hl c) (PHoF.mk d b)

theorem set_phoF {H : Bytes → Bytes} (t : Node) (k v : Bytes) (hf : PHoF H t) :
    ∀ t' u, t.set k v = some (t', u) → PHoF H t' := by
  induction t with
  | leaf nk nv m =>
    intro t' u e
    simp only [Node.set] at e
    split at e <;> (simp at e; obtain ⟨rfl, rfl⟩ := e)
    · exact Or.inl ⟨rfl, Or.inl rfl, hf⟩
    · exact Or.inl rfl
    · exact Or.inl ⟨rfl, hf, Or.inl rfl⟩
  | inner nk h s l r m ihl ihr =>
    obtain ⟨hl, hr⟩ := hf.children
    intro t' u e
    simp only [Node.set] at e
    split at e
    · cases hs : l.set k v with
      | none => simp [hs] at e
      | some p =>
        obtain ⟨l', ul⟩ := p
        have hl' := ihl hl l' ul hs
        rw [hs] at e
        cases ul with
        | true => simp at e; obtain ⟨rfl, rfl⟩ := e; exact Or.inl ⟨rfl, hl', hr⟩
        | false =>
          obtain ⟨n', hb, hc⟩ := balance_cases nk (max l'.height r.height + 1) (l'.size + r.size) l' r Meta.fresh
          simp only [Node.mk, hb, Option.map_some] at e
          simp at e; obtain ⟨rfl, rfl⟩ := e
          exact BalCase.phoF hc hl' hr rfl
    · cases hs : r.set k v with
      | none => simp [hs] at e
      | some p =>
        obtain ⟨r', ur⟩ := p
        have hr' := ihr hr r' ur hs
        rw [hs] at e
        cases ur with
        | true => simp at e; obtain ⟨rfl, rfl⟩ := e; exact Or.inl ⟨rfl, hl, hr'⟩
        | false =>
          obtain ⟨n', hb, hc⟩ := balance_cases nk (max l.height r'.height + 1) (l.size + r'.size) l r' Meta.fresh
          simp only [Node.mk, hb, Option.map_some] at e
          simp at e; obtain ⟨rfl, rfl⟩ := e
          exact BalCase.phoF hc hl hr' rfl

end C01
