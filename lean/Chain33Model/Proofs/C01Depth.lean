import Chain33Model.Proofs.C01Store
import Chain33Model.Proofs.C01Tree
import Chain33Model.Proofs.C01Consistent
/-! The recursion budget of `load` is never exhausted on a tree the store can hold: a balanced tree with fewer than
2^31 leaves is lower than `loadFuel`. -/
namespace C01
open Node

theorem depth_eq_height (n : Node) (hw : WF n) : depth n = n.height := by
  induction n with
  | leaf k v m => rfl
  | inner k h s l r m ihl ihr =>
    obtain ⟨wl, wr, eh, _, _, _⟩ := hw
    simp only [depth, Node.height, ihl wl, ihr wr, eh]

/-- an AVL tree of height `h` has at least `2^(h/2)` leaves. -/
theorem avl_size (n : Node) (hw : WF n) : 2 ^ (n.height / 2) ≤ n.size := by
  induction n with
  | leaf k v m => simp [Node.height, Node.size]
  | inner k h s l r m ihl ihr =>
    obtain ⟨wl, wr, eh, es, b1, b2⟩ := hw
    have il := ihl wl
    have ir := ihr wr
    simp only [Node.height, Node.size]
    have ha1 : (max l.height r.height - 1) / 2 ≤ l.height / 2 := by omega
    have ha2 : (max l.height r.height - 1) / 2 ≤ r.height / 2 := by omega
    have p1 := Nat.pow_le_pow_right (show 0 < 2 by omega) ha1
    have p2 := Nat.pow_le_pow_right (show 0 < 2 by omega) ha2
    have hh : h / 2 ≤ (max l.height r.height - 1) / 2 + 1 := by omega
    have p3 := Nat.pow_le_pow_right (show 0 < 2 by omega) hh
    rw [Nat.pow_succ] at p3
    omega

/-- **depth_lt_loadFuel** — a balanced tree whose stored size fits an int32 (`FitsRec`) is lower than the
recursion budget of `load`. -/
theorem depth_lt_loadFuel_aux (n : Node) (hw : WF n) (hf : FitsRec n) : depth n < loadFuel := by
  rw [depth_eq_height n hw]
  cases n with
  | leaf k v m => simp [Node.height, loadFuel]
  | inner k h s l r m =>
    have hs : s < 2 ^ 31 := hf.2.2.2.2.2.1
    have ha := avl_size _ hw
    simp only [Node.height, Node.size] at ha ⊢
    unfold loadFuel
    by_cases hc : h < 100
    · exact hc
    · exfalso
      have : 31 ≤ h / 2 := by omega
      have := Nat.pow_le_pow_right (show 0 < 2 by omega) this
      omega

/-! ### what a loaded tree looks like (chaining one batch into the next) -/

theorem asLoaded_toList (cfg : Cfg) (hm : cfg.mvcc = false) (n : Node) : (asLoaded cfg n).toList = n.toList := by
  induction n with
  | leaf k v m => simp [asLoaded, hm, Node.toList]
  | inner k h s l r m ihl ihr => simp [asLoaded, Node.toList, ihl, ihr]

theorem asLoaded_keys (cfg : Cfg) (n : Node) : (asLoaded cfg n).toList.map (·.1) = n.toList.map (·.1) := by
  induction n with
  | leaf k v m => simp [asLoaded, Node.toList]
  | inner k h s l r m ihl ihr => simp [asLoaded, Node.toList, ihl, ihr]

@[simp] theorem asLoaded_height (cfg : Cfg) (n : Node) : (asLoaded cfg n).height = n.height := by cases n <;> rfl
@[simp] theorem asLoaded_size (cfg : Cfg) (n : Node) : (asLoaded cfg n).size = n.size := by cases n <;> rfl
@[simp] theorem asLoaded_minKey (cfg : Cfg) (n : Node) : minKey (asLoaded cfg n) = minKey n := by
  induction n with
  | leaf k v m => rfl
  | inner k h s l r m ihl _ => simpa [asLoaded, minKey] using ihl
@[simp] theorem asLoaded_hk (cfg : Cfg) (n : Node) : (asLoaded cfg n).info.hk = n.info.hk := by cases n <;> rfl

/-- the loaded tree has the same shape, stored heights/sizes, inner keys and node keys as the saved one (under every
configuration; the values too unless MVCC elides them: `asLoaded_toList`). -/
theorem asLoaded_inv (cfg : Cfg) (n : Node) :
    (WF n → WF (asLoaded cfg n)) ∧ (KeyMin n → KeyMin (asLoaded cfg n)) ∧ (C03.Shape n → C03.Shape (asLoaded cfg n)) := by
  induction n with
  | leaf k v m => exact ⟨fun _ => trivial, fun _ => trivial, fun _ => trivial⟩
  | inner k h s l r m ihl ihr =>
    refine ⟨?_, ?_, ?_⟩
    · intro ⟨a, b, c, d, e, f⟩
      exact ⟨ihl.1 a, ihr.1 b, by simpa using c, by simpa using d, by simpa using e, by simpa using f⟩
    · intro ⟨a, b, c⟩
      exact ⟨ihl.2.1 a, ihr.2.1 b, by simpa using c⟩
    · intro ⟨a, b, c, d⟩
      exact ⟨ihl.2.2 a, ihr.2.2 b, c, d⟩

theorem mem_keys_of_mem {x : Bytes × Bytes} {l : List (Bytes × Bytes)} (h : x ∈ l) : x.1 ∈ l.map (·.1) :=
  List.mem_map.mpr ⟨x, h, rfl⟩

theorem asLoaded_ST (cfg : Cfg) (n : Node) (hst : ST n) : ST (asLoaded cfg n) := by
  induction n with
  | leaf k v m => trivial
  | inner k h s l r m ihl ihr =>
    obtain ⟨a, b, c, d⟩ := hst
    refine ⟨ihl a, ihr b, ?_, ?_⟩
    · intro x hx
      have := mem_keys_of_mem hx
      rw [asLoaded_keys] at this
      obtain ⟨y, hy, e⟩ := List.mem_map.mp this
      rw [← e]; exact c y hy
    · intro x hx
      have := mem_keys_of_mem hx
      rw [asLoaded_keys] at this
      obtain ⟨y, hy, e⟩ := List.mem_map.mp this
      rw [← e]; exact d y hy

/-- without MVCC the loaded tree is keyed by content again when the saved one was. -/
theorem asLoaded_PH {H : Bytes → Bytes} (cfg : Cfg) (hm : cfg.mvcc = false) (n : Node) (hp : PH H n) :
    PH H (asLoaded cfg n) ∧ C02.pureHash H (asLoaded cfg n) = C02.pureHash H n := by
  induction n with
  | leaf k v m => simpa [asLoaded, hm, PH, C02.pureHash] using hp
  | inner k h s l r m ihl ihr =>
    obtain ⟨pl, pr, e⟩ := hp
    obtain ⟨a1, a2⟩ := ihl pl
    obtain ⟨b1, b2⟩ := ihr pr
    refine ⟨⟨a1, b1, ?_⟩, ?_⟩
    · simpa [asLoaded, C02.pureHash, a2, b2] using e
    · simp [asLoaded, C02.pureHash, a2, b2]

/-! ### `save` is total on a tree in which every node has a key (what `Node.Hash` leaves behind) -/

/-- every node carries a key. -/
def Keyed : Node → Prop
  | .leaf _ _ m => m.hk ≠ none
  | .inner _ _ _ l r m => Keyed l ∧ Keyed r ∧ m.hk ≠ none

theorem keyed_of_hashed {H : Bytes → Bytes} (n : Node) (hh : C03.Hashed H n) : Keyed n := by
  induction n with
  | leaf k v m => obtain ⟨h, e, _⟩ := hh; simp [Keyed, e]
  | inner k ht sz l r m ihl ihr =>
    obtain ⟨a, b, h, _, _, e, _⟩ := hh
    exact ⟨ihl a, ihr b, by simp [e]⟩

theorem save_total_keyed (cfg : Cfg) (n : Node) (hk : Keyed n) :
    ∀ db, ∃ n' db', save cfg n db = some (n', db') ∧ n'.info.hk = n.info.hk := by
  induction n with
  | leaf k v m =>
    intro db
    cases hm : m.hk with
    | none => exact absurd hm hk
    | some h =>
      simp only [save, hm]
      split
      · exact ⟨_, _, rfl, by simp [Node.info, hm]⟩
      · exact ⟨_, _, rfl, by simp [Node.info, hm]⟩
  | inner k ht sz l r m ihl ihr =>
    intro db
    obtain ⟨kl, kr, km⟩ := hk
    cases hm : m.hk with
    | none => exact absurd hm km
    | some h =>
      simp only [save, hm]
      split
      · exact ⟨_, _, rfl, by simp [Node.info, hm]⟩
      · obtain ⟨l', db1, e1, h1⟩ := ihl kl db
        obtain ⟨r', db2, e2, h2⟩ := ihr kr db1
        have hl : ∃ lh, l'.info.hk = some lh := by
          rw [h1]; cases l <;> simp [Keyed, Node.info] at kl ⊢ <;> exact Option.ne_none_iff_exists'.mp (by first | exact kl | exact kl.2.2)
        have hr : ∃ rh, r'.info.hk = some rh := by
          rw [h2]; cases r <;> simp [Keyed, Node.info] at kr ⊢ <;> exact Option.ne_none_iff_exists'.mp (by first | exact kr | exact kr.2.2)
        obtain ⟨lh, el⟩ := hl
        obtain ⟨rh, er⟩ := hr
        simp only [e1, e2, el, er]
        exact ⟨_, _, rfl, by simp [Node.info, hm]⟩

end C01
