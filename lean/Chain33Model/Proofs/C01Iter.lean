import Chain33Model.Proofs.C01Set
/-! Range iteration: `traverseInRange` = the stopping callback run over the filtered in-order list. -/
namespace C01
open Node

/-- the leaves a range query selects, in the requested direction. -/
def sel (start stop : Option Bytes) (asc incl : Bool) (l : List (Bytes × Bytes)) : List (Bytes × Bytes) :=
  let fl := l.filter (fun kv => inRange start stop incl kv.1)
  if asc then fl else fl.reverse

theorem runCb_append {σ : Type} (f : σ → Bytes → Bytes → σ × Bool) (A B : List (Bytes × Bytes)) (st : σ) :
    runCb f (A ++ B) st =
      (if (runCb f A st).2 then ((runCb f A st).1, true) else runCb f B (runCb f A st).1) := by
  induction A generalizing st with
  | nil => simp [runCb]
  | cons a rest ih =>
    obtain ⟨k, v⟩ := a
    simp only [List.cons_append, runCb]
    by_cases hs : (f st k v).2 = true
    · simp [hs]
    · simp [hs, ih]

theorem afterStart_false_of_lt {start : Option Bytes} {k x : Bytes}
    (h : afterStart start k = false) (hx : lt x k) : afterStart start x = false := by
  cases start with
  | none => simp [afterStart] at h
  | some s =>
    simp only [afterStart, bne_eq_false_iff_eq, beq_iff_eq] at h ⊢
    have : lt k s := cmpB_swap_gt.mp h
    exact cmpB_swap_lt.mp (cmpB_lt_trans hx this)

theorem beforeEnd_false_of_le {stop : Option Bytes} {incl : Bool} {k y : Bytes}
    (h : beforeEnd stop incl k = false) (hy : le k y) : beforeEnd stop incl y = false := by
  cases stop with
  | none => simp [beforeEnd] at h
  | some e =>
    cases incl with
    | true =>
      simp only [beforeEnd, if_true, bne_eq_false_iff_eq, beq_iff_eq] at h ⊢
      have : lt e k := cmpB_swap_gt.mp h
      exact cmpB_swap_lt.mp (lt_of_lt_of_le this hy)
    | false =>
      simp only [beforeEnd, Bool.false_eq_true, if_false, beq_eq_false_iff_ne, ne_eq] at h ⊢
      have h1 : le e k := not_lt_iff_le.mp h
      exact not_lt_iff_le.mpr (le_trans h1 hy)

theorem filter_left_nil {start stop : Option Bytes} {incl : Bool} {k : Bytes} {l : List (Bytes × Bytes)}
    (h : afterStart start k = false) (hl : ∀ x ∈ l, lt x.1 k) :
    l.filter (fun kv => inRange start stop incl kv.1) = [] := by
  apply List.filter_eq_nil_iff.mpr
  intro x hx
  simp [inRange, afterStart_false_of_lt h (hl x hx)]

theorem filter_right_nil {start stop : Option Bytes} {incl : Bool} {k : Bytes} {r : List (Bytes × Bytes)}
    (h : beforeEnd stop incl k = false) (hr : ∀ x ∈ r, le k x.1) :
    r.filter (fun kv => inRange start stop incl kv.1) = [] := by
  apply List.filter_eq_nil_iff.mpr
  intro x hx
  simp [inRange, beforeEnd_false_of_le h (hr x hx)]

/-- **iteration specification**: for every callback `f` (with its own state and stop decision),
`traverseInRange` behaves exactly like running `f` over the in-range leaves in order (reversed when
descending), stopping at the first `true`. -/
theorem traverse_spec {σ : Type} (start stop : Option Bytes) (asc incl : Bool)
    (f : σ → Bytes → Bytes → σ × Bool) (t : Node) (hst : ST t) :
    ∀ st, t.traverse start stop asc incl f st = runCb f (sel start stop asc incl t.toList) st := by
  induction t with
  | leaf k v m =>
    intro st
    simp only [Node.traverse, sel, toList_leaf', List.filter_cons, List.filter_nil, inRange]
    cases hc : (afterStart start k && beforeEnd stop incl k) with
    | true => cases asc <;> simp [runCb] <;> (cases f st k v with | mk a b => cases b <;> simp)
    | false => cases asc <;> simp [runCb]
  | inner k h s l r m ihl ihr =>
    obtain ⟨hl, hr, h1, h2⟩ := hst
    intro st
    cases asc with
    | true =>
      simp only [Node.traverse, if_true, sel, toList_inner, List.filter_append, runCb_append]
      have eL : (if afterStart start k = true then l.traverse start stop true incl f st else (st, false))
          = runCb f (l.toList.filter (fun kv => inRange start stop incl kv.1)) st := by
        cases ha : afterStart start k with
        | true => simpa [sel] using ihl hl st
        | false => simp [filter_left_nil ha h1, runCb]
      rw [eL]
      generalize runCb f (l.toList.filter (fun kv => inRange start stop incl kv.1)) st = res
      obtain ⟨st1, stopped⟩ := res
      cases stopped with
      | true => simp
      | false =>
        simp only [Bool.false_eq_true, if_false]
        cases hb : beforeEnd stop incl k with
        | true => simpa [sel] using ihr hr st1
        | false => simp [filter_right_nil hb h2, runCb]
    | false =>
      simp only [Node.traverse, Bool.false_eq_true, if_false, sel, toList_inner, List.filter_append,
        List.reverse_append, runCb_append]
      have eR : (if beforeEnd stop incl k = true then r.traverse start stop false incl f st else (st, false))
          = runCb f (r.toList.filter (fun kv => inRange start stop incl kv.1)).reverse st := by
        cases hb : beforeEnd stop incl k with
        | true => simpa [sel] using ihr hr st
        | false => simp [filter_right_nil hb h2, runCb]
      rw [eR]
      generalize runCb f (r.toList.filter (fun kv => inRange start stop incl kv.1)).reverse st = res
      obtain ⟨st1, stopped⟩ := res
      cases stopped with
      | true => simp
      | false =>
        simp only [Bool.false_eq_true, if_false]
        cases ha : afterStart start k with
        | true => simpa [sel] using ihl hl st1
        | false => simp [filter_left_nil ha h1, runCb]

/-- the in-order list of a search tree is strictly ascending by key (so every key occurs once). -/
theorem toList_sorted (t : Node) (hst : ST t) : t.toList.Pairwise (fun a b => lt a.1 b.1) := by
  induction t with
  | leaf k v m => simp
  | inner k h s l r m ihl ihr =>
    obtain ⟨hl, hr, h1, h2⟩ := hst
    simp only [toList_inner, List.pairwise_append]
    exact ⟨ihl hl, ihr hr, fun a ha b hb => lt_of_lt_of_le (h1 a ha) (h2 b hb)⟩

theorem size_eq_length (t : Node) (hwf : WF t) : t.size = t.toList.length := by
  induction t with
  | leaf k v m => simp
  | inner k h s l r m ihl ihr =>
    obtain ⟨hl, hr, _, es, _, _⟩ := hwf
    simp [es, ihl hl, ihr hr]

end C01
