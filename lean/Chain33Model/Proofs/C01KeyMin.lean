import Chain33Model.Proofs.C01Set
/-! The inner key of a node is the smallest key of its right subtree (`KeyMin`), kept by `set`.  Needed to show that
a node record is determined by the node's hash (the inner key is not part of the hashed encoding). -/
namespace C01
open Node

/-- the leftmost leaf key. -/
def minKey : Node → Bytes
  | .leaf k _ _ => k
  | .inner _ _ _ l _ _ => minKey l

def KeyMin : Node → Prop
  | .leaf .. => True
  | .inner k _ _ l r _ => KeyMin l ∧ KeyMin r ∧ k = minKey r

@[simp] theorem minKey_mk (k : Bytes) (l r : Node) : minKey (mk k l r) = minKey l := rfl

theorem minKey_mem (n : Node) : ∃ v, (minKey n, v) ∈ n.toList := by
  induction n with
  | leaf k v m => exact ⟨v, by simp [minKey]⟩
  | inner k h s l r m ihl _ =>
    obtain ⟨v, hv⟩ := ihl
    exact ⟨v, by simp [minKey, hv]⟩

theorem BalCase.minKey_eq {k h s l r m n'} (hc : BalCase k h s l r m n') : minKey n' = minKey l := by
  cases hc with
  | none => rfl
  | ll lk lh ls ll lr lm e _ _ => subst e; rfl
  | lr lk lh ls ll lm lrk lrh lrs lrl lrr lrm e _ _ => subst e; rfl
  | rr rk rh rs rl rr rm e _ _ => rfl
  | rl rk rh rs rr rm rlk rlh rls rll rlr rlm e _ _ => rfl

theorem BalCase.keyMin {k h s l r m n'} (hc : BalCase k h s l r m n')
    (hl : KeyMin l) (hr : KeyMin r) (hk : k = minKey r) : KeyMin n' := by
  cases hc with
  | none => exact ⟨hl, hr, hk⟩
  | ll lk lh ls ll lr lm e _ _ =>
    subst e
    obtain ⟨a, b, c⟩ := hl
    exact ⟨a, ⟨b, hr, hk⟩, c⟩
  | lr lk lh ls ll lm lrk lrh lrs lrl lrr lrm e _ _ =>
    subst e
    obtain ⟨a, ⟨b1, b2, b3⟩, c⟩ := hl
    exact ⟨⟨a, b1, c⟩, ⟨b2, hr, hk⟩, b3⟩
  | rr rk rh rs rl rr rm e _ _ =>
    subst e
    obtain ⟨a, b, c⟩ := hr
    exact ⟨⟨hl, a, hk⟩, b, c⟩
  | rl rk rh rs rr rm rlk rlh rls rll rlr rlm e _ _ =>
    subst e
    obtain ⟨⟨a1, a2, a3⟩, b, c⟩ := hr
    exact ⟨⟨hl, a1, hk⟩, ⟨a2, b, c⟩, a3⟩

/-- the leftmost key after `set`. -/
theorem set_minKey (t : Node) (k v : Bytes) (hst : ST t) :
    ∀ t' u, t.set k v = some (t', u) →
      (lt k (minKey t) → minKey t' = k) ∧ (¬ lt k (minKey t) → minKey t' = minKey t) := by
  induction t with
  | leaf nk nv m =>
    intro t' u e
    simp only [Node.set] at e
    cases hc : cmpB k nk with
    | lt => simp [hc] at e; obtain ⟨rfl, rfl⟩ := e; exact ⟨fun _ => rfl, fun h => absurd hc h⟩
    | eq =>
      simp [hc] at e; obtain ⟨rfl, rfl⟩ := e
      have := cmpB_eq_iff.mp hc; subst this
      exact ⟨fun _ => rfl, fun _ => rfl⟩
    | gt =>
      simp [hc] at e; obtain ⟨rfl, rfl⟩ := e
      exact ⟨fun h => by simp [lt, minKey, hc] at h, fun _ => rfl⟩
  | inner nk h s l r m ihl ihr =>
    obtain ⟨hl, hr, h1, h2⟩ := hst
    intro t' u e
    simp only [Node.set] at e
    by_cases hk : cmpB k nk = .lt
    · simp only [hk, if_true] at e
      cases hs : l.set k v with
      | none => simp [hs] at e
      | some p =>
        obtain ⟨l', ul⟩ := p
        have := ihl hl l' ul hs
        rw [hs] at e
        cases ul with
        | true => simp at e; obtain ⟨rfl, rfl⟩ := e; exact this
        | false =>
          obtain ⟨n', hb, hc⟩ := balance_cases nk (max l'.height r.height + 1) (l'.size + r.size) l' r Meta.fresh
          simp only [mk, hb, Option.map_some] at e
          simp at e; obtain ⟨rfl, rfl⟩ := e
          rw [hc.minKey_eq]; exact this
    · simp only [hk, if_false] at e
      have hle : le nk k := not_lt_iff_le.mp hk
      obtain ⟨mv, hm⟩ := minKey_mem l
      have hnl : ¬ lt k (minKey l) := by
        intro hx
        exact lt_irrefl _ (cmpB_lt_trans (lt_of_lt_of_le (h1 _ hm) hle) hx)
      cases hs : r.set k v with
      | none => simp [hs] at e
      | some p =>
        obtain ⟨r', ur⟩ := p
        rw [hs] at e
        cases ur with
        | true => simp at e; obtain ⟨rfl, rfl⟩ := e; exact ⟨fun h => absurd h hnl, fun _ => rfl⟩
        | false =>
          obtain ⟨n', hb, hc⟩ := balance_cases nk (max l.height r'.height + 1) (l.size + r'.size) l r' Meta.fresh
          simp only [mk, hb, Option.map_some] at e
          simp at e; obtain ⟨rfl, rfl⟩ := e
          rw [hc.minKey_eq]; exact ⟨fun h => absurd h hnl, fun _ => rfl⟩

/-- **`set` keeps `KeyMin`**. -/
theorem set_keyMin (t : Node) (k v : Bytes) (hst : ST t) (hkm : KeyMin t) :
    ∀ t' u, t.set k v = some (t', u) → KeyMin t' := by
  induction t with
  | leaf nk nv m =>
    intro t' u e
    simp only [Node.set] at e
    split at e <;> (simp at e; obtain ⟨rfl, rfl⟩ := e) <;> simp [KeyMin, minKey]
  | inner nk h s l r m ihl ihr =>
    obtain ⟨hl, hr, h1, h2⟩ := hst
    obtain ⟨kl, kr, ke⟩ := hkm
    intro t' u e
    simp only [Node.set] at e
    by_cases hk : cmpB k nk = .lt
    · simp only [hk, if_true] at e
      cases hs : l.set k v with
      | none => simp [hs] at e
      | some p =>
        obtain ⟨l', ul⟩ := p
        have kl' := ihl hl kl l' ul hs
        rw [hs] at e
        cases ul with
        | true => simp at e; obtain ⟨rfl, rfl⟩ := e; exact ⟨kl', kr, ke⟩
        | false =>
          obtain ⟨n', hb, hc⟩ := balance_cases nk (max l'.height r.height + 1) (l'.size + r.size) l' r Meta.fresh
          simp only [mk, hb, Option.map_some] at e
          simp at e; obtain ⟨rfl, rfl⟩ := e
          exact hc.keyMin kl' kr ke
    · simp only [hk, if_false] at e
      cases hs : r.set k v with
      | none => simp [hs] at e
      | some p =>
        obtain ⟨r', ur⟩ := p
        have kr' := ihr hr kr r' ur hs
        have hnl : ¬ lt k (minKey r) := by rw [← ke]; exact hk
        have hmin := (set_minKey r k v hr r' ur hs).2 hnl
        rw [hs] at e
        cases ur with
        | true => simp at e; obtain ⟨rfl, rfl⟩ := e; exact ⟨kl, kr', by rw [hmin]; exact ke⟩
        | false =>
          obtain ⟨n', hb, hc⟩ := balance_cases nk (max l.height r'.height + 1) (l.size + r'.size) l r' Meta.fresh
          simp only [mk, hb, Option.map_some] at e
          simp at e; obtain ⟨rfl, rfl⟩ := e
          exact hc.keyMin kl kr' (by rw [hmin]; exact ke)

end C01
