import Chain33Model.Model.C01
/-! Order lemmas for `cmpB` (= `bytes.Compare`): a strict total order on byte strings. -/
namespace C01

theorem u8_lt_irrefl (a : UInt8) : ¬ a < a := by
  simp [UInt8.lt_iff_toNat_lt]

theorem u8_eq_of_not_lt {a b : UInt8} (h1 : ¬ a < b) (h2 : ¬ b < a) : a = b := by
  apply UInt8.toNat_inj.mp
  simp [UInt8.lt_iff_toNat_lt] at h1 h2
  omega

theorem u8_lt_trans {a b c : UInt8} (h1 : a < b) (h2 : b < c) : a < c := by
  simp [UInt8.lt_iff_toNat_lt] at *
  omega

theorem u8_lt_asymm {a b : UInt8} (h1 : a < b) : ¬ b < a := by
  simp [UInt8.lt_iff_toNat_lt] at *
  omega

theorem cmpB_eq_iff {a b : Bytes} : cmpB a b = .eq ↔ a = b := by
  induction a generalizing b with
  | nil => cases b <;> simp [cmpB]
  | cons x xs ih =>
    cases b with
    | nil => simp [cmpB]
    | cons y ys =>
      simp only [cmpB]
      by_cases h1 : x < y
      · simp [h1]; intro h; subst h; exact absurd h1 (u8_lt_irrefl _)
      · by_cases h2 : y < x
        · simp [h1, h2]; intro h; subst h; exact absurd h2 (u8_lt_irrefl _)
        · have := u8_eq_of_not_lt h1 h2
          subst this
          simp [h1, ih]

theorem cmpB_refl (a : Bytes) : cmpB a a = .eq := cmpB_eq_iff.mpr rfl

theorem cmpB_swap_lt {a b : Bytes} : cmpB a b = .lt ↔ cmpB b a = .gt := by
  induction a generalizing b with
  | nil => cases b <;> simp [cmpB]
  | cons x xs ih =>
    cases b with
    | nil => simp [cmpB]
    | cons y ys =>
      simp only [cmpB]
      by_cases h1 : x < y
      · have := u8_lt_asymm h1
        simp [h1, this]
      · by_cases h2 : y < x
        · simp [h1, h2]
        · simp [h1, h2, ih]

theorem cmpB_swap_gt {a b : Bytes} : cmpB a b = .gt ↔ cmpB b a = .lt := cmpB_swap_lt.symm

theorem cmpB_lt_trans {a b c : Bytes} (h1 : cmpB a b = .lt) (h2 : cmpB b c = .lt) : cmpB a c = .lt := by
  induction a generalizing b c with
  | nil =>
    cases b with
    | nil => simp [cmpB] at h1
    | cons y ys => cases c with
      | nil => simp [cmpB] at h2
      | cons z zs => simp [cmpB]
  | cons x xs ih =>
    cases b with
    | nil => simp [cmpB] at h1
    | cons y ys =>
      cases c with
      | nil => simp [cmpB] at h2
      | cons z zs =>
        simp only [cmpB] at h1 h2 ⊢
        by_cases hxy : x < y
        · by_cases hyz : y < z
          · simp [u8_lt_trans hxy hyz]
          · by_cases hzy : z < y
            · simp [hyz, hzy] at h2
            · have := u8_eq_of_not_lt hyz hzy; subst this
              simp [hxy]
        · by_cases hyx : y < x
          · simp [hxy, hyx] at h1
          · have := u8_eq_of_not_lt hxy hyx; subst this
            by_cases hyz : x < z
            · simp [hyz]
            · by_cases hzy : z < x
              · simp [hyz, hzy] at h2
              · simp [hxy, hyz, hzy] at h1 h2 ⊢
                exact ih h1 h2

/-- `a < b`. -/
abbrev lt (a b : Bytes) : Prop := cmpB a b = .lt
/-- `a ≤ b`. -/
abbrev le (a b : Bytes) : Prop := cmpB a b ≠ .gt

theorem le_iff {a b : Bytes} : le a b ↔ lt a b ∨ a = b := by
  unfold le lt
  rw [← cmpB_eq_iff]
  cases cmpB a b <;> simp

theorem lt_irrefl (a : Bytes) : ¬ lt a a := by simp [lt, cmpB_refl]

theorem lt_of_lt_of_le {a b c : Bytes} (h1 : lt a b) (h2 : le b c) : lt a c := by
  rcases le_iff.mp h2 with h | h
  · exact cmpB_lt_trans h1 h
  · subst h; exact h1

theorem lt_of_le_of_lt {a b c : Bytes} (h1 : le a b) (h2 : lt b c) : lt a c := by
  rcases le_iff.mp h1 with h | h
  · exact cmpB_lt_trans h h2
  · subst h; exact h2

theorem le_trans {a b c : Bytes} (h1 : le a b) (h2 : le b c) : le a c := by
  rcases le_iff.mp h1 with h | h
  · exact le_iff.mpr (Or.inl (lt_of_lt_of_le h h2))
  · subst h; exact h2

theorem not_lt_iff_le {a b : Bytes} : ¬ lt a b ↔ le b a := by
  unfold lt le
  constructor
  · intro h hgt; exact h (cmpB_swap_gt.mp hgt)
  · intro h hlt; exact h (cmpB_swap_lt.mp hlt)

theorem lt_asymm {a b : Bytes} (h : lt a b) : ¬ lt b a := by
  intro h2; exact lt_irrefl a (cmpB_lt_trans h h2)

theorem lt_ne {a b : Bytes} (h : lt a b) : a ≠ b := by
  intro e; subst e; exact lt_irrefl a h

theorem cmpB_cases (a b : Bytes) : lt a b ∨ a = b ∨ lt b a := by
  cases h : cmpB a b
  · exact Or.inl h
  · exact Or.inr (Or.inl (cmpB_eq_iff.mp h))
  · exact Or.inr (Or.inr (cmpB_swap_gt.mp h))

end C01
