import Chain33Model.Proofs.C01Depth
/-! Towards the reachability invariant of the store: predicates that `set` / `Node.Hash` / `save` keep, so that the
hypotheses of `load_save_full` are discharged for trees the store builds itself (no height prefix, no MVCC). -/
namespace C01
open C02 C03 Node

/-- a predicate on nodes that is inherited by children and holds of a fresh inner node over two good children. -/
structure SetClosed (P : Node → Prop) : Prop where
  children : ∀ k h s l r m, P (.inner k h s l r m) → P l ∧ P r
  node : ∀ k h s l r, P l → P r → P (.inner k h s l r Meta.fresh)

theorem BalCase.closed {P : Node → Prop} (hP : SetClosed P) {k h s l r n'} (hc : BalCase k h s l r Meta.fresh n')
    (hl : P l) (hr : P r) : P n' := by
  cases hc with
  | none => exact hP.node _ _ _ _ _ hl hr
  | ll lk lh ls ll lr lm e _ _ =>
    subst e; obtain ⟨a, b⟩ := hP.children _ _ _ _ _ _ hl
    exact hP.node _ _ _ _ _ a (hP.node _ _ _ _ _ b hr)
  | lr lk lh ls ll lm lrk lrh lrs lrl lrr lrm e _ _ =>
    subst e; obtain ⟨a, b⟩ := hP.children _ _ _ _ _ _ hl; obtain ⟨c, d⟩ := hP.children _ _ _ _ _ _ b
    exact hP.node _ _ _ _ _ (hP.node _ _ _ _ _ a c) (hP.node _ _ _ _ _ d hr)
  | rr rk rh rs rl rr rm e _ _ =>
    subst e; obtain ⟨a, b⟩ := hP.children _ _ _ _ _ _ hr
    exact hP.node _ _ _ _ _ (hP.node _ _ _ _ _ hl a) b
  | rl rk rh rs rr rm rlk rlh rls rll rlr rlm e _ _ =>
    subst e; obtain ⟨a, b⟩ := hP.children _ _ _ _ _ _ hr; obtain ⟨c, d⟩ := hP.children _ _ _ _ _ _ a
    exact hP.node _ _ _ _ _ (hP.node _ _ _ _ _ hl c) (hP.node _ _ _ _ _ d b)

theorem set_closed {P : Node → Prop} (hP : SetClosed P) (t : Node) (k v : Bytes) (hleaf : P (.leaf k v Meta.fresh))
    (hf : P t) : ∀ t' u, t.set k v = some (t', u) → P t' := by
  induction t with
  | leaf nk nv m =>
    intro t' u e
    simp only [Node.set] at e
    split at e <;> (simp at e; obtain ⟨rfl, rfl⟩ := e)
    · exact hP.node _ _ _ _ _ hleaf hf
    · exact hleaf
    · exact hP.node _ _ _ _ _ hf hleaf
  | inner nk h s l r m ihl ihr =>
    obtain ⟨hl, hr⟩ := hP.children _ _ _ _ _ _ hf
    intro t' u e
    simp only [Node.set] at e
    split at e
    · cases hs : l.set k v with
      | none => simp [hs] at e
      | some p =>
        obtain ⟨l', ul⟩ := p
        have hl' := ihl hl l' ul hs
        rw [hs] at e
        cases ul with
        | true => simp at e; obtain ⟨rfl, rfl⟩ := e; exact hP.node _ _ _ _ _ hl' hr
        | false =>
          obtain ⟨n', hb, hc⟩ := balance_cases nk (max l'.height r.height + 1) (l'.size + r.size) l' r Meta.fresh
          simp only [Node.mk, hb, Option.map_some] at e
          simp at e; obtain ⟨rfl, rfl⟩ := e
          exact BalCase.closed hP hc hl' hr
    · cases hs : r.set k v with
      | none => simp [hs] at e
      | some p =>
        obtain ⟨r', ur⟩ := p
        have hr' := ihr hr r' ur hs
        rw [hs] at e
        cases ur with
        | true => simp at e; obtain ⟨rfl, rfl⟩ := e; exact hP.node _ _ _ _ _ hl hr'
        | false =>
          obtain ⟨n', hb, hc⟩ := balance_cases nk (max l.height r'.height + 1) (l.size + r'.size) l r' Meta.fresh
          simp only [Node.mk, hb, Option.map_some] at e
          simp at e; obtain ⟨rfl, rfl⟩ := e
          exact BalCase.closed hP hc hl hr'

/-! ### the two closed predicates -/

theorem stored_ps (cfg : Cfg) (db : NodeDB) (n : Node) (h : Stored cfg db n) : PersistedStored cfg db n := by
  induction n with
  | leaf k v m => exact fun _ => h
  | inner k ht sz l r m ihl ihr => exact ⟨fun _ => h, fun _ => ⟨ihl h.1, ihr h.2.1⟩⟩

theorem ps_closed (cfg : Cfg) (db : NodeDB) : SetClosed (PersistedStored cfg db) where
  children := by
    intro k h s l r m hp
    cases hm : m.persisted with
    | true => have := hp.1 hm; exact ⟨stored_ps cfg db l this.1, stored_ps cfg db r this.2.1⟩
    | false => exact hp.2 hm
  node := by
    intro k h s l r hl hr
    exact ⟨fun e => by simp [Meta.fresh] at e, fun _ => ⟨hl, hr⟩⟩

/-- leaf keys / values and all node keys fit the length fields. -/
def LeafFit : Node → Prop
  | .leaf k v m => k.length < 2 ^ 64 ∧ v.length < 2 ^ 64 ∧ ∀ h, m.hk = some h → h.length < 2 ^ 64
  | .inner _ _ _ l r m => LeafFit l ∧ LeafFit r ∧ ∀ h, m.hk = some h → h.length < 2 ^ 64

theorem leafFit_closed : SetClosed LeafFit where
  children := fun _ _ _ _ _ _ hp => ⟨hp.1, hp.2.1⟩
  node := fun _ _ _ _ _ hl hr => ⟨hl, hr, fun h e => by simp [Meta.fresh] at e⟩

theorem minKey_fit (n : Node) (h : LeafFit n) : (minKey n).length < 2 ^ 64 := by
  induction n with
  | leaf k v m => exact h.1
  | inner k ht sz l r m ihl _ => exact ihl h.1

/-- `FitsRec` from its ingredients: lengths, balance, "inner key = a leaf key", at most 2^31 - 1 leaves. -/
theorem fitsRec_of (n : Node) (hl : LeafFit n) (hw : WF n) (hk : KeyMin n) (hs : n.size < 2 ^ 31) : FitsRec n := by
  induction n with
  | leaf k v m => exact hl
  | inner k ht sz l r m ihl ihr =>
    obtain ⟨wl, wr, eh, es, b1, b2⟩ := hw
    obtain ⟨kl, kr, ke⟩ := hk
    obtain ⟨fl, fr, fh⟩ := hl
    simp only [Node.size] at hs
    have pl := size_pos_of_WF l wl
    have pr := size_pos_of_WF r wr
    have ha := avl_size (.inner k ht sz l r m) ⟨wl, wr, eh, es, b1, b2⟩
    simp only [Node.height, Node.size] at ha
    refine ⟨ihl fl wl kl (by omega), ihr fr wr kr (by omega), ?_, by omega, ?_, hs, fh⟩
    · rw [ke]; exact minKey_fit r fr
    · by_cases hc : ht < 100
      · omega
      · exfalso
        have : 31 ≤ ht / 2 := by omega
        have := Nat.pow_le_pow_right (show 0 < 2 by omega) this
        omega

/-! ### facts that only depend on the abstract tree (`erase`) -/

theorem toList_erase (n : Node) : (erase n).toList = n.toList := by
  induction n with
  | leaf k v m => rfl
  | inner k h s l r m ihl ihr => simp [erase, Node.toList, ihl, ihr]

theorem ST_erase (n : Node) : ST (erase n) ↔ ST n := by
  induction n with
  | leaf k v m => exact Iff.rfl
  | inner k h s l r m ihl ihr => simp only [erase, ST, toList_erase, ihl, ihr]

theorem WF_erase (n : Node) : WF (erase n) ↔ WF n := by
  induction n with
  | leaf k v m => exact Iff.rfl
  | inner k h s l r m ihl ihr => simp only [erase, WF, height_erase, size_erase, ihl, ihr]

theorem KeyMin_erase (n : Node) : KeyMin (erase n) ↔ KeyMin n := by
  induction n with
  | leaf k v m => exact Iff.rfl
  | inner k h s l r m ihl ihr => simp only [erase, KeyMin, minKey_erase, ihl, ihr]

theorem hashNode_erase (H : Bytes → Bytes) (cfg : Cfg) (bh rh : Nat) (t : Node) :
    erase (hashNode H cfg bh rh t).1 = erase t := by
  induction t with
  | leaf k v m =>
    simp only [hashNode]
    split <;> rfl
  | inner k ht sz l r m ihl ihr =>
    simp only [hashNode]
    split
    · rfl
    · simp only [erase, ihl, ihr]

theorem erase_markP (n : Node) : erase (markP n) = erase n := by
  induction n with
  | leaf k v m => rfl
  | inner k h s l r m ihl ihr =>
    simp only [markP]
    split
    · rfl
    · simp only [erase, ihl, ihr]

/-- transfer of the abstract-tree facts along `erase a = erase b`. -/
theorem abs_transfer {a b : Node} (e : erase a = erase b) :
    (ST a → ST b) ∧ (WF a → WF b) ∧ (KeyMin a → KeyMin b) ∧ a.toList = b.toList ∧ a.size = b.size ∧ a.height = b.height := by
  refine ⟨fun h => (ST_erase b).mp (e ▸ (ST_erase a).mpr h), fun h => (WF_erase b).mp (e ▸ (WF_erase a).mpr h),
    fun h => (KeyMin_erase b).mp (e ▸ (KeyMin_erase a).mpr h), ?_, ?_, ?_⟩
  · rw [← toList_erase a, e, toList_erase]
  · rw [← size_erase a, e, size_erase]
  · rw [← height_erase a, e, height_erase]

/-! ### `Node.Hash` (no height prefix) keeps `PersistedStored` and the length bounds -/

theorem stored_hk_some {cfg : Cfg} {db : NodeDB} {n : Node} (h : Stored cfg db n) : ∃ x, n.info.hk = some x := by
  cases n with
  | leaf k v m => obtain ⟨x, e, _⟩ := h; exact ⟨x, e⟩
  | inner k ht sz l r m => obtain ⟨_, _, x, _, _, e, _⟩ := h; exact ⟨x, e⟩

theorem hashNode_ps (H : Bytes → Bytes) (cfg : Cfg) (db : NodeDB) (bh rh : Nat) (t : Node)
    (hp : PersistedStored cfg db t) : PersistedStored cfg db (hashNode H cfg bh rh t).1 := by
  induction t with
  | leaf k v m =>
    simp only [hashNode]
    split
    · exact hp
    · rename_i hm
      intro hper
      obtain ⟨x, e⟩ := stored_hk_some (hp hper)
      simp only [Node.info] at e; rw [hm] at e; cases e
  | inner k ht sz l r m ihl ihr =>
    simp only [hashNode]
    split
    · exact hp
    · rename_i hm
      have hnp : m.persisted = false := by
        cases hper : m.persisted with
        | false => rfl
        | true =>
          obtain ⟨x, e⟩ := stored_hk_some (hp.1 hper)
          simp only [Node.info] at e; rw [hm] at e; cases e
      obtain ⟨pl, pr⟩ := hp.2 hnp
      exact ⟨fun e => by simp [hnp] at e, fun _ => ⟨ihl pl, ihr pr⟩⟩

theorem hashNode_leafFit {H : Bytes → Bytes} (hlen : ∀ x, (H x).length = 32) (cfg : Cfg) (hpf : cfg.pfx = false)
    (bh rh : Nat) (t : Node) (hf : LeafFit t) : LeafFit (hashNode H cfg bh rh t).1 := by
  have l64 : ∀ x, (H x).length < 2 ^ 64 := fun x => by rw [hlen]; decide
  induction t with
  | leaf k v m =>
    simp only [hashNode]
    split
    · exact hf
    · simp only [hpf, Bool.false_and, Bool.false_eq_true, if_false]
      exact ⟨hf.1, hf.2.1, fun h e => by simp at e; subst e; exact l64 _⟩
  | inner k ht sz l r m ihl ihr =>
    simp only [hashNode]
    split
    · exact hf
    · simp only [hpf, Bool.false_and, Bool.false_eq_true, if_false]
      exact ⟨ihl hf.1, ihr hf.2.1, fun h e => by simp at e; subst e; exact l64 _⟩

theorem markP_PH {H : Bytes → Bytes} (n : Node) (hp : PH H n) : PH H (markP n) := by
  induction n with
  | leaf k v m => exact hp
  | inner k h s l r m ihl ihr =>
    obtain ⟨pl, pr, e⟩ := hp
    simp only [markP]
    split
    · exact ⟨pl, pr, e⟩
    · refine ⟨ihl pl, ihr pr, ?_⟩
      have e1 := pureHash_congr (H := H) (erase_markP l)
      have e2 := pureHash_congr (H := H) (erase_markP r)
      simpa [pureHash, e1, e2] using e

theorem markP_leafFit (n : Node) (hf : LeafFit n) : LeafFit (markP n) := by
  induction n with
  | leaf k v m => exact hf
  | inner k h s l r m ihl ihr =>
    simp only [markP]
    split
    · exact hf
    · exact ⟨ihl hf.1, ihr hf.2.1, hf.2.2⟩

theorem keyed_of_PH {H : Bytes → Bytes} (n : Node) (hp : PH H n) : Keyed n := by
  induction n with
  | leaf k v m => simp [Keyed, show m.hk = some (H (leafEnc k v)) from hp]
  | inner k ht sz l r m ihl ihr => exact ⟨ihl hp.1, ihr hp.2.1, by simp [hp.2.2]⟩

/-! ### one block on a good tree: sets, `Node.Hash`, `save` -/

/-- what the store knows about a tree it is about to update (a loaded tree, or the result of earlier sets). -/
def Pre (H : Bytes → Bytes) (cfg : Cfg) (db : NodeDB) (n : Node) : Prop :=
  ST n ∧ WF n ∧ KeyMin n ∧ PHoF H n ∧ PersistedStored cfg db n ∧ LeafFit n

def PreT (H : Bytes → Bytes) (cfg : Cfg) (db : NodeDB) : Tree → Prop
  | none => True
  | some n => Pre H cfg db n

theorem set_pre {H : Bytes → Bytes} {cfg : Cfg} {db : NodeDB} (n : Node) (k v : Bytes)
    (hk : k.length < 2 ^ 64) (hv : v.length < 2 ^ 64) (hp : Pre H cfg db n) :
    ∀ t' u, n.set k v = some (t', u) → Pre H cfg db t' := by
  intro t' u e
  obtain ⟨st, wf, km, ph, ps, lf⟩ := hp
  obtain ⟨t'', u'', e', _, st'⟩ := set_spec n k v st
  rw [e] at e'; cases e'
  have hleaf1 : PersistedStored cfg db (.leaf k v Meta.fresh) := fun x => by simp [Meta.fresh] at x
  have hleaf2 : LeafFit (.leaf k v Meta.fresh) := ⟨hk, hv, fun h x => by simp [Meta.fresh] at x⟩
  exact ⟨st', (set_WF n k v wf t' u e).1, set_keyMin n k v st km t' u e, set_phoF n k v ph t' u e,
    set_closed (ps_closed cfg db) n k v hleaf1 ps t' u e, set_closed leafFit_closed n k v hleaf2 lf t' u e⟩

theorem setMany_pre {H : Bytes → Bytes} {cfg : Cfg} {db : NodeDB} (kvs : List (Bytes × Bytes))
    (hb : ∀ p ∈ kvs, p.1.length < 2 ^ 64 ∧ p.2.length < 2 ^ 64) :
    ∀ t : Tree, PreT H cfg db t → ∀ t', Tree.setMany t kvs = some t' → PreT H cfg db t' := by
  induction kvs with
  | nil => intro t h t' e; simp [Tree.setMany] at e; subst e; exact h
  | cons kv rest ih =>
    obtain ⟨k, v⟩ := kv
    intro t h t' e
    obtain ⟨b1, b2⟩ := hb (k, v) (by simp)
    simp only [Tree.setMany] at e
    cases hs : Tree.set t k v with
    | none => simp [hs] at e
    | some p =>
      obtain ⟨t1, u⟩ := p
      simp only [hs] at e
      refine ih (fun p hp => hb p (by simp [hp])) t1 ?_ t' e
      cases t with
      | none =>
        simp [Tree.set] at hs; obtain ⟨rfl, _⟩ := hs
        exact ⟨trivial, trivial, trivial, Or.inl rfl, fun x => by simp [Meta.fresh] at x,
          ⟨b1, b2, fun h x => by simp [Meta.fresh] at x⟩⟩
      | some n =>
        simp only [Tree.set] at hs
        cases hn : n.set k v with
        | none => simp [hn] at hs
        | some q =>
          obtain ⟨n', u'⟩ := q
          simp [hn] at hs
          obtain ⟨rfl, _⟩ := hs
          exact set_pre n k v b1 b2 h n' u' hn

/-- what holds of a tree after `save` (and of the tree `load` then returns, `asLoaded`). -/
def Good (H : Bytes → Bytes) (cfg : Cfg) (db : NodeDB) (n : Node) : Prop :=
  ST n ∧ WF n ∧ KeyMin n ∧ PH H n ∧ Stored cfg db n ∧ LeafFit n ∧ n.size < 2 ^ 31

theorem good_pre {H : Bytes → Bytes} {cfg : Cfg} {db : NodeDB} {n : Node} (h : Good H cfg db n) : Pre H cfg db n :=
  ⟨h.1, h.2.1, h.2.2.1, phoF_of_PH h.2.2.2.1, stored_ps cfg db n h.2.2.2.2.1, h.2.2.2.2.2.1⟩

theorem Good.mono {H : Bytes → Bytes} {cfg : Cfg} {db db' : NodeDB} {n : Node} (h : Good H cfg db n)
    (hsub : Sub db db') : Good H cfg db' n :=
  ⟨h.1, h.2.1, h.2.2.1, h.2.2.2.1, h.2.2.2.2.1.mono hsub, h.2.2.2.2.2⟩

/-- **one block**: hash and save a tree that satisfies `Pre` into a database that satisfies `DBInv … W`. -/
theorem block_step {H : Bytes → Bytes} (hlen : ∀ x, (H x).length = 32) (cfg : Cfg) (hpf : cfg.pfx = false)
    (db : NodeDB) (W : List Node) (hdb : DBInv H cfg db W) (bh : Nat) (n1 : Node) (hp : Pre H cfg db n1)
    (hsz : n1.size < 2 ^ 31) :
    (∃ n3 db', save cfg (hashRoot H cfg bh n1).1 db = some (n3, db') ∧
      (hashRoot H cfg bh n1).2 = pureHash H n1 ∧ n3.info.hk = some (pureHash H n1) ∧
      Good H cfg db' n3 ∧ n3.toList = n1.toList ∧ Sub db db' ∧
      DBInv H cfg db' (W ++ subnodes (hashRoot H cfg bh n1).1) ∧
      load db' loadFuel true (pureHash H n1) = .ok (asLoaded cfg (hashRoot H cfg bh n1).1)) ∨
    CollisionIn H (treeTrace H (hashRoot H cfg bh n1).1 ++ tracesOf H W) := by
  obtain ⟨st, wf, km, ph, ps, lf⟩ := hp
  obtain ⟨p1, p2, p3⟩ := hashNode_PH cfg hpf bh n1.height n1 ph
  have he := hashNode_erase H cfg bh n1.height n1
  have ps2 := hashNode_ps H cfg db bh n1.height n1 ps
  have lf2 := hashNode_leafFit hlen cfg hpf bh n1.height n1 lf
  change PH H (hashRoot H cfg bh n1).1 at p1
  change (hashRoot H cfg bh n1).2 = pureHash H n1 at p2
  change pureHash H (hashRoot H cfg bh n1).1 = pureHash H n1 at p3
  change erase (hashRoot H cfg bh n1).1 = erase n1 at he
  change PersistedStored cfg db (hashRoot H cfg bh n1).1 at ps2
  change LeafFit (hashRoot H cfg bh n1).1 at lf2
  rw [p2]
  generalize (hashRoot H cfg bh n1).1 = n2 at p1 p3 he ps2 lf2 ⊢
  obtain ⟨t1, t2, t3, t4, t5, _⟩ := abs_transfer he.symm
  have st2 := t1 st
  have wf2 := t2 wf
  have km2 := t3 km
  have sz2 : n2.size < 2 ^ 31 := by rw [← t5]; exact hsz
  have fr2 := fitsRec_of n2 lf2 wf2 km2 sz2
  have sh2 := shape_of_WF n2 wf2
  have dp2 := depth_lt_loadFuel_aux n2 wf2 fr2
  obtain ⟨n3, db', esave, _⟩ := save_total_keyed cfg n2 (keyed_of_PH n2 p1) db
  rcases load_save_full hlen cfg n2 n3 db db' W esave p1 sh2 km2 hdb ps2 fr2 loadFuel true dp2 with ⟨a, b, c, d⟩ | col
  · left
    obtain ⟨ws, _, en3, _⟩ := save_eq cfg n2 db n3 db' esave
    subst en3
    obtain ⟨m1, m2, m3, m4, m5, _⟩ := abs_transfer (erase_markP n2).symm
    refine ⟨markP n2, db', esave, rfl, ?_, ⟨m1 st2, m2 wf2, m3 km2, markP_PH n2 p1, c, markP_leafFit n2 lf2, ?_⟩, ?_, b, d, ?_⟩
    · rw [markP_hk, p1.hk, p3]
    · rw [← m5]; exact sz2
    · rw [← m4, ← t4]
    · rw [← p3]; exact a
  · exact Or.inr col

/-- the hashing half of a block: what `Node.Hash` (no height prefix) leaves — every hypothesis `load_save_full` /
`C04.commit_exact_content_full` asks of the tree to be saved. -/
theorem hash_step {H : Bytes → Bytes} (hlen : ∀ x, (H x).length = 32) (cfg : Cfg) (hpf : cfg.pfx = false)
    (db : NodeDB) (bh : Nat) (n1 : Node) (hp : Pre H cfg db n1) (hsz : n1.size < 2 ^ 31) :
    let n2 := (hashRoot H cfg bh n1).1
    PH H n2 ∧ ST n2 ∧ WF n2 ∧ KeyMin n2 ∧ Shape n2 ∧ PersistedStored cfg db n2 ∧ LeafFit n2 ∧ FitsRec n2 ∧
      depth n2 < loadFuel ∧ n2.toList = n1.toList ∧ n2.size < 2 ^ 31 ∧
      (hashRoot H cfg bh n1).2 = pureHash H n1 ∧ pureHash H n2 = pureHash H n1 := by
  intro n2
  obtain ⟨st, wf, km, ph, ps, lf⟩ := hp
  obtain ⟨p1, p2, p3⟩ := hashNode_PH cfg hpf bh n1.height n1 ph
  have he : erase n2 = erase n1 := hashNode_erase H cfg bh n1.height n1
  have ps2 : PersistedStored cfg db n2 := hashNode_ps H cfg db bh n1.height n1 ps
  have lf2 : LeafFit n2 := hashNode_leafFit hlen cfg hpf bh n1.height n1 lf
  obtain ⟨t1, t2, t3, t4, t5, _⟩ := abs_transfer he.symm
  have wf2 := t2 wf
  have km2 := t3 km
  have sz2 : n2.size < 2 ^ 31 := by rw [← t5]; exact hsz
  have fr2 := fitsRec_of n2 lf2 wf2 km2 sz2
  exact ⟨p1, t1 st, wf2, km2, shape_of_WF n2 wf2, ps2, lf2, fr2, depth_lt_loadFuel_aux n2 wf2 fr2, t4.symm, sz2, p2, p3⟩

theorem PersistedStored.mono {cfg : Cfg} {db db' : NodeDB} (hsub : Sub db db') {n : Node}
    (h : PersistedStored cfg db n) : PersistedStored cfg db' n := by
  induction n with
  | leaf k v m => exact fun e => (h e).mono hsub
  | inner k ht sz l r m ihl ihr =>
    exact ⟨fun e => (h.1 e).mono hsub, fun e => ⟨ihl (h.2 e).1, ihr (h.2 e).2⟩⟩

end C01
