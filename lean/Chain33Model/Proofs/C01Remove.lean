import Chain33Model.Proofs.C01KeyMin
import Chain33Model.Proofs.C01Iter
/-! `Node.remove`: order, leftmost-key bookkeeping (`newKey`), AVL shape, and the refinement to list filtering. -/
namespace C01
open Node

theorem minKey_le (n : Node) (hst : ST n) : ∀ x ∈ n.toList, le (minKey n) x.1 := by
  induction n with
  | leaf k v m => intro x hx; simp at hx; subst hx; simp [minKey, le, cmpB_refl]
  | inner k h s l r m ihl _ =>
    obtain ⟨hl, _, h1, h2⟩ := hst
    intro x hx
    simp only [toList_inner, List.mem_append] at hx
    rcases hx with hx | hx
    · exact ihl hl x hx
    · obtain ⟨mv, hm⟩ := minKey_mem l
      exact le_iff.mpr (Or.inl (lt_of_lt_of_le (h1 _ hm) (h2 x hx)))

abbrev dropKey (key : Bytes) (l : List (Bytes × Bytes)) : List (Bytes × Bytes) :=
  l.filter (fun x => decide (x.1 ≠ key))

theorem dropKey_id {key : Bytes} {l : List (Bytes × Bytes)} (h : ∀ x ∈ l, x.1 ≠ key) : dropKey key l = l := by
  apply List.filter_eq_self.mpr
  intro x hx; simpa using h x hx

theorem dropKey_append (key : Bytes) (a b : List (Bytes × Bytes)) :
    dropKey key (a ++ b) = dropKey key a ++ dropKey key b := List.filter_append ..

theorem dropKey_single (key v : Bytes) : dropKey key [(key, v)] = [] := by simp [dropKey]

/-- what `remove` may answer. -/
def RemOK (t : Node) (key : Bytes) : RemRes → Prop
  | .notFound => ∀ x ∈ t.toList, x.1 ≠ key
  | .gone v => ∃ m, t = .leaf key v m
  | .replaced n' nkey v =>
    n'.toList = dropKey key t.toList ∧ (key, v) ∈ t.toList ∧ ST n' ∧ KeyMin n' ∧
    (∀ k, nkey = some k → k = minKey n' ∧ key = minKey t) ∧ (nkey = none → minKey n' = minKey t)

theorem remove_spec (t : Node) (key : Bytes) (hst : ST t) (hkm : KeyMin t) :
    ∃ res, t.remove key = some res ∧ RemOK t key res := by
  induction t with
  | leaf k v m =>
    simp only [Node.remove]
    by_cases h : k = key
    · subst h; exact ⟨.gone v, by simp, (⟨m, rfl⟩ : ∃ m', Node.leaf k v m = Node.leaf k v m')⟩
    · exact ⟨.notFound, by simp [h], by intro x hx; simp at hx; subst hx; exact h⟩
  | inner nk h s l r m ihl ihr =>
    obtain ⟨hl, hr, h1, h2⟩ := hst
    obtain ⟨kl, kr, ke⟩ := hkm
    simp only [Node.remove]
    by_cases hk : cmpB key nk = .lt
    · simp only [hk, if_true]
      have hrne : ∀ x ∈ r.toList, x.1 ≠ key := by
        intro x hx e
        have := lt_of_lt_of_le hk (h2 x hx); rw [e] at this; exact lt_irrefl _ this
      obtain ⟨res, e, ok⟩ := ihl hl kl
      rw [e]
      cases res with
      | notFound =>
        refine ⟨.notFound, rfl, ?_⟩
        intro x hx
        simp only [toList_inner, List.mem_append] at hx
        rcases hx with hx | hx
        · exact ok x hx
        · exact hrne x hx
      | gone v =>
        obtain ⟨lm, rfl⟩ := ok
        refine ⟨.replaced r (some nk) v, rfl, ?_, by simp, hr, kr, ?_, by simp⟩
        · rw [toList_inner, dropKey_append, toList_leaf', dropKey_single, dropKey_id hrne]; rfl
        · intro k e; cases e; exact ⟨ke, rfl⟩
      | replaced l' nkey v =>
        obtain ⟨o1, o2, o3, o4, o5, o6⟩ := ok
        obtain ⟨n', hb, hc⟩ := balance_cases nk (max l'.height r.height + 1) (l'.size + r.size) l' r Meta.fresh
        refine ⟨.replaced n' nkey v, by simp [mk, hb], ?_, by simp [o2], ?_, ?_, ?_, ?_⟩
        · rw [hc.toList_eq, o1, toList_inner, dropKey_append, dropKey_id hrne]
        · apply hc.st_pres
          refine ⟨o3, hr, ?_, h2⟩
          intro x hx
          rw [o1] at hx
          exact h1 x (List.mem_filter.mp hx).1
        · exact hc.keyMin o4 kr ke
        · intro k e; rw [hc.minKey_eq]; exact o5 k e
        · intro e; rw [hc.minKey_eq]; exact o6 e
    · simp only [hk, if_false]
      have hle : le nk key := not_lt_iff_le.mp hk
      have hlne : ∀ x ∈ l.toList, x.1 ≠ key := by
        intro x hx e
        have := lt_of_lt_of_le (h1 x hx) hle; rw [e] at this; exact lt_irrefl _ this
      obtain ⟨res, e, ok⟩ := ihr hr kr
      rw [e]
      cases res with
      | notFound =>
        refine ⟨.notFound, rfl, ?_⟩
        intro x hx
        simp only [toList_inner, List.mem_append] at hx
        rcases hx with hx | hx
        · exact hlne x hx
        · exact ok x hx
      | gone v =>
        obtain ⟨rm, rfl⟩ := ok
        refine ⟨.replaced l none v, rfl, ?_, by simp, hl, kl, by simp, by simp [minKey]⟩
        rw [toList_inner, dropKey_append, toList_leaf', dropKey_single, dropKey_id hlne]; simp
      | replaced r' nkey v =>
        obtain ⟨o1, o2, o3, o4, o5, o6⟩ := ok
        -- the inner key after the removal is the leftmost key of the new right subtree
        have fin : ∀ k' : Bytes, k' = minKey r' →
            ∃ res, ((balance (mk k' l r')).map fun n => RemRes.replaced n none v) = some res ∧
              RemOK (.inner nk h s l r m) key res := by
          intro k' hmin
          obtain ⟨mv, hm⟩ := minKey_mem r'
          have hmr : (minKey r', mv) ∈ r.toList := by rw [o1] at hm; exact (List.mem_filter.mp hm).1
          obtain ⟨n', hb, hc⟩ := balance_cases k' (max l.height r'.height + 1) (l.size + r'.size) l r' Meta.fresh
          refine ⟨.replaced n' none v, by simp [mk, hb], ?_, by simp [o2], ?_, ?_, by simp, ?_⟩
          · rw [hc.toList_eq, o1, toList_inner, dropKey_append, dropKey_id hlne]
          · apply hc.st_pres
            refine ⟨hl, o3, ?_, ?_⟩
            · intro x hx; rw [hmin]; exact lt_of_lt_of_le (h1 x hx) (h2 _ hmr)
            · intro x hx; rw [hmin]; exact minKey_le r' o3 x hx
          · exact hc.keyMin kl o4 hmin
          · intro _; rw [hc.minKey_eq]; rfl
        cases nkey with
        | some k => exact fin k (o5 k rfl).1
        | none => exact fin nk (by rw [o6 rfl]; exact ke)

/-- AVL part of `remove`. -/
theorem remove_WF (t : Node) (key : Bytes) (hwf : WF t) :
    ∀ n' nkey v, t.remove key = some (.replaced n' nkey v) →
      WF n' ∧ n'.size + 1 = t.size ∧ n'.height ≤ t.height ∧ t.height ≤ n'.height + 1 := by
  induction t with
  | leaf k v m =>
    intro n' nkey v' e
    simp only [Node.remove] at e
    split at e <;> simp at e
  | inner nk h s l r m ihl ihr =>
    obtain ⟨hl, hr, eh, es, b1, b2⟩ := hwf
    intro n' nkey v e
    simp only [Node.remove] at e
    by_cases hk : cmpB key nk = .lt
    · simp only [hk, if_true] at e
      cases hs : l.remove key with
      | none => simp [hs] at e
      | some res =>
        rw [hs] at e
        cases res with
        | notFound => simp at e
        | gone v0 =>
          simp at e; obtain ⟨rfl, _, _⟩ := e
          cases l with
          | leaf lk lv lm => simp only [size_leaf, height_leaf, size_inner, height_inner] at *; exact ⟨hr, by omega, by omega, by omega⟩
          | inner lk lh ls ll lr lm => simp [Node.remove] at hs; split at hs <;> (try split at hs) <;> simp at hs <;> (cases hx : balance _ <;> simp [hx] at hs)
        | replaced l' nk' v0 =>
          obtain ⟨wl', e1, e2, e3⟩ := ihl hl l' nk' v0 hs
          obtain ⟨x, hb, hc⟩ := balance_cases nk (max l'.height r.height + 1) (l'.size + r.size) l' r Meta.fresh
          simp only [mk, hb, Option.map_some] at e
          simp at e; obtain ⟨rfl, _, _⟩ := e
          obtain ⟨w, g1, g2, g3⟩ := hc.wf_pres wl' hr (by omega) (by omega)
          have gs := hc.size_eq rfl wl' hr
          refine ⟨w, by simp only [size_inner]; omega, by simp only [height_inner]; omega, ?_⟩
          simp only [height_inner]
          by_cases hbal : r.height ≤ l'.height + 1
          · have := g3 (by omega) hbal; omega
          · omega
    · simp only [hk, if_false] at e
      cases hs : r.remove key with
      | none => simp [hs] at e
      | some res =>
        rw [hs] at e
        cases res with
        | notFound => simp at e
        | gone v0 =>
          simp at e; obtain ⟨rfl, _, _⟩ := e
          cases r with
          | leaf rk rv rm => simp only [size_leaf, height_leaf, size_inner, height_inner] at *; exact ⟨hl, by omega, by omega, by omega⟩
          | inner rk rh rs rl rr rm => simp [Node.remove] at hs; split at hs <;> (try split at hs) <;> simp at hs <;> (cases hx : balance _ <;> simp [hx] at hs)
        | replaced r' nk' v0 =>
          obtain ⟨wr', e1, e2, e3⟩ := ihr hr r' nk' v0 hs
          have fin : ∀ k' : Bytes,
              ((balance (mk k' l r')).map fun n => RemRes.replaced n none v0) = some (.replaced n' nkey v) →
              WF n' ∧ n'.size + 1 = (Node.inner nk h s l r m).size ∧ n'.height ≤ (Node.inner nk h s l r m).height ∧
                (Node.inner nk h s l r m).height ≤ n'.height + 1 := by
            intro k' e
            obtain ⟨x, hb, hc⟩ := balance_cases k' (max l.height r'.height + 1) (l.size + r'.size) l r' Meta.fresh
            simp only [mk, hb, Option.map_some] at e
            simp at e; obtain ⟨rfl, _, _⟩ := e
            obtain ⟨w, g1, g2, g3⟩ := hc.wf_pres hl wr' (by omega) (by omega)
            have gs := hc.size_eq rfl hl wr'
            refine ⟨w, by simp only [size_inner]; omega, by simp only [height_inner]; omega, ?_⟩
            simp only [height_inner]
            by_cases hbal : l.height ≤ r'.height + 1
            · have := g3 hbal (by omega); omega
            · omega
          cases nk' with
          | some k => exact fin k e
          | none => exact fin nk e

theorem lookup_dropKey (key k' : Bytes) (l : SMap) :
    SMap.lookup k' (dropKey key l) = if k' = key then none else SMap.lookup k' l := by
  induction l with
  | nil => simp [dropKey, SMap.lookup]
  | cons a rest ih =>
    obtain ⟨ka, va⟩ := a
    by_cases h1 : ka = key
    · subst h1
      have : dropKey ka ((ka, va) :: rest) = dropKey ka rest := by simp [dropKey]
      rw [this, ih]
      by_cases h2 : k' = ka
      · simp [h2]
      · simp [h2, SMap.lookup, cmpB_eq_iff]
    · have : dropKey key ((ka, va) :: rest) = (ka, va) :: dropKey key rest := by simp [dropKey, h1]
      rw [this]
      simp only [SMap.lookup, ih, cmpB_eq_iff]
      by_cases h2 : k' = ka
      · subst h2; simp [h1]
      · simp [h2]

theorem lookup_of_mem_sorted {l : SMap} (hs : l.Pairwise (fun a b => lt a.1 b.1)) {k v : Bytes}
    (hm : (k, v) ∈ l) : SMap.lookup k l = some v := by
  induction l with
  | nil => simp at hm
  | cons a rest ih =>
    obtain ⟨ka, va⟩ := a
    obtain ⟨h1, h2⟩ := List.pairwise_cons.mp hs
    simp only [List.mem_cons, Prod.mk.injEq] at hm
    rcases hm with ⟨rfl, rfl⟩ | hm
    · simp [SMap.lookup, cmpB_refl]
    · have : lt ka k := h1 (k, v) hm
      have hne : ¬ cmpB k ka = .eq := by
        intro e; have := cmpB_eq_iff.mp e; subst this; exact lt_irrefl _ ‹lt k k›
      simp only [SMap.lookup, hne, if_false]
      exact ih h2 hm

theorem lookup_none_of_absent {l : SMap} {k : Bytes} (h : ∀ x ∈ l, x.1 ≠ k) : SMap.lookup k l = none :=
  SMap.lookup_none h

/-- tree-level invariant including the inner-key rule. -/
def TInvK : Tree → Prop
  | none => True
  | some n => ST n ∧ WF n ∧ KeyMin n

/-- `Tree.Remove` refines deletion from the sorted map and keeps the invariant. -/
theorem Tree.remove_spec (t : Tree) (k : Bytes) (hi : TInvK t) :
    ∃ t' v, Tree.remove t k = some (t', v) ∧ TInvK t' ∧ v = (Tree.get t k).2 ∧
      Tree.toList t' = dropKey k (Tree.toList t) := by
  cases t with
  | none => exact ⟨none, none, rfl, trivial, rfl, rfl⟩
  | some n =>
    obtain ⟨hst, hwf, hkm⟩ := hi
    obtain ⟨res, e, ok⟩ := C01.remove_spec n k hst hkm
    simp only [Tree.remove, e]
    cases res with
    | notFound =>
      refine ⟨some n, none, rfl, ⟨hst, hwf, hkm⟩, ?_, ?_⟩
      · simp only [Tree.get]; rw [get_eq_lookup n k hst, lookup_none_of_absent ok]
      · simp only [Tree.toList]; exact (dropKey_id ok).symm
    | gone v =>
      obtain ⟨m, rfl⟩ := ok
      refine ⟨none, some v, rfl, trivial, ?_, ?_⟩
      · simp [Tree.get, Node.get, cmpB_refl]
      · simp [Tree.toList, dropKey]
    | replaced n' nkey v =>
      obtain ⟨o1, o2, o3, o4, _, _⟩ := ok
      obtain ⟨w, _, _, _⟩ := remove_WF n k hwf n' nkey v e
      refine ⟨some n', some v, rfl, ⟨o3, w, o4⟩, ?_, o1⟩
      simp only [Tree.get]
      rw [get_eq_lookup n k hst, lookup_of_mem_sorted (toList_sorted n hst) o2]

end C01
