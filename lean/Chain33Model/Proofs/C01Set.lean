import Chain33Model.Proofs.C01Tree
/-! `set` refines insertion into a sorted association list; `get` refines lookup. -/
namespace C01
open Node

/-! ### sorted association lists -/

theorem SMap.mem_ins {k v : Bytes} {m : SMap} {x : Bytes × Bytes} (h : x ∈ SMap.ins k v m) :
    x = (k, v) ∨ x ∈ m := by
  induction m with
  | nil => simp [SMap.ins] at h; exact Or.inl h
  | cons a rest ih =>
    obtain ⟨k', v'⟩ := a
    simp only [SMap.ins] at h
    split at h
    · simp at h ⊢; rcases h with h | h | h <;> simp [h]
    · simp at h ⊢; rcases h with h | h <;> simp [h]
    · simp at h ⊢
      rcases h with h | h
      · simp [h]
      · rcases ih h with h | h <;> simp [h]

theorem SMap.ins_append_left {k v : Bytes} {A B : SMap} (hB : ∀ x ∈ B, lt k x.1) :
    SMap.ins k v (A ++ B) = SMap.ins k v A ++ B := by
  induction A with
  | nil =>
    cases B with
    | nil => rfl
    | cons b rest =>
      obtain ⟨k', v'⟩ := b
      have : cmpB k k' = .lt := hB (k', v') (by simp)
      simp [SMap.ins, this]
  | cons a rest ih =>
    obtain ⟨k', v'⟩ := a
    simp only [List.cons_append, SMap.ins]
    split <;> simp [ih]

theorem SMap.ins_append_right {k v : Bytes} {A B : SMap} (hA : ∀ x ∈ A, lt x.1 k) :
    SMap.ins k v (A ++ B) = A ++ SMap.ins k v B := by
  induction A with
  | nil => rfl
  | cons a rest ih =>
    obtain ⟨k', v'⟩ := a
    have h1 : cmpB k k' = .gt := cmpB_swap_lt.mp (hA (k', v') (by simp))
    simp only [List.cons_append, SMap.ins, h1]
    rw [ih (fun x hx => hA x (by simp [hx]))]

theorem SMap.lookup_ins (k v k' : Bytes) (m : SMap) :
    SMap.lookup k' (SMap.ins k v m) = if k' = k then some v else SMap.lookup k' m := by
  induction m with
  | nil =>
    by_cases h : k' = k
    · subst h; simp [SMap.ins, SMap.lookup, cmpB_refl]
    · simp [SMap.ins, SMap.lookup, h, cmpB_eq_iff]
  | cons a rest ih =>
    obtain ⟨k2, v2⟩ := a
    simp only [SMap.ins]
    split
    · rename_i hlt
      by_cases h : k' = k
      · subst h; simp [SMap.lookup, cmpB_refl]
      · simp [SMap.lookup, h, cmpB_eq_iff]
    · rename_i heq
      have e : k = k2 := cmpB_eq_iff.mp heq
      subst e
      by_cases h : k' = k
      · subst h; simp [SMap.lookup, cmpB_refl]
      · simp [SMap.lookup, h, cmpB_eq_iff]
    · rename_i hgt
      have hne : k ≠ k2 := by
        intro e; subst e; simp [cmpB_refl] at hgt
      by_cases h : k' = k
      · subst h
        simp [SMap.lookup, cmpB_eq_iff, hne, ih]
      · simp [SMap.lookup, ih, h]

theorem SMap.lookup_append (k : Bytes) (A B : SMap) :
    SMap.lookup k (A ++ B) = (SMap.lookup k A).orElse (fun _ => SMap.lookup k B) := by
  induction A with
  | nil => simp [SMap.lookup]
  | cons a rest ih =>
    obtain ⟨k', v'⟩ := a
    simp only [List.cons_append, SMap.lookup]
    split <;> simp [ih]

theorem SMap.lookup_none {k : Bytes} {B : SMap} (h : ∀ x ∈ B, x.1 ≠ k) : SMap.lookup k B = none := by
  induction B with
  | nil => rfl
  | cons a rest ih =>
    obtain ⟨k', v'⟩ := a
    have : k' ≠ k := h (k', v') (by simp)
    simp only [SMap.lookup, cmpB_eq_iff]
    rw [if_neg (fun e => this e.symm)]
    exact ih (fun x hx => h x (by simp [hx]))

/-! ### `set` -/

/-- `set` never panics, its in-order list is the sorted-list insertion, and the ordering invariant is kept. -/
theorem set_spec (t : Node) (k v : Bytes) (hst : ST t) :
    ∃ t' u, t.set k v = some (t', u) ∧ t'.toList = SMap.ins k v t.toList ∧ ST t' := by
  induction t with
  | leaf nk nv m =>
    simp only [Node.set]
    cases hc : cmpB k nk with
    | lt => exact ⟨_, _, rfl, by simp [SMap.ins, hc], by
        simp only [ST, toList_leaf', List.mem_singleton, forall_eq]
        exact ⟨trivial, trivial, hc, by simp [le, cmpB_refl]⟩⟩
    | eq => exact ⟨_, _, rfl, by simp [SMap.ins, hc], trivial⟩
    | gt => exact ⟨_, _, rfl, by simp [SMap.ins, hc], by
        simp only [ST, toList_leaf', List.mem_singleton, forall_eq]
        exact ⟨trivial, trivial, cmpB_swap_gt.mp hc, by simp [le, cmpB_refl]⟩⟩
  | inner nk h s l r m ihl ihr =>
    obtain ⟨hl, hr, h1, h2⟩ := hst
    simp only [Node.set]
    by_cases hk : cmpB k nk = .lt
    · simp only [hk, if_true]
      obtain ⟨l', u, e, htl, hstl⟩ := ihl hl
      have hkr : ∀ x ∈ r.toList, lt k x.1 := fun x hx => lt_of_lt_of_le hk (h2 x hx)
      have hl'k : ∀ x ∈ l'.toList, lt x.1 nk := by
        intro x hx
        rw [htl] at hx
        rcases SMap.mem_ins hx with hx | hx
        · subst hx; exact hk
        · exact h1 x hx
      rw [e]
      cases u with
      | true =>
        refine ⟨_, _, rfl, ?_, ⟨hstl, hr, hl'k, h2⟩⟩
        simp [htl, SMap.ins_append_left hkr]
      | false =>
        obtain ⟨n', hb, hc⟩ := balance_cases nk (max l'.height r.height + 1) (l'.size + r.size) l' r Meta.fresh
        refine ⟨n', false, ?_, ?_, ?_⟩
        · show (balance (mk nk l' r)).map _ = _
          simp only [mk, hb, Option.map_some]
        · rw [hc.toList_eq, htl, toList_inner, SMap.ins_append_left hkr]
        · exact hc.st_pres ⟨hstl, hr, hl'k, h2⟩
    · simp only [hk, if_false]
      obtain ⟨r', u, e, htr, hstr⟩ := ihr hr
      have hle : le nk k := not_lt_iff_le.mp hk
      have hkl : ∀ x ∈ l.toList, lt x.1 k := fun x hx => lt_of_lt_of_le (h1 x hx) hle
      have hr'k : ∀ x ∈ r'.toList, le nk x.1 := by
        intro x hx
        rw [htr] at hx
        rcases SMap.mem_ins hx with hx | hx
        · subst hx; exact hle
        · exact h2 x hx
      rw [e]
      cases u with
      | true =>
        refine ⟨_, _, rfl, ?_, ⟨hl, hstr, h1, hr'k⟩⟩
        simp [htr, SMap.ins_append_right hkl]
      | false =>
        obtain ⟨n', hb, hc⟩ := balance_cases nk (max l.height r'.height + 1) (l.size + r'.size) l r' Meta.fresh
        refine ⟨n', false, ?_, ?_, ?_⟩
        · show (balance (mk nk l r')).map _ = _
          simp only [mk, hb, Option.map_some]
        · rw [hc.toList_eq, htr, toList_inner, SMap.ins_append_right hkl]
        · exact hc.st_pres ⟨hl, hstr, h1, hr'k⟩

/-- AVL / stored height and size: kept by `set`; an update keeps the shape, an insertion adds one leaf and
at most one level. -/
theorem set_WF (t : Node) (k v : Bytes) (hwf : WF t) :
    ∀ t' u, t.set k v = some (t', u) →
      WF t' ∧ (u = true → t'.height = t.height ∧ t'.size = t.size) ∧
      (u = false → t'.size = t.size + 1 ∧ t.height ≤ t'.height ∧ t'.height ≤ t.height + 1) := by
  induction t with
  | leaf nk nv m =>
    intro t' u e
    simp only [Node.set] at e
    split at e <;> (simp at e; obtain ⟨rfl, rfl⟩ := e; simp [WF])
  | inner nk h s l r m ihl ihr =>
    obtain ⟨hl, hr, eh, es, b1, b2⟩ := hwf
    intro t' u e
    simp only [Node.set] at e
    by_cases hk : cmpB k nk = .lt
    · simp only [hk, if_true] at e
      cases hs : l.set k v with
      | none => simp [hs] at e
      | some p =>
        obtain ⟨l', ul⟩ := p
        obtain ⟨wl', hu, hnu⟩ := ihl hl l' ul hs
        rw [hs] at e
        cases ul with
        | true =>
          simp at e; obtain ⟨rfl, rfl⟩ := e
          obtain ⟨e1, e2⟩ := hu rfl
          refine ⟨?_, fun _ => ⟨rfl, rfl⟩, by simp⟩
          simp only [WF]
          exact ⟨wl', hr, by omega, by omega, by omega, by omega⟩
        | false =>
          obtain ⟨e1, e2, e3⟩ := hnu rfl
          obtain ⟨n', hb, hc⟩ := balance_cases nk (max l'.height r.height + 1) (l'.size + r.size) l' r Meta.fresh
          simp only [mk, hb, Option.map_some] at e
          simp at e; obtain ⟨rfl, rfl⟩ := e
          obtain ⟨w, g1, g2, g3⟩ := hc.wf_pres wl' hr (by omega) (by omega)
          have gs := hc.size_eq rfl wl' hr
          refine ⟨w, by simp, fun _ => ⟨by simp only [size_inner]; omega, ?_, ?_⟩⟩
          · simp only [height_inner]
            by_cases hbal : l'.height ≤ r.height + 1
            · have := g3 hbal (by omega); omega
            · omega
          · simp only [height_inner]; omega
    · simp only [hk, if_false] at e
      cases hs : r.set k v with
      | none => simp [hs] at e
      | some p =>
        obtain ⟨r', ur⟩ := p
        obtain ⟨wr', hu, hnu⟩ := ihr hr r' ur hs
        rw [hs] at e
        cases ur with
        | true =>
          simp at e; obtain ⟨rfl, rfl⟩ := e
          obtain ⟨e1, e2⟩ := hu rfl
          refine ⟨?_, fun _ => ⟨rfl, rfl⟩, by simp⟩
          simp only [WF]
          exact ⟨hl, wr', by omega, by omega, by omega, by omega⟩
        | false =>
          obtain ⟨e1, e2, e3⟩ := hnu rfl
          obtain ⟨n', hb, hc⟩ := balance_cases nk (max l.height r'.height + 1) (l.size + r'.size) l r' Meta.fresh
          simp only [mk, hb, Option.map_some] at e
          simp at e; obtain ⟨rfl, rfl⟩ := e
          obtain ⟨w, g1, g2, g3⟩ := hc.wf_pres hl wr' (by omega) (by omega)
          have gs := hc.size_eq rfl hl wr'
          refine ⟨w, by simp, fun _ => ⟨by simp only [size_inner]; omega, ?_, ?_⟩⟩
          · simp only [height_inner]
            by_cases hbal : r'.height ≤ l.height + 1
            · have := g3 (by omega) hbal; omega
            · omega
          · simp only [height_inner]; omega

/-- `set` (hence `balance`, `rotateLeft/Right`) never panics, on any tree whatsoever. -/
theorem set_isSome (t : Node) (k v : Bytes) : ∃ r, t.set k v = some r := by
  induction t with
  | leaf nk nv m => simp only [Node.set]; split <;> exact ⟨_, rfl⟩
  | inner nk h s l r m ihl ihr =>
    simp only [Node.set]
    split
    · obtain ⟨⟨l', u⟩, e⟩ := ihl
      rw [e]
      cases u with
      | true => exact ⟨_, rfl⟩
      | false =>
        obtain ⟨n', hb, _⟩ := balance_cases nk (max l'.height r.height + 1) (l'.size + r.size) l' r Meta.fresh
        exact ⟨(n', false), by simp [mk, hb]⟩
    · obtain ⟨⟨r', u⟩, e⟩ := ihr
      rw [e]
      cases u with
      | true => exact ⟨_, rfl⟩
      | false =>
        obtain ⟨n', hb, _⟩ := balance_cases nk (max l.height r'.height + 1) (l.size + r'.size) l r' Meta.fresh
        exact ⟨(n', false), by simp [mk, hb]⟩

theorem Tree.set_isSome (t : Tree) (k v : Bytes) : ∃ r, Tree.set t k v = some r := by
  cases t with
  | none => exact ⟨_, rfl⟩
  | some n =>
    obtain ⟨r, e⟩ := C01.set_isSome n k v
    exact ⟨(some r.1, r.2), by simp [Tree.set, e]⟩

theorem Tree.setMany_isSome (kvs : List (Bytes × Bytes)) : ∀ t : Tree, ∃ t', Tree.setMany t kvs = some t' := by
  induction kvs with
  | nil => intro t; exact ⟨t, rfl⟩
  | cons kv rest ih =>
    obtain ⟨k, v⟩ := kv
    intro t
    obtain ⟨⟨t1, u⟩, e⟩ := Tree.set_isSome t k v
    obtain ⟨t2, e2⟩ := ih t1
    exact ⟨t2, by simp [Tree.setMany, e, e2]⟩

/-! ### `get` -/

theorem get_eq_lookup (t : Node) (k : Bytes) (hst : ST t) : (t.get k).2 = SMap.lookup k t.toList := by
  induction t with
  | leaf nk nv m =>
    simp only [Node.get, toList_leaf', SMap.lookup]
    cases hc : cmpB nk k with
    | eq =>
      have : nk = k := cmpB_eq_iff.mp hc
      subst this; simp [cmpB_refl]
    | lt =>
      have : cmpB k nk = .gt := cmpB_swap_lt.mp hc
      simp [this]
    | gt =>
      have : cmpB k nk = .lt := cmpB_swap_gt.mp hc
      simp [this]
  | inner nk h s l r m ihl ihr =>
    obtain ⟨hl, hr, h1, h2⟩ := hst
    simp only [Node.get, toList_inner, SMap.lookup_append]
    by_cases hk : cmpB k nk = .lt
    · simp only [hk, if_true]
      rw [ihl hl]
      have : SMap.lookup k r.toList = none :=
        SMap.lookup_none (fun x hx e => by
          have := lt_of_lt_of_le hk (h2 x hx); rw [e] at this; exact lt_irrefl _ this)
      rw [this]; cases SMap.lookup k l.toList <;> rfl
    · simp only [hk, if_false]
      have hle : le nk k := not_lt_iff_le.mp hk
      have : SMap.lookup k l.toList = none :=
        SMap.lookup_none (fun x hx e => by
          have := lt_of_lt_of_le (h1 x hx) hle; rw [e] at this; exact lt_irrefl _ this)
      rw [this, ← ihr hr]; rfl

end C01
