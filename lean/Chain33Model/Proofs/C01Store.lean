import Chain33Model.Proofs.C03Bytes
/-! Persistence: records written by `save` are read back by `load` (as long as no record is overwritten by a
different one), and keep being read back after later saves. -/
namespace C01
open C03
open Proto (varint tag fBytes fInt64 fVarint int64ToU)

/-! ### `decodeStoreNode ∘ storeRec` -/

def optB (f : Nat) (b : Bytes) : List (Nat × WVal) := if b = [] then [] else [(f, WVal.bytes b)]
def optV (f : Nat) (i : Int) : List (Nat × WVal) := if i = 0 then [] else [(f, WVal.varint (int64ToU i))]

theorem encFields_append (a b : List (Nat × WVal)) : encFields (a ++ b) = encFields a ++ encFields b := by
  induction a with
  | nil => rfl
  | cons x rest ih =>
    obtain ⟨f, w⟩ := x
    cases w <;> simp [encFields, ih, List.append_assoc]

theorem encFields_optB (f : Nat) (b : Bytes) : encFields (optB f b) = fBytes f b := by
  unfold optB fBytes
  by_cases h : b = [] <;> simp [h, encFields, List.isEmpty_iff]

theorem encFields_optV (f : Nat) (i : Int) (h0 : 0 ≤ i) : encFields (optV f i) = fInt64 f i := by
  unfold optV fInt64 fVarint
  have e : int64ToU i = 0 ↔ i = 0 := by rw [int64ToU_nonneg h0]; omega
  by_cases h : i = 0
  · subst h; simp [encFields, int64ToU]
  · have : ¬ int64ToU i = 0 := fun x => h (e.mp x)
    simp [h, this, encFields]

def recFields (cfg : Cfg) (key value lh rh : Bytes) (height size : Nat) : List (Nat × WVal) :=
  optB 1 key ++ (optB 2 (if height = 0 ∧ !cfg.mvcc then value else []) ++ (optB 3 lh ++ (optB 4 rh ++
    (optV 5 height ++ optV 6 size))))

theorem storeRec_eq (cfg : Cfg) (key value lh rh : Bytes) (height size : Nat) :
    storeRec cfg key value lh rh height size = encFields (recFields cfg key value lh rh height size) := by
  unfold storeRec recFields
  simp only [encFields_append, encFields_optB, encFields_optV _ _ (Int.natCast_nonneg _), List.append_assoc]

theorem valid_optB (f : Nat) (b : Bytes) (hf : 1 ≤ f ∧ f < 16) (hb : b.length < 2 ^ 64) :
    ∀ x ∈ optB f b, ValidField x := by
  intro x hx
  unfold optB at hx
  split at hx <;> simp at hx
  subst hx; exact ⟨hf.1, hf.2, hb⟩

theorem valid_optV (f : Nat) (i : Int) (hf : 1 ≤ f ∧ f < 16) (h0 : 0 ≤ i) (h1 : i < 2 ^ 31) :
    ∀ x ∈ optV f i, ValidField x := by
  intro x hx
  unfold optV at hx
  split at hx <;> simp at hx
  subst hx; exact ⟨hf.1, hf.2, by rw [int64ToU_nonneg h0]; omega⟩

/-- the update function of `decodeStoreNode`, named. -/
def snUpd (sn : StoreNode) (f : Nat × WVal) : StoreNode :=
  match f with
  | (1, .bytes x) => { sn with key := x }
  | (2, .bytes x) => { sn with value := x }
  | (3, .bytes x) => { sn with leftHash := x }
  | (4, .bytes x) => { sn with rightHash := x }
  | (5, .varint x) => { sn with height := toInt32 x }
  | (6, .varint x) => { sn with size := toInt32 x }
  | _ => sn

theorem decodeStoreNode_eq (b : Bytes) : decodeStoreNode b = (parseMsg b).map (fun fs => fs.foldl snUpd {}) := by
  rfl

/-- **record round trip**. -/
theorem decodeStoreNode_storeRec (cfg : Cfg) (key value lh rh : Bytes) (height size : Nat)
    (hk : key.length < 2 ^ 64) (hv : value.length < 2 ^ 64) (hl : lh.length < 2 ^ 64) (hr : rh.length < 2 ^ 64)
    (hh : height < 2 ^ 31) (hs : size < 2 ^ 31) :
    decodeStoreNode (storeRec cfg key value lh rh height size) =
      some ⟨key, if height = 0 ∧ !cfg.mvcc then value else [], lh, rh, height, size⟩ := by
  rw [decodeStoreNode_eq, storeRec_eq, parseMsg_encFields]
  · have th := toInt32_int64ToU (i := (height : Int)) (by omega) (by omega)
    have ts := toInt32_int64ToU (i := (size : Int)) (by omega) (by omega)
    simp only [Option.map_some, recFields, List.foldl_append]
    generalize (if height = 0 ∧ (!cfg.mvcc) = true then value else []) = val
    have k1 : (optB 1 key).foldl snUpd ({} : StoreNode) = ⟨key, [], [], [], 0, 0⟩ := by
      unfold optB; by_cases a : key = [] <;> simp [a, snUpd]
    have k2 : (optB 2 val).foldl snUpd ⟨key, [], [], [], 0, 0⟩ = ⟨key, val, [], [], 0, 0⟩ := by
      unfold optB; by_cases a : val = [] <;> simp [a, snUpd]
    have k3 : (optB 3 lh).foldl snUpd ⟨key, val, [], [], 0, 0⟩ = ⟨key, val, lh, [], 0, 0⟩ := by
      unfold optB; by_cases a : lh = [] <;> simp [a, snUpd]
    have k4 : (optB 4 rh).foldl snUpd ⟨key, val, lh, [], 0, 0⟩ = ⟨key, val, lh, rh, 0, 0⟩ := by
      unfold optB; by_cases a : rh = [] <;> simp [a, snUpd]
    have k5 : (optV 5 height).foldl snUpd ⟨key, val, lh, rh, 0, 0⟩ = ⟨key, val, lh, rh, height, 0⟩ := by
      unfold optV; by_cases a : (height : Int) = 0
      · simp [a]
      · simp only [a, if_false, List.foldl_cons, List.foldl_nil, snUpd, th]
    have k6 : (optV 6 size).foldl snUpd ⟨key, val, lh, rh, height, 0⟩ = ⟨key, val, lh, rh, height, size⟩ := by
      unfold optV; by_cases a : (size : Int) = 0
      · simp [a]
      · simp only [a, if_false, List.foldl_cons, List.foldl_nil, snUpd, ts]
    rw [k1, k2, k3, k4, k5, k6]
  · intro x hx
    unfold recFields at hx
    simp only [List.mem_append] at hx
    rcases hx with hx | hx | hx | hx | hx | hx
    · exact valid_optB 1 _ (by omega) hk x hx
    · refine valid_optB 2 _ (by omega) ?_ x hx
      split <;> simp <;> omega
    · exact valid_optB 3 _ (by omega) hl x hx
    · exact valid_optB 4 _ (by omega) hr x hx
    · exact valid_optV 5 _ (by omega) (by omega) (by omega) x hx
    · exact valid_optV 6 _ (by omega) (by omega) (by omega) x hx

/-! ### records in the database -/

/-- the tree as `load` rebuilds it: every node persisted, leaf values elided under MVCC. -/
def asLoaded (cfg : Cfg) : Node → Node
  | .leaf k v m => .leaf k (if cfg.mvcc then [] else v) ⟨m.hk, true⟩
  | .inner k h s l r m => .inner k h s (asLoaded cfg l) (asLoaded cfg r) ⟨m.hk, true⟩

/-- every node of the tree has its record in the database under its key, pointing at its children's keys. -/
def Stored (cfg : Cfg) (db : NodeDB) : Node → Prop
  | .leaf k v m => ∃ h, m.hk = some h ∧ db[h]? = some (storeRec cfg k v [] [] 0 1)
  | .inner k ht sz l r m => Stored cfg db l ∧ Stored cfg db r ∧
      ∃ h lh rh, m.hk = some h ∧ l.info.hk = some lh ∧ r.info.hk = some rh ∧
        db[h]? = some (storeRec cfg k [] lh rh ht sz)

/-- the tree fits the Go / wire types. -/
def FitsRec : Node → Prop
  | .leaf k v m => k.length < 2 ^ 64 ∧ v.length < 2 ^ 64 ∧ ∀ h, m.hk = some h → h.length < 2 ^ 64
  | .inner k ht sz l r m => FitsRec l ∧ FitsRec r ∧ k.length < 2 ^ 64 ∧ 1 ≤ ht ∧ ht < 2 ^ 31 ∧ sz < 2 ^ 31 ∧
      ∀ h, m.hk = some h → h.length < 2 ^ 64

theorem FitsRec.hk {t : Node} (hf : FitsRec t) : ∀ h, t.info.hk = some h → h.length < 2 ^ 64 := by
  cases t with
  | leaf k v m => exact hf.2.2
  | inner k ht sz l r m => exact hf.2.2.2.2.2.2

def depth : Node → Nat
  | .leaf .. => 0
  | .inner _ _ _ l r _ => max (depth l) (depth r) + 1

theorem varint_ne_nil (n : Nat) : varint n ≠ [] := by
  by_cases h : n < 128
  · rw [varint_small n h]; simp
  · rw [varint_big n h]; simp

theorem storeRec_ne_nil (cfg : Cfg) (key value lh rh : Bytes) (height size : Nat) (h : 1 ≤ height ∨ 1 ≤ size) :
    (storeRec cfg key value lh rh height size).isEmpty = false := by
  unfold storeRec
  rcases h with h | h
  · have : fInt64 5 (height : Int) ≠ [] := by
      have e : int64ToU (height : Int) ≠ 0 := by rw [int64ToU_nonneg (by omega)]; omega
      simp [fInt64, fVarint, e, tag, varint_ne_nil]
    cases hx : fInt64 5 (height : Int) with
    | nil => exact absurd hx this
    | cons a b => simp [hx]
  · have : fInt64 6 (size : Int) ≠ [] := by
      have e : int64ToU (size : Int) ≠ 0 := by rw [int64ToU_nonneg (by omega)]; omega
      simp [fInt64, fVarint, e, tag, varint_ne_nil]
    cases hx : fInt64 6 (size : Int) with
    | nil => exact absurd hx this
    | cons a b => simp [hx]

/-- **load_of_stored** — a stored tree is read back exactly (as `asLoaded`). -/
theorem load_of_stored (cfg : Cfg) (db : NodeDB) (n : Node) (hs : Stored cfg db n) (hf : FitsRec n) :
    ∀ fuel top h, n.info.hk = some h → depth n < fuel → load db fuel top h = .ok (asLoaded cfg n) := by
  induction n with
  | leaf k v m =>
    intro fuel top h hh hd
    obtain ⟨h', e1, e2⟩ := hs
    simp only [Node.info] at hh
    rw [e1] at hh; cases hh
    obtain ⟨f1, f2, f3⟩ := hf
    cases fuel with
    | zero => simp at hd
    | succ fuel =>
      simp only [load, e2, storeRec_ne_nil cfg k v [] [] 0 1 (Or.inr (by omega)), Bool.false_eq_true, if_false]
      rw [decodeStoreNode_storeRec cfg k v [] [] 0 1 f1 f2 (by simp) (by simp) (by omega) (by omega)]
      simp only [asLoaded, e1]
      cases cfg.mvcc <;> simp
  | inner k ht sz l r m ihl ihr =>
    intro fuel top h hh hd
    obtain ⟨sl, sr, h', lh, rh, e1, e2, e3, e4⟩ := hs
    simp only [Node.info] at hh
    rw [e1] at hh; cases hh
    obtain ⟨fl, fr, f1, f2, f3, f4, f5⟩ := hf
    cases fuel with
    | zero => simp at hd
    | succ fuel =>
      simp only [depth] at hd
      simp only [load, e4, storeRec_ne_nil cfg k [] lh rh ht sz (Or.inl f2), Bool.false_eq_true, if_false]
      rw [decodeStoreNode_storeRec cfg k [] lh rh ht sz f1 (by simp) (fl.hk lh e2) (fr.hk rh e3) f3 f4]
      have hne : ¬ ((ht : Int) = 0) := by omega
      simp only [hne, if_false]
      rw [ihl sl fl fuel false lh e2 (by omega), ihr sr fr fuel false rh e3 (by omega)]
      have : ¬ (ht = 0 ∧ (!cfg.mvcc) = true) := by omega
      simp [asLoaded, e1, this]

/-- `db ⊆ db'`. -/
def Sub (db db' : NodeDB) : Prop := ∀ (k v : Bytes), db[k]? = some v → db'[k]? = some v

theorem Stored.mono {cfg : Cfg} {db db' : NodeDB} (hsub : Sub db db') {n : Node} (hs : Stored cfg db n) :
    Stored cfg db' n := by
  induction n with
  | leaf k v m =>
    obtain ⟨h, e1, e2⟩ := hs
    exact ⟨h, e1, hsub _ _ e2⟩
  | inner k ht sz l r m ihl ihr =>
    obtain ⟨sl, sr, h, lh, rh, e1, e2, e3, e4⟩ := hs
    exact ⟨ihl sl, ihr sr, h, lh, rh, e1, e2, e3, hsub _ _ e4⟩

/-- **old_roots_stable** (model level) — a tree that is stored stays readable, with the same content, in every
later database that still contains the earlier records (`Sub`): later commits, close and reopen. -/
theorem load_stable (cfg : Cfg) (db db' : NodeDB) (hsub : Sub db db') (n : Node) (hs : Stored cfg db n)
    (hf : FitsRec n) (fuel : Nat) (top : Bool) (h : Bytes) (hh : n.info.hk = some h) (hd : depth n < fuel) :
    load db' fuel top h = load db fuel top h := by
  rw [load_of_stored cfg db n hs hf fuel top h hh hd,
      load_of_stored cfg db' n (hs.mono hsub) hf fuel top h hh hd]

/-! ### what `save` writes -/

/-- the (key, record) pairs `save` inserts, in order (persisted subtrees are skipped). -/
def writes (cfg : Cfg) : Node → Option (List (Bytes × Bytes))
  | .leaf k v m =>
    match m.hk with
    | none => none
    | some h => if m.persisted then some [] else some [(h, storeRec cfg k v [] [] 0 1)]
  | .inner k ht sz l r m =>
    match m.hk with
    | none => none
    | some h =>
      if m.persisted then some []
      else match writes cfg l, writes cfg r, l.info.hk, r.info.hk with
        | some wl, some wr, some lh, some rh => some (wl ++ (wr ++ [(h, storeRec cfg k [] lh rh ht sz)]))
        | _, _, _, _ => none

/-- the tree `save` returns: the not yet persisted part marked persisted. -/
def markP : Node → Node
  | .leaf k v m => .leaf k v { m with persisted := true }
  | .inner k ht sz l r m =>
    if m.persisted then .inner k ht sz l r m
    else .inner k ht sz (markP l) (markP r) { m with persisted := true }

def insertAll (db : NodeDB) (ws : List (Bytes × Bytes)) : NodeDB := ws.foldl (fun d p => d.insert p.1 p.2) db

theorem insertAll_append (db : NodeDB) (a b : List (Bytes × Bytes)) :
    insertAll db (a ++ b) = insertAll (insertAll db a) b := by simp [insertAll, List.foldl_append]

theorem markP_hk (n : Node) : (markP n).info.hk = n.info.hk := by
  cases n with
  | leaf k v m => rfl
  | inner k ht sz l r m => simp only [markP]; split <;> rfl

theorem save_eq (cfg : Cfg) (n : Node) : ∀ db n' db', save cfg n db = some (n', db') →
    ∃ ws, writes cfg n = some ws ∧ n' = markP n ∧ db' = insertAll db ws := by
  induction n with
  | leaf k v m =>
    intro db n' db' e
    simp only [save] at e
    cases hm : m.hk with
    | none => simp [hm] at e
    | some h =>
      simp only [hm] at e
      by_cases hp : m.persisted = true
      · simp only [hp, if_true] at e
        simp at e; obtain ⟨rfl, rfl⟩ := e
        refine ⟨[], by simp [writes, hm, hp], ?_, rfl⟩
        simp only [markP]
        congr 1
        cases m; simp_all
      · simp only [hp, if_false] at e
        simp at e; obtain ⟨rfl, rfl⟩ := e
        exact ⟨[(h, storeRec cfg k v [] [] 0 1)], by simp [writes, hm, hp], by simp [markP, hm], rfl⟩
  | inner k ht sz l r m ihl ihr =>
    intro db n' db' e
    simp only [save] at e
    cases hm : m.hk with
    | none => simp [hm] at e
    | some h =>
      simp only [hm] at e
      by_cases hp : m.persisted = true
      · simp only [hp, if_true] at e
        simp at e; obtain ⟨rfl, rfl⟩ := e
        exact ⟨[], by simp [writes, hm, hp], by simp [markP, hp], rfl⟩
      · simp only [hp, if_false] at e
        cases hl : save cfg l db with
        | none => simp [hl] at e
        | some pl =>
          obtain ⟨l', db1⟩ := pl
          simp only [hl] at e
          cases hr : save cfg r db1 with
          | none => simp [hr] at e
          | some pr =>
            obtain ⟨r', db2⟩ := pr
            simp only [hr] at e
            obtain ⟨wl, a1, a2, a3⟩ := ihl db l' db1 hl
            obtain ⟨wr, b1, b2, b3⟩ := ihr db1 r' db2 hr
            subst a2 b2
            rw [markP_hk, markP_hk] at e
            cases hlh : l.info.hk with
            | none => simp [hlh] at e
            | some lh =>
              cases hrh : r.info.hk with
              | none => simp [hlh, hrh] at e
              | some rh =>
                simp only [hlh, hrh] at e
                simp at e; obtain ⟨rfl, rfl⟩ := e
                refine ⟨wl ++ (wr ++ [(h, storeRec cfg k [] lh rh ht sz)]), by simp [writes, hm, hp, a1, b1, hlh, hrh],
                  by simp [markP, hp, hm], ?_⟩
                rw [insertAll_append, insertAll_append, ← a3, ← b3]
                rfl

/-- no key receives two different records: neither among the new writes nor against what is already there.
(Content addressing: implied by collision-freeness of the hash on a fixed configuration.) -/
def Consistent (ws : List (Bytes × Bytes)) (db : NodeDB) : Prop :=
  (∀ p ∈ ws, ∀ q ∈ ws, p.1 = q.1 → p.2 = q.2) ∧ (∀ p ∈ ws, ∀ v, db[p.1]? = some v → v = p.2)

theorem insertAll_spec (ws : List (Bytes × Bytes)) : ∀ (db : NodeDB), Consistent ws db →
    Sub db (insertAll db ws) ∧ ∀ p ∈ ws, (insertAll db ws)[p.1]? = some p.2 := by
  induction ws with
  | nil => intro db _; exact ⟨fun _ _ h => h, fun p hp => by simp at hp⟩
  | cons w rest ih =>
    intro db hc
    obtain ⟨c1, c2⟩ := hc
    have hc' : Consistent rest (db.insert w.1 w.2) := by
      refine ⟨fun p hp q hq => c1 p (by simp [hp]) q (by simp [hq]), ?_⟩
      intro p hp v hv
      rw [Std.HashMap.getElem?_insert] at hv
      by_cases e : w.1 = p.1
      · simp [e] at hv
        rw [← hv]
        exact c1 w (by simp) p (by simp [hp]) e
      · have : (w.1 == p.1) = false := by simpa using e
        simp [this] at hv
        exact c2 p (by simp [hp]) v hv
    obtain ⟨s1, s2⟩ := ih (db.insert w.1 w.2) hc'
    have hstep : Sub db (db.insert w.1 w.2) := by
      intro k v hv
      rw [Std.HashMap.getElem?_insert]
      by_cases e : w.1 = k
      · subst e
        have := c2 w (by simp) v hv
        simp [this]
      · have : (w.1 == k) = false := by simpa using e
        simp [this, hv]
    refine ⟨fun k v hv => s1 k v (hstep k v hv), ?_⟩
    intro p hp
    simp only [List.mem_cons] at hp
    rcases hp with rfl | hp
    · exact s1 _ _ (by rw [Std.HashMap.getElem?_insert]; simp)
    · exact s2 p hp

/-- the persisted parts of the tree (those `save` skips) are already stored. -/
def PersistedStored (cfg : Cfg) (db : NodeDB) : Node → Prop
  | .leaf k v m => m.persisted = true → Stored cfg db (.leaf k v m)
  | .inner k ht sz l r m =>
    (m.persisted = true → Stored cfg db (.inner k ht sz l r m)) ∧
    (m.persisted = false → PersistedStored cfg db l ∧ PersistedStored cfg db r)

theorem stored_markP (cfg : Cfg) (db db' : NodeDB) (hsub : Sub db db') (n : Node) :
    ∀ ws, writes cfg n = some ws → (∀ p ∈ ws, db'[p.1]? = some p.2) → PersistedStored cfg db n →
      Stored cfg db' (markP n) := by
  induction n with
  | leaf k v m =>
    intro ws hw hin hps
    simp only [writes] at hw
    cases hm : m.hk with
    | none => simp [hm] at hw
    | some h =>
      simp only [hm] at hw
      by_cases hp : m.persisted = true
      · have := (hps hp).mono hsub
        obtain ⟨h', e1, e2⟩ := this
        exact ⟨h', e1, e2⟩
      · simp only [hp, if_false] at hw
        simp at hw; subst hw
        exact ⟨h, hm, hin (h, storeRec cfg k v [] [] 0 1) (by simp)⟩
  | inner k ht sz l r m ihl ihr =>
    intro ws hw hin hps
    simp only [writes] at hw
    cases hm : m.hk with
    | none => simp [hm] at hw
    | some h =>
      simp only [hm] at hw
      by_cases hp : m.persisted = true
      · simp only [markP, hp, if_true]
        exact (hps.1 hp).mono hsub
      · simp only [hp, if_false] at hw
        have hp' : m.persisted = false := by simpa using hp
        obtain ⟨pl, pr⟩ := hps.2 hp'
        cases hwl : writes cfg l with
        | none => simp [hwl] at hw
        | some wl =>
          cases hwr : writes cfg r with
          | none => simp [hwl, hwr] at hw
          | some wr =>
            cases hlh : l.info.hk with
            | none => simp [hwl, hwr, hlh] at hw
            | some lh =>
              cases hrh : r.info.hk with
              | none => simp [hwl, hwr, hlh, hrh] at hw
              | some rh =>
                simp only [hwl, hwr, hlh, hrh] at hw
                simp at hw; subst hw
                simp only [markP, hp, if_false]
                refine ⟨ihl wl hwl (fun p hp => hin p (by simp [hp])) pl,
                  ihr wr hwr (fun p hp => hin p (by simp [hp])) pr,
                  h, lh, rh, hm, by rw [markP_hk]; exact hlh, by rw [markP_hk]; exact hrh,
                  hin (h, storeRec cfg k [] lh rh ht sz) (by simp)⟩

theorem asLoaded_markP (cfg : Cfg) (n : Node) : asLoaded cfg (markP n) = asLoaded cfg n := by
  induction n with
  | leaf k v m => rfl
  | inner k ht sz l r m ihl ihr =>
    simp only [markP]
    split
    · rfl
    · simp [asLoaded, ihl, ihr]

theorem depth_markP (n : Node) : depth (markP n) = depth n := by
  induction n with
  | leaf k v m => rfl
  | inner k ht sz l r m ihl ihr =>
    simp only [markP]
    split
    · rfl
    · simp [depth, ihl, ihr]

theorem fitsRec_markP (n : Node) (hf : FitsRec n) : FitsRec (markP n) := by
  induction n with
  | leaf k v m => exact hf
  | inner k ht sz l r m ihl ihr =>
    simp only [markP]
    split
    · exact hf
    · obtain ⟨a, b, c⟩ := hf
      exact ⟨ihl a, ihr b, c⟩

/-- **load_save** — after `save`, the tree is read back from the new database exactly as saved, and everything
that was stored before still is — provided no key receives two different records (`Consistent`). -/
theorem load_save (cfg : Cfg) (n n' : Node) (db db' : NodeDB) (hsave : save cfg n db = some (n', db'))
    (hps : PersistedStored cfg db n) (hf : FitsRec n)
    (hc : ∀ ws, writes cfg n = some ws → Consistent ws db)
    (root : Bytes) (hroot : n.info.hk = some root) (fuel : Nat) (top : Bool) (hd : depth n < fuel) :
    load db' fuel top root = .ok (asLoaded cfg n) ∧ Sub db db' ∧ Stored cfg db' n' := by
  obtain ⟨ws, hw, rfl, rfl⟩ := save_eq cfg n db n' db' hsave
  obtain ⟨hsub, hin⟩ := insertAll_spec ws db (hc ws hw)
  have hst := stored_markP cfg db (insertAll db ws) hsub n ws hw hin hps
  refine ⟨?_, hsub, hst⟩
  have := load_of_stored cfg (insertAll db ws) (markP n) hst (fitsRec_markP n hf) fuel top root
    (by rw [markP_hk]; exact hroot) (by rw [depth_markP]; exact hd)
  rw [this, asLoaded_markP]

end C01
