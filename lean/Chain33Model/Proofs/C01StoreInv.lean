import Chain33Model.Proofs.C01Reach
import Chain33Model.Proofs.C01Batch
/-! The store invariant for histories of `Store.setKV` (no height prefix, no MVCC, no pending updates) and the
single-step lemma: the hypotheses of `load_save_full` hold of every tree the store builds itself. -/
namespace C01
open C02 C03 Node

def zero32 : Bytes := List.replicate 32 0

theorem asLoaded_stored (cfg : Cfg) (hm : cfg.mvcc = false) (db : NodeDB) (n : Node) (h : Stored cfg db n) :
    Stored cfg db (asLoaded cfg n) := by
  induction n with
  | leaf k v m => simpa [asLoaded, hm, Stored] using h
  | inner k ht sz l r m ihl ihr =>
    obtain ⟨a, b, c⟩ := h
    exact ⟨ihl a, ihr b, by simpa [asLoaded] using c⟩

theorem asLoaded_leafFit (cfg : Cfg) (hm : cfg.mvcc = false) (n : Node) (h : LeafFit n) : LeafFit (asLoaded cfg n) := by
  induction n with
  | leaf k v m => simpa [asLoaded, hm, LeafFit] using h
  | inner k ht sz l r m ihl ihr => exact ⟨ihl h.1, ihr h.2.1, by simpa [asLoaded] using h.2.2⟩

theorem asLoaded_good {H : Bytes → Bytes} (cfg : Cfg) (hm : cfg.mvcc = false) (db : NodeDB) (n : Node)
    (h : Good H cfg db n) : Good H cfg db (asLoaded cfg n) := by
  obtain ⟨st, wf, km, ph, sd, lf, sz⟩ := h
  exact ⟨asLoaded_ST cfg n st, (asLoaded_inv cfg n).1 wf, (asLoaded_inv cfg n).2.1 km, (asLoaded_PH cfg hm n ph).1,
    asLoaded_stored cfg hm db n sd, asLoaded_leafFit cfg hm n lf, by simpa using sz⟩

theorem good_fits {H : Bytes → Bytes} {cfg : Cfg} {db : NodeDB} {n : Node} (h : Good H cfg db n) : FitsRec n :=
  fitsRec_of n h.2.2.2.2.2.1 h.2.1 h.2.2.1 h.2.2.2.2.2.2

theorem good_load {H : Bytes → Bytes} {cfg : Cfg} {db : NodeDB} {n : Node} (h : Good H cfg db n) (r : Bytes)
    (hr : n.info.hk = some r) : load db loadFuel true r = .ok (asLoaded cfg n) :=
  load_of_stored cfg db n h.2.2.2.2.1 (good_fits h) loadFuel true r hr (depth_lt_loadFuel_aux n h.2.1 (good_fits h))

theorem good_hk_len {H : Bytes → Bytes} (hlen : ∀ x, (H x).length = 32) {cfg : Cfg} {db : NodeDB} {n : Node}
    (h : Good H cfg db n) (r : Bytes) (hr : n.info.hk = some r) : r.length = 32 := by
  have := h.2.2.2.1.hk
  rw [hr] at this
  cases this
  exact pureHash_length hlen n

/-- the invariant: `R` lists the committed roots with the key/value lists they stand for. -/
structure SInv (H : Bytes → Bytes) (s : Store) (W : List Node) (R : List (Bytes × List (Bytes × Bytes))) : Prop where
  pfx : s.cfg.pfx = false
  mvcc : s.cfg.mvcc = false
  nopend : s.trees = []
  dbinv : DBInv H s.cfg s.db W
  cache : ∀ h n, s.cache[h]? = some n → Good H s.cfg s.db n ∧ n.info.hk = some h
  roots : ∀ p ∈ R, (p.1 = [] ∧ p.2 = []) ∨
    ∃ n, Good H s.cfg s.db n ∧ n.info.hk = some p.1 ∧ n.toList = p.2 ∧ p.1 ≠ zero32

theorem sinv_new (H : Bytes → Bytes) (cfg : Cfg) (hp : cfg.pfx = false) (hm : cfg.mvcc = false) :
    SInv H (Store.new cfg) [] [([], [])] where
  pfx := hp
  mvcc := hm
  nopend := rfl
  dbinv := fun k v h => by simp [Store.new] at h
  cache := fun h n e => by simp [Store.new] at e
  roots := fun p hp => by simp at hp; subst hp; exact Or.inl ⟨rfl, rfl⟩

/-- loading a known root: the tree, what it stands for, and the invariant is kept. -/
theorem loadRoot_sinv {H : Bytes → Bytes} (hlen : ∀ x, (H x).length = 32) (s : Store) (W : List Node)
    (R : List (Bytes × List (Bytes × Bytes))) (hi : SInv H s W R) (r : Bytes) (L : List (Bytes × Bytes))
    (hr : (r, L) ∈ R) :
    ∃ t s1, s.loadRoot r = (.ok t, s1) ∧ PreT H s.cfg s.db t ∧ Tree.toList t = L ∧ TInv t ∧
      SInv H s1 W R ∧ s1.db = s.db ∧ s1.cfg = s.cfg := by
  have hroot := hi.roots (r, L) hr
  unfold Store.loadRoot
  cases hc : s.cache[r]? with
  | some n =>
    obtain ⟨g, hk⟩ := hi.cache r n hc
    refine ⟨some n, s, rfl, good_pre g, ?_, ⟨g.1, g.2.1⟩, hi, rfl, rfl⟩
    have l32 := good_hk_len hlen g r hk
    rcases hroot with ⟨e, _⟩ | ⟨m, gm, hm, tm, _⟩
    · simp only at e; subst e; simp at l32
    · have e1 := good_load g r hk
      have e2 := good_load gm r hm
      rw [e1] at e2
      have : asLoaded s.cfg n = asLoaded s.cfg m := Res.ok.inj e2
      simp only [Tree.toList]
      rw [← asLoaded_toList s.cfg hi.mvcc n, this, asLoaded_toList s.cfg hi.mvcc m]; exact tm
  | none =>
    simp only
    rcases hroot with ⟨e, e'⟩ | ⟨m, gm, hm, tm, hz⟩
    · simp only at e e'; subst e; subst e'
      refine ⟨none, s, ?_, trivial, rfl, trivial, hi, rfl, rfl⟩
      simp [loadTree]
    · simp only at hm tm hz
      have l32 := good_hk_len hlen gm r hm
      have hne : ¬ (r.isEmpty ∨ r = List.replicate 32 0) := by
        intro h; rcases h with h | h
        · cases r <;> simp_all
        · exact hz h
      have el : loadTree s.db r = .ok (some (asLoaded s.cfg m)) := by
        unfold loadTree; rw [if_neg hne, good_load gm r hm]
      rw [el]
      have ga := asLoaded_good s.cfg hi.mvcc s.db m gm
      refine ⟨some (asLoaded s.cfg m), _, rfl, good_pre ga, ?_, ⟨ga.1, ga.2.1⟩, ?_, rfl, rfl⟩
      · simp only [Tree.toList]; rw [asLoaded_toList s.cfg hi.mvcc m]; exact tm
      · refine ⟨hi.pfx, hi.mvcc, hi.nopend, hi.dbinv, ?_, hi.roots⟩
        intro h n e
        simp only at e
        rw [Std.HashMap.getElem?_insert] at e
        by_cases hh : r = h
        · subst hh; simp at e; subst e; exact ⟨ga, by simpa using hm⟩
        · have : (r == h) = false := by simpa using hh
          simp [this] at e
          exact hi.cache h n e

theorem pureHash_ne_zero {H : Bytes → Bytes} (hz : ∀ x, H x ≠ zero32) (n : Node) : pureHash H n ≠ zero32 := by
  cases n <;> exact hz _

theorem subnodes_self (n : Node) : n ∈ subnodes n := by cases n <;> simp [subnodes]

/-- the nodes `Node.Hash` hashes when `Store.Set` is asked for this block (ghost: only used to locate collisions). -/
def ghostNodes (H : Bytes → Bytes) (s : Store) (parent : Bytes) (bh : Nat) (kvs : List (Bytes × Bytes)) : List Node :=
  match s.loadRoot parent with
  | (.ok t, s1) =>
    match Tree.setMany t kvs with
    | some (some n1) => subnodes (hashRoot H s1.cfg bh n1).1
    | _ => []
  | _ => []

/-- **one `Store.Set` on a known root keeps the invariant** and commits the root of the updated key/value list — or
two of the strings hashed so far collide. -/
theorem setKV_sinv {H : Bytes → Bytes} (hlen : ∀ x, (H x).length = 32) (hz : ∀ x, H x ≠ zero32) (s : Store)
    (W : List Node) (R : List (Bytes × List (Bytes × Bytes))) (hi : SInv H s W R) (r : Bytes)
    (L : List (Bytes × Bytes)) (hr : (r, L) ∈ R) (bh : Nat) (kvs : List (Bytes × Bytes))
    (hb : ∀ p ∈ kvs, p.1.length < 2 ^ 64 ∧ p.2.length < 2 ^ 64) (hsz : (SMap.insMany L kvs).length < 2 ^ 31) :
    (∃ root s', s.setKV H r bh kvs = (.ok root, s') ∧
      SInv H s' (W ++ ghostNodes H s r bh kvs) ((root, SMap.insMany L kvs) :: R)) ∨
    CollisionIn H (tracesOf H (W ++ ghostNodes H s r bh kvs)) := by
  obtain ⟨t, s1, el, pre, tl, ti, hi1, edb, ecfg⟩ := loadRoot_sinv hlen s W R hi r L hr
  obtain ⟨t', es, tl', ti'⟩ := Tree.setMany_spec t kvs ti
  have pre' := setMany_pre kvs hb t pre t' es
  unfold Store.setKV ghostNodes
  rw [el]
  simp only [es]
  obtain ⟨cfg1, db1, trees1, cache1⟩ := s1
  simp only at edb ecfg
  subst edb; subst ecfg
  rw [tl] at tl'
  cases t' with
  | none =>
    left
    simp only [saveTree]
    refine ⟨[], _, rfl, ?_⟩
    simp only [Store.cacheTree, List.append_nil]
    refine ⟨hi1.pfx, hi1.mvcc, hi1.nopend, hi1.dbinv, hi1.cache, ?_⟩
    intro p hp
    rcases List.mem_cons.mp hp with rfl | hp
    · exact Or.inl ⟨rfl, by simpa [Tree.toList] using tl'.symm⟩
    · exact hi1.roots p hp
  | some n1 =>
    simp only [Tree.toList] at tl'
    have hs1 : n1.size < 2 ^ 31 := by rw [size_eq_length n1 ti'.2, tl']; exact hsz
    rcases block_step hlen s.cfg hi.pfx s.db W hi.dbinv bh n1 pre' hs1 with
      ⟨n3, db', esave, er, hk3, g3, tl3, hsub, hdb', _⟩ | col
    · left
      simp only [saveTree]
      generalize hhr : hashRoot H s.cfg bh n1 = hr at esave er hdb'
      obtain ⟨n2, root⟩ := hr
      simp only at esave er hdb' ⊢
      rw [esave]
      refine ⟨root, _, rfl, ?_⟩
      simp only [Store.cacheTree, hi.mvcc, Bool.false_eq_true, if_false]
      refine ⟨hi1.pfx, hi1.mvcc, hi1.nopend, hdb', ?_, ?_⟩
      · intro h n e
        simp only at e
        rw [Std.HashMap.getElem?_insert] at e
        by_cases hh : root = h
        · subst hh; simp at e; subst e; exact ⟨g3, by rw [hk3, er]⟩
        · have : (root == h) = false := by simpa using hh
          simp [this] at e
          obtain ⟨g, k⟩ := hi1.cache h n e
          exact ⟨g.mono hsub, k⟩
      · intro p hp
        rcases List.mem_cons.mp hp with rfl | hp
        · right
          exact ⟨n3, g3, by rw [hk3, er], by rw [tl3, tl'], by rw [er]; exact pureHash_ne_zero hz n1⟩
        · rcases hi1.roots p hp with e | ⟨m, gm, a, b, c⟩
          · exact Or.inl e
          · exact Or.inr ⟨m, gm.mono hsub, a, b, c⟩
    · right
      apply col.mono
      intro x hx
      rcases List.mem_append.mp hx with h | h
      · exact List.mem_flatMap.mpr ⟨_, List.mem_append_right _ (subnodes_self _), h⟩
      · obtain ⟨w, hw, hxw⟩ := List.mem_flatMap.mp h
        exact List.mem_flatMap.mpr ⟨w, List.mem_append_left _ hw, hxw⟩

/-! ### linear histories of `Store.Set` and reads at every root -/

/-- block `i` is committed through `Store.Set` at height `h + i` on top of the previous root; result: final store,
the roots, and the (ghost) nodes hashed on the way. -/
def hist (H : Bytes → Bytes) : Store → Bytes → Nat → List (List (Bytes × Bytes)) → Store × List Bytes × List Node
  | s, _, _, [] => (s, [], [])
  | s, parent, h, b :: rest =>
    match s.setKV H parent h b with
    | (.ok root, s') =>
      let r := hist H s' root (h + 1) rest
      (r.1, root :: r.2.1, ghostNodes H s parent h b ++ r.2.2)
    | (_, s') => (s', [], ghostNodes H s parent h b)

theorem insMany_append (L : List (Bytes × Bytes)) (a b : List (Bytes × Bytes)) :
    SMap.insMany (SMap.insMany L a) b = SMap.insMany L (a ++ b) := by
  simp [SMap.insMany, List.foldl_append]

theorem tracesOf_mono {H : Bytes → Bytes} {A B : List Node} (h : ∀ x ∈ A, x ∈ B) :
    ∀ x ∈ tracesOf H A, x ∈ tracesOf H B := by
  intro x hx
  obtain ⟨w, hw, hxw⟩ := List.mem_flatMap.mp hx
  exact List.mem_flatMap.mpr ⟨w, h w hw, hxw⟩

theorem hist_sinv {H : Bytes → Bytes} (hlen : ∀ x, (H x).length = 32) (hz : ∀ x, H x ≠ zero32)
    (bs : List (List (Bytes × Bytes))) :
    ∀ (s : Store) (W : List Node) (R : List (Bytes × List (Bytes × Bytes))) (parent : Bytes)
      (L : List (Bytes × Bytes)) (h : Nat), SInv H s W R → (parent, L) ∈ R →
      (∀ b ∈ bs, ∀ p ∈ b, p.1.length < 2 ^ 64 ∧ p.2.length < 2 ^ 64) →
      (∀ i, i ≤ bs.length → (SMap.insMany L (bs.take i).flatten).length < 2 ^ 31) →
      ((hist H s parent h bs).2.1.length = bs.length ∧
        ∃ R', SInv H (hist H s parent h bs).1 (W ++ (hist H s parent h bs).2.2) R' ∧ (∀ p ∈ R, p ∈ R') ∧
          ∀ i root, (hist H s parent h bs).2.1[i]? = some root →
            (root, SMap.insMany L (bs.take (i + 1)).flatten) ∈ R') ∨
      CollisionIn H (tracesOf H (W ++ (hist H s parent h bs).2.2)) := by
  induction bs with
  | nil =>
    intro s W R parent L h hi hr _ _
    left
    simp only [hist, List.length_nil, List.append_nil, true_and]
    exact ⟨R, hi, fun p hp => hp, fun i root e => by simp at e⟩
  | cons b rest ih =>
    intro s W R parent L h hi hr hb hsz
    have hsz1 : (SMap.insMany L b).length < 2 ^ 31 := by simpa using hsz 1 (by simp)
    rcases setKV_sinv hlen hz s W R hi parent L hr h b (hb b (by simp)) hsz1 with ⟨root, s', e, hi'⟩ | col
    · simp only [hist, e]
      have hsz' : ∀ i, i ≤ rest.length → (SMap.insMany (SMap.insMany L b) (rest.take i).flatten).length < 2 ^ 31 := by
        intro i hle
        rw [insMany_append]
        simpa using hsz (i + 1) (by simpa using hle)
      rcases ih s' (W ++ ghostNodes H s parent h b) ((root, SMap.insMany L b) :: R) root (SMap.insMany L b) (h + 1) hi'
          (by simp) (fun b' hb' => hb b' (by simp [hb'])) hsz' with ⟨hlen', R', hi'', hsubR, hroots⟩ | col
      · left
        refine ⟨by simp [hlen'], R', by simpa [List.append_assoc] using hi'', fun p hp => hsubR p (by simp [hp]), ?_⟩
        intro i r ei
        cases i with
        | zero =>
          simp at ei; subst ei
          simpa using hsubR (root, SMap.insMany L b) (by simp)
        | succ j =>
          simp at ei
          have := hroots j r ei
          rw [insMany_append] at this
          simpa using this
      · right
        simpa [List.append_assoc] using col
    · right
      have hg : ∀ x ∈ W ++ ghostNodes H s parent h b, x ∈ W ++ (hist H s parent h (b :: rest)).2.2 := by
        intro x hx
        rcases List.mem_append.mp hx with hx | hx
        · exact List.mem_append_left _ hx
        · apply List.mem_append_right
          simp only [hist]
          split <;> simp [hx]
      exact col.mono (tracesOf_mono hg)

theorem sinv_reopen {H : Bytes → Bytes} {s : Store} {W : List Node} {R : List (Bytes × List (Bytes × Bytes))}
    (hi : SInv H s W R) : SInv H s.reopen W R :=
  ⟨hi.pfx, hi.mvcc, rfl, hi.dbinv, fun h n e => by simp [Store.reopen] at e, hi.roots⟩

theorem sinv_get {H : Bytes → Bytes} (hlen : ∀ x, (H x).length = 32) (s : Store) (W : List Node)
    (R : List (Bytes × List (Bytes × Bytes))) (hi : SInv H s W R) (r : Bytes) (L : List (Bytes × Bytes))
    (hr : (r, L) ∈ R) (ks : List Bytes) : (s.get r ks).1 = .ok (ks.map (fun k => SMap.lookup k L)) := by
  obtain ⟨t, s1, el, _, tl, ti, _, _, _⟩ := loadRoot_sinv hlen s W R hi r L hr
  unfold Store.get Store.treeAt
  simp only [hi.nopend, lookupTree, List.find?_nil, el]
  simp only [Res.ok.injEq]
  apply List.map_congr_left
  intro k _
  rw [Tree.get_eq_lookup t k ti, tl]

theorem ins_ne_nil (k v : Bytes) (m : SMap) : SMap.ins k v m ≠ [] := by
  cases m with
  | nil => simp [SMap.ins]
  | cons a rest =>
    obtain ⟨ak, av⟩ := a
    simp only [SMap.ins]
    split <;> simp

theorem insMany_ne_nil (kvs : List (Bytes × Bytes)) : ∀ m : SMap, (m ≠ [] ∨ kvs ≠ []) → SMap.insMany m kvs ≠ [] := by
  induction kvs with
  | nil => intro m h; rcases h with h | h; exact h; exact absurd rfl h
  | cons a rest ih =>
    intro m _
    simp only [SMap.insMany, List.foldl_cons]
    exact ih _ (Or.inl (ins_ne_nil _ _ _))

end C01
