import Chain33Model.Proofs.C01Order
/-! Invariants of the MAVL tree and their preservation by `balance` / `set`. -/
namespace C01
open Node

/-- search-tree ordering: every key of the left subtree `<` the inner key `≤` every key of the right subtree. -/
def ST : Node → Prop
  | .leaf .. => True
  | .inner k _ _ l r _ => ST l ∧ ST r ∧ (∀ x ∈ l.toList, lt x.1 k) ∧ (∀ x ∈ r.toList, le k x.1)

/-- stored height/size are the recomputed ones and the AVL balance condition holds everywhere. -/
def WF : Node → Prop
  | .leaf .. => True
  | .inner _ h s l r _ =>
    WF l ∧ WF r ∧ h = max l.height r.height + 1 ∧ s = l.size + r.size ∧
    l.height ≤ r.height + 1 ∧ r.height ≤ l.height + 1

@[simp] theorem toList_mk (k : Bytes) (l r : Node) : (mk k l r).toList = l.toList ++ r.toList := rfl
@[simp] theorem height_mk (k : Bytes) (l r : Node) : (mk k l r).height = max l.height r.height + 1 := rfl
@[simp] theorem size_mk (k : Bytes) (l r : Node) : (mk k l r).size = l.size + r.size := rfl
@[simp] theorem height_leaf (k v : Bytes) (m : Meta) : (Node.leaf k v m).height = 0 := rfl
@[simp] theorem size_leaf (k v : Bytes) (m : Meta) : (Node.leaf k v m).size = 1 := rfl
@[simp] theorem height_inner (k : Bytes) (h s : Nat) (l r : Node) (m : Meta) : (Node.inner k h s l r m).height = h := rfl
@[simp] theorem size_inner (k : Bytes) (h s : Nat) (l r : Node) (m : Meta) : (Node.inner k h s l r m).size = s := rfl
@[simp] theorem toList_inner (k : Bytes) (h s : Nat) (l r : Node) (m : Meta) :
    (Node.inner k h s l r m).toList = l.toList ++ r.toList := rfl
@[simp] theorem toList_leaf' (k v : Bytes) (m : Meta) : (Node.leaf k v m).toList = [(k, v)] := rfl

theorem toList_ne_nil (n : Node) : n.toList ≠ [] := by
  induction n with
  | leaf k v m => simp
  | inner k h s l r m ihl ihr => simp [ihl]

theorem ST_mk {k : Bytes} {l r : Node} :
    ST (mk k l r) ↔ ST l ∧ ST r ∧ (∀ x ∈ l.toList, lt x.1 k) ∧ (∀ x ∈ r.toList, le k x.1) := Iff.rfl

/-- a node of positive stored height is an inner node. -/
theorem inner_of_height_pos {n : Node} (h : 0 < n.height) :
    ∃ k ht s l r m, n = .inner k ht s l r m := by
  cases n with
  | leaf k v m => simp at h
  | inner k ht s l r m => exact ⟨k, ht, s, l, r, m, rfl⟩

/-! ### `balance` -/

/-- `balance` never panics on an inner node (whatever the stored heights are). -/
theorem balance_inner_isSome (k : Bytes) (h s : Nat) (l r : Node) (m : Meta) :
    ∃ n', balance (.inner k h s l r m) = some n' := by
  unfold balance
  simp only
  split
  · -- left heavy
    rename_i hb
    have hl : 0 < l.height := by omega
    obtain ⟨lk, lh, ls, ll, lr, lm, rfl⟩ := inner_of_height_pos hl
    simp only [calcBalance]
    split
    · exact ⟨_, rfl⟩
    · rename_i hlb
      have hlr : 0 < lr.height := by omega
      obtain ⟨k2, h2, s2, l2, r2, m2, rfl⟩ := inner_of_height_pos hlr
      exact ⟨_, rfl⟩
  · split
    · rename_i hb1 hb
      have hr : 0 < r.height := by omega
      obtain ⟨rk, rh, rs, rl, rr, rm, rfl⟩ := inner_of_height_pos hr
      simp only [calcBalance]
      split
      · exact ⟨_, rfl⟩
      · rename_i hrb
        have hrl : 0 < rl.height := by omega
        obtain ⟨k2, h2, s2, l2, r2, m2, rfl⟩ := inner_of_height_pos hrl
        exact ⟨_, rfl⟩
    · exact ⟨_, rfl⟩


/-- arithmetic on stored heights / sizes. -/
macro "arith" : tactic =>
  `(tactic| first
    | omega
    | (simp only [height_mk, height_inner, height_leaf, size_mk, size_inner, size_leaf] at *; omega)
    | (simp at *; omega))

/-- the five possible outcomes of `balance` on an inner node, explicitly. -/
inductive BalCase (k : Bytes) (h s : Nat) (l r : Node) (m : Meta) : Node → Prop
  | none : l.height ≤ r.height + 1 → r.height ≤ l.height + 1 → BalCase k h s l r m (.inner k h s l r m)
  | ll (lk lh ls ll lr lm) : l = .inner lk lh ls ll lr lm → l.height > r.height + 1 → lr.height ≤ ll.height →
      BalCase k h s l r m (mk lk ll (mk k lr r))
  | lr (lk lh ls ll lm lrk lrh lrs lrl lrr lrm) :
      l = .inner lk lh ls ll (.inner lrk lrh lrs lrl lrr lrm) lm → l.height > r.height + 1 → ll.height < lrh →
      BalCase k h s l r m (mk lrk (mk lk ll lrl) (mk k lrr r))
  | rr (rk rh rs rl rr rm) : r = .inner rk rh rs rl rr rm → r.height > l.height + 1 → rl.height ≤ rr.height →
      BalCase k h s l r m (mk rk (mk k l rl) rr)
  | rl (rk rh rs rr rm rlk rlh rls rll rlr rlm) :
      r = .inner rk rh rs (.inner rlk rlh rls rll rlr rlm) rr rm → r.height > l.height + 1 → rr.height < rlh →
      BalCase k h s l r m (mk rlk (mk k l rll) (mk rk rlr rr))

theorem balance_cases (k : Bytes) (h s : Nat) (l r : Node) (m : Meta) :
    ∃ n', balance (.inner k h s l r m) = some n' ∧ BalCase k h s l r m n' := by
  unfold balance
  simp only
  split
  · rename_i hb
    have hl : 0 < l.height := by omega
    obtain ⟨lk, lh, ls, ll, lr, lm, rfl⟩ := inner_of_height_pos hl
    simp only [calcBalance]
    split
    · rename_i hlb
      exact ⟨_, rfl, .ll lk lh ls ll lr lm rfl (by arith) (by omega)⟩
    · rename_i hlb
      have hlr : 0 < lr.height := by omega
      obtain ⟨k2, h2, s2, l2, r2, m2, rfl⟩ := inner_of_height_pos hlr
      exact ⟨_, rfl, .lr lk lh ls ll lm k2 h2 s2 l2 r2 m2 rfl (by arith) (by arith)⟩
  · split
    · rename_i hb1 hb
      have hr : 0 < r.height := by omega
      obtain ⟨rk, rh, rs, rl, rr, rm, rfl⟩ := inner_of_height_pos hr
      simp only [calcBalance]
      split
      · rename_i hrb
        exact ⟨_, rfl, .rr rk rh rs rl rr rm rfl (by arith) (by omega)⟩
      · rename_i hrb
        have hrl : 0 < rl.height := by omega
        obtain ⟨k2, h2, s2, l2, r2, m2, rfl⟩ := inner_of_height_pos hrl
        exact ⟨_, rfl, .rl rk rh rs rr rm k2 h2 s2 l2 r2 m2 rfl (by arith) (by arith)⟩
    · rename_i hb1 hb2
      exact ⟨_, rfl, .none (by omega) (by omega)⟩

theorem BalCase.toList_eq {k h s l r m n'} (hc : BalCase k h s l r m n') :
    n'.toList = l.toList ++ r.toList := by
  cases hc <;> simp_all

theorem BalCase.size_eq {k h s l r m n'} (hc : BalCase k h s l r m n') (hs : s = l.size + r.size)
    (hl : WF l) (hr : WF r) : n'.size = l.size + r.size := by
  cases hc with
  | none => simp [hs]
  | ll lk lh ls ll lr lm e _ _ => subst e; simp [WF] at hl ⊢; omega
  | lr lk lh ls ll lm lrk lrh lrs lrl lrr lrm e _ _ => subst e; simp [WF] at hl ⊢; omega
  | rr rk rh rs rl rr rm e _ _ => subst e; simp [WF] at hr ⊢; omega
  | rl rk rh rs rr rm rlk rlh rls rll rlr rlm e _ _ => subst e; simp [WF] at hr ⊢; omega

theorem BalCase.st_pres {k h s l r m n'} (hc : BalCase k h s l r m n') (hst : C01.ST (.inner k h s l r m)) : C01.ST n' := by
  cases hc with
  | none => exact hst
  | ll lk lh ls ll lr lm e _ _ =>
    subst e
    simp only [C01.ST, toList_inner, List.mem_append] at hst
    obtain ⟨⟨hll, hlr, h1, h2⟩, hr, h3, h4⟩ := hst
    obtain ⟨y, hy⟩ := List.exists_mem_of_ne_nil _ (toList_ne_nil lr)
    have hlk : lt lk k := lt_of_le_of_lt (h2 y hy) (h3 y (Or.inr hy))
    refine ⟨hll, ⟨hlr, hr, fun x hx => h3 x (Or.inr hx), h4⟩, h1, ?_⟩
    intro x hx
    simp only [toList_mk, List.mem_append] at hx
    rcases hx with hx | hx
    · exact h2 x hx
    · exact le_iff.mpr (Or.inl (lt_of_lt_of_le hlk (h4 x hx)))
  | lr lk lh ls ll lm lrk lrh lrs lrl lrr lrm e _ _ =>
    subst e
    simp only [C01.ST, toList_inner, List.mem_append] at hst
    obtain ⟨⟨hll, ⟨hlrl, hlrr, g1, g2⟩, h1, h2⟩, hr, h3, h4⟩ := hst
    obtain ⟨y, hy⟩ := List.exists_mem_of_ne_nil _ (toList_ne_nil lrr)
    obtain ⟨z, hz⟩ := List.exists_mem_of_ne_nil _ (toList_ne_nil lrl)
    have hlrk_k : lt lrk k := lt_of_le_of_lt (g2 y hy) (h3 y (Or.inr (Or.inr hy)))
    have hlk_lrk : lt lk lrk := lt_of_le_of_lt (h2 z (Or.inl hz)) (g1 z hz)
    refine ⟨⟨hll, hlrl, h1, fun x hx => h2 x (Or.inl hx)⟩, ⟨hlrr, hr, fun x hx => h3 x (Or.inr (Or.inr hx)), h4⟩, ?_, ?_⟩
    · intro x hx
      simp only [toList_mk, List.mem_append] at hx
      rcases hx with hx | hx
      · exact cmpB_lt_trans (h1 x hx) hlk_lrk
      · exact g1 x hx
    · intro x hx
      simp only [toList_mk, List.mem_append] at hx
      rcases hx with hx | hx
      · exact g2 x hx
      · exact le_iff.mpr (Or.inl (lt_of_lt_of_le hlrk_k (h4 x hx)))
  | rr rk rh rs rl rr rm e _ _ =>
    subst e
    simp only [C01.ST, toList_inner, List.mem_append] at hst
    obtain ⟨hl, ⟨hrl, hrr, h1, h2⟩, h3, h4⟩ := hst
    obtain ⟨y, hy⟩ := List.exists_mem_of_ne_nil _ (toList_ne_nil rl)
    have hk_rk : lt k rk := lt_of_le_of_lt (h4 y (Or.inl hy)) (h1 y hy)
    refine ⟨⟨hl, hrl, h3, fun x hx => h4 x (Or.inl hx)⟩, hrr, ?_, h2⟩
    intro x hx
    simp only [toList_mk, List.mem_append] at hx
    rcases hx with hx | hx
    · exact cmpB_lt_trans (h3 x hx) hk_rk
    · exact h1 x hx
  | rl rk rh rs rr rm rlk rlh rls rll rlr rlm e _ _ =>
    subst e
    simp only [C01.ST, toList_inner, List.mem_append] at hst
    obtain ⟨hl, ⟨⟨hrll, hrlr, g1, g2⟩, hrr, h1, h2⟩, h3, h4⟩ := hst
    obtain ⟨y, hy⟩ := List.exists_mem_of_ne_nil _ (toList_ne_nil rll)
    obtain ⟨z, hz⟩ := List.exists_mem_of_ne_nil _ (toList_ne_nil rlr)
    have hk_rlk : lt k rlk := lt_of_le_of_lt (h4 y (Or.inl (Or.inl hy))) (g1 y hy)
    have hrlk_rk : lt rlk rk := lt_of_le_of_lt (g2 z hz) (h1 z (Or.inr hz))
    refine ⟨⟨hl, hrll, h3, fun x hx => h4 x (Or.inl (Or.inl hx))⟩, ⟨hrlr, hrr, fun x hx => h1 x (Or.inr hx), h2⟩, ?_, ?_⟩
    · intro x hx
      simp only [toList_mk, List.mem_append] at hx
      rcases hx with hx | hx
      · exact cmpB_lt_trans (h3 x hx) hk_rlk
      · exact g1 x hx
    · intro x hx
      simp only [toList_mk, List.mem_append] at hx
      rcases hx with hx | hx
      · exact g2 x hx
      · exact le_iff.mpr (Or.inl (lt_of_lt_of_le hrlk_rk (h2 x hx)))

/-- AVL part: children well formed and at most 2 apart ⇒ the balanced node is well formed, of height
`max + 1` or `max` (the latter only after a rotation). -/
theorem BalCase.wf_pres {k l r m n'} (hc : BalCase k (max l.height r.height + 1) (l.size + r.size) l r m n')
    (hl : WF l) (hr : WF r) (h2l : l.height ≤ r.height + 2) (h2r : r.height ≤ l.height + 2) :
    WF n' ∧ n'.height ≤ max l.height r.height + 1 ∧ max l.height r.height ≤ n'.height ∧
    (l.height ≤ r.height + 1 → r.height ≤ l.height + 1 → n'.height = max l.height r.height + 1) := by
  cases hc with
  | none h1 h2 => exact ⟨⟨hl, hr, rfl, rfl, h1, h2⟩, by arith, by arith, fun _ _ => rfl⟩
  | ll lk lh ls ll lr lm e h1 h3 =>
    subst e
    simp only [C01.WF, height_inner] at hl h1 h2l ⊢
    obtain ⟨hll, hlr, e1, e2, b1, b2⟩ := hl
    refine ⟨⟨hll, ⟨hlr, hr, rfl, rfl, by arith, by arith⟩, rfl, rfl, by arith, by arith⟩, by arith, by arith, by omega⟩
  | lr lk lh ls ll lm lrk lrh lrs lrl lrr lrm e h1 h3 =>
    subst e
    simp only [C01.WF, height_inner] at hl h1 h2l h3 ⊢
    obtain ⟨hll, ⟨hlrl, hlrr, f1, f2, c1, c2⟩, e1, e2, b1, b2⟩ := hl
    refine ⟨⟨⟨hll, hlrl, rfl, rfl, by arith, by arith⟩, ⟨hlrr, hr, rfl, rfl, by arith, by arith⟩, rfl, rfl, by arith, by arith⟩, by arith, by arith, by omega⟩
  | rr rk rh rs rl rr rm e h1 h3 =>
    subst e
    simp only [C01.WF, height_inner] at hr h1 h2r ⊢
    obtain ⟨hrl, hrr, e1, e2, b1, b2⟩ := hr
    refine ⟨⟨⟨hl, hrl, rfl, rfl, by arith, by arith⟩, hrr, rfl, rfl, by arith, by arith⟩, by arith, by arith, by omega⟩
  | rl rk rh rs rr rm rlk rlh rls rll rlr rlm e h1 h3 =>
    subst e
    simp only [C01.WF, height_inner] at hr h1 h2r h3 ⊢
    obtain ⟨⟨hrll, hrlr, f1, f2, c1, c2⟩, hrr, e1, e2, b1, b2⟩ := hr
    refine ⟨⟨⟨hl, hrll, rfl, rfl, by arith, by arith⟩, ⟨hrlr, hrr, rfl, rfl, by arith, by arith⟩, rfl, rfl, by arith, by arith⟩, by arith, by arith, by omega⟩

end C01
